/-
Line-protocol driver for the C11 models.

  reset <window> <spf>                                   new shard (window = timeWindow, spf = slots per family)
  schema <fld>:<ftype> ...                               registers the metric's fields in field-id order
  series <id> <k>:<v> ...                                declares a series and its tags (numeric ids)
  w <tick> <fam> <ser> <fld> <ftype> <slot> <value>      one field value of one row
  flush <fam>                                            dataFamily.Flush
  flushbegin <fam> / flushend <fam>                      the two ends of a flush in progress (memory database
                                                         switched to immutable ... file committed, immutable dropped)
  compact <fam>                                          kv compaction of the family's files (if > 1 level-0 file)
  reopen                                                 engine close + reopen
  q <qs> <qe> <ratio> | <cond> | <groupby keys> | <fld>:<func> ...
                                                         leaf query (model of the implementation)
  ref <qs> <qe> <ratio> | <cond> | <groupby keys> | <fld>:<func> ...
                                                         the naive reference for the same query
  page <fam> <ser> <fld>                                 the write buffer page (debug/correspondence)
  msel <lens,...> <qs> <qe> | <family days ...>          month-type family selection
  fcall <func> <intervalSec> <value>                     a function call of the expression layer on one value
  x <points> <intervalSec> | <expr> | <fld>:<ftype>:<agg>:<t>=<v>,... ...
                                                         a select item evaluated on the field store of one group
                                                         (one token per array; `<fld>:<ftype>:-` a field without arrays)
  blk <fields of the metric> | <series id>:<len>,<len>,... ; ...
                                                         one metric block flushed by metricsdata.flusher and read
                                                         back by the reader: buckets, entries, series not read back
expr (prefix): f <fld> | c <func> <expr> | n <int> | p <expr> | b <op 0..3 = + - * /> <expr> <expr>
cond (prefix): all | eq k v | in k v,v | and c c | or c c
-/
import LinVerif.Util.Proto
import LinVerif.Model.MemDB
import LinVerif.Model.QueryExpr
import LinVerif.Model.BlockLayout
import LinVerif.Model.C11Iter
import LinVerif.Generated.C11

namespace LinVerif.Driver.C11
open LinVerif LinVerif.NaiveQuery LinVerif.MemDB LinVerif.QueryExpr

/-- the code variant the regenerated facts describe. -/
def cfgOfFacts : Cfg :=
  ⟨Generated.C11.fixEndGuard, Generated.C11.fixMergeOldFirst, Generated.C11.fixUniqueCreated,
   Generated.C11.fixNotFoundIgnored, Generated.C11.fixSingleFieldByIndex, Generated.C11.fixAggregateByType,
   Generated.C11.fixMonthFamilyTime⟩

structure St where
  win : Option Window
  shard : Shard
  spf : Nat
  series : List (Nat × Tags)
  points : List Point

def St.init : St := ⟨none, Shard.initV cfgOfFacts 15, 360, [], []⟩

def splitBar (ws : List String) : List (List String) :=
  ws.foldr (fun w acc => if w = "|" then [] :: acc else
    match acc with
    | [] => [[w]]
    | h :: t => (w :: h) :: t) [[]]

def parsePair (w : String) : Option (Nat × Nat) :=
  match w.splitOn ":" with
  | [a, b] => do
    let x ← a.toNat?
    let y ← b.toNat?
    some (x, y)
  | _ => none

def natCsv? (w : String) : Option (List Nat) :=
  if w = "" then some [] else (w.splitOn ",").mapM String.toNat?

/-- prefix condition parser with fuel. -/
def parseCond : Nat → List String → Option (Cond × List String)
  | 0, _ => none
  | _ + 1, "all" :: rest => some (.all, rest)
  | _ + 1, "eq" :: k :: v :: rest => do
    let k ← k.toNat?
    let v ← v.toNat?
    some (.eq k v, rest)
  | _ + 1, "in" :: k :: vs :: rest => do
    let k ← k.toNat?
    let vs ← natCsv? vs
    some (.isIn k vs, rest)
  | n + 1, "and" :: rest => do
    let (a, r1) ← parseCond n rest
    let (b, r2) ← parseCond n r1
    some (.and a b, r2)
  | n + 1, "or" :: rest => do
    let (a, r1) ← parseCond n rest
    let (b, r2) ← parseCond n r1
    some (.or a b, r2)
  | _ + 1, _ => none

def sortNat (l : List Nat) : List Nat := (l.toArray.qsort (· < ·)).toList

def lexLt : List Nat → List Nat → Bool
  | [], [] => false
  | [], _ :: _ => true
  | _ :: _, [] => false
  | a :: as, b :: bs => if a < b then true else if a > b then false else lexLt as bs

def showBuckets (l : List (Nat × Int)) : String :=
  ",".intercalate (l.map (fun (p : Nat × Int) => s!"{p.1}:{p.2}"))

def showKey (k : List Nat) : String := "[" ++ ",".intercalate (k.map toString) ++ "]"

/-- one query item: field key and function. -/
abbrev Item := Nat × FuncType

def parseItem (w : String) : Option Item :=
  match parsePair w with
  | some (f, c) => (FuncType.ofCode? c).map (fun fn => (f, fn))
  | none => none

structure QArgs where
  qs : Nat
  qe : Nat
  ratio : Nat
  cond : Cond
  by_ : List Nat
  items : List Item

def parseQ (rest : List String) : Option QArgs :=
  match splitBar rest with
  | [[a, b, c], cnd, by_, items] => do
    let qs ← a.toNat?
    let qe ← b.toNat?
    let ratio ← c.toNat?
    let (cond, left) ← parseCond 32 cnd
    if !left.isEmpty then none
    let by_ ← by_.mapM String.toNat?
    let items ← items.mapM parseItem
    if ratio = 0 ∨ qe < qs ∨ items.isEmpty then none
    some ⟨qs, qe, ratio, cond, by_, items⟩
  | _ => none

/-- prefix expression parser with fuel. -/
def parseExpr : Nat → List String → Option (Expr × List String)
  | 0, _ => none
  | _ + 1, "f" :: fld :: rest => do
    let fld ← fld.toNat?
    some (.field fld, rest)
  | _ + 1, "n" :: v :: rest => do
    let v ← v.toInt?
    some (.num v, rest)
  | n + 1, "c" :: fn :: rest => do
    let fn ← fn.toNat?
    let fn ← FuncType.ofCode? fn
    let (e, r) ← parseExpr n rest
    some (.call fn e, r)
  | n + 1, "p" :: rest => do
    let (e, r) ← parseExpr n rest
    some (.paren e, r)
  | n + 1, "b" :: op :: rest => do
    let op ← match op with
      | "0" => some BinOp.add | "1" => some BinOp.sub | "2" => some BinOp.mul | "3" => some BinOp.div
      | _ => none
    let (l, r1) ← parseExpr n rest
    let (r, r2) ← parseExpr n r1
    some (.bin op l r, r2)
  | _ + 1, _ => none

def parseCellEq (w : String) : Option (Nat × Int) :=
  match w.splitOn "=" with
  | [a, b] => do
    let t ← a.toNat?
    let v ← b.toInt?
    some (t, v)
  | _ => none

/-- one store token: adds the field and (unless `-`) one array to the store. -/
def addStoreToken (st : Store) (w : String) : Option Store :=
  match w.splitOn ":" with
  | [fld, ft, "-"] => do
    let fld ← fld.toNat?
    let ft ← ft.toNat?
    let ft ← FieldType.ofCode? ft
    match Map.lookup st fld with
    | some _ => some st
    | none => some (st ++ [(fld, ⟨ft, []⟩)])
  | [fld, ft, agg, cells] => do
    let fld ← fld.toNat?
    let ft ← ft.toNat?
    let ft ← FieldType.ofCode? ft
    let agg ← agg.toNat?
    let agg ← AggType.ofCode? agg
    let cells ← if cells = "" then some [] else (cells.splitOn ",").mapM parseCellEq
    match Map.lookup st fld with
    | some fv => some (Map.upsert st fld ⟨fv.ftype, fv.arrs ++ [(agg, cells)]⟩)
    | none => some (st ++ [(fld, ⟨ft, [(agg, cells)]⟩)])
  | _ => none

def showRat (r : Rat) : String := s!"{r.num}/{r.den}"

def showEVal (n : Nat) : EVal → String
  | .empty => "empty"
  | .nilArr => "nilarr"
  | .crash => "crash"
  | .arr a =>
    let cells := (List.range n).filterMap (fun i => (a.get i).map (fun v => s!"{i}={showRat v}"))
    if cells.isEmpty then "arr" else "arr " ++ " ".intercalate cells

def runExpr (rest : List String) : Option String :=
  match splitBar rest with
  | [[n, sec], ex, store] => do
    let n ← n.toNat?
    let sec ← sec.toNat?
    let (e, left) ← parseExpr 64 ex
    if !left.isEmpty then none
    let st ← store.foldlM addStoreToken ([] : Store)
    some (showEVal n (evalItem Generated.C11.fixRateNilGuard n sec st e))
  | _ => none

def fieldTypeOf (st : St) (fld : Nat) : Option FieldType := Map.lookup st.shard.fieldTypes fld

/-- canonical rendering: groups by key, fields ascending, agg types ascending; empty arrays and
empty groups are dropped. -/
def render (rows : List (List Nat × List String)) : String :=
  let rows := rows.filter (fun r => !r.2.isEmpty)
  let rows := (rows.toArray.qsort (fun a b => lexLt a.1 b.1)).toList
  " ; ".intercalate (rows.map (fun r => showKey r.1 ++ " " ++ " ".intercalate r.2))

/-- the model of the implementation's leaf answer. -/
def runQuery (st : St) (a : QArgs) : Option String := do
  let fields := sortNat (a.items.map Prod.fst).eraseDups
  -- a selected field that is not in the schema: "field not found" (an empty answer);
  -- a function the field type does not support: an error (planField)
  if a.items.any (fun it => (fieldTypeOf st it.1).isNone) then return ""
  for it in a.items do
    let ft ← fieldTypeOf st it.1
    if !ft.isFuncSupported it.2 then none
  let groups := groupsOf st.series a.cond a.by_
  let scope : Scope := ⟨fields, groups.flatMap (fun g => g.2)⟩
  let rows ← groups.mapM (fun g => do
    let cols ← fields.mapM (fun fld => do
      let ft ← fieldTypeOf st fld
      let L := aggTypesOf ft ((a.items.filter (fun it => it.1 = fld)).map Prod.snd)
      let q : Query := ⟨fld, ft.aggType, .sum, st.spf, a.qs, a.qe, a.ratio⟩
      let arr := match st.win with
        | some W => leafGroupW st.shard q scope L W (queryFamilies st.shard q) g.2
        | none => leafGroup st.shard q scope L (queryFamilies st.shard q) g.2
      some (L.filterMap (fun A =>
        let bs := bucketsOf q arr A
        if bs.isEmpty then none else some s!"f{fld}/a{A.code}={showBuckets bs}")))
    some (g.1, cols.flatten))
  some (render rows)

/-- the naive reference for the same query (one array per item's agg type). -/
def runRef (st : St) (a : QArgs) : Option String := do
  let fields := sortNat (a.items.map Prod.fst).eraseDups
  if a.items.any (fun it => (fieldTypeOf st it.1).isNone) then return ""
  for it in a.items do
    let ft ← fieldTypeOf st it.1
    if !ft.isFuncSupported it.2 then none
  let groups := groupsOf st.series a.cond a.by_
  let fams := sortNat ((st.points.map (fun p => p.family)).eraseDups)
  let rows ← groups.mapM (fun g => do
    let cols ← fields.mapM (fun fld => do
      let ft ← fieldTypeOf st fld
      let L := aggTypesOf ft ((a.items.filter (fun it => it.1 = fld)).map Prod.snd)
      some (L.filterMap (fun A =>
        let q : Query := ⟨fld, ft.aggType, A, st.spf, a.qs, a.qe, a.ratio⟩
        let bs := naiveGroup q st.points g.2 fams
        if bs.isEmpty then none else some s!"f{fld}/a{A.code}={showBuckets bs}")))
    some (g.1, cols.flatten))
  some (render rows)

def showCells (cs : Cells) : String :=
  ",".intercalate (cs.map (fun c => match c with | some v => toString v | none => "_"))

def showPage (b : Buf) : String :=
  let c := match b.compress with
    | some c => s!"{c.start}[{showCells c.cells}]"
    | none => "-"
  s!"has={b.hasData} start={b.start} end={b.endd} cells={showCells b.cells} compress={c}"

/-- the variant of the metric block writer the regenerated facts describe. -/
def blockCfgOfFacts : BlockLayout.Cfg := ⟨Generated.C11.rebaseLevel4AfterBucketFooter⟩

/-- `<sid>:<len>,<len>,...` -/
def parseBlkSeries (w : String) : Option (Nat × List Nat) :=
  match w.splitOn ":" with
  | [a, b] => do
    let sid ← a.toNat?
    let lens ← natCsv? b
    some (sid, lens)
  | _ => none

def ascending : List Nat → Bool
  | a :: b :: rest => a < b && ascending (b :: rest)
  | _ => true

/-- op `blk`. -/
def runBlk (nf : Nat) (series : List (Nat × List Nat)) : String :=
  let b := BlockLayout.flushBlock blockCfgOfFacts BlockLayout.Enc.simple nf series
  let lost := BlockLayout.lostSeries blockCfgOfFacts BlockLayout.Enc.simple nf series
  s!"buckets={(BlockLayout.highKeys b.w.ids).length} offsets={b.w.highOffs.length} entries={b.w.ids.length} lost={if lost.isEmpty then "-" else Proto.joinNat lost}"

def step (st : St) (ws : List String) : St × String :=
  match ws with
  | "blk" :: nf :: "|" :: rest =>
    match nf.toNat?, (rest.filter (· ≠ ";")).mapM parseBlkSeries with
    | some nf, some series =>
      if nf = 0 ∨ !ascending (series.map Prod.fst) ∨ series.any (fun s => s.2.length ≠ nf) then (st, "bad-op")
      else (st, runBlk nf series)
    | _, _ => (st, "bad-op")
  | ["reset", w, spf] =>
    match w.toNat?, spf.toNat? with
    | some w, some spf => if w = 0 ∨ spf = 0 then (st, "bad-op") else (⟨none, Shard.initV cfgOfFacts w, spf, [], []⟩, "ok")
    | _, _ => (st, "bad-op")
  | "schema" :: fields =>
    match fields.mapM parsePair with
    | some fs =>
      match fs.mapM (fun (p : Nat × Nat) => (FieldType.ofCode? p.2).map (fun ft => (p.1, ft))) with
      | some fts =>
        if !st.shard.fieldTypes.isEmpty ∨ (fts.map Prod.fst).eraseDups.length ≠ fts.length then (st, "bad-op")
        else ({ st with shard := { st.shard with fieldTypes := fts } }, "ok")
      | none => (st, "bad-op")
    | none => (st, "bad-op")
  | "series" :: id :: tags =>
    match id.toNat?, tags.mapM parsePair with
    | some i, some ts =>
      if (st.series.any (fun s => s.1 = i)) then (st, "bad-op")
      else ({ st with series := st.series ++ [(i, ts)] }, "ok")
    | _, _ => (st, "bad-op")
  | ["w", tick, fam, ser, fld, ft, slot, v] =>
    match tick.toNat?, fam.toNat?, ser.toNat?, fld.toNat?, ft.toNat?, slot.toNat?, v.toInt? with
    | some tick, some fam, some ser, some fld, some ftc, some slot, some v =>
      match FieldType.ofCode? ftc with
      | some ft =>
        if slot ≥ st.spf ∨ !(st.series.any (fun s => s.1 = ser)) then (st, "bad-op")
        else
          ({ st with shard := st.shard.write tick fam ser fld ft slot v,
                     points := st.points ++ [⟨fam, ser, fld, slot, v⟩] }, "ok")
      | none => (st, "bad-op")
    | _, _, _, _, _, _, _ => (st, "bad-op")
  | ["flush", fam] =>
    match fam.toNat? with
    | some fam => ({ st with shard := st.shard.flush fam }, "ok")
    | none => (st, "bad-op")
  | ["flushbegin", fam] =>
    -- the memory database becomes immutable; the shard is advanced to the state after the commit
    match fam.toNat?, st.win with
    | some fam, none =>
      match (st.shard.family fam).mutable_ with
      | some md =>
        let rng := Map.lookup st.shard.ranges md.created
        ({ st with shard := st.shard.flush fam, win := if rng.isSome then some ⟨fam, md, rng⟩ else none }, "ok")
      | none => (st, "ok")
    | _, _ => (st, "bad-op")
  | ["flushend", fam] =>
    match fam.toNat? with
    | some fam =>
      match st.win with
      | some W => if W.fam = fam then ({ st with win := none }, "ok") else (st, "bad-op")
      | none => (st, "ok")
    | none => (st, "bad-op")
  | ["compact", fam] =>
    match fam.toNat? with
    | some fam => ({ st with shard := st.shard.compact fam }, "ok")
    | none => (st, "bad-op")
  | ["reopen"] => ({ st with shard := st.shard.reopen }, "ok")
  | "q" :: rest =>
    match parseQ rest with
    | some a => match runQuery st a with
      | some out => (st, "rs " ++ out)
      | none => (st, "rs-error")
    | none => (st, "bad-op")
  | "ref" :: rest =>
    match parseQ rest with
    | some a => match runRef st a with
      | some out => (st, "rs " ++ out)
      | none => (st, "rs-error")
    | none => (st, "bad-op")
  | ["page", fam, ser, fld] =>
    match fam.toNat?, ser.toNat?, fld.toNat? with
    | some fam, some ser, some fld =>
      match (st.shard.family fam).mutable_ with
      | some md => match Map.lookup md.pages (ser, fld) with
        | some b => (st, showPage b)
        | none => (st, "no-page")
      | none => (st, "no-memdb")
    | _, _, _ => (st, "bad-op")
  | "x" :: rest =>
    match runExpr rest with
    | some out => (st, out)
    | none => (st, "bad-op")
  | ["iter", q, "|", storage] =>
    -- DataLoadContext.Grouping on the query container, then IterateLowSeriesIDs over the storage
    -- container ("-" = empty): the callback's (query index, storage position) pairs in call order
    match natCsv? q, natCsv? (if storage = "-" then "" else storage) with
    | some q, some stg =>
      if q.isEmpty ∨ !ascending q ∨ !ascending stg ∨ q.any (· ≥ 65536) ∨ stg.any (· ≥ 65536) then (st, "bad-op")
      else
        let ps := LinVerif.Model.C11Iter.iterate (LinVerif.Model.C11Iter.grouping q) stg
        (st, if ps.isEmpty then "pairs" else "pairs " ++ LinVerif.Model.C11Iter.showPairs ps)
    | _, _ => (st, "bad-op")
  | ["fcall", fn, sec, v] =>
    match fn.toNat?, sec.toNat?, v.toInt? with
    | some fn, some sec, some v =>
      match FuncType.ofCode? fn with
      | some f =>
        match funcCall f sec v with
        | some r => (st, s!"{r.num}/{r.den}")
        | none => (st, "none")
      | none => (st, "bad-op")
    | _, _, _ => (st, "bad-op")
  | "msel" :: lens :: qs :: qe :: "|" :: fams =>
    match natCsv? lens, qs.toNat?, qe.toNat?, fams.mapM String.toNat? with
    | some lens, some qs, some qe, some fams =>
      if qe < qs then (st, "bad-op")
      else
        let sel := monthSelectV cfgOfFacts lens fams qs qe
        (st, if sel.isEmpty then "sel" else "sel " ++ Proto.joinNat sel)
    | _, _, _, _ => (st, "bad-op")
  | _ => (st, "bad-op")

def main (_args : List String) : IO Unit := Proto.runLoop St.init step

end LinVerif.Driver.C11
