/-
Line-protocol driver for the C10 model (tag filtering through the index).
Byte strings are hex, the empty string is `-`.

  reset
  write <metric> <key>=<value> ...                 -> series <id> new|old
  prepare-meta | flush-meta | compact-meta -> ok tv=<level-0 files>
  prepare-index | flush-index | compact-index -> ok inv=<level-0 files> fwd=<level-0 files>
  istep fwd|inv write|commit|drop|fail             -> ok      (one step inside metricIndexDatabase.Flush, as observed)
  flush-index-end ok|fail                          -> ok inv=.. fwd=..  (the rest of the flush / the flush returned an error)
  flush-meta-fail                                  -> ok tv=..          (a failed metadata flush changes nothing)
  qpark <point> <metric> <groupKeys|-> | <placement,placement,..> | <cond>
      -> as q: the query was parked at yield point <point> (dictfind|dictscan|inverted|forward|grouping|collect) while the
         placement ops ran (reader ‖ flusher); the read order comes from Generated.C10.*MemFirst
  rx <pattern> ok|bad <literalPrefix> <matching value> ...   (one row of the regexp table) -> ok
  q <metric> <groupKey,groupKey|-> <cond>          -> ok s=<ids> g=<groups> | err <kind> | panic
      cond (prefix form): eq K V | in K n V1..Vn | like K V | rx K P | not C | paren C | and C C | or C C | badop C C
  fwdread <highKey> | s:v s:v ...                  -> none | low:v ...        (tagForwardReader on a file built from the entries)
  fwdmerge | s:v ... | s:v ...                     -> s:v ...                 (forwardIndexMerger, cursor-level model `mergeRaw`, over files built from the entries)
  fwdjob | <key> s:v ... / s:v ... | <key> ...      -> <key>=s:v,... ...       (ONE merger object merging several tag keys in turn: `mergeJob`)

The code facts (`Flags`) come from LinVerif.Generated.C10.
-/
import LinVerif.Util.Proto
import LinVerif.Model.TagFilter
import LinVerif.Model.TagFilterHeap
import LinVerif.Model.TagFilterPlan
import LinVerif.Generated.C10
import LinVerif.Generated.C10Ops

namespace LinVerif.Driver.C10
open LinVerif LinVerif.TagFilter

def flags : Flags :=
  { keyByRewrite := Generated.C10.keyByRewrite
    likeStarGuarded := Generated.C10.likeStarGuarded
    rxLitPrefix := Generated.C10.rxLitPrefix
    lutCumulative := Generated.C10.lutCumulative
    prepareOnEmpty := Generated.C10.prepareOnEmpty }

def hexVal (c : Char) : Option Nat :=
  if '0' ≤ c ∧ c ≤ '9' then some (c.toNat - '0'.toNat)
  else if 'a' ≤ c ∧ c ≤ 'f' then some (c.toNat - 'a'.toNat + 10)
  else none

def unhexL : List Char → Option Bytes
  | [] => some []
  | [_] => none
  | a :: b :: t => do
    let x ← hexVal a
    let y ← hexVal b
    let r ← unhexL t
    some ((x * 16 + y) :: r)

def unhex (s : String) : Option Bytes :=
  if s = "-" then some [] else if s = "" then none else unhexL s.toList

def hexDigit (n : Nat) : Char :=
  if n < 10 then Char.ofNat (n + '0'.toNat) else Char.ofNat (n - 10 + 'a'.toNat)

def hex (b : Bytes) : String :=
  if b.isEmpty then "-" else String.ofList (b.flatMap (fun n => [hexDigit (n / 16), hexDigit (n % 16)]))

/-- regexp table row: pattern ↦ (valid, literal prefix, matching values) -/
abbrev RxTable := List (Bytes × (Bool × Bytes × List Bytes))

def matcherOf (t : RxTable) : Matcher :=
  { valid := fun p => match Map.lookup t p with | some r => r.1 | none => false
    isMatch := fun p v => match Map.lookup t p with | some r => r.2.2.contains v | none => false
    lit := fun p => match Map.lookup t p with | some r => r.2.1 | none => [] }

structure DSt where
  st : State := {}
  rx : RxTable := []

/-- parse a condition in prefix form; returns the expression and the remaining tokens.
`fuel` bounds the recursion (every step consumes a token). -/
def parseCond : Nat → List String → Option (Expr × List String)
  | 0, _ => none
  | fuel + 1, ws =>
    match ws with
    | "eq" :: k :: v :: rest => do
      let k ← unhex k; let v ← unhex v
      some (.atom (.eq k v), rest)
    | "like" :: k :: v :: rest => do
      let k ← unhex k; let v ← unhex v
      some (.atom (.like k v), rest)
    | "rx" :: k :: p :: rest => do
      let k ← unhex k; let p ← unhex p
      some (.atom (.rx k p), rest)
    | "in" :: k :: n :: rest => do
      let k ← unhex k
      let n ← n.toNat?
      if rest.length < n then none
      else do
        let vs ← (rest.take n).mapM unhex
        some (.atom (.inn k vs), rest.drop n)
    | "not" :: rest => do
      let (e, r) ← parseCond fuel rest
      some (.not e, r)
    | "paren" :: rest => do
      let (e, r) ← parseCond fuel rest
      some (.paren e, r)
    | "and" :: rest => do
      let (l, r1) ← parseCond fuel rest
      let (r, r2) ← parseCond fuel r1
      some (.and l r, r2)
    | "or" :: rest => do
      let (l, r1) ← parseCond fuel rest
      let (r, r2) ← parseCond fuel r1
      some (.or l r, r2)
    | "badop" :: rest => do
      let (l, r1) ← parseCond fuel rest
      let (r, r2) ← parseCond fuel r1
      some (.badop l r, r2)
    | _ => none

/-- the regexp patterns of a condition -/
def rxPatterns : Expr → List Bytes
  | .atom (.rx _ p) => [p]
  | .atom _ => []
  | .paren e => rxPatterns e
  | .not e => rxPatterns e
  | .and l r => rxPatterns l ++ rxPatterns r
  | .or l r => rxPatterns l ++ rxPatterns r
  | .badop l r => rxPatterns l ++ rxPatterns r

def showErr : Err → String
  | .metricNotFound => "err metric-not-found"
  | .keyNotFound => "err key-not-found"
  | .badRegexp => "err bad-regexp"
  | .badOperator => "err bad-operator"
  | .filterResultNotFound => "err filter-result-not-found"
  | .notFound => "err not-found"
  | .panic => "panic"

def sortDedup (xs : List Nat) : List Nat :=
  let a := (xs.toArray.qsort (· < ·)).toList
  a.foldr (fun x acc => match acc with
    | y :: _ => if x = y then acc else x :: acc
    | [] => [x]) []

def showIds (xs : List Nat) : String :=
  if xs.isEmpty then "-" else ",".intercalate (xs.map toString)

def showGroup (g : SeriesId × List (ValId × Option Bytes)) : String :=
  s!"{g.1}:" ++ "/".intercalate (g.2.map (fun (id, v) =>
    (match v with | some b => hex b | none => "?") ++ s!"#{id}"))

/-- the selected series are a set: one line per series id (equal ids carry equal values) -/
def dedupGroups : List (SeriesId × List (ValId × Option Bytes)) → List (SeriesId × List (ValId × Option Bytes))
  | [] => []
  | g :: t => match dedupGroups t with
    | [] => [g]
    | h :: r => if g.1 = h.1 ∧ g.2 = h.2 then h :: r else g :: h :: r

def showGroups (gs : List (SeriesId × List (ValId × Option Bytes))) : String :=
  let a := dedupGroups (gs.toArray.qsort (fun x y => x.1 < y.1)).toList
  if a.isEmpty then "-" else ";".intercalate (a.map showGroup)

def parseTag (w : String) : Option (Bytes × Bytes) :=
  match w.splitOn "=" with
  | [k, v] => do
    let k ← unhex k; let v ← unhex v
    some (k, v)
  | _ => none

def parseSV (w : String) : Option (Nat × Nat) :=
  match w.splitOn ":" with
  | [s, v] => do
    let s ← s.toNat?; let v ← v.toNat?
    some (s, v)
  | _ => none

def splitBar (ws : List String) : List (List String) :=
  ws.foldr (fun w acc => if w = "|" then [] :: acc else
    match acc with
    | [] => [[w]]
    | h :: t => (w :: h) :: t) [[]]

def fileOf (es : List (Nat × Nat)) : List Container :=
  match buildFwdFile (es.map (fun sv => (0, sv.1, sv.2))) with
  | (_, cs) :: _ => cs
  | [] => []


/-- does `getSeriesIDsByExpr` hand out remembered bitmap objects / is the merger's buffer truncated per
container: regenerated facts -/
def memoNow : Bool := !Generated.C10Ops.atomBitmapsFresh
def perContainerNow : Bool := Generated.C10Ops.mergeResetPerContainer

/-- a merged raw entry read by its documented layout (bitmap, then one value id per series in bitmap
order), as the harness's `decodeEntry` does -/
def showEntry (e : RawEntry) : String :=
  let ids := e.bitmap.flatMap (fun c => c.2.map (fun l => c.1 * 65536 + l))
  if e.vals.length ≠ ids.length then s!"err-entry-{e.vals.length}-values-{ids.length}-series"
  else if ids.isEmpty then "-"
  else ",".intercalate ((ids.zip e.vals).map (fun (s, v) => s!"{s}:{v}"))

def showMerged (r : Option (RawEntry × List ValId)) : String :=
  match r with
  | none => "err panic"
  | some (e, _) => (showEntry e).replace "," " "

def splitSlash (ws : List String) : List (List String) :=
  ws.foldr (fun w acc => if w = "/" then [] :: acc else
    match acc with
    | [] => [[w]]
    | h :: t => (w :: h) :: t) [[]]

def parseJob (ws : List String) : Option (KeyId × List RawEntry) :=
  match ws with
  | k :: rest => do
    let k ← k.toNat?
    let files ← (splitSlash rest).mapM (fun f => f.mapM parseSV)
    some (k, files.map (fun es => rawOf (fileOf es)))
  | [] => none

/-- placement ops answer with the number of level-0 files of the stores they touch -/
def readOrder : ReadOrder :=
  { dictScanMemFirst := Generated.C10.dictScanMemFirst
    invMemFirst := Generated.C10.invMemFirst
    fwdMemFirst := Generated.C10.fwdMemFirst
    valuesMemFirst := Generated.C10.valuesMemFirst
    collectMemFirst := Generated.C10.collectMemFirst
    suggestMemFirst := Generated.C10.suggestMemFirst
    invGetMemFirst := Generated.C10.invGetMemFirst
    groupingMemFirst := Generated.C10.groupingMemFirst }

def stepOfName : String → Option Step
  | "prepare-meta" => some .prepareMeta | "flush-meta" => some .flushMeta | "compact-meta" => some .compactMeta
  | "prepare-index" => some .prepareIndex | "flush-index" => some .flushIndex | "compact-index" => some .compactIndex
  | _ => none

def pointOfName : String → Option ParkPoint
  | "dictfind" => some .dictFind | "dictscan" => some .dictScan
  | "inverted" => some .inverted | "forward" => some .forward
  | "grouping" => some .grouping | "collect" => some .collect
  | _ => none

def showLeaf (r : Except Err LeafResult) : String :=
  match r with
  | .error e => showErr e
  | .ok r =>
    let g := match r.groups with
      | none => "-"
      | some (.error e) => "g" ++ showErr e
      | some (.ok gs) => showGroups gs
    s!"ok s={showIds (sortDedup r.series)} g={g}"

def placement (d : DSt) (s : Step) : DSt × String :=
  let st' := d.st.step flags s
  let out := match s with
    | .prepareMeta | .flushMeta | .compactMeta => s!"ok tv={st'.dict.l0.length}"
    | _ => s!"ok inv={st'.inv.l0.length} fwd={st'.fwd.l0.length}"
  ({ d with st := st' }, out)

def step (d : DSt) (ws : List String) : DSt × String :=
  match ws with
  | ["reset"] => ({}, "ok")
  | "write" :: m :: tags =>
    match unhex m, tags.mapM parseTag with
    | some m, some ts =>
      let (st', sid, isNew) := write d.st m ts
      ({ d with st := st' }, s!"series {sid} " ++ (if isNew then "new" else "old"))
    | _, _ => (d, "bad-op")
  | ["prepare-meta"] => placement d .prepareMeta
  | ["flush-meta"] => placement d .flushMeta
  | ["compact-meta"] => placement d .compactMeta
  | ["prepare-index"] => placement d .prepareIndex
  | ["flush-index"] => placement d .flushIndex
  | ["compact-index"] => placement d .compactIndex
  | ["istep", store, what] =>
    let step? : Option Step := match store, what with
      | "fwd", "write" => some .fwdWrite | "fwd", "commit" => some .fwdCommit
      | "fwd", "drop" => some .fwdDrop | "fwd", "fail" => some .fwdFail
      | "inv", "write" => some .invWrite | "inv", "commit" => some .invCommit
      | "inv", "drop" => some .invDrop | "inv", "fail" => some .invFail
      | _, _ => none
    match step? with
    | some s => ({ d with st := d.st.step flags s }, "ok")
    | none => (d, "bad-op")
  | ["flush-index-end", how] =>
    let steps? : Option (List Step) := match how with
      | "ok" => some [.fwdWrite, .fwdCommit, .fwdDrop, .invWrite, .invCommit, .invDrop]
      | "fail" => some [.fwdFail, .invFail]
      | _ => none
    match steps? with
    | some ss =>
      let st' := ss.foldl (fun s x => s.step flags x) d.st
      ({ d with st := st' }, s!"ok inv={st'.inv.l0.length} fwd={st'.fwd.l0.length}")
    | none => (d, "bad-op")
  | ["flush-meta-fail"] => (d, s!"ok tv={d.st.dict.l0.length}")
  | "rx" :: p :: ok :: lit :: vals =>
    match unhex p, unhex lit, vals.mapM unhex with
    | some p, some lit, some vs =>
      if ok = "ok" ∨ ok = "bad" then
        ({ d with rx := Map.upsert d.rx p (ok = "ok", lit, vs) }, "ok")
      else (d, "bad-op")
    | _, _, _ => (d, "bad-op")
  | "q" :: m :: gb :: cond =>
    match unhex m, (if gb = "-" then some [] else (gb.splitOn ",").mapM unhex), parseCond (cond.length + 1) cond with
    | some m, some keys, some (c, []) =>
      -- every regexp of the condition needs its table row
      if (rxPatterns c).any (fun p => (Map.lookup d.rx p).isNone) then (d, "bad-op")
      else
        -- series filtering on bitmap OBJECTS (in-place and/or/not); `memoNow` from the regenerated facts
        match leafQueryHeap flags memoNow (matcherOf d.rx) d.st m keys c with
        | .error e => (d, showErr e)
        | .ok r =>
          let g := match r.groups with
            | none => "-"
            | some (.error e) => "g" ++ showErr e
            | some (.ok gs) => showGroups gs
          (d, s!"ok s={showIds (sortDedup r.series)} g={g}")
    | _, _, _ => (d, "bad-op")
  | "qplan" :: m :: gb :: cond =>
    -- the leaf query as the stages run it: the two Plan() functions choose the operators (round 12);
    -- condition `-` = no WHERE clause (metric-all-series branch)
    let pc : Option (Option Expr) :=
      if cond = ["-"] then some none
      else match parseCond (cond.length + 1) cond with
        | some (c, []) => some (some c)
        | _ => none
    match unhex m, (if gb = "-" then some [] else (gb.splitOn ",").mapM unhex), pc with
    | some m, some keys, some c =>
      if (match c with | some e => (rxPatterns e).any (fun p => (Map.lookup d.rx p).isNone) | none => false) then (d, "bad-op")
      else
        match leafPlan flags memoNow (matcherOf d.rx) d.st m keys c with
        | .error e => (d, showErr e)
        | .ok r =>
          let g := match r.groups with
            | none => "-"
            | some (.error e) => "g" ++ showErr e
            | some (.ok gs) => showGroups gs
          (d, s!"ok s={showIds (sortDedup r.series)} g={g}")
    | _, _, _ => (d, "bad-op")
  | "qpark" :: pt :: m :: gb :: "|" :: rest =>
    match splitBar rest with
    | [[places], cond] =>
      match pointOfName pt, unhex m, (if gb = "-" then some [] else (gb.splitOn ",").mapM unhex),
            (places.splitOn ",").mapM stepOfName, parseCond (cond.length + 1) cond with
      | some pt, some m, some keys, some steps, some (c, []) =>
        if (rxPatterns c).any (fun p => (Map.lookup d.rx p).isNone) then (d, "bad-op")
        else
          let s2 := steps.foldl (fun s x => s.step flags x) d.st
          let h := parkedState readOrder pt d.st s2
          -- a parked GetGroupingContext / CollectKVs only affects the group-by part
          let r := if pt = .grouping ∨ pt = .collect then leafQuerySplit flags (matcherOf d.rx) s2 h m keys c
                   else leafQuery flags (matcherOf d.rx) h m keys c
          ({ d with st := s2 }, showLeaf r)
      | _, _, _, _, _ => (d, "bad-op")
    | _ => (d, "bad-op")
  | "fwdread" :: high :: "|" :: es =>
    match high.toNat?, es.mapM parseSV with
    | some h, some es =>
      match readContainer flags.lutCumulative (fileOf es) h with
      | none => (d, "none")
      | some lvs => (d, if lvs.isEmpty then "-" else " ".intercalate (lvs.map (fun (l, v) => s!"{l}:{v}")))
    | _, _ => (d, "bad-op")
  | "fwdmerge" :: "|" :: rest =>
    match (splitBar rest).mapM (fun f => f.mapM parseSV) with
    | some files => (d, showMerged (mergeRaw perContainerNow [] (files.map (fun es => rawOf (fileOf es)))))
    | none => (d, "bad-op")
  | "fwdjob" :: "|" :: rest =>
    -- one merger object, several tag keys in turn: `| <key> s:v ... / s:v ... | <key> ...`
    match (splitBar rest).mapM parseJob with
    | some jobs =>
      match mergeJob perContainerNow [] jobs with
      | none => (d, "err panic")
      | some outs => (d, " ".intercalate (outs.map (fun ke => s!"{ke.1}={showEntry ke.2}")))
    | none => (d, "bad-op")
  | _ => (d, "bad-op")

def main (_args : List String) : IO Unit := Proto.runLoop ({} : DSt) step

end LinVerif.Driver.C10
