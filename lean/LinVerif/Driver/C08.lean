/-
Line-protocol driver for the C08 replication model.

  reset
  append <hex> | append -        leader WriteLog (`-` = empty message)
  step <fault>                   one partition.replica call; fault ∈ none cli getack reset connect send recv
  frestart | flose | lsnap | lrestore | lrestart | offline | online <fault> | gc | oack <n>

Every line answers
  <out> L=<ack>/<app> c=<cons> g=<gack> o=<oack> [<i>:<hex> ...] F=<ack>/<app> [<i>:<hex> ...] <chan> <stream> live=<b> susp=<b> img=<b>
where the bracketed lists are `Get(i)` for every `ack < i ≤ app` (`!` = Get failed).
The comparison that guards ResetAppendIndex is taken from the regenerated fact `aheadFixed`.
-/
import LinVerif.Util.Proto
import LinVerif.Model.Replication
import LinVerif.Generated.C08

namespace LinVerif.Driver.C08
open LinVerif LinVerif.Replication

def hexDigit (c : Char) : Option Nat :=
  if '0' ≤ c ∧ c ≤ '9' then some (c.toNat - '0'.toNat)
  else if 'a' ≤ c ∧ c ≤ 'f' then some (c.toNat - 'a'.toNat + 10)
  else none

def parseHexChars : List Char → Option (List Nat)
  | [] => some []
  | [_] => none
  | a :: b :: t => do
    let x ← hexDigit a
    let y ← hexDigit b
    let r ← parseHexChars t
    some ((x * 16 + y) :: r)

def parseMsg (w : String) : Option Msg :=
  if w = "-" then some [] else
  if w = "" then none else parseHexChars w.toList

def hexChar (n : Nat) : Char :=
  if n < 10 then Char.ofNat ('0'.toNat + n) else Char.ofNat ('a'.toNat + (n - 10))

def showMsg (m : Msg) : String :=
  if m = [] then "-" else
  String.ofList (m.foldr (fun b acc => hexChar ((b / 16) % 16) :: hexChar (b % 16) :: acc) [])

def showLog (l : Log) : String :=
  let n := (l.app - l.ack).toNat
  let items := (List.range n).map (fun (k : Nat) =>
    let i : Int := l.ack + 1 + Int.ofNat k
    match l.get i with
    | some m => s!"{i}:{showMsg m}"
    | none => s!"{i}:!")
  s!"{l.ack}/{l.app} [" ++ " ".intercalate items ++ "]"

def showChan : Chan → String
  | .init => "init" | .ready => "ready" | .failure => "failure"

def showStream : Stream → String
  | .none => "none" | .up => "up" | .broken => "broken"

def showOut : Out → String
  | .suspended => "suspended" | .parked => "parked" | .notready => "notready" | .idle => "idle"
  | .ignored => "ignored" | .sendfail => "sendfail" | .recvfail => "recvfail" | .acked => "acked"
  | .mismatch => "mismatch"

def b01 (b : Bool) : String := if b then "1" else "0"

def showSt (s : St) : String :=
  s!"L={showLog s.L} c={s.cons} g={s.gack} o={s.oack} F={showLog s.F} {showChan s.chan} {showStream s.stream} live={b01 s.live} susp={b01 s.susp} img={b01 s.img.isSome}"

def parseFault : String → Option Fault
  | "none" => some .none | "cli" => some .cli | "getack" => some .getack | "reset" => some .reset
  | "connect" => some .connect | "send" => some .send | "recv" => some .recv
  | _ => none

def parseEv : List String → Option Ev
  | ["append", w] => (parseMsg w).map Ev.append
  | ["step", f] => (parseFault f).map Ev.step
  | ["frestart"] => some .frestart
  | ["flose"] => some .flose
  | ["lsnap"] => some .lsnap
  | ["lrestore"] => some .lrestore
  | ["lrestart"] => some .lrestart
  | ["offline"] => some .offline
  | ["online", f] => (parseFault f).map Ev.online
  | ["gc"] => some .gc
  | ["oack", n] => n.toInt?.map Ev.oack
  | _ => none

def cfg : Cfg := { fixed := LinVerif.Generated.C08.aheadFixed }

def step (s : St) (ws : List String) : St × String :=
  match ws with
  | ["reset"] => (St.init, "ok " ++ showSt St.init)
  | _ =>
    match parseEv ws with
    | none => (s, "bad-op")
    | some e =>
      let (s', o) := next cfg s e
      (s', showOut o ++ " " ++ showSt s')

def main (_args : List String) : IO Unit := Proto.runLoop St.init step

end LinVerif.Driver.C08
