/-
Line-protocol driver for the C08 replication model.

  reset
  append <hex> | append -        leader WriteLog (`-` = empty message)
  step <a|b> <fault>             one partition.replica call for that follower; fault ∈ none cli getack reset connect send recv put
  frestart <w> | flose <w> | fclose <w> | offline <w> | online <w> <fault> | steponl <w> <fault> | steppre <w> <fault> | join <w>
  lsnap | lrestore <k> | lrestart | gc | expire

Every line answers
  <out> L=<ack>/<app> [<i>:<hex> ...] A: c=<cons> g=<gack> F=<ack>/<app> [..] <chan> <stream> live=<b> susp=<b> stop=<b> B: ... imgs=<n> gone=<b>
where the bracketed lists are `Get(i)` for every `ack < i ≤ app` (`!` = Get failed).
The comparison that guards ResetAppendIndex is taken from the regenerated fact `aheadFixed`.
-/
import LinVerif.Util.Proto
import LinVerif.Model.Replication
import LinVerif.Generated.C08

namespace LinVerif.Driver.C08
open LinVerif LinVerif.Replication

def hexDigit (c : Char) : Option Nat :=
  if '0' ≤ c ∧ c ≤ '9' then some (c.toNat - '0'.toNat)
  else if 'a' ≤ c ∧ c ≤ 'f' then some (c.toNat - 'a'.toNat + 10)
  else none

def parseHexChars : List Char → Option (List Nat)
  | [] => some []
  | [_] => none
  | a :: b :: t => do
    let x ← hexDigit a
    let y ← hexDigit b
    let r ← parseHexChars t
    some ((x * 16 + y) :: r)

def parseMsg (w : String) : Option Msg :=
  if w = "-" then some [] else
  if w = "" then none else parseHexChars w.toList

def hexChar (n : Nat) : Char :=
  if n < 10 then Char.ofNat ('0'.toNat + n) else Char.ofNat ('a'.toNat + (n - 10))

def showMsg (m : Msg) : String :=
  if m = [] then "-" else
  String.ofList (m.foldr (fun b acc => hexChar ((b / 16) % 16) :: hexChar (b % 16) :: acc) [])

def showLog (l : Log) : String :=
  let n := (l.app - l.ack).toNat
  let items := (List.range n).map (fun (k : Nat) =>
    let i : Int := l.ack + 1 + Int.ofNat k
    match l.get i with
    | some m => s!"{i}:{showMsg m}"
    | none => s!"{i}:!")
  s!"{l.ack}/{l.app} [" ++ " ".intercalate items ++ "]"

def showChan : Chan → String
  | .init => "init" | .ready => "ready" | .failure => "failure"

def showStream : Stream → String
  | .none => "none" | .up => "up" | .broken => "broken"

def showOut : Out → String
  | .suspended => "suspended" | .parked => "parked" | .notready => "notready" | .idle => "idle"
  | .ignored => "ignored" | .sendfail => "sendfail" | .recvfail => "recvfail" | .acked => "acked"
  | .mismatch => "mismatch" | .noreplicator => "noreplicator" | .expired => "expired" | .gone => "gone"

def b01 (b : Bool) : String := if b then "1" else "0"

def showPeer (c g : Int) (F : Log) (ch : Chan) (st : Stream) (live susp parked stopped born : Bool) : String :=
  let cs := if stopped then "- -" else s!"{showChan ch} {showStream st}"
  s!"c={c} g={g} F={showLog F} {cs} live={b01 live} susp={b01 susp} park={b01 parked} stop={b01 stopped} born={b01 born}"

def showSt (s : St) : String :=
  s!"L={showLog s.L} A: {showPeer s.cons s.gack s.F s.chan s.stream s.live s.susp s.parked s.stopped s.born} B: {showPeer s.cons2 s.gack2 s.F2 s.chan2 s.stream2 s.live2 s.susp2 s.parked2 s.stopped2 s.born2} imgs={s.imgs.length} gone={b01 s.gone}"

def parseFault : String → Option Fault
  | "none" => some .none | "cli" => some .cli | "getack" => some .getack | "reset" => some .reset
  | "connect" => some .connect | "send" => some .send | "recv" => some .recv | "put" => some .put
  | _ => none

def parseWho : String → Option Who
  | "a" => some .a | "b" => some .b | _ => none

def parseEv : List String → Option Ev
  | ["append", w] => (parseMsg w).map Ev.append
  | ["step", w, f] => do let w ← parseWho w; let f ← parseFault f; some (.step w f)
  | ["frestart", w] => (parseWho w).map Ev.frestart
  | ["flose", w] => (parseWho w).map Ev.flose
  | ["fclose", w] => (parseWho w).map Ev.fclose
  | ["lsnap"] => some .lsnap
  | ["lrestore", k] => k.toNat?.map Ev.lrestore
  | ["lrestart"] => some .lrestart
  | ["offline", w] => (parseWho w).map Ev.offline
  | ["online", w, f] => do let w ← parseWho w; let f ← parseFault f; some (.online w f)
  | ["steponl", w, f] => do let w ← parseWho w; let f ← parseFault f; some (.steponl w f)
  | ["steppre", w, f] => do let w ← parseWho w; let f ← parseFault f; some (.steppre w f)
  | ["join", w] => (parseWho w).map Ev.join
  | ["gc"] => some .gc
  | ["expire"] => some .expire
  | _ => none

def cfg : Cfg :=
  { fixed := LinVerif.Generated.C08.aheadFixed
    mfail := LinVerif.Generated.C08.mismatchSetsFailure
    wake := LinVerif.Generated.C08.wakeSendBlocking
    tok := LinVerif.Generated.C08.suspendChanBuffered }

def step (s : St) (ws : List String) : St × String :=
  match ws with
  | ["reset"] => (St.init, "ok " ++ showSt St.init)
  | _ =>
    match parseEv ws with
    | none => (s, "bad-op")
    | some e =>
      let (s', o) := next cfg s e
      (s', showOut o ++ " " ++ showSt s')

def main (_args : List String) : IO Unit := Proto.runLoop St.init step

end LinVerif.Driver.C08
