/-
Line-protocol driver for the C03 models (metric block merge + family compaction).

  merge <blk> <blk> ...                      -> ok <canonical blk>
  wr <blk>                                   -> ok <canonical blk read back from the model block writer's output>
  reset                                       -> ok
  reopen                                      -> ok L0:<files> L1:<files>     (store closed and opened again: identity)
  flush <metric>=<blk> <metric>=<blk> ...     -> ok L0:<files> L1:<files>
  compact <threshold> <maxFileSize> <k:len,k:len,...|-> [failAt|- [open:<i>:<enoent|io>]]  -> <skipped|moved|merged|fail> L0:<files> L1:<files>
                                                 (failAt: the output file with that index cannot be created; open: the open of
                                                 the picked input at position i — level-0 files, then the picked level-1 files —
                                                 fails with ENOENT / another error; error branch policy = generated `openErrorAborts`)
  view <metric>                               -> ok S:<ids> F:<id:ty,...> V:<s/f/t=v ...>
  dmerge <dmg;dmg;...> <blk> <blk> ...        -> ok <canonical blk> | err merge      (damaged inputs; one <dmg> per block:
                                                 `-` intact, `h` header unreadable, `b<hk>,<hk>` series buckets unreadable)
  mergew <blk> <blk> ...                      -> hang | ok <canonical blk> | err merge  (slot loop with a uint16 variable:
                                                 a decoded input whose range ends at slot 65535 never leaves the loop)

  dsteps <ratio> <base> <tStart> <len> <nblocks> <step> ...  -> ok <acc>~<pos,pos,..> ...   (one decoder slice over all steps;
                                                 <step> = <field type code>:<n|a|p>:<fd>;<fd>;...  path n = arm + down-sampling,
                                                 a = arm only, p = nothing; <fd> = `-` | <a>_<b>@slot=val,...; <acc> = `-` or the
                                                 target positions p=v; <pos> = read position of each decoder, `-` for nil)

  <blk>   = <fields>#<start>_<end>#<series>|<series>...      fields = id:ty,id:ty
  <series>= sid/fid@slot=val,slot=val/fid@...
  <files> = keys of one file joined by ',', files joined by ';' (sorted as strings), '-' if none

In `view` the value of a `first`/`last` field is printed as `*` (which of the contributed values
a reader or the merger ends up with depends on the visiting order of the files, which is a Go map
iteration order; the harness checks membership on the implementation side).
-/
import LinVerif.Util.Proto
import LinVerif.Model.Compact
import LinVerif.Model.BlockWriter
import LinVerif.Model.MergeLoop
import LinVerif.Model.C03Inputs
import LinVerif.Model.C03FastPath
import LinVerif.Generated.C03

namespace LinVerif.Driver.C03
open LinVerif LinVerif.Map LinVerif.MetricBlock LinVerif.Merge LinVerif.Compact

abbrev Blk := Block Int

def splitNE (s : String) (sep : String) : List String :=
  if s = "" then [] else s.splitOn sep

def parsePair (w : String) (sep : String) : Option (String × String) :=
  match w.splitOn sep with
  | [a, b] => some (a, b)
  | _ => none

def parseFieldMeta (w : String) : Option (Nat × FieldType) := do
  let (a, b) ← parsePair w ":"
  let id ← a.toNat?
  let c ← b.toNat?
  let ty ← FieldType.ofCode? c
  some (id, ty)

def parseSlotVal (w : String) : Option (Nat × Int) := do
  let (a, b) ← parsePair w "="
  let t ← a.toNat?
  let v ← b.toInt?
  some (t, v)

def parseFieldEntry (w : String) : Option (Nat × List (Nat × Int)) := do
  let (a, b) ← parsePair w "@"
  let id ← a.toNat?
  let vals ← (splitNE b ",").mapM parseSlotVal
  some (id, vals)

def parseSeries (w : String) : Option (Nat × List (Nat × List (Nat × Int))) :=
  match w.splitOn "/" with
  | [] => none
  | sid :: fes => do
    let id ← sid.toNat?
    let es ← fes.mapM parseFieldEntry
    some (id, es)

def parseBlock (w : String) : Option Blk :=
  match w.splitOn "#" with
  | [fs, rg, ss] => do
    let fields ← (splitNE fs ",").mapM parseFieldMeta
    let (a, b) ← parsePair rg "_"
    let st ← a.toNat?
    let en ← b.toNat?
    let series ← (splitNE ss "|").mapM parseSeries
    some { fields := fields, start := st, stop := en, series := series }
  | _ => none

def parseEntry (w : String) : Option (Nat × Blk) :=
  match w.splitOn "=" with
  | a :: b :: rest => do
    let m ← a.toNat?
    let blk ← parseBlock ("=".intercalate (b :: rest))
    some (m, blk)
  | _ => none

def sortNat (l : List Nat) : List Nat := (l.toArray.qsort (· < ·)).toList
def sortStr (l : List String) : List String := (l.toArray.qsort (· < ·)).toList

def showFields (fs : List (Nat × FieldType)) : String :=
  ",".intercalate (fs.map (fun (f, ty) => s!"{f}:{ty.code}"))

/-- canonical text of a block: per series the fields (in the block's field order) that have at
least one slot inside the block's range, slots ascending -/
def showBlock (b : Blk) : String :=
  let slots := List.range' b.start (b.stop + 1 - b.start)
  let series := b.series.map (fun (s, _) =>
    let fes := b.fields.filterMap (fun (f, _) =>
      let vs := slots.filterMap (fun t => (b.get s f t).map (fun v => s!"{t}={v}"))
      if vs.isEmpty then none else some s!"/{f}@{",".intercalate vs}")
    s!"{s}{"".intercalate fes}")
  s!"{showFields b.fields}#{b.start}_{b.stop}#{"|".intercalate series}"

/-- canonical text of what the model reader finds in a block the model writer produced -/
def showEnc (e : BlockWriter.EncBlock Int) : String :=
  let slots := List.range' e.start (e.stop + 1 - e.start)
  let series := e.ids.map (fun s =>
    let fes := e.fields.filterMap (fun (f, _) =>
      let vs := slots.filterMap (fun t =>
        (match BlockWriter.readField e s f with
          | none => none
          | some vals => lookup vals t).map (fun v => s!"{t}={v}"))
      if vs.isEmpty then none else some s!"/{f}@{",".intercalate vs}")
    s!"{s}{"".intercalate fes}")
  s!"{showFields e.fields}#{e.start}_{e.stop}#{"|".intercalate series}"

def showFiles (fs : List (File Int)) : String :=
  if fs.isEmpty then "-" else
  ";".intercalate (sortStr (fs.map (fun f => ",".intercalate (f.entries.map (fun e => toString e.1)))))

def showLevels (st : Family Int) : String := s!"L0:{showFiles st.l0} L1:{showFiles st.l1}"

def dedupNat (l : List Nat) : List Nat := (sortNat l).eraseDups

/-- the observable content of one metric: series ids, field metas, cell values -/
def showView (st : Family Int) (m : Nat) : String :=
  let bs := blocksOf st m
  let sids := dedupNat (bs.flatMap (fun b => b.seriesIds))
  let fids := dedupNat (bs.flatMap (fun b => b.fields.map (·.1)))
  let fmetas := fids.filterMap (fun f => (bs.findSome? (fun b => b.fieldType? f)).map (fun ty => (f, ty)))
  let lo := bs.foldl (fun a b => Nat.min a b.start) (bs.headD { fields := [], start := 0, stop := 0, series := [] }).start
  let hi := bs.foldl (fun a b => Nat.max a b.stop) 0
  let slots := List.range' lo (hi + 1 - lo)
  let cells := sids.flatMap (fun s => fmetas.flatMap (fun (f, ty) => slots.filterMap (fun t =>
    match view (aggInt ty) st m s f t with
    | none => none
    | some v => some (if ty.orderFree then s!"{s}/{f}/{t}={v}" else s!"{s}/{f}/{t}=*"))))
  s!"ok S:{",".intercalate (sids.map toString)} F:{showFields fmetas} V:{" ".intercalate cells}"

def parseSizes (w : String) : Option (List (Nat × Nat)) :=
  if w = "-" then some [] else
  (w.splitOn ",").mapM (fun p => do
    let (a, b) ← parsePair p ":"
    let k ← a.toNat?
    let n ← b.toNat?
    some (k, n))

def parseDmg (w : String) : Option MergeLoop.Damage.Dmg :=
  if w = "-" then some MergeLoop.Damage.Dmg.none
  else if w = "h" then some { header := true, buckets := [] }
  else if w.startsWith "b" then
    ((w.drop 1).toString.splitOn ",").mapM (fun (x : String) => x.toNat?) |>.map (fun ks => ({ header := false, buckets := ks } : MergeLoop.Damage.Dmg))
  else none

/-- does some series of the block carry data for one of the block's fields (then a decoder is
positioned on the block's range and the slot loop runs over it) -/
def hasData (b : Blk) : Bool :=
  b.series.any (fun p => b.fields.any (fun fm => (lookup p.2 fm.1).isSome))

/-- `<a>_<b>@slot=val,...` or `-` -/
def parseFD (w : String) : Option (C03Decoder.FD Int) :=
  if w = "-" then some none else do
    let (rg, vs) ← parsePair w "@"
    let (a, b) ← parsePair rg "_"
    let a ← a.toNat?
    let b ← b.toNat?
    let vals ← (splitNE vs ",").mapM parseSlotVal
    some (some (vals, a, b))

def parsePath (w : String) : Option C03FastPath.Path :=
  if w = "n" then some .normal else if w = "a" then some .armedBypass else if w = "p" then some .plainBypass else none

def parseStepF (n : Nat) (w : String) : Option (C03FastPath.Step Int) :=
  match w.splitOn ":" with
  | [ty, p, fds] => do
    let c ← ty.toNat?
    let ty ← FieldType.ofCode? c
    let path ← parsePath p
    let fs ← (fds.splitOn ";").mapM parseFD
    if fs.length ≠ n then none else some { op := aggInt ty, fds := fs, path := path }
  | _ => none

def showAcc (len : Nat) : Option (List (Nat × Int)) → String
  | none => "-"
  | some acc => ",".intercalate ((emit acc 0 len).map (fun (p, v) => s!"{p}={v}"))

def showPos (ss : List (Option (C03Decoder.Dec Int))) : String :=
  ",".intercalate (ss.map (fun o => match o with | none => "-" | some d => toString d.idx))

/-- all steps over one slice, printing accumulator and decoder positions after every step -/
def runSteps (cfg : Cfg) (tStart len : Nat) :
    List (Option (C03Decoder.Dec Int)) → List (C03FastPath.Step Int) → List String
  | _, [] => []
  | ss, st :: rest =>
    let r := C03FastPath.fieldStepF cfg tStart len ss st
    s!"{showAcc len r.2}~{showPos r.1}" :: runSteps cfg tStart len r.1 rest

def step (st : Family Int) (ws : List String) : Family Int × String :=
  match ws with
  | "dsteps" :: ra :: ba :: ts :: ln :: nb :: rest =>
    match ra.toNat?, ba.toNat?, ts.toNat?, ln.toNat?, nb.toNat? with
    | some ratio, some base, some tStart, some len, some n =>
      if ratio = 0 ∨ len = 0 ∨ n = 0 ∨ rest.isEmpty then (st, "bad-op") else
      match rest.mapM (parseStepF n) with
      | some steps =>
        let cfg : Cfg := { ratio := ratio, baseSlot := base, mapSlot := id }
        (st, "ok " ++ " ".intercalate (runSteps cfg tStart len (List.replicate n none) steps))
      | none => (st, "bad-op")
    | _, _, _, _, _ => (st, "bad-op")
  | "dmerge" :: spec :: rest =>
    match (spec.splitOn ";").mapM parseDmg, rest.mapM parseBlock with
    | some ds, some (b :: bs) =>
      if ds.length ≠ (b :: bs).length then (st, "bad-op") else
      let tol := Generated.C03.scannerToleratesEmptyBucket
      let bds := (b :: bs).zip ds
      if MergeLoop.Damage.mergeFails tol bds then (st, "err merge")
      else (st, "ok " ++ showBlock (MergeLoop.Damage.mergeBlocks tol aggInt bds))
    | _, _ => (st, "bad-op")
  | "mergew" :: rest =>
    match rest.mapM parseBlock with
    | some (b :: bs) =>
      let tol := Generated.C03.scannerToleratesEmptyBucket
      if mergeFails tol (b :: bs) then (st, "err merge")
      else if Generated.C03.slotLoopWraps && (b :: bs).any (fun x => x.stop == 65535 && hasData x) then (st, "hang")
      else (st, "ok " ++ showBlock (mergeBlocks tol aggInt (b :: bs)))
    | _ => (st, "bad-op")
  | "merge" :: rest =>
    match rest.mapM parseBlock with
    | some (b :: bs) =>
      let tol := Generated.C03.scannerToleratesEmptyBucket
      if mergeFails tol (b :: bs) then (st, "err merge")
      else (st, "ok " ++ showBlock (mergeBlocks tol aggInt (b :: bs)))
    | _ => (st, "bad-op")
  | ["wr", w] =>
    match parseBlock w with
    | some b =>
      match BlockWriter.writeBlock b with
      | some e => (st, "ok " ++ showEnc e)
      | none => (st, "err empty")
    | none => (st, "bad-op")
  | ["reset"] => (Family.empty, "ok")
  -- the store is closed and reopened: the family (the version the manifest holds) is what it was
  | ["reopen"] => (st, "ok " ++ showLevels st)
  | "flush" :: rest =>
    match rest.mapM parseEntry with
    | some es => let s := flush st es; (s, "ok " ++ showLevels s)
    | none => (st, "bad-op")
  | "compact" :: th :: mx :: sz :: rest =>
    -- optional 5th word: index of the output file whose creation fails (injected fault) or `-`;
    -- optional 6th word: `open:<i>:<kind>` = the open of the i-th picked input fails
    let parseFail : String → Option (Option Nat) := fun k => if k = "-" then some none else (k.toNat?).map some
    let parseOpen : String → Option (Nat → C03Inputs.OpenRes) := fun w =>
      match w.splitOn ":" with
      | ["open", i, "enoent"] => (i.toNat?).map (fun i => C03Inputs.faultAt i .notExist)
      | ["open", i, "io"] => (i.toNat?).map (fun i => C03Inputs.faultAt i .ioError)
      | _ => none
    let faults? : Option (Option Nat × (Nat → C03Inputs.OpenRes)) := match rest with
      | [] => some (none, C03Inputs.noFault)
      | [k] => (parseFail k).map (fun f => (f, C03Inputs.noFault))
      | [k, ow] => match parseFail k, parseOpen ow with
        | some f, some pl => some (f, pl)
        | _, _ => none
      | _ => none
    let failAt? := faults?.map (·.1)
    let pl := match faults? with | some (_, pl) => pl | none => C03Inputs.noFault
    match th.toNat?, mx.toNat?, parseSizes sz, failAt? with
    | some th, some mx, some sizes, some failAt =>
      -- a key without announced size makes the split undefined: answered by `bad-op` below
      let p : Params Int := { threshold := th, maxFileSize := mx,
                              size := fun k _ => match lookup sizes k with | some n => n | none => 0,
                              shuffle := id, rebind := Generated.C03.streamWriterRebinds,
                              tolerant := Generated.C03.scannerToleratesEmptyBucket, failAt := failAt }
      let (s, o) := C03Inputs.compactF aggInt (C03Inputs.policyOf Generated.C03.openErrorAborts) pl p st
      let outKeys := (mergedEntries aggInt p (st.l0 ++ pickUp st.l0 st.l1)).map (·.1)
      let sized := outKeys.all (fun k => (lookup sizes k).isSome)
      match o with
      | .skipped => (s, s!"skipped {showLevels s}")
      | .moved => (s, s!"moved {showLevels s}")
      | .merged => if sized then (s, s!"merged {showLevels s}") else (st, "bad-op")
      | .crashed => if sized then (s, s!"fail {showLevels s}") else (st, "bad-op")
    | _, _, _, _ => (st, "bad-op")
  | ["view", m] =>
    match m.toNat? with
    | some m => (st, showView st m)
    | none => (st, "bad-op")
  | _ => (st, "bad-op")

def main (_args : List String) : IO Unit := Proto.runLoop Family.empty step

end LinVerif.Driver.C03
