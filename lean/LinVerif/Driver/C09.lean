/-
Line-protocol driver for the C09 model (name → id assignment), see harness/internal/areas/c09.

  reset <nShards> <maxSeries>                 (maxSeries 0 = the default limit)
  metric <nsBucket> <ns> <name>   | getmetric <nsBucket> <ns> <name>
  field <metricId> <f>            | tagkey <metricId> <k>      | tagvalue <tagKeyId> <v>
  findtv <tagKeyId> <v>           | schema <metricId>
  series <shard> <metricId> <tagset> k:v k:v ...
  mseries <shard> <metricId> | tvseries <shard> <tagValueId> | tkseries <shard> <tagKeyId>
  iflushimg <s> <j>                           (real index Flush; crash image taken just before its (j+1)-th kv family commit)
  mflushfails                                 (the kv commit of the schema family's flush fails)
  mcompact | icompact <s>                     (level-0 compaction of every family of the metadata / one index store)
  mdbrace                                     (memdb: two callers of GetOrCreateTimeSeriesIndex for one new metric)
  mflushfail | iflushfail <s>                 (the first dictionary flush that writes fails at its kv commit)
  mprepare | mflush | mflushcrash <k> | iprepare <s> | iflush <s> | iflushcrash <s> <k> | reopen | crash
  krace <nsBucket> <ns> <name>                (two callers, A stopped before createValue)
  srace tagkey|field <metricId> <nameA> <nameB>  (two callers, A stopped before the store lock)
  lflush <nsBucket> <ns> <name>               (GenMetricID of existing names ‖ a whole metadata flush)
  bcrace <nsBucket> <ns> <x>                  (lookup of an unknown name stopped after getSnapshot ‖ flush persisting x; then GenMetricID(ns, x))
  brelease <tagKeyId> <v> <otherTagKeyId>     (GenTagValueID stopped between the cache hit and bucket.GetValue ‖ flush purging the cache ‖ load of another bucket)
  scrace <metricId> <fb> <fc>                 (reader's GetSchema stopped before cache.Add ‖ writer fb ‖ flush; then writer fc)
  swindow field <metricId> <f>                (metadata flush; GenFieldID runs between the schema commit and MarkPersisted)
  bload <hex>                                 (the caller's reused block buffer now holds these bytes)
  bmetric <nsOff> <nsLen> <nameOff> <nameLen> (GenMetricID with two views into the buffer)
  bfield <metricId> <off> <len> | btagkey <metricId> <off> <len> | btagvalue <tagKeyId> <off> <len>
  bseries <shard> <metricId> <tagset> (<kOff> <kLen> <vOff> <vLen>)*   (GenSeriesID of a row that is a view of the buffer)

The code variant (`Cfg`) and the default limits are the ones derived from the regenerated facts.
-/
import LinVerif.Util.Proto
import LinVerif.Model.IdAssignCfg
import LinVerif.Model.IdAssignView

namespace LinVerif.Driver.C09
open LinVerif LinVerif.IdAssign

def showOut : GenOut → String
  | .id i => s!"id {i}"
  | .tooManyFields => "err too-many-fields"
  | .tooManyTags => "err too-many-tags"
  | .tooManySeries => "err too-many-series"
  | .stuck => "stuck"

def showOpt : Option Nat → String
  | some i => s!"id {i}"
  | none => "notfound"

def showSet (xs : List Nat) : String :=
  let sorted := (xs.toArray.qsort (· < ·)).toList.eraseDups
  match sorted with
  | [] => "set"
  | l => "set " ++ Proto.joinNat l

/-- canonical order = by id (the order of `Fields` / `TagKeys` after a load depends on the order in
which the kv snapshot visits its files, which is a Go map iteration order) -/
def showItems (l : List (Nat × Nat)) : String :=
  let sorted := (l.toArray.qsort (fun a b => a.2 < b.2 || (a.2 == b.2 && a.1 < b.1))).toList
  ",".intercalate (sorted.map (fun p => s!"{p.1}={p.2}"))

def schemaItems (s : Schema) (tags : Bool) : List (Nat × Nat) :=
  (s.order.filter (·.1 == tags)).filterMap (fun p =>
    (if tags then s.findTagKey p.2 else s.findField p.2).map (fun i => (p.2, i)))

def showSchema : Option Schema → String
  | none => "nil"
  | some s => "f " ++ showItems (schemaItems s false) ++ " t " ++ showItems (schemaItems s true)

def parseTag (w : String) : Option (Nat × Nat) :=
  match w.splitOn ":" with
  | [k, v] => do some ((← k.toNat?), (← v.toNat?))
  | _ => none

def cfg : Cfg := currentCfg

def step (nd : Node) (ws : List String) : Node × String :=
  let bad := (nd, "bad-op")
  match ws with
  | ["reset", n, ms] =>
    match n.toNat?, ms.toNat? with
    | some n, some ms =>
      let lim := if ms = 0 then currentLimits else { currentLimits with maxSeries := ms }
      if n = 0 then bad else ({ lim := lim, nShards := n }, "ok")
    | _, _ => bad
  | ["metric", nb, ns, name] =>
    match nb.toNat?, ns.toNat?, name.toNat? with
    | some nb, some ns, some name =>
      -- with both limits off (the default) this is `genMetric` (Lemmas/C09FlushFault.lean genMetricLim_off)
      let r := nd.genMetricLim cfg nb ns name
      (r.1, match r.2 with
        | .out o => showOut o
        | .tooManyNamespaces => "err too-many-namespaces"
        | .tooManyMetrics => "err too-many-metrics")
    | _, _, _ => bad
  | ["limits", a, b] =>
    -- models.SetDatabaseLimits: MaxNamespaces, MaxMetrics (0 = off)
    match a.toNat?, b.toNat? with
    | some a, some b => ({ nd with lim := { nd.lim with maxNamespaces := a, maxMetrics := b } }, "ok")
    | _, _ => bad
  | ["getmetric", nb, ns, name] =>
    match nb.toNat?, ns.toNat?, name.toNat? with
    | some nb, some ns, some name => (nd, showOpt (nd.getMetric nb ns name))
    | _, _, _ => bad
  | ["field", m, f] =>
    match m.toNat?, f.toNat? with
    | some m, some f => let r := nd.genFieldID cfg m f; (r.1, showOut r.2)
    | _, _ => bad
  | ["tagkey", m, k] =>
    match m.toNat?, k.toNat? with
    | some m, some k => let r := nd.genTagKeyID cfg m k; (r.1, showOut r.2)
    | _, _ => bad
  | ["tagvalue", tk, v] =>
    match tk.toNat?, v.toNat? with
    | some tk, some v => let r := nd.genTagValueID cfg tk v; (r.1, showOut r.2)
    | _, _ => bad
  | ["tvrange", tk, lo, n] =>
    match tk.toNat?, lo.toNat?, n.toNat? with
    | some tk, some lo, some n =>
      if n = 0 then bad else
      match nd.tagValue.lookup tk lo with
      | none =>
        if (List.range n).all (fun k => (nd.tagValue.lookup tk (lo + k)).isNone) then
          let r := nd.genTagValueRange cfg tk lo n; (r.1, s!"range base={r.2} n={n}")
        else (nd, "range mixed")
      | some b =>
        if (List.range n).all (fun k => nd.tagValue.lookup tk (lo + k) == some (b + k)) then (nd, s!"range base={b} n={n}")
        else (nd, "range mixed")
    | _, _, _ => bad
  | ["findtv", tk, v] =>
    match tk.toNat?, v.toNat? with
    | some tk, some v => (nd, showOpt (nd.tagValue.lookup tk v))
    | _, _ => bad
  | ["schema", m] =>
    match m.toNat? with
    | some m => let r := nd.getSchema m; (r.1, showSchema r.2)
    | none => bad
  | "series" :: sh :: m :: ts :: tags =>
    match sh.toNat?, m.toNat?, ts.toNat?, tags.mapM parseTag with
    | some sh, some m, some ts, some tags =>
      if sh < nd.nShards then let r := nd.genSeries cfg sh m ts tags; (r.1, showOut r.2) else bad
    | _, _, _, _ => bad
  | ["mseries", sh, m] =>
    match sh.toNat?, m.toNat? with
    | some sh, some m => if sh < nd.nShards then (nd, showSet ((nd.shards sh).metricSeries m)) else bad
    | _, _ => bad
  | ["tvseries", sh, tv] =>
    match sh.toNat?, tv.toNat? with
    | some sh, some tv =>
      if sh < nd.nShards then (nd, showSet (((nd.shards sh).inv.all.filter (·.1 = tv)).map (·.2))) else bad
    | _, _ => bad
  | ["tkseries", sh, tk] =>
    match sh.toNat?, tk.toNat? with
    | some sh, some tk =>
      if sh < nd.nShards then (nd, showSet (((nd.shards sh).fwd.all.filter (·.1 = tk)).map (·.2.2))) else bad
    | _, _ => bad
  | ["mprepare"] => (nd.metaPrepareE cfg.prepareSwapsEmpty, "ok")
  | ["mflush"] => (nd.metaFlush, "ok")
  | ["mflushfail"] =>
    let k := nd.metaFlushFailAt
    (nd.metaFlushPrefix k, if k < 5 then "err flush-failed" else "ok")
  | ["mflushfails"] =>
    let k := nd.metaFlushFailSchemaAt
    (nd.metaFlushPrefix k, if k < 5 then "err flush-failed" else "ok")
  | ["mcompact"] => (nd, "ok")
  | ["icompact", sh] =>
    match sh.toNat? with
    | some sh => if sh < nd.nShards then (nd, "ok") else bad
    | none => bad
  | ["mdbrace"] =>
    -- two callers of GetOrCreateTimeSeriesIndex for one new metric: A stopped before its Store, B started, A released
    let sched : List (Option Nat) := [none, none, some 0, some 0, some 1, some 1, some 1, some 0, some 1, some 1]
    let r := mrun cfg.memdbExclusive {} sched
    (nd, match r.threads with
      | [.done a, .done b] => if a = b then "same" else "differ"
      | _ => "stuck")
  | ["iflushfail", sh] =>
    match sh.toNat? with
    | some sh =>
      if sh < nd.nShards then
        let k := nd.indexFlushFailAt sh
        (nd.indexFlushPrefix sh k, if k < 4 then "err flush-failed" else "ok")
      else bad
    | none => bad
  | ["iflushfault", sh, k] =>
    -- the real Flush() of one shard during which step k fails at its kv commit (when it has something to write)
    match sh.toNat?, k.toNat? with
    | some sh, some k =>
      if sh < nd.nShards ∧ k < 4 then
        let r := nd.indexFlushFault cfg.indexFlushAborts currentIndexFlushSteps sh k
        (r.1, if r.2 then "err flush-failed" else "ok")
      else bad
    | _, _ => bad
  | ["ievict", sh, m] =>
    -- the LRU sequence cache of one shard drops metric m's entry (eviction / expiry)
    match sh.toNat?, m.toNat? with
    | some sh, some m =>
      if sh < nd.nShards then
        (nd.setShard sh ((nd.shards sh).evictSeq m), if ((nd.shards sh).seqCache m).isSome then "evicted" else "absent")
      else bad
    | _, _ => bad
  | ["mflushcrash", k] =>
    match k.toNat? with
    | some k => if k ≤ 5 then ((nd.metaFlushPrefix k).recover, "ok") else bad
    | none => bad
  | ["iprepare", sh] =>
    match sh.toNat? with
    | some sh => if sh < nd.nShards then (nd.indexPrepareE sh cfg.prepareSwapsEmpty, "ok") else bad
    | none => bad
  | ["iflush", sh] =>
    match sh.toNat? with
    | some sh => if sh < nd.nShards then (nd.indexFlush sh, "ok") else bad
    | none => bad
  | ["iflushimg", sh, j] =>
    match sh.toNat?, j.toNat? with
    | some sh, some j =>
      if sh < nd.nShards then ((nd.indexFlushPrefix sh (Node.stepsBeforeCommit (nd.shards sh) j)).recover, "ok") else bad
    | _, _ => bad
  | ["iflushcrash", sh, k] =>
    match sh.toNat?, k.toNat? with
    | some sh, some k => if sh < nd.nShards ∧ k ≤ 4 then ((nd.indexFlushPrefix sh k).recover, "ok") else bad
    | _, _ => bad
  | ["reopen"] => (nd.recover, "ok")
  | ["crash"] => (nd.recover, "ok")
  | ["krace", nb, ns, name] =>
    match nb.toNat?, ns.toNat?, name.toNat? with
    | some nb, some ns, some name =>
      match nd.ns.lookup nb ns with
      | none => bad
      | some nsID =>
        let t : KThread := { bucket := nsID, name := name }
        let r := kvRace cfg.kv nd.metric nd.seqMem.metric t t
        let nd' := Node.afterAlloc cfg { nd with metric := r.1, seqMem := { nd.seqMem with metric := r.2.1 } }
        match r.2.2.1.pc, r.2.2.2.pc with
        | .done a, .done b => (nd', s!"A=id {a} B=id {b}")
        | _, _ => (nd', "stuck")
    | _, _, _ => bad
  | ["srace", "tagkey", m, a, b] =>
    match m.toNat?, a.toNat?, b.toNat? with
    | some m, some a, some b =>
      let r := tagKeyRace cfg.schema nd.lim nd.schema nd.seqMem.tagKey m a b
      let nd' := Node.afterAlloc cfg { nd with schema := r.1, seqMem := { nd.seqMem with tagKey := r.2.1 } }
      (nd', s!"A={showOut r.2.2.1} B={showOut r.2.2.2}")
    | _, _, _ => bad
  | ["srace", "field", m, a, b] =>
    match m.toNat?, a.toNat?, b.toNat? with
    | some m, some a, some b =>
      let r := fieldRace cfg.schema nd.lim nd.schema m a b
      ({ nd with schema := r.1 }, s!"A={showOut r.2.1} B={showOut r.2.2}")
    | _, _, _ => bad
  | ["lflush", nb, ns, name] =>
    match nb.toNat?, ns.toNat?, name.toNat? with
    | some nb, some ns, some name => let r := nd.lookupFlushRace cfg nb ns name; (r.1, showOut r.2)
    | _, _, _ => bad
  | ["bcrace", nb, ns, x] =>
    match nb.toNat?, ns.toNat?, x.toNat? with
    | some nb, some ns, some x => let r := nd.bucketCacheRace cfg nb ns x; (r.1, s!"L=notfound X={showOut r.2}")
    | _, _, _ => bad
  | ["brelease", tk, v, other] =>
    match tk.toNat?, v.toNat?, other.toNat? with
    | some tk, some v, some other => let r := nd.bucketReleaseRace cfg tk v other; (r.1, s!"R={showOut r.2}")
    | _, _, _ => bad
  | ["scrace", m, fb, fc] =>
    match m.toNat?, fb.toNat?, fc.toNat? with
    | some m, some fb, some fc =>
      let r := nd.schemaCacheRace cfg m fb fc
      (r.1, s!"B={showOut r.2.1} C={showOut r.2.2}")
    | _, _, _ => bad
  | ["swindow", "field", m, f] =>
    match m.toNat?, f.toNat? with
    | some m, some f => let r := nd.metaFlushFieldInWindow cfg m f; (r.1, showOut r.2)
    | _, _ => bad
  | _ => bad

def tagViews : List Nat → Option (List (Buf.View × Buf.View))
  | [] => some []
  | ko :: kl :: vo :: vl :: rest => (tagViews rest).map (fun r => (({ off := ko, len := kl }, { off := vo, len := vl }) : Buf.View × Buf.View) :: r)
  | _ => none

/-- the buffer operations: parsed into a `BOp` and run by `bstep` (Model/IdAssignView.lean) -/
def parseB (ws : List String) : Option BOp :=
  match ws with
  | ["bload", hex] => (Buf.hexBytes hex.toList).map BOp.load
  | ["bmetric", a, b, c, d] =>
    match a.toNat?, b.toNat?, c.toNat?, d.toNat? with
    | some a, some b, some c, some d => some (.metric { off := a, len := b } { off := c, len := d })
    | _, _, _, _ => none
  | ["bfield", m, o, l] =>
    match m.toNat?, o.toNat?, l.toNat? with
    | some m, some o, some l => some (.field m { off := o, len := l })
    | _, _, _ => none
  | ["btagkey", m, o, l] =>
    match m.toNat?, o.toNat?, l.toNat? with
    | some m, some o, some l => some (.tagKey m { off := o, len := l })
    | _, _, _ => none
  | ["btagvalue", tk, o, l] =>
    match tk.toNat?, o.toNat?, l.toNat? with
    | some tk, some o, some l => some (.tagValue tk { off := o, len := l })
    | _, _, _ => none
  | "bseries" :: sh :: m :: ts :: rest =>
    match sh.toNat?, m.toNat?, ts.toNat?, (rest.mapM String.toNat?).bind tagViews with
    | some sh, some m, some ts, some tags => some (.series sh m ts tags)
    | _, _, _, _ => none
  | _ => none

def isB (ws : List String) : Bool :=
  match ws with
  | w :: _ => w == "bload" || w == "bmetric" || w == "bfield" || w == "btagkey" || w == "btagvalue" || w == "bseries"
  | [] => false

def stepB (st : BNode) (ws : List String) : BNode × String :=
  if isB ws then
    match parseB ws with
    | none => (st, "bad-op")
    | some (.series sh m ts tags) =>
      if sh < st.nd.nShards then
        match bstep cfg st (.series sh m ts tags) with
        | some (st', some o) => (st', showOut o)
        | _ => (st, "bad-op")
      else (st, "bad-op")
    | some bop =>
      match bstep cfg st bop with
      | some (st', some o) => (st', showOut o)
      | some (st', none) => (st', "ok")
      | none => (st, "bad-op")
  else
    let r := step st.nd ws
    ({ st with nd := r.1 }, r.2)

def main (_args : List String) : IO Unit := Proto.runLoop ({} : BNode) stepB

end LinVerif.Driver.C09
