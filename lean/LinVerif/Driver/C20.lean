/-
Line-protocol driver for the C20 models (trie tree, LOUDS encoding, trie bucket).

Keys are lower-case hex, the empty key is `-`; a pair is `<hexkey>:<value>`.

  consts
  prebuild <pair> ...         (earlier Build+Write+Reset on the same builder: reuse history)
  build <pair> ...            reload
  dims | levels | vec <labels|haschild|louds|hasprefix|prefixes|prefixoffsets|prefixdata|
                       hassuffix|suffixes|suffixoffsets|suffixdata|values|ranklut|selectlut>
  nav <nodeID>                (firstLabelPos, nodeSize, lastLabelPos, prefix of a node)
  navpos <pos>                (hasChild, childNodeID | valuePos, isEndOfNode, suffix of a label)
  get <key> | lget <key> | iter | liter | riter | seek <key> | seeklb <key> | prefix <key>
  siter | sriter | sseek <key> | sprefix <key>     (the iterator stack machine over the vectors)
  swalk <first|last|seek:<key>> <script of N / P, or ->   (cursor walk: Valid/Key/Value at the start and
                                                            after every Next / Prev of the script)
  bv <bits> ...               bvbits | bvranklut | bvsellut | rank <i> | select <k> | dist <i>
  sellut | sel64 <16 hex digits> <k>     (bits.go: the select-in-byte table, select64 of one word)
  bucket <blockSize> | <pair> ... | <pair> ...
  reload | bytes | msize      (byte layout model: marshal / unmarshal round trip, the bytes, MarshalSize)
  umal <hexbytes> | umalt <m> | umalf <pos> <byte>   (UnmarshalBinary of raw bytes / of the first m bytes of the
                              current trie's image / of the image with one byte replaced: `ok <fields+digest>` | `rejected`)
  pinit <pair> ...            (a pooled trie object that holds another dictionary)
  pload full|t<m>|f<pos>:<byte>   (UnmarshalBinary INTO that object: the image, a truncation, a byte flip)
  blikepat <pattern>          (like dispatch of indexKVStore.FindValuesByLike)
  bsplit <blockSize> <n> | bcollect <value>* | bframes | bumal <hex> | bget <key> | bvalues | bpairs | bsuggest <key> <limit> | blike <prefix> <pre|suf|has> <sub> | bmerge <blockSize>
-/
import LinVerif.Util.Proto
import LinVerif.Model.Louds
import LinVerif.Model.LoudsIter
import LinVerif.Model.TrieBucket
import LinVerif.Model.TrieWire
import LinVerif.Model.BucketWire
import LinVerif.Model.TrieReuse
import LinVerif.Model.C20Words
import LinVerif.Generated.C20

namespace LinVerif.Driver.C20
open LinVerif LinVerif.TrieTree LinVerif.Louds LinVerif.TrieBucket

def hexVal (c : Char) : Option Nat :=
  if '0' ≤ c ∧ c ≤ '9' then some (c.toNat - '0'.toNat)
  else if 'a' ≤ c ∧ c ≤ 'f' then some (c.toNat - 'a'.toNat + 10)
  else none

def parseHexChars : List Char → Option (List Nat)
  | [] => some []
  | [_] => none
  | a :: b :: r => do
    let x ← hexVal a
    let y ← hexVal b
    let t ← parseHexChars r
    some ((16 * x + y) :: t)

def parseKey (s : String) : Option Key :=
  if s = "-" then some [] else if s = "" then none else parseHexChars s.toList

def hexDigit (n : Nat) : Char := if n < 10 then Char.ofNat (48 + n) else Char.ofNat (87 + n)

def showKey (k : Key) : String :=
  if k.isEmpty then "-" else String.ofList (k.flatMap (fun b => [hexDigit (b / 16 % 16), hexDigit (b % 16)]))

def parsePair (s : String) : Option KV :=
  match s.splitOn ":" with
  | [k, v] => do
    let key ← parseKey k
    let val ← v.toNat?
    some (key, val)
  | _ => none

def showPair (kv : KV) : String := showKey kv.1 ++ ":" ++ toString kv.2
def showPairs (l : List KV) : String := if l.isEmpty then "empty" else " ".intercalate (l.map showPair)
def showBits (bs : List Bool) : String := if bs.isEmpty then "empty" else String.ofList (bs.map (fun b => if b then '1' else '0'))
def showNats (xs : List Nat) : String := if xs.isEmpty then "empty" else " ".intercalate (xs.map toString)
def showKeys (xs : List Key) : String := if xs.isEmpty then "empty" else " ".intercalate (xs.map showKey)
def showOpt : Option Nat → String
  | some v => s!"some {v}"
  | none => "none"

def parseBits (s : String) : Option (List Bool) :=
  if s = "-" then some [] else
  s.toList.mapM (fun c => if c = '1' then some true else if c = '0' then some false else none)

def splitBar (ws : List String) : List (List String) :=
  ws.foldr (fun w acc => if w = "|" then [] :: acc else
    match acc with
    | [] => [[w]]
    | h :: t => (w :: h) :: t) [[]]

def sortNats (xs : List Nat) : List Nat := xs.mergeSort (fun a b => a ≤ b)
def sortPairsByKey (xs : List KV) : List KV := xs.mergeSort kvLe

/-- the source variants the models follow (regenerated from /repo on every run) -/
def eon : Bool := Generated.C20.getChecksEndOfNode
def stepLB : Bool := Generated.C20.seekStepsToLowerBound

structure St where
  prev : TrieReuse.Bufs := {}        -- what the builder's re-used buffers hold (reuse history)
  prevArmed : Bool := false          -- a `prebuild` of this case came just before the `build`
  tree : Option Node := none
  flat : Option Flat := none
  bv : List Bool := []
  blockSize : Nat := 1
  bucket : Option (List Node) := none
  obj : Option TrieWire.Wire := none   -- the pooled trie object (GetTrie / PutTrie) and what it holds

def showSeek (r : Bool × List KV) : String :=
  match r.2 with
  | [] => s!"fp={if r.1 then 1 else 0} invalid"
  | l => s!"fp={if r.1 then 1 else 0} n={l.length} " ++ showPairs (l.take 3)

def withTree (st : St) (f : Node → String) : St × String :=
  match st.tree with
  | some t => (st, f t)
  | none => (st, "no-trie")

def withFlat (st : St) (f : Flat → String) : St × String :=
  match st.flat with
  | some t => (st, f t)
  | none => (st, "no-trie")

def withBucket (st : St) (f : List Node → String) : St × String :=
  match st.bucket with
  | some t => (st, f t)
  | none => (st, "no-bucket")

def showRes : TrieWire.Res TrieWire.Wire → String
  | .ok w => "ok " ++ TrieWire.showWire w
  | .err _ => "rejected"
  | .panic => "rejected"

/-- the serialised image of the current trie, or a damaged variant of it -/
def imageVariant (bytes : List Nat) (v : String) : Option (List Nat) :=
  if v = "full" then some bytes
  else if v.startsWith "t" then (String.ofList (v.toList.drop 1)).toNat?.map (fun m => bytes.take m)
  else if v.startsWith "f" then
    match (String.ofList (v.toList.drop 1)).splitOn ":" with
    | [p, x] =>
      match p.toNat?, x.toNat? with
      | some pos, some val => if pos < bytes.length && val < 256 then some (bytes.set pos val) else none
      | _, _ => none
    | _ => none
  else none

def lastLabelPos (f : Flat) (nodeID : Nat) : Nat :=
  -- trie.lastLabelPos
  let nextRank := nodeID + 2
  if nextRank > popcount f.louds then f.louds.length - 1 else selectGo f.loudsLut f.louds nextRank - 1

def vecOf (f : Flat) : String → Option String
  | "labels" => some (showKey f.labels)
  | "haschild" => some (showBits f.hasChild)
  | "louds" => some (showBits f.louds)
  | "hasprefix" => some (showBits f.hasPrefix)
  | "prefixes" => some (showKeys f.prefixes)
  | "prefixoffsets" => some (showNats (pathOffsets 0 f.prefixes))
  | "prefixdata" => some (showKey (pathData f.prefixes))
  | "hassuffix" => some (showBits f.hasSuffix)
  | "suffixes" => some (showKeys f.suffixes)
  | "suffixoffsets" => some (showNats (pathOffsets 0 f.suffixes))
  | "suffixdata" => some (showKey (pathData f.suffixes))
  | "values" => some (showNats f.values)
  | "ranklut" => some (showNats f.hasChildLut)
  | "selectlut" => some (showNats f.loudsLut)
  | "prefixlut" => some (showNats f.hasPrefixLut)
  | "suffixlut" => some (showNats f.hasSuffixLut)
  | _ => none

def likeCheck (mode : String) (k sub : Key) : Option Bool :=
  match mode with
  | "pre" => some (hasPrefix sub k)
  | "suf" => some (hasPrefix sub.reverse k.reverse)
  | "has" => some ((List.range (k.length + 1)).any (fun i => hasPrefix sub (k.drop i)))
  | _ => none

def step (st : St) (ws : List String) : St × String :=
  match ws with
  | ["consts"] =>
    (st, s!"labelTerminator={labelTerminator} wordSize={wordSize} rankSparseBlockSize={rankSparseBlockSize} selectSampleInterval={selectSampleInterval}")
  | "prebuild" :: ps =>
    -- an earlier Build + Write on the SAME builder, then Reset: only the buffers remain
    match ps.mapM parsePair with
    | none => (st, "bad-op")
    | some kvs =>
      match build kvs with
      | some t => ({ st with prev := TrieReuse.bufsAfter {} (encode t), prevArmed := true }, "ok")
      | none => (st, "panic")
  | "build" :: ps =>
    match ps.mapM parsePair with
    | none => (st, "bad-op")
    | some kvs =>
      let prev : TrieReuse.Bufs := if st.prevArmed then st.prev else {}
      match build kvs with
      | some t => ({ st with tree := some t, flat := some (encode t), prev := prev, prevArmed := false }, "ok")
      | none => ({ st with tree := none, flat := none, prev := prev, prevArmed := false }, "panic")
  | ["reload"] =>
    -- Write -> UnmarshalBinary on the byte-layout model: the reloaded vectors are the written ones
    withFlat st (fun f =>
      let w := TrieReuse.toWireReuse st.prev f
      let bytes := TrieWire.marshal w
      if bytes.length != TrieWire.marshalSize w then "marshal-size-mismatch"
      else if w != TrieWire.toWire f then "reuse-history-visible"
      else if TrieWire.unmarshal bytes == some w then "ok" else "unmarshal-mismatch")
  | ["bytes"] => withFlat st (fun f => showKey (TrieWire.marshal (TrieReuse.toWireReuse st.prev f)))
  | ["msize"] => withFlat st (fun f => toString (TrieWire.marshalSize (TrieWire.toWire f)))
  | ["umal", hex] =>
    match parseKey hex with
    | none => (st, "bad-op")
    | some bytes => (st, showRes (TrieWire.unmarshalR bytes))
  | ["umalt", m] =>
    match m.toNat? with
    | none => (st, "bad-op")
    | some m => withFlat st (fun f =>
        showRes (TrieWire.unmarshalR ((TrieWire.marshal (TrieReuse.toWireReuse st.prev f)).take m)))
  | ["umalf", p, x] =>
    match st.flat with
    | none => (st, "no-trie")
    | some f =>
      match imageVariant (TrieWire.marshal (TrieReuse.toWireReuse st.prev f)) ("f" ++ p ++ ":" ++ x) with
      | none => (st, "bad-op")
      | some bytes => (st, showRes (TrieWire.unmarshalR bytes))
  | "pinit" :: ps =>
    match ps.mapM parsePair with
    | none => (st, "bad-op")
    | some kvs =>
      match build kvs with
      | none => ({ st with obj := none }, "panic")
      | some t =>
        let w := TrieWire.toWire (encode t)
        -- a fresh object (all fields empty) loads the other dictionary
        let fresh : TrieWire.Wire :=
          { totalKeys := 0, height := 0, labels := [], hasChild := ⟨[], 0, []⟩, louds := ⟨[], 0, []⟩,
            pfx := ⟨⟨[], 0, []⟩, [], []⟩, sfx := ⟨⟨[], 0, []⟩, [], []⟩, values := [] }
        let r := TrieWire.unmarshalInto fresh (TrieWire.marshal w)
        match r.2 with
        | .ok _ => ({ st with obj := some r.1 }, "ok " ++ TrieWire.showWire r.1)
        | _ => ({ st with obj := none }, "rejected")
  | ["pload", v] =>
    match st.flat, st.obj with
    | none, _ => (st, "no-trie")
    | _, none => (st, "no-object")
    | some f, some o =>
      match imageVariant (TrieWire.marshal (TrieReuse.toWireReuse st.prev f)) v with
      | none => (st, "bad-op")
      | some bytes =>
        let r := TrieWire.unmarshalInto o bytes
        match r.2 with
        | .ok _ => ({ st with obj := some r.1 }, "ok " ++ TrieWire.showWire r.1)
        | _ => ({ st with obj := some r.1 }, "rejected")
  | ["dims"] =>
    withFlat st (fun f => s!"height={f.height} keys={f.values.length} labels={f.labels.length} nodes={f.hasPrefix.length}")
  | ["levels"] =>
    withTree st (fun t => " ".intercalate ((levelsOf t).map (fun l => s!"{l.labels.length}/{l.hasPrefix.length}/{l.values.length}")))
  | ["vec", name] =>
    match st.flat with
    | none => (st, "no-trie")
    | some f =>
      match vecOf f name with
      | some s => (st, s)
      | none => (st, "bad-op")
  | ["nav", n] =>
    match n.toNat? with
    | none => (st, "bad-op")
    | some nodeID =>
      withFlat st (fun f =>
        if nodeID < f.hasPrefix.length then
          let p := firstLabelPos f nodeID
          s!"first={p} size={nodeSize f p} last={lastLabelPos f nodeID} prefix={showKey (prefixOf f nodeID)}"
        else "out-of-range")
  | ["navpos", n] =>
    match n.toNat? with
    | none => (st, "bad-op")
    | some pos =>
      withFlat st (fun f =>
        if pos < f.labels.length then
          let e := if isEndOfNode f pos then 1 else 0
          if f.hasChild.getD pos false then s!"child={childNodeID f pos} end={e} suffix={showKey (suffixOf f pos)}"
          else s!"value={valuePos f pos} end={e} suffix={showKey (suffixOf f pos)}"
        else "out-of-range")
  | ["get", k] =>
    match parseKey k with
    | none => (st, "bad-op")
    | some key => withTree st (fun t => showOpt (getNode eon t key))
  | ["lget", k] =>
    match parseKey k with
    | none => (st, "bad-op")
    | some key => withFlat st (fun f => showOpt (loudsGet eon f key))
  | ["iter"] => withTree st (fun t => showPairs (iter t))
  | ["liter"] => withFlat st (fun f => showPairs (loudsIter f))
  | ["riter"] => withTree st (fun t => showPairs (iter t).reverse)
  | ["siter"] => withFlat st (fun f => showPairs (LoudsIter.iterAll f))
  | ["sriter"] => withFlat st (fun f => showPairs (LoudsIter.riterAll f))
  | ["sseek", k] =>
    match parseKey k with
    | none => (st, "bad-op")
    | some key => withFlat st (fun f =>
        let r := LoudsIter.seekFirst stepLB f key 3
        match r.2 with
        | [] => s!"fp={if r.1 then 1 else 0} invalid"
        | l => s!"fp={if r.1 then 1 else 0} " ++ showPairs l)
  | ["swalk", start, script] =>
    let ms? : Option (List LoudsIter.Mv) :=
      if script = "-" then some [] else
      script.toList.mapM (fun c => if c = 'N' then some LoudsIter.Mv.next else if c = 'P' then some LoudsIter.Mv.prev else none)
    let start? : Option (Flat → LoudsIter.It) :=
      if start = "first" then some LoudsIter.seekToFirst
      else if start = "last" then some LoudsIter.seekToLast
      else match start.splitOn ":" with
        | ["seek", k] => (parseKey k).map (fun key => fun f => (LoudsIter.seek stepLB f key).1)
        | _ => none
    match ms?, start? with
    | some ms, some mk =>
      withFlat st (fun f =>
        let it := mk f
        let showObs : Option KV → String := fun o => match o with | some kv => showPair kv | none => "x"
        " ".intercalate ((LoudsIter.obs f it :: LoudsIter.walk f it ms).map showObs))
    | _, _ => (st, "bad-op")
  | ["sprefix", k] =>
    match parseKey k with
    | none => (st, "bad-op")
    | some key => withFlat st (fun f => showPairs (LoudsIter.prefixAll stepLB f key))
  | ["seek", k] =>
    match parseKey k with
    | none => (st, "bad-op")
    | some key => withTree st (fun t => showSeek (seekCur stepLB t key))
  | ["seeklb", k] =>
    match parseKey k with
    | none => (st, "bad-op")
    | some key => withTree st (fun t => showSeek (false, seekLB t key))
  | ["prefix", k] =>
    match parseKey k with
    | none => (st, "bad-op")
    | some key => withTree st (fun t => showPairs (prefixIter stepLB t key))
  | "bv" :: blocks =>
    match blocks.mapM parseBits with
    | none => (st, "bad-op")
    | some bss =>
      let bs := bss.flatMap id
      ({ st with bv := bs }, s!"ok n={bs.length} ones={popcount bs}")
  | ["bvbits"] => (st, showBits st.bv)
  | ["bvranklut"] => (st, showNats (rankLut st.bv))
  | ["bvsellut"] => (st, showNats (selectLut st.bv))
  | ["rank", i] =>
    match i.toNat? with
    | some pos =>
      if pos < st.bv.length then
        -- over the words (popcountBlock); `louds_rankWords_eq_rank`
        (st, toString (C20Words.rankWords (rankLut st.bv) (C20Words.toWords st.bv 0) pos))
      else (st, "out-of-range")
    | none => (st, "bad-op")
  | ["select", i] =>
    match i.toNat? with
    | some k =>
      if 1 ≤ k ∧ k ≤ popcount st.bv then
        (st, toString (selectGo (selectLut st.bv) st.bv k))
      else (st, "out-of-range")
    | none => (st, "bad-op")
  | ["dist", i] =>
    match i.toNat? with
    | some pos =>
      -- over the words, statement by statement (`louds_distNextGo_eq_distNext`)
      if pos < st.bv.length then (st, toString (C20Words.distNextGo st.bv.length (C20Words.toWords st.bv 0) pos))
      else (st, "out-of-range")
    | none => (st, "bad-op")
  | ["sellut"] => (st, showNats (C20Words.selectInByteLut.flatMap id))
  | ["sel64", x, k] =>
    -- select64(x, k): x = 16 hex digits, most significant first; k one-based
    match parseHexChars x.toList, k.toNat? with
    | some bytes, some k =>
      if bytes.length ≠ 8 then (st, "bad-op") else
      let le := bytes.reverse
      if 1 ≤ k ∧ k ≤ popcount (le.flatMap C20Words.byteBits) then
        (st, toString (C20Words.select64Bytes le (k - 1)))
      else (st, "out-of-range")
    | _, _ => (st, "bad-op")
  | "bucket" :: bsz :: rest =>
    match bsz.toNat?, (splitBar rest).mapM (fun g => g.mapM parsePair) with
    | some blockSize, some groups =>
      if blockSize = 0 then (st, "bad-op") else
      -- `rest` starts with "|": the first group is empty
      let groups := groups.filter (fun g => !g.isEmpty)
      -- every flush goes through `TrieBucketBuilder.Write`'s own arithmetic (`writeBlocksGo`: block count,
      -- slice bounds; = `writeBlocks` by `builder_blocks_partition`)
      match (groups.mapM (fun g => writeBlocksGo blockSize g)).bind (fun bl => buildAll bl.flatten) with
      | some ts => ({ st with bucket := some ts, blockSize := blockSize }, s!"ok tries={ts.length}")
      | none => ({ st with bucket := none }, "panic")
    | _, _ => (st, "bad-op")
  | ["bsplit", bsz, n] =>
    -- sizes of the blocks `TrieBucketBuilder(blockSize).Write` cuts n (sorted) keys into, in written order
    match bsz.toNat?, n.toNat? with
    | some blockSize, some n =>
      if blockSize = 0 then (st, "panic") else
      match blocksLoop blockSize (List.replicate n ([], 0)) (numBlocksGo n blockSize) 0 with
      | some bl => (st, showNats (bl.map List.length))
      | none => (st, "panic")
    | _, _ => (st, "bad-op")
  | ["bget", k] =>
    match parseKey k with
    | none => (st, "bad-op")
    | some key => withBucket st (fun ts => showOpt (bucketGet eon ts key))
  | ["bvalues"] =>
    withBucket st (fun ts => showNats (sortNats ((ts.flatMap (fun t => iter t)).map (·.2))))
  | ["bpairs"] =>
    withBucket st (fun ts => showPairs (sortPairsByKey (bucketPrefix stepLB ts [])))
  | ["bsizes"] =>
    withBucket st (fun ts => showNats (sortNats (ts.map trieSize)))
  | ["bsuggest", k, lim] =>
    match parseKey k, lim.toNat? with
    | some key, some limit =>
      withBucket st (fun ts => showKeys (bucketSuggest stepLB ts key limit))
    | _, _ => (st, "bad-op")
  | ["blike", p, mode, sub] =>
    match parseKey p, parseKey sub with
    | some pre, some subKey =>
      match likeCheck mode [] subKey with
      | none => (st, "bad-op")
      | some _ =>
        withBucket st (fun ts =>
          showNats (sortNats (((bucketPrefix stepLB ts pre).filter (fun kv => (likeCheck mode kv.1 subKey).getD false)).map (·.2))))
    | _, _ => (st, "bad-op")
  | ["blikepat", pat] =>
    match parseKey pat with
    | none => (st, "bad-op")
    | some like => withBucket st (fun ts => showNats (sortNats (bucketLike eon stepLB ts like)))
  | "bcollect" :: vs =>
    -- `TrieBucket.CollectKVs(values, result)` with the wanted values `vs` (a set) and an empty result map
    match vs.mapM (fun x => x.toNat?) with
    | none => (st, "bad-op")
    | some vals =>
      withBucket st (fun ts =>
        showPairs (sortPairsByKey ((collectTries stepLB ts vals.eraseDups []).map (fun vk => (vk.2, vk.1)))))
  | ["bframes"] =>
    -- the framed value(s) of the current bucket: per trie `[u32 MarshalSize][image]`; the model frames its own
    -- tries, runs `TrieBucket.Unmarshal`'s loop over the result and answers count + frame digests (sorted)
    withBucket st (fun ts =>
      let ws := ts.map (fun t => TrieWire.toWire (encode t))
      match BucketWire.bucketUnmarshal [] (BucketWire.bucketBytes ws) with
      | .ok es =>
        if es == ws.map (fun w => (⟨w, BucketWire.frame w⟩ : BucketWire.Entry)) then
          s!"ok n={ws.length} d={showNats (sortNats (ws.map (fun w => TrieWire.digest (BucketWire.frame w))))}"
        else "reload-mismatch"
      | .err _ => "rejected"
      | .panic => "rejected")
  | ["bumal", hex] =>
    -- `TrieBucket.Unmarshal` on arbitrary (damaged) bytes, fresh object
    match parseKey hex with
    | none => (st, "bad-op")
    | some bytes =>
      match BucketWire.bucketUnmarshal [] bytes with
      | .ok es => (st, s!"ok n={es.length} d={showNats (es.map (fun e => TrieWire.digest e.buf))}")
      | .err _ => (st, "rejected")
      | .panic => (st, "rejected")
  | ["bmerge", bsz] =>
    match bsz.toNat?, st.bucket with
    | none, _ => (st, "bad-op")
    | some 0, _ => (st, "bad-op")
    | _, none => (st, "no-bucket")
    | some blockSize, some ts =>
      match mergeTries stepLB blockSize ts with
      | some r => ({ st with bucket := some r }, s!"ok tries={r.length}")
      | none => ({ st with bucket := none }, "panic")
  | _ => (st, "bad-op")

def main (_args : List String) : IO Unit := Proto.runLoop ({} : St) step

end LinVerif.Driver.C20
