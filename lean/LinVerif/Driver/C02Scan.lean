/-
Line-protocol driver for the table-scan model (Model/TableScan.lean), area `tablescan`.

  reset                    new case
  table <f> k:t,t k:t ..   table file f exists with these entries (key order; written by a flush / compaction)
  open <i> <f>             scan i: reader(f).Iterator()
  has <i>                  HasNext()                         -> 1 | 0
  key <i>                  Key()                             -> k=<key>
  val <i>                  Value()                           -> v=<tokens>
  next <i>                 HasNext(); Key(); Value()         -> k=<key> v=<tokens> | end
Unknown / ill-formed / not enabled lines answer `bad-op`. The variant (one iterator object per Iterator() call or one
per reader) is the regenerated fact `Generated.C02.iteratorFreshPerCall`.
-/
import LinVerif.Util.Proto
import LinVerif.Model.TableScan
import LinVerif.Generated.C02

namespace LinVerif.Driver.C02Scan
open LinVerif LinVerif.TableScan

def cfg : Cfg := { shared := !Generated.C02.iteratorFreshPerCall }

def commaNat (l : List Nat) : String := ",".intercalate (l.map toString)

def parseEntry (w : String) : Option (Nat × List Nat) :=
  match w.splitOn ":" with
  | [k, ts] => do
    let k ← k.toNat?
    let ts ← (ts.splitOn ",").mapM String.toNat?
    some (k, ts)
  | _ => none

def stepLine (s : St) (ws : List String) : St × String :=
  match ws with
  | ["reset"] => (St.init (fun _ => []), "ok")
  | "table" :: f :: ents =>
    match f.toNat?, ents.mapM parseEntry with
    | some f, some es => ({ s with content := fun g => if g = f then es else s.content g }, "ok")
    | _, _ => (s, "bad-op")
  | ["open", i, f] =>
    match i.toNat?, f.toNat? with
    | some i, some f =>
      match step cfg s (.openScan i f) with
      | some s' => (s', "ok")
      | none => (s, "bad-op")
    | _, _ => (s, "bad-op")
  | ["has", i] =>
    match i.toNat? with
    | some i => if (s.h i).isSome then (s, if hasNext s i then "1" else "0") else (s, "bad-op")
    | none => (s, "bad-op")
  | ["key", i] =>
    match i.toNat? with
    | some i =>
      match step cfg s (.key i) with
      | some s' => match (s'.keys i).getLast? with
        | some k => (s', s!"k={k}")
        | none => (s, "bad-op")
      | none => (s, "bad-op")
    | none => (s, "bad-op")
  | ["val", i] =>
    match i.toNat? with
    | some i =>
      match step cfg s (.value i) with
      | some s' => match (s'.vals i).getLast? with
        | some v => (s', s!"v={commaNat v}")
        | none => (s, "bad-op")
      | none => (s, "bad-op")
    | none => (s, "bad-op")
  | ["next", i] =>
    match i.toNat? with
    | some i =>
      if (s.h i).isNone then (s, "bad-op") else
      if hasNext s i then
        match nextEntry cfg s i with
        | some (s', k, v) => (s', s!"k={k} v={commaNat v}")
        | none => (s, "bad-op")
      else (s, "end")
    | none => (s, "bad-op")
  | _ => (s, "bad-op")

def main (_args : List String) : IO Unit :=
  Proto.runLoop (St.init (fun _ => [])) stepLine

end LinVerif.Driver.C02Scan
