/-
Line-protocol driver for the C12 model (merge of partial query results above the leaf).

  new <id> <n>                         context `id` := MetricContext whose plan has n targets
  newp <id> <k1> <k2> ..              context `id` := RootMetricContext.MakePlan over physical plans with k1, k2, .. targets
  calc <ivs,..> <start> <end> <interval> <auto>   calcTimeRangeAndInterval: `plan <start> <end> <interval> <storage> <ratio>`
  recalc <ivs,..> <start> <end> <interval> <auto> <storage> <ratio>   the intermediate's MakePlan on the root's statement
  next-stages <hk>:<low>,.. ..         shardScanStage.NextStages over a filtered bitmap: `stages <hk>:<lows> ..`
  resp <id> nf | er | bad              deliver a not-found / other-error / undecodable response
  resp <id> ok <cap> <payload>         deliver a data response
  complete <id> ok|er                  baseTaskContext.Complete(nil | err) (the search pipeline's completion callback)
  emit <id>                            IntermediateMetricContext.makeTaskResponse
  leaf <r> <cap> <payload>             leaf reduce over the grouped iterators (the `t:` items, in
                                       reduce order) + BuildResultSet for r receivers
  result <id> all=<0|1> limit=<n> sel=<fn>:<field>,.. ord=<fn>:<field>:<0|1>,.. [hav=<op>:<thr>]
  plan-shape <live> <n>                flow.BuildPhysicalPlan: number of targets / executors / distinctness
  route <n> <shard>:<hash> ...         row routing (see Routing below)
  tm-add <id> | tm-remove <id>         TaskManager.AddTask / RemoveTask for context `id`'s request
  tm-recv <id> nf|er|bad|ok ..         TaskManager.Receive: `delivered <state>` or `dropped <state>`
  families <id>:<ts>:<fam> ...         the family iterator over one shard group (rows in batch order;
                                       fam = CalcFamilyTime(ts), computed by the real calculator)
  lc-new <k> <holes>                   a leaf's grouping context for k group-by keys; holes = `-` or
                                       <key>:<id>,.. = ids the node's dictionary has no value for
  lc-fork | lc-ids <id>,..  | lc-complete <-|failing key> | lc-send | lc-tr <id>,..
                                       ForkGroupingTask / NewSeriesAggregator's id collection /
                                       CompleteGroupingTask / SendResponse(nil) / getTagValues
                                       state line: pend= rem= closed= ans= ids= maps=
  li-new <k> <holes> | li-spawn | li-ids <id>,.. | li-dec | li-load | li-body <-|failing key> | li-send
                                       the same protocol step by atomic step (Dec / Load / body of a
                                       completion are separate): state line + ndec= nload0=

  <payload> := (s:<field>:<ftype>:<fn>,<fn>.. | h:<tags>=<hash> | t:<tags> | f:<field>:<ftype>
               | p:<kind>:<slot>=<v>,<slot>=<v>..)*       ("-" = empty list / empty tags)

State line after `new`/`resp`:  exp=<n> tol=<n> err=<-|nf|er> agg=<0|1> done=<0|1>
-/
import LinVerif.Util.Proto
import LinVerif.Model.RootMerge
import LinVerif.Model.LeafCollect
import LinVerif.Model.RowRoute
import LinVerif.Model.TaskMgr
import LinVerif.Model.C12LeafFilter
import LinVerif.Model.C12FieldWire
import LinVerif.Model.C12Plans
import LinVerif.Model.C12LeafGlue
import LinVerif.Model.C12TimePlan
import LinVerif.Generated.C12

namespace LinVerif.Driver.C12
open LinVerif LinVerif.RootMerge

structure DSt where
  ctxs : List (Nat × Ctx) := []
  tags : List String := []      -- interned group tags
  names : List String := []     -- interned field names
  tmReg : List Nat := []                     -- context ids registered with the task manager
  li : Option LeafCollect.GI := none         -- the same at the granularity of atomic steps
  lc : Option LeafCollect.G := none          -- the leaf grouping context of the current case
  lcHoles : List (Nat × Nat) := []           -- (key index, tag value id) without a dictionary value

def internIdx (l : List String) (s : String) : List String × Nat :=
  match l.idxOf? s with
  | some i => (l, i)
  | none => (l ++ [s], l.length)

def variant : Variant :=
  ⟨Generated.C12.mergesLaterSpecs, Generated.C12.crossFeeds, Generated.C12.crossFeedFallback⟩

def getCtx (st : DSt) (id : Nat) : Option Ctx := (st.ctxs.find? (fun p => p.1 == id)).map Prod.snd
def putCtx (st : DSt) (id : Nat) (c : Ctx) : DSt :=
  { st with ctxs := (id, c) :: st.ctxs.filter (fun p => p.1 != id) }

def showState (c : Ctx) : String :=
  let e := match c.err with | none => "-" | some .notFound => "nf" | some .other => "er"
  s!"exp={c.expect} tol={c.tolerant} err={e} agg={if c.agg.isSome then 1 else 0} done={if c.done then 1 else 0}"

/-! parsing -/

def parsePts (s : String) : Option (List (Nat × Int)) :=
  if s = "-" then some [] else
  (s.splitOn ",").mapM (fun kv =>
    match kv.splitOn "=" with
    | [a, b] => do let x ← a.toNat?; let y ← b.toInt?; some (x, y)
    | _ => none)

def parseFns (s : String) : Option (List Nat) :=
  if s = "-" then some [] else (s.splitOn ",").mapM String.toNat?

structure Parsed where
  specs : List Spec := []
  hashes : List (Nat × Nat) := []
  series : List TS := []       -- reversed while parsing
  ok : Bool := true

def tagOf (w : String) : String := if w = "-" then "" else w

/-- folds the payload tokens; interning happens on the fly -/
def parseTok (acc : DSt × Parsed) (w : String) : DSt × Parsed :=
  let (st, p) := acc
  if !p.ok then acc else
  match w.splitOn ":" with
  | ["s", n, ft, fns] =>
    match ft.toNat?, parseFns fns with
    | some ft, some fl =>
      let (names, i) := internIdx st.names n
      ({ st with names := names }, { p with specs := p.specs ++ [{ name := i, ftype := ft, funcs := fl }] })
    | _, _ => (st, { p with ok := false })
  | ["h", kv] =>
    match kv.splitOn "=" with
    | [t, hv] =>
      match hv.toNat? with
      | some hv =>
        let (tags, i) := internIdx st.tags (tagOf t)
        ({ st with tags := tags }, { p with hashes := (i, hv) :: p.hashes })
      | none => (st, { p with ok := false })
    | _ => (st, { p with ok := false })
  | ["t", t] =>
    let (tags, i) := internIdx st.tags (tagOf t)
    ({ st with tags := tags }, { p with series := { tags := i, fields := [] } :: p.series })
  | ["f", n, ft] =>
    match ft.toNat?, p.series with
    | some ft, ts :: rest =>
      let (names, i) := internIdx st.names n
      ({ st with names := names },
       { p with series := { ts with fields := ts.fields ++ [{ name := i, ftype := ft, prims := [] }] } :: rest })
    | _, _ => (st, { p with ok := false })
  | ["p", k, pts] =>
    match k.toNat?, parsePts pts, p.series with
    | some k, some pl, ts :: rest =>
      match ts.fields.reverse with
      | fd :: fr =>
        let fd' := { fd with prims := fd.prims ++ [{ kind := k, pts := pl }] }
        (st, { p with series := { ts with fields := (fd' :: fr).reverse } :: rest })
      | [] => (st, { p with ok := false })
    | _, _, _ => (st, { p with ok := false })
  | _ => (st, { p with ok := false })

def distinctNames (specs : List Spec) : Bool := (specs.map (·.name)).eraseDups.length == specs.length

def parsePayload (st : DSt) (ws : List String) : Option (DSt × Parsed) :=
  let (st', p) := ws.foldl parseTok (st, {})
  if p.ok && distinctNames p.specs then some (st', { p with series := p.series.reverse }) else none

/-! printing (canonical: specs / groups / fields sorted by their strings) -/

def sortStr (l : List (String × String)) : List (String × String) :=
  (l.toArray.qsort (fun a b => a.1 < b.1)).toList

def nameOf (st : DSt) (i : Nat) : String := st.names.getD i "?"
def tagStr (st : DSt) (i : Nat) : String := let s := st.tags.getD i "?"; if s = "" then "-" else s

def showPts (pts : List (Nat × Int)) : String :=
  if pts.isEmpty then "-" else ",".intercalate (pts.map (fun sv => s!"{sv.1}={sv.2}"))

def showSpec (st : DSt) (sp : Spec) : String × String :=
  let fns := if sp.funcs.isEmpty then "-" else ",".intercalate ((sp.funcs.toArray.qsort (· < ·)).toList.map toString)
  (nameOf st sp.name, s!"s:{nameOf st sp.name}:{sp.ftype}:{fns}")

def showField (st : DSt) (fd : FieldData) : String × String :=
  let ps := fd.prims.map (fun p => s!"p:{p.kind}:{showPts p.pts}")
  (nameOf st fd.name, " ".intercalate (s!"f:{nameOf st fd.name}:{fd.ftype}" :: ps))

def showTS (st : DSt) (ts : TS) : String × String :=
  (st.tags.getD ts.tags "?",
   " ".intercalate (s!"t:{tagStr st ts.tags}" :: (sortStr (ts.fields.map (showField st))).map Prod.snd))

def showPayload (st : DSt) (p : Payload) : String :=
  " ".intercalate ([s!"ok {p.cap}"] ++ (sortStr (p.specs.map (showSpec st))).map Prod.snd
    ++ (sortStr (p.series.map (showTS st))).map Prod.snd)

def showResp (st : DSt) : Resp → String
  | .ok p => showPayload st p
  | .notFound => "nf"
  | .error => "er"
  | .bad => "er"

def fnName : Nat → String
  | 1 => "sum" | 2 => "min" | 3 => "max" | 4 => "count" | 6 => "last" | 7 => "first" | _ => "?"

def itemName (st : DSt) (it : SelItem) : String :=
  if it.fn = 0 then nameOf st it.field else s!"{fnName it.fn}({nameOf st it.field})"

def showRow (st : DSt) (items : List SelItem) (r : Row) : String × String :=
  let cols := (items.zip r.vals).filterMap (fun (it, v) =>
    match v with
    | some pts => if pts.isEmpty then none else
        some (itemName st it, s!"{itemName st it}=" ++ ",".intercalate (pts.map (fun sv => s!"{sv.1}:{sv.2}")))
    | none => none)
  (st.tags.getD r.tags "?", " ".intercalate (tagStr st r.tags :: (sortStr cols).map Prod.snd))

/-! result -/

def supportedFn (fn : Nat) : Bool := fn == 0 || fn == 1 || fn == 2 || fn == 3 || fn == 4 || fn == 6 || fn == 7

def parseSel (st : DSt) (s : String) : Option (List SelItem) :=
  if s = "-" then some [] else
  (s.splitOn ",").mapM (fun w =>
    match w.splitOn ":" with
    | [fn, n] => do
      let fn ← fn.toNat?
      if !supportedFn fn then none
      let i ← st.names.idxOf? n
      some { fn := fn, field := i }
    | _ => none)

/-- `buildOrderBy`: none = "cannot parse order by function" -/
def resolveOrd (c : Ctx) (items : List SelItem) (fn field : Nat) (desc : Bool) : Option OrdItem :=
  let sel := items.findIdx? (fun it => it.fn == 0 && it.field == field)
  if fn = 0 then
    match c.allSpecs.find? (fun sp => sp.name == field) with
    | some sp => some { fn := orderByFunc sp.ftype, desc := desc, sel := sel }
    | none => none
  else some { fn := fn, desc := desc, sel := sel }

/-- a name that was never interned cannot be a result key or a spec'd field: index past the table -/
def nameIdx (st : DSt) (n : String) : Nat := (st.names.idxOf? n).getD st.names.length

def parseOrd (st : DSt) (s : String) : Option (List (Nat × Nat × Bool)) :=
  if s = "-" then some [] else
  (s.splitOn ",").mapM (fun w =>
    match w.splitOn ":" with
    | [fn, n, d] => do
      let fn ← fn.toNat?
      if !supportedFn fn then none
      let d ← d.toNat?
      some (fn, nameIdx st n, d != 0)
    | _ => none)

def kv (w key : String) : Option String :=
  if w.startsWith (key ++ "=") then some (w.drop (key.length + 1)).toString else none

def tiesIn (ords : List OrdItem) (rows : List Row) : Bool :=
  rows.any (fun a => rows.any (fun b => a.tags != b.tags && !rowLess ords a b && !rowLess ords b a))

def parseHaving (s : String) : Option (Option Having) :=
  if s = "-" then some none else
  match s.splitOn ":" with
  | [o, t] => do
    let o ← o.toNat?
    let t ← t.toInt?
    if o = 0 || o > 4 then none
    some (some { op := o, thr := t })
  | _ => none

def doResult (st : DSt) (c : Ctx) (all : Bool) (limit : Nat) (selS ordS : String)
    (having : Option Having := none) : String :=
  if !c.done then "pending" else
  match c.err with
  | some .notFound => "err nf"
  | some .other => "err er"
  | none =>
    match c.agg with
    | none => "rows"
    | some a =>
      let items? : Option (List SelItem) :=
        if all then some (a.seen.map (fun f => { fn := 0, field := f })) else parseSel st selS
      match items?, parseOrd st ordS with
      | some items, some ordRaw =>
        match ordRaw.mapM (fun (fn, f, d) => resolveOrd c items fn f d) with
        | none => "err er"
        | some ords =>
          let full := a.keys.map (a.row c.hdrCap items)
          let orderDependent := limit < full.length && (ords.isEmpty || tiesIn ords full)
          if having.isSome && items.length != 1 then "bad-op" else
          let rows := havingRows having (a.resultRows c.hdrCap items ords limit a.keys)
          if orderDependent then s!"count {rows.length}"
          else " | ".intercalate ("rows" :: (sortStr (rows.map (showRow st items))).map Prod.snd)
      | _, _ => "bad-op"

/-! routing: `route <n> <id>:<hash> ... j:<hash>=<shard> ...` — rows `(id, KvsHash)` and the jump
hash of every hash for `n` shards (parameter table); answers the groups the shard iterator hands out. -/

def doRoute (ws : List String) : String :=
  match ws with
  | n :: rest =>
    let (jt, rowsW) := rest.partition (fun w => w.startsWith "j:")
    let rows? := rowsW.mapM (fun w => match w.splitOn ":" with
        | [a, b] => do let x ← a.toNat?; let y ← b.toNat?; some (x, y)
        | _ => none)
    let tab? := jt.mapM (fun w => match (w.drop 2).toString.splitOn "=" with
        | [a, b] => do let x ← a.toNat?; let y ← b.toNat?; some (x, y)
        | _ => none)
    match n.toNat?, rows?, tab? with
    | some n, some rows, some tab =>
      if rows.any (fun r => !tab.any (fun q => q.1 == r.2)) then "bad-op" else
      let jump : Nat → Nat := fun h => ((tab.find? (fun q => q.1 == h)).map Prod.snd).getD 0
      let gs := routeGroups jump n rows
      " ".intercalate (gs.map (fun g =>
        s!"{g.1}:" ++ ",".intercalate ((g.2.toArray.qsort (· < ·)).toList.map toString)))
    | _, _, _ => "bad-op"
  | _ => "bad-op"

/-! plan: `plan all=<0|1> sel=<fn>:<field>,.. schema=none|-|<field>:<ftype>,..` -/

def internAll (st : DSt) (ns : List String) : DSt × List Nat :=
  ns.foldl (fun (acc : DSt × List Nat) n =>
    let (names, i) := internIdx acc.1.names n
    ({ acc.1 with names := names }, acc.2 ++ [i])) (st, [])

def doPlan (st : DSt) (all : Bool) (selS schemaS : String) : DSt × String :=
  let selRaw? : Option (List (Nat × String)) :=
    if selS = "-" then some [] else
    (selS.splitOn ",").mapM (fun w => match w.splitOn ":" with
      | [fn, n] => do let fn ← fn.toNat?; some (fn, n)
      | _ => none)
  let schRaw? : Option (Option (List (String × Nat))) :=
    if schemaS = "none" then some none
    else if schemaS = "-" then some (some [])
    else match (schemaS.splitOn ",").mapM (fun (w : String) => match w.splitOn ":" with
      | [n, ft] => (ft.toNat?).map (fun (x : Nat) => (n, x))
      | _ => none) with
      | some l => some (some l)
      | none => none
  match selRaw?, schRaw? with
  | some selRaw, some schRaw =>
    let (st1, selIdx) := internAll st (selRaw.map Prod.snd)
    let items : List SelItem := (selRaw.zip selIdx).map (fun (p, i) => { fn := p.1, field := i })
    let (st2, schema) : DSt × Option (List (FName × Nat)) := match schRaw with
      | none => (st1, none)
      | some l => let (s2, idx) := internAll st1 (l.map Prod.fst); (s2, some (idx.zip (l.map Prod.snd)))
    match leafPlan schema (if all then none else some items) with
    | .error .notFound => (st2, "nf")
    | .error .other => (st2, "er")
    | .ok specs => (st2, " ".intercalate ("specs" :: (sortStr (specs.map (showSpec st2))).map Prod.snd))
  | _, _ => (st, "bad-op")

/-! the task manager in front of a context (Model/TaskMgr.lean) -/

def parseResp (st : DSt) (kind : String) (rest : List String) : Option (DSt × Resp) :=
  match kind, rest with
  | "nf", [] => some (st, .notFound)
  | "er", [] => some (st, .error)
  | "bad", [] => some (st, .bad)
  | "ok", cap :: toks =>
    match cap.toNat?, parsePayload st toks with
    | some cap, some (st', p) => some (st', .ok { cap := cap, specs := p.specs, series := p.series })
    | _, _ => none
  | _, _ => none

def stepTm (st : DSt) (ws : List String) : DSt × String :=
  match ws with
  | ["tm-add", id] =>
    match id.toNat? with
    | some id => ({ st with tmReg := id :: st.tmReg.filter (· != id) }, "ok")
    | none => (st, "bad-op")
  | ["tm-remove", id] =>
    match id.toNat? with
    | some id => ({ st with tmReg := st.tmReg.filter (· != id) }, "ok")
    | none => (st, "bad-op")
  | "tm-recv" :: id :: kind :: rest =>
    match id.toNat? with
    | none => (st, "bad-op")
    | some id =>
      match getCtx st id, parseResp st kind rest with
      | some c, some (st', r) =>
        let s0 : TaskMgr.S := { registered := st.tmReg.contains id, ctx := c, dropped := 0 }
        let s1 := s0.step Generated.C12.completeKeepsError variant (.recv r)
        (putCtx st' id s1.ctx, (if s1.dropped == 0 then "delivered " else "dropped ") ++ showState s1.ctx)
      | _, _ => (st, "bad-op")
  | _ => (st, "bad-op")

/-! the leaf's grouping-collect protocol (Model/LeafCollect.lean) -/

/-- which condition guards the wait in waitCollectGroupingTagsCompleted, from the regenerated fact -/
def currentWait : LeafCollect.WaitOn :=
  if Generated.C12.leafWaitCond = "ctx.StorageExecuteCtx.Query.HasGroupBy()" then .hasGroupBy else .hasIDs

def insNat (x : Nat) : List Nat → List Nat
  | [] => [x]
  | y :: ys => if x ≤ y then x :: y :: ys else y :: insNat x ys

def sortNat (l : List Nat) : List Nat := l.foldr insNat []

def showNats (l : List Nat) : String :=
  if l.isEmpty then "-" else ".".intercalate ((sortNat l).map toString)

def showLc (g : LeafCollect.G) : String :=
  let a := match g.answer with
    | none => "-" | some .ok => "ok" | some .collectErr => "cerr" | some .deadline => "deadline"
  let ids := if g.ids.isEmpty then "-" else ";".intercalate (g.ids.map showNats)
  let maps := if g.maps.isEmpty then "-" else
    ";".intercalate (g.maps.map (fun m => match m with | none => "nil" | some l => showNats l))
  s!"pend={g.pending} rem={g.remaining} closed={g.closes} ans={a} ids={ids} maps={maps}"

def parseNats (s : String) : Option (List Nat) :=
  if s = "-" then some [] else (s.splitOn ",").mapM String.toNat?

def lcKnown (st : DSt) : Nat → Nat → Bool := fun k v => !(st.lcHoles.contains (k, v))

def stepLc (st : DSt) (ws : List String) : DSt × String :=
  match ws with
  | ["lc-new", k, holes] =>
    let hs? : Option (List (Nat × Nat)) :=
      if holes = "-" then some [] else
      (holes.splitOn ",").mapM (fun w => match w.splitOn ":" with
        | [a, b] => do let x ← a.toNat?; let y ← b.toNat?; some (x, y)
        | _ => none)
    match k.toNat?, hs? with
    | some k, some hs =>
      let g := LeafCollect.G.new k
      ({ st with lc := some g, lcHoles := hs }, showLc g)
    | _, _ => (st, "bad-op")
  | ["lc-fork"] =>
    match st.lc with
    | some g => let g' := g.fork; ({ st with lc := some g' }, showLc g')
    | none => (st, "bad-op")
  | ["lc-ids", vs] =>
    match st.lc, parseNats vs with
    | some g, some vs =>
      if vs.length != g.nkeys || g.nkeys == 0 then (st, "bad-op") else
      let g' := g.addIDs vs; ({ st with lc := some g' }, showLc g')
    | _, _ => (st, "bad-op")
  | ["lc-complete", f] =>
    let f? : Option (Option Nat) := if f = "-" then some none else (f.toNat?).map some
    match st.lc, f? with
    | some g, some f => let g' := g.complete (lcKnown st) f; ({ st with lc := some g' }, showLc g')
    | _, _ => (st, "bad-op")
  | ["lc-send"] =>
    match st.lc with
    | some g => let g' := g.send currentWait; ({ st with lc := some g' }, showLc g')
    | none => (st, "bad-op")
  | ["lc-tr", vs] =>
    match st.lc, parseNats vs with
    | some g, some vs =>
      if vs.length != g.nkeys || g.nkeys == 0 then (st, "bad-op") else
      let (g', out) := g.translate vs
      ({ st with lc := some g' },
        ",".intercalate (out.map (fun o => match o with | some v => toString v | none => "nf")))
    | _, _ => (st, "bad-op")
  | _ => (st, "bad-op")

/-- the rows of one shard group through BrokerBatchShardFamilyIterator (Model/RowRoute.lean) -/
def doFamilies (toks : List String) : String :=
  let parsed? : Option (List (Nat × Nat × Nat)) := toks.mapM (fun w => match w.splitOn ":" with
    | [a, b, c] => do let x ← a.toNat?; let y ← b.toNat?; let z ← c.toNat?; some (x, y, z)
    | _ => none)
  match parsed? with
  | none => "bad-op"
  | some ps =>
    if ps.isEmpty then "bad-op" else
    let fam : Nat → Nat := fun t => ((ps.find? (fun p => p.2.1 == t)).map (fun p => p.2.2)).getD 0
    let groups := RowRoute.familyGroups fam (ps.map (fun p => (p.1, p.2.1)))
    " ".intercalate (groups.map (fun g => s!"{g.1}:{",".intercalate ((sortNat (g.2.map Prod.fst)).map toString)}"))

def showLi (s : LeafCollect.GI) : String := s!"{showLc s.g} ndec={s.ndec} nload0={s.nload0}"

def stepLi (st : DSt) (ws : List String) : DSt × String :=
  let ev? : Option LeafCollect.EvI := match ws with
    | ["li-spawn"] => some .spawn
    | ["li-ids", vs] => (parseNats vs).map .ids
    | ["li-dec"] => some .dec
    | ["li-load"] => some .load
    | ["li-body", f] => if f = "-" then some (.body none) else (f.toNat?).map (fun x => .body (some x))
    | ["li-send"] => some .send
    | _ => none
  match ws with
  | ["li-new", k, holes] =>
    let hs? : Option (List (Nat × Nat)) :=
      if holes = "-" then some [] else
      (holes.splitOn ",").mapM (fun w => match w.splitOn ":" with
        | [a, b] => do let x ← a.toNat?; let y ← b.toNat?; some (x, y)
        | _ => none)
    match k.toNat?, hs? with
    | some k, some hs =>
      let s := LeafCollect.GI.new k
      ({ st with li := some s, lcHoles := hs }, showLi s)
    | _, _ => (st, "bad-op")
  | _ =>
    match st.li, ev? with
    | some s, some e =>
      let wellFormed := match e with
        | .ids vs => vs.length == s.g.nkeys && s.g.nkeys != 0
        | _ => true
      if !wellFormed then (st, "bad-op") else
      let s' := s.step (lcKnown st) currentWait e
      ({ st with li := some s' }, showLi s')
    | _, _ => (st, "bad-op")

/-! ### `filter`: one node's where-clause path (Model/C12LeafFilter.lean) -/

open C12LeafFilter in
/-- one RPN token of a condition; tag keys are numbered by `keyIdx` -/
def condTok (keyIdx : String → Nat) (stack : List (Cond Pat)) (t : String) : Option (List (Cond Pat)) :=
  match t.splitOn ":", stack with
  | ["eq", k, v], st => some (.atom ⟨keyIdx k, .eq v⟩ :: st)
  | ["in", k, vs], st => some (.atom ⟨keyIdx k, .isIn (vs.splitOn ";")⟩ :: st)
  | ["like", k, p], st => some (.atom ⟨keyIdx k, .like p⟩ :: st)
  | ["not"], c :: st => some (.not c :: st)
  | ["par"], c :: st => some (.paren c :: st)
  | ["and"], r :: l :: st => some (.and l r :: st)
  | ["or"], r :: l :: st => some (.or l r :: st)
  | _, _ => none

open C12LeafFilter in
def parseCond (keyIdx : String → Nat) (s : String) : Option (Cond Pat) :=
  match (s.splitOn "/").foldl (fun acc t => acc.bind (fun st => condTok keyIdx st t)) (some []) with
  | some [c] => some c
  | _ => none

open C12LeafFilter in
/-- `id/v0/v1/…`: the series' values for the metric's tag keys, by position (`~`: the series does
not carry that tag key) -/
def parseSeries (s : String) : Option (Series String) :=
  match s.splitOn "/" with
  | id :: vals =>
    match id.toNat? with
    | some id => some ⟨id, ((List.range vals.length).zip vals).filter (fun p => p.2 != "~")⟩
    | none => none
  | [] => none

open C12LeafFilter in
def parseShard (t : String) : Option (Shard String) :=
  match kv t "sh" with
  | none => none
  | some "-" => some []
  | some body => (body.splitOn ";").foldr (fun x acc => match parseSeries x, acc with
      | some s, some l => some (s :: l) | _, _ => none) (some [])

open C12LeafFilter in
/-- `filter <rpn> tk=<k0,k1,…> keys=<the node's schema keys | none> sh=… sh=…`. Tag key ids are the
positions in `tk` (the order every node creates them in, from 0); a key no schema has gets the next
number. `keys=none`: the node never saw the metric (`metadataLookup` fails before the lookup). -/
def doFilter (ws : List String) : String :=
  match ws with
  | cond :: tk :: keys :: shards =>
    match kv tk "tk", kv keys "keys" with
    | some tk, some keys =>
      let names := tk.splitOn ","
      let keyIdx : String → Nat := fun k => (names.idxOf? k).getD names.length
      match parseCond keyIdx cond, shards.foldr (fun x acc => match parseShard x, acc with
          | some s, some l => some (s :: l) | _, _ => none) (some []) with
      | some c, some node =>
        if keys == "none" then "nf-metric" else
        let ks := (keys.splitOn ",").filterMap (fun k => names.idxOf? k)
        match nodeFilter Generated.C12.lookupFailFast Pat.accept ks node c with
        | .error .tagKeyNotFound => "nf-key"
        | .error .tagValueNotFound => "nf-val"
        | .ok perShard => "ids " ++ "|".intercalate (perShard.map (fun ids =>
            if ids.isEmpty then "-" else ",".intercalate ((sortNat ids.eraseDups).map toString)))
      | _, _ => "bad-op"
    | _, _ => "bad-op"
  | _ => "bad-op"

/-- where `fieldIterator.MarshalBinary` declares its running slot index (read from the source):
every payload a node sends is shown as the receiver decodes it (Model/C12FieldWire.lean) -/
def wireResetIdx : Bool := decide (Generated.C12.fieldMarshalIdxDepth = 1)

def overWire : Resp → Resp
  | .ok p => .ok (C12FieldWire.wirePayload wireResetIdx p)
  | r => r

def step (st : DSt) (ws : List String) : DSt × String :=
  match ws with
  | ["plan", a, s, sc] =>
    match kv a "all", kv s "sel", kv sc "schema" with
    | some a, some s, some sc =>
      match a.toNat? with
      | some a => doPlan st (a != 0) s sc
      | none => (st, "bad-op")
    | _, _, _ => (st, "bad-op")
  | ["new", id, n] =>
    match id.toNat?, n.toNat? with
    | some id, some n => let c := Ctx.new n; (putCtx st id c, showState c)
    | _, _ => (st, "bad-op")
  | ["calc", ivs, a, b, i, auto] =>
    match (ivs.splitOn ",").mapM String.toNat?, a.toNat?, b.toNat?, i.toNat?, auto.toNat? with
    | some (first :: rest), some a, some b, some i, some au =>
      if (first :: rest).any (· == 0) || au > 1 || b < a then (st, "bad-op") else
      let r := LinVerif.TimePlan.calcPlan first (first :: rest)
        { start := a, stop := b, interval := i, storage := 0, ratio := 0, auto := au == 1 }
      (st, s!"plan {r.start} {r.stop} {r.interval} {r.storage} {r.ratio}")
    | _, _, _, _, _ => (st, "bad-op")
  | ["recalc", ivs, a, b, i, auto, sto, rat] =>
    match (ivs.splitOn ",").mapM String.toNat?, a.toNat?, b.toNat?, i.toNat?, auto.toNat?, sto.toNat?, rat.toNat? with
    | some (first :: rest), some a, some b, some i, some au, some sto, some rat =>
      if (first :: rest).any (· == 0) || au > 1 || b < a then (st, "bad-op") else
      let r := LinVerif.TimePlan.intermediatePlan Generated.C12.intermediateCalcGuarded first (first :: rest)
        { start := a, stop := b, interval := i, storage := sto, ratio := rat, auto := au == 1 }
      (st, s!"plan {r.start} {r.stop} {r.interval} {r.storage} {r.ratio}")
    | _, _, _, _, _, _, _ => (st, "bad-op")
  | "next-stages" :: cs =>
    let parseC (t : String) : Option (Nat × List Nat) :=
      match t.splitOn ":" with
      | [hk, lows] =>
        match hk.toNat?, (lows.splitOn ",").mapM String.toNat? with
        | some hk, some ls => some (hk, ls)
        | _, _ => none
      | _ => none
    match cs.mapM parseC with
    | none => (st, "bad-op")
    | some bm =>
      -- which expression NextStages stores as the high key: read from the source
      let hv : LinVerif.LeafGlue.HighKeyOf :=
        if Generated.C12.nextStagesHighKey.endsWith "GetHighKeys()[IDX]" then .keyAtIndex else .index
      let stages := LinVerif.LeafGlue.nextStages hv bm
      let parts := stages.map (fun d => s!"{d.highKey}:" ++
        (if d.lows.isEmpty then "-" else ",".intercalate (d.lows.map toString)))
      (st, "stages " ++ (if parts.isEmpty then "-" else " ".intercalate parts))
  | "newp" :: id :: ks =>
    match id.toNat?, ks.mapM String.toNat? with
    | some id, some ks =>
      if ks.isEmpty then (st, "bad-op") else
      let pc := if Generated.C12.addRequestsPerTarget then PlanCount.perTarget else PlanCount.assignTolerance
      let c := Ctx.newPlans pc ks; (putCtx st id c, showState c)
    | _, _ => (st, "bad-op")
  | "resp" :: id :: kind :: rest =>
    match id.toNat? with
    | none => (st, "bad-op")
    | some id =>
      match getCtx st id with
      | none => (st, "bad-op")
      | some c =>
        match kind, rest with
        | "nf", [] => let c' := c.handle variant .notFound; (putCtx st id c', showState c')
        | "er", [] => let c' := c.handle variant .error; (putCtx st id c', showState c')
        | "bad", [] => let c' := c.handle variant .bad; (putCtx st id c', showState c')
        | "ok", cap :: toks =>
          match cap.toNat?, parsePayload st toks with
          | some cap, some (st', p) =>
            let c' := c.handle variant (.ok { cap := cap, specs := p.specs, series := p.series })
            (putCtx st' id c', showState c')
          | _, _ => (st, "bad-op")
        | _, _ => (st, "bad-op")
  | ["complete", id, e] =>
    match id.toNat? with
    | some id =>
      match getCtx st id, e with
      | some c, "ok" => let c' := c.complete Generated.C12.completeKeepsError none; (putCtx st id c', showState c')
      | some c, "er" => let c' := c.complete Generated.C12.completeKeepsError (some .other); (putCtx st id c', showState c')
      | _, _ => (st, "bad-op")
    | none => (st, "bad-op")
  | ["emit", id] =>
    match id.toNat? with
    | some id =>
      match getCtx st id with
      | some c => if c.done then (st, showResp st (overWire c.taskResponse)) else (st, "pending")
      | none => (st, "bad-op")
    | none => (st, "bad-op")
  | "leaf" :: r :: cap :: toks =>
    match r.toNat?, cap.toNat?, parsePayload st toks with
    | some r, some cap, some (st', p) =>
      if r = 0 then (st, "bad-op") else
      let pay := leafPayload variant p.specs cap p.series
      let h : Tag → Nat := fun t => ((p.hashes.find? (fun q => q.1 == t)).map Prod.snd).getD 0
      let outs := if r = 1 then [pay] else splitByHash h r pay
      (st', " | ".intercalate (outs.map (fun o => showPayload st' (C12FieldWire.wirePayload wireResetIdx o))))
    | _, _, _ => (st, "bad-op")
  | ["result", id, a, l, s, o] =>
    match id.toNat?, kv a "all", kv l "limit", kv s "sel", kv o "ord" with
    | some id, some a, some l, some s, some o =>
      match getCtx st id, a.toNat?, l.toNat? with
      | some c, some a, some l => (st, doResult st c (a != 0) l s o)
      | _, _, _ => (st, "bad-op")
    | _, _, _, _, _ => (st, "bad-op")
  | ["result", id, a, l, s, o, h] =>
    match id.toNat?, kv a "all", kv l "limit", kv s "sel", kv o "ord", kv h "hav" with
    | some id, some a, some l, some s, some o, some h =>
      match getCtx st id, a.toNat?, l.toNat?, parseHaving h with
      | some c, some a, some l, some hv => (st, doResult st c (a != 0) l s o hv)
      | _, _, _, _ => (st, "bad-op")
    | _, _, _, _, _, _ => (st, "bad-op")
  | ["plan-shape", live, n] =>
    -- BuildPhysicalPlan over `live` nodes for `n` compute nodes (any shuffle: the identity here;
    -- `plan_has_one_executor` is why the shuffle does not matter)
    match live.toNat?, n.toNat? with
    | some live, some n =>
      let plan := buildPlan (List.range live) n (List.range live)
      (st, s!"targets={plan.length} executors={(executors plan).length} distinct={if (plan.map Prod.fst).eraseDups.length == plan.length then 1 else 0}")
    | _, _ => (st, "bad-op")
  | "route" :: rest => (st, doRoute rest)
  | "families" :: rest => (st, doFamilies rest)
  | "filter" :: rest => (st, doFilter rest)
  | w :: _ => if w.startsWith "li-" then stepLi st ws else if w.startsWith "lc-" then stepLc st ws else if w.startsWith "tm-" then stepTm st ws else (st, "bad-op")
  | _ => (st, "bad-op")

def main (_args : List String) : IO Unit := Proto.runLoop ({} : DSt) step

end LinVerif.Driver.C12
