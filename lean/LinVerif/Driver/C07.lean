/-
Line-protocol driver for the node-recovery model (C07).

  reset
  append <m> <t> | begin | take | acquire | write | commit   (WAL Put; the steps of localReplicator.Replica / WriteRows)
  apply                                             (= begin take acquire write commit: one Replica call)
  appendbad                                         (a log entry whose payload does not decompress)
  wgc                                               (WAL garbage-collect tick on an expired family: writeAheadLog.destroy)
  recoverp                                          (recover + rewind, answering positions and files only)
  lanes <leader> ...                                (instead of reset: a node holding the logs of these leaders for the family)
  @<leader> <lane op>                               (append / appendbad / begin .. commit / apply / gc / wgc of that leader's partition)
  mprep | mflushm | mflusht | iprep | iflush        (metadata / index dictionary flush steps)
  fmeta | findex                                    (= the whole FlushMeta / FlushIndex call)
  freeze | dcommit | ack                            (the three steps of dataFamily.Flush)
  gc <k> | crash
  recover                                           (model events recover + rewind: NewLocalReplicator does both)

Grid mode (several shards x family hours x leaders; Model/C07Grid.lean), entered by `grid`, left by `reset` / `lanes`:
  grid <s>.<f>.<l> ...                              (the node's log partitions in recovery-walk order)
  %<s>.<f>.<l> <lane op>                            (an op of that partition: append / appendbad / apply / begin .. commit / gc / wgc)
  fam <s> <f> freeze|dcommit|ack|flush|close        (steps of dataFamily.Flush; flush = all three; close = dataFamily.Close)
  shard <s> findex|iprep|iflush                     (shard.FlushIndex)
  fmeta | mprep | mflushm | mflusht                 (database.FlushMeta)
  round <s>:<f>,<f> <s>:<f> ...                     (one dataFlushChecker.doFlush over these shards / families)
  wgc <f> ...                                       (one WAL garbage-collect tick; the family hours past their write window)
  shutdown                                          (engine.Close over all shards and families)
  famcrash <s> <f> <n> | closecrash <s> <f> <n> | shutdowncrash all | shutdowncrash <s> <f> <n>
                                                    (the process dies after n steps of that family's Flush / Close,
                                                     resp. inside the shutdown at that family's Close; answer `down`)
  crash | recover | recoverp | walkcrash <n> <0|1>  (restart = the whole recovery walk; walkcrash = the process dies inside it)
Answers: `<s>.<f>.<l>{positions}` per partition; `recover` appends files / unres per partition, the database
dictionaries and the index per shard.

Every answer is the positions line `a=<appended> c=<consumed> k=<groupAck> q=<seq|-> s=<stored|->`;
`crash` answers `down`; `recover` appends the durable observation:
  files=<seq:count,...>   rows per log entry in the durable data files
  unres=<seq,...>         entries with a row in the files whose names do not resolve durably
  iunres=<m.t,...>        durable index entries whose metric name / tag value is not durable
  names=<m,...> tagv=<m.t,...> idx=<m.t,...>   durable dictionary content reachable by name
The code shape (`PrepareFlush` condition) is the one regenerated from /repo (Generated.C07.swapOnEmpty).
-/
import LinVerif.Util.Proto
import LinVerif.Model.NodeRecovery
import LinVerif.Model.C07Grid
import LinVerif.Model.C07Fanout
import LinVerif.Generated.C07

namespace LinVerif.Driver.C07
open LinVerif LinVerif.NodeRecovery

def cfg : Cfg :=
  ⟨LinVerif.Generated.C07.swapOnEmpty, LinVerif.Generated.C07.atomicAcquire, LinVerif.Generated.C07.ignoreExact⟩

def showOpt : Option Int → String
  | some x => toString x
  | none => "-"

def showPos (st : St) : String :=
  if st.walGone then s!"wal=gone q={showOpt st.seq} s={showOpt st.stored}"
  else s!"a={st.appended} c={st.consumed} k={st.groupAck} q={showOpt st.seq} s={showOpt st.stored}"

def sortNat (l : List Nat) : List Nat := (l.toArray.qsort (· < ·)).toList

def dedupSorted : List Nat → List Nat
  | [] => []
  | [x] => [x]
  | x :: y :: t => if x = y then dedupSorted (y :: t) else x :: dedupSorted (y :: t)

def pairLt (a b : Nat × Nat) : Bool := a.1 < b.1 || (a.1 = b.1 && a.2 < b.2)

def sortPairs (l : List (Nat × Nat)) : List (Nat × Nat) := (l.toArray.qsort pairLt).toList

def dedupPairs : List (Nat × Nat) → List (Nat × Nat)
  | [] => []
  | [x] => [x]
  | x :: y :: t => if x = y then dedupPairs (y :: t) else x :: dedupPairs (y :: t)

def showPairs (l : List (Nat × Nat)) : String :=
  ",".intercalate ((dedupPairs (sortPairs l)).map (fun p => s!"{p.1}.{p.2}"))

def showNats (l : List Nat) : String := ",".intercalate ((dedupSorted (sortNat l)).map toString)

/-- rows per entry in the durable files: `seq:count` for counts > 0, ascending -/
def showFiles (st : St) : String :=
  let seqs := dedupSorted (sortNat ((fileRows st).map (fun r => r.seq.toNat)))
  ",".intercalate (seqs.map (fun s => s!"{s}:{((fileRows st).filter (fun r => r.seq.toNat = s)).length}"))

def showDurable (st : St) : String :=
  let unres := (fileRows st).filter (fun r => !rowResolves st r)
  let iunres := st.index.dur.filter (fun p => !idxResolves st p)
  let names := st.metric.dur
  let tagv := st.tagv.dur.filter (fun p => st.metric.dur.contains p.1)
  let idx := st.index.dur.filter (fun p => st.metric.dur.contains p.1 && st.tagv.dur.contains p)
  s!"files={showFiles st} unres={showNats (unres.map (fun r => r.seq.toNat))} iunres={showPairs iunres} names={showNats names} tagv={showPairs tagv} idx={showPairs idx}"

/-- lane events an op line stands for (`none`: not a lane op) -/
def laneOp (ws : List String) : Option (List Ev) :=
  match ws with
  | ["append", m, t] =>
    match m.toNat?, t.toNat? with
    | some m, some t => some [.append m t]
    | _, _ => none
  | ["appendbad"] => some [.appendBad]
  | ["apply"] => some applyRound            -- one whole localReplicator.Replica
  | ["begin"] => some [.applyBegin]
  | ["getfail"] => some [.applyGetFail]   -- one partition.replica iteration whose GetMessage fails
  | ["norows"] => some [.applyNoRows]     -- one whole Replica of an entry that decompresses but yields no rows
  | ["take"] => some [.applyTake]
  | ["acquire"] => some [.applyAcquire]
  | ["write"] => some [.applyWrite]
  | ["commit"] => some [.applyCommit]
  | ["wgc"] => some [.walExpire]
  | ["gc", k] =>
    match k.toInt? with
    | some k => some [.logGC k]
    | none => none
  | _ => none

/-- family / database / process events an op line stands for -/
def sharedOp (ws : List String) : Option (List Ev) :=
  match ws with
  | ["fmeta"] => some [.metaPrepare, .metaFlushMetric, .metaFlushTagv]   -- database.FlushMeta + Wait
  | ["findex"] => some [.indexPrepare, .indexFlush]                       -- shard.FlushIndex + Wait
  | ["mprep"] => some [.metaPrepare]
  | ["mflushm"] => some [.metaFlushMetric]
  | ["mflusht"] => some [.metaFlushTagv]
  | ["iprep"] => some [.indexPrepare]
  | ["iflush"] => some [.indexFlush]
  | ["freeze"] => some [.freeze]
  | ["dcommit"] => some [.dataCommit]
  | ["ack"] => some [.ackCallback]
  | _ => none

/-- positions of every lane; a single lane prints as before, several as `L<leader>{...}` -/
def showNode (n : Node) : String :=
  match n with
  | [(_, st)] => showPos st
  | _ => " ".intercalate (n.map (fun p => s!"L{p.1}" ++ "{" ++ showPos p.2 ++ "}"))

def showNodeFiles (n : Node) : String :=
  match n with
  | [(_, st)] => "files=" ++ showFiles st
  | _ => " ".intercalate (n.map (fun p => s!"files{p.1}=" ++ showFiles p.2))

/-- `unres` per lane (own rows), dictionaries from the first lane (all lanes hold identical copies) -/
def showNodeDurable (n : Node) : String :=
  match n with
  | [(_, st)] => showDurable st
  | [] => ""
  | (_, st0) :: _ =>
    let unres := fun (st : St) => showNats (((fileRows st).filter (fun r => !rowResolves st r)).map (fun r => r.seq.toNat))
    let names := st0.metric.dur
    let tagv := st0.tagv.dur.filter (fun p => st0.metric.dur.contains p.1)
    let idx := st0.index.dur.filter (fun p => st0.metric.dur.contains p.1 && st0.tagv.dur.contains p)
    let iunres := st0.index.dur.filter (fun p => !idxResolves st0 p)
    showNodeFiles n ++ " " ++ " ".intercalate (n.map (fun p => s!"unres{p.1}=" ++ unres p.2)) ++
      s!" iunres={showPairs iunres} names={showNats names} tagv={showPairs tagv} idx={showPairs idx}"

def runN (n : Node) (nevs : List NEv) : Node := runNode cfg n nevs

def stepLine (n : Node) (ws : List String) : Node × String :=
  match ws with
  | ["reset"] => let n' := Node.init [1]; (n', showNode n')
  | "lanes" :: ls =>
    match ls.mapM String.toNat? with
    | some leaders => if leaders.isEmpty then (n, "bad-op") else let n' := Node.init leaders; (n', showNode n')
    | none => (n, "bad-op")
  | ["crash"] => (runN n [.shared .crash], "down")
  | ["recover"] =>
    let n' := runN n [.shared .recover, .shared .rewind]
    (n', showNode n' ++ " " ++ showNodeDurable n')
  | ["qsync", peer, old] =>   -- fanOutQueue.Sync of the first lane's log holding one more consumer group at ack `peer`
    match n.head?, peer.toInt?, old.toInt? with
    | some (_, st), some p, some o =>
      (n, s!"qack={LinVerif.C07Fanout.sync st.appended o [st.groupAck, p]} " ++ showNode n)
    | _, _, _ => (n, "bad-op")
  | ["recoverp"] =>    -- recovery of an image taken INSIDE a dictionary flush: positions and data files only
    let n' := runN n [.shared .recover, .shared .rewind]
    (n', showNode n' ++ " " ++ showNodeFiles n')
  | w :: rest =>
    -- `@<leader> <lane op>`; a lane op without prefix goes to the first lane
    let (leader?, ws') : Option Nat × List String :=
      if w.startsWith "@" then ((w.drop 1).toString.toNat?, rest)
      else (n.head?.map (·.1), ws)
    match laneOp ws', sharedOp ws with
    | some evs, _ =>
      match leader? with
      | some l =>
        if (n.lane? l).isSome then
          let n' := runN n (evs.map (NEv.lane l)); (n', showNode n')
        else (n, "bad-op")
      | none => (n, "bad-op")
    | none, some evs =>
      if w.startsWith "@" then (n, "bad-op")
      else let n' := runN n (evs.map NEv.shared); (n', showNode n')
    | none, none => (n, "bad-op")
  | _ => (n, "bad-op")

/-! ### grid mode -/

def showKey (k : PKey) : String := s!"{k.shard}.{k.family}.{k.leader}"

def parseKey (w : String) : Option PKey :=
  match (w.splitOn ".").map String.toNat? with
  | [some s, some f, some l] => some ⟨s, f, l⟩
  | _ => none

def showGrid (g : Grid) : String :=
  " ".intercalate (g.map (fun p => showKey p.1 ++ "{" ++ showPos p.2 ++ "}"))

def showGridFiles (g : Grid) : String :=
  " ".intercalate (g.map (fun p => s!"files{showKey p.1}=" ++ showFiles p.2))

/-- files and unresolved rows per partition, the database-level dictionaries from the first lane, the
index per shard from the first lane of the shard (the lanes hold identical copies) -/
def showGridDurable (g : Grid) : String :=
  match g with
  | [] => ""
  | (_, st0) :: _ =>
    let unres := fun (st : St) => showNats (((fileRows st).filter (fun r => !rowResolves st r)).map (fun r => r.seq.toNat))
    let names := st0.metric.dur
    let tagv := st0.tagv.dur.filter (fun p => st0.metric.dur.contains p.1)
    let perShard := g.shards.map (fun s =>
      match g.find? (fun p => p.1.shard == s) with
      | some (_, st) =>
        let idx := st.index.dur.filter (fun p => st.metric.dur.contains p.1 && st.tagv.dur.contains p)
        let iunres := st.index.dur.filter (fun p => !idxResolves st p)
        s!"idx{s}={showPairs idx} iunres{s}={showPairs iunres}"
      | none => "")
    showGridFiles g ++ " " ++ " ".intercalate (g.map (fun p => s!"unres{showKey p.1}=" ++ unres p.2)) ++
      s!" names={showNats names} tagv={showPairs tagv} " ++ " ".intercalate perShard

def parseReq (ws : List String) : Option (List (Nat × List Nat)) :=
  ws.mapM (fun w =>
    match w.splitOn ":" with
    | [s, fs] =>
      match s.toNat?, (fs.splitOn ",").mapM String.toNat? with
      | some s, some fs => some (s, fs)
      | _, _ => none
    | _ => none)

def gridLine (g : Grid) (ws : List String) : Option (Grid × String) :=
  let pos := fun (g' : Grid) => some (g', showGrid g')
  match ws with
  | ["crash"] => some (runGrid cfg g [.crash], "down")
  | ["walkcrash", n, mid] =>
    match n.toNat?, mid with
    | some n, "0" => some (runGrid cfg g [.walkCrash n false], "down")
    | some n, "1" => some (runGrid cfg g [.walkCrash n true], "down")
    | _, _ => none
  | ["recover"] => let g' := runGrid cfg g [.restart]; some (g', showGrid g' ++ " " ++ showGridDurable g')
  | ["recoverp"] => let g' := runGrid cfg g [.restart]; some (g', showGrid g' ++ " " ++ showGridFiles g')
  | ["shutdown"] => pos (runGrid cfg g (shutdownGrid g))
  | ["shutdowncrash", "all"] => some (runGrid cfg g (shutdownGrid g ++ [.crash]), "down")
  | ["shutdowncrash", s, f, n] =>   -- the process dies inside the shutdown: after `n` steps of dataFamily.Close of (s, f)
    match s.toNat?, f.toNat?, n.toNat? with
    | some s, some f, some n =>
      some (runGrid cfg g (shutdownUpTo g s f ++ (famClose s f).take n ++ [.crash]), "down")
    | _, _, _ => none
  | ["famcrash", s, f, n] =>        -- ... inside dataFamily.Flush of (s, f), after `n` of freeze / dcommit / ack
    match s.toNat?, f.toNat?, n.toNat? with
    | some s, some f, some n => some (runGrid cfg g ((famFlush s f).take n ++ [.crash]), "down")
    | _, _, _ => none
  | ["closecrash", s, f, n] =>      -- ... inside (n < 5) or after dataFamily.Close of (s, f)
    match s.toNat?, f.toNat?, n.toNat? with
    | some s, some f, some n => some (runGrid cfg g ((famClose s f).take n ++ [.crash]), "down")
    | _, _, _ => none
  | "round" :: req =>
    match parseReq req with
    | some r => pos (runGrid cfg g (doFlushRound r))
    | none => none
  | "wgc" :: fs =>
    match fs.mapM String.toNat? with
    | some fs => pos (runGrid cfg g (walGcTick g fs))
    | none => none
  | ["fam", s, f, op] =>
    match s.toNat?, f.toNat? with
    | some s, some f =>
      match op with
      | "freeze" => pos (runGrid cfg g [.fam s f .freeze])
      | "dcommit" => pos (runGrid cfg g [.fam s f .dataCommit])
      | "ack" => pos (runGrid cfg g [.fam s f .ackCallback])
      | "flush" => pos (runGrid cfg g (famFlush s f))
      | "close" => pos (runGrid cfg g (famClose s f))
      | _ => none
    | _, _ => none
  | ["shard", s, op] =>
    match s.toNat? with
    | some s =>
      match op with
      | "findex" => pos (runGrid cfg g [.shard s .indexPrepare, .shard s .indexFlush])
      | "iprep" => pos (runGrid cfg g [.shard s .indexPrepare])
      | "iflush" => pos (runGrid cfg g [.shard s .indexFlush])
      | _ => none
    | none => none
  | ["fmeta"] => pos (runGrid cfg g [.db .metaPrepare, .db .metaFlushMetric, .db .metaFlushTagv])
  | ["mprep"] => pos (runGrid cfg g [.db .metaPrepare])
  | ["mflushm"] => pos (runGrid cfg g [.db .metaFlushMetric])
  | ["mflusht"] => pos (runGrid cfg g [.db .metaFlushTagv])
  | w :: rest =>
    if w.startsWith "%" then
      match parseKey (w.drop 1).toString, laneOp rest with
      | some k, some evs =>
        if (g.lane? k).isSome then pos (runGrid cfg g (evs.map (GEv.lane k))) else none
      | _, _ => none
    else none
  | _ => none

/-- driver state: the single-family node, or (grid mode) the several-shards node -/
structure DS where
  node : Node
  grid : Option Grid

def stepAll (d : DS) (ws : List String) : DS × String :=
  match ws with
  | "grid" :: ks =>
    match ks.mapM parseKey with
    | some keys => if keys.isEmpty then (d, "bad-op") else
        let g := Grid.init keys; ({ d with grid := some g }, showGrid g)
    | none => (d, "bad-op")
  | _ =>
    let leave := match ws with
      | ["reset"] => true
      | "lanes" :: _ => true
      | _ => false
    match d.grid, leave with
    | some g, false =>
      match gridLine g ws with
      | some (g', out) => ({ d with grid := some g' }, out)
      | none => (d, "bad-op")
    | _, _ =>
      let (n', out) := stepLine d.node ws
      ({ node := n', grid := none }, out)

def main (_args : List String) : IO Unit := Proto.runLoop (⟨Node.init [1], none⟩ : DS) stepAll

end LinVerif.Driver.C07
