/-
Line-protocol driver for the node-recovery model (C07).

  reset
  append <m> <t> | begin | take | acquire | write | commit   (WAL Put; the steps of localReplicator.Replica / WriteRows)
  apply                                             (= begin take acquire write commit: one Replica call)
  appendbad                                         (a log entry whose payload does not decompress)
  wgc                                               (WAL garbage-collect tick on an expired family: writeAheadLog.destroy)
  recoverp                                          (recover + rewind, answering positions and files only)
  mprep | mflushm | mflusht | iprep | iflush        (metadata / index dictionary flush steps)
  fmeta | findex                                    (= the whole FlushMeta / FlushIndex call)
  freeze | dcommit | ack                            (the three steps of dataFamily.Flush)
  gc <k> | crash
  recover                                           (model events recover + rewind: NewLocalReplicator does both)

Every answer is the positions line `a=<appended> c=<consumed> k=<groupAck> q=<seq|-> s=<stored|->`;
`crash` answers `down`; `recover` appends the durable observation:
  files=<seq:count,...>   rows per log entry in the durable data files
  unres=<seq,...>         entries with a row in the files whose names do not resolve durably
  iunres=<m.t,...>        durable index entries whose metric name / tag value is not durable
  names=<m,...> tagv=<m.t,...> idx=<m.t,...>   durable dictionary content reachable by name
The code shape (`PrepareFlush` condition) is the one regenerated from /repo (Generated.C07.swapOnEmpty).
-/
import LinVerif.Util.Proto
import LinVerif.Model.NodeRecovery
import LinVerif.Generated.C07

namespace LinVerif.Driver.C07
open LinVerif LinVerif.NodeRecovery

def cfg : Cfg :=
  ⟨LinVerif.Generated.C07.swapOnEmpty, LinVerif.Generated.C07.atomicAcquire, LinVerif.Generated.C07.ignoreExact⟩

def showOpt : Option Int → String
  | some x => toString x
  | none => "-"

def showPos (st : St) : String :=
  if st.walGone then s!"wal=gone q={showOpt st.seq} s={showOpt st.stored}"
  else s!"a={st.appended} c={st.consumed} k={st.groupAck} q={showOpt st.seq} s={showOpt st.stored}"

def sortNat (l : List Nat) : List Nat := (l.toArray.qsort (· < ·)).toList

def dedupSorted : List Nat → List Nat
  | [] => []
  | [x] => [x]
  | x :: y :: t => if x = y then dedupSorted (y :: t) else x :: dedupSorted (y :: t)

def pairLt (a b : Nat × Nat) : Bool := a.1 < b.1 || (a.1 = b.1 && a.2 < b.2)

def sortPairs (l : List (Nat × Nat)) : List (Nat × Nat) := (l.toArray.qsort pairLt).toList

def dedupPairs : List (Nat × Nat) → List (Nat × Nat)
  | [] => []
  | [x] => [x]
  | x :: y :: t => if x = y then dedupPairs (y :: t) else x :: dedupPairs (y :: t)

def showPairs (l : List (Nat × Nat)) : String :=
  ",".intercalate ((dedupPairs (sortPairs l)).map (fun p => s!"{p.1}.{p.2}"))

def showNats (l : List Nat) : String := ",".intercalate ((dedupSorted (sortNat l)).map toString)

/-- rows per entry in the durable files: `seq:count` for counts > 0, ascending -/
def showFiles (st : St) : String :=
  let seqs := dedupSorted (sortNat ((fileRows st).map (fun r => r.seq.toNat)))
  ",".intercalate (seqs.map (fun s => s!"{s}:{((fileRows st).filter (fun r => r.seq.toNat = s)).length}"))

def showDurable (st : St) : String :=
  let unres := (fileRows st).filter (fun r => !rowResolves st r)
  let iunres := st.index.dur.filter (fun p => !idxResolves st p)
  let names := st.metric.dur
  let tagv := st.tagv.dur.filter (fun p => st.metric.dur.contains p.1)
  let idx := st.index.dur.filter (fun p => st.metric.dur.contains p.1 && st.tagv.dur.contains p)
  s!"files={showFiles st} unres={showNats (unres.map (fun r => r.seq.toNat))} iunres={showPairs iunres} names={showNats names} tagv={showPairs tagv} idx={showPairs idx}"

def ev (st : St) (e : Ev) : St × String :=
  let st' := step cfg st e
  (st', showPos st')

def stepLine (st : St) (ws : List String) : St × String :=
  match ws with
  | ["reset"] => (St.init, showPos St.init)
  | ["append", m, t] =>
    match m.toNat?, t.toNat? with
    | some m, some t => ev st (.append m t)
    | _, _ => (st, "bad-op")
  | ["apply"] =>       -- one whole localReplicator.Replica
    let st' := run cfg st applyRound
    (st', showPos st')
  | ["fmeta"] =>       -- database.FlushMeta + WaitFlushMetaCompleted
    let st' := run cfg st [.metaPrepare, .metaFlushMetric, .metaFlushTagv]
    (st', showPos st')
  | ["findex"] =>      -- shard.FlushIndex + WaitFlushIndexCompleted
    let st' := run cfg st [.indexPrepare, .indexFlush]
    (st', showPos st')
  | ["appendbad"] => ev st .appendBad
  | ["begin"] => ev st .applyBegin
  | ["take"] => ev st .applyTake
  | ["acquire"] => ev st .applyAcquire
  | ["wgc"] => ev st .walExpire
  | ["write"] => ev st .applyWrite
  | ["commit"] => ev st .applyCommit
  | ["mprep"] => ev st .metaPrepare
  | ["mflushm"] => ev st .metaFlushMetric
  | ["mflusht"] => ev st .metaFlushTagv
  | ["iprep"] => ev st .indexPrepare
  | ["iflush"] => ev st .indexFlush
  | ["freeze"] => ev st .freeze
  | ["dcommit"] => ev st .dataCommit
  | ["ack"] => ev st .ackCallback
  | ["gc", k] =>
    match k.toInt? with
    | some k => ev st (.logGC k)
    | none => (st, "bad-op")
  | ["crash"] => (step cfg st .crash, "down")
  | ["recover"] =>
    let st' := step cfg (step cfg st .recover) .rewind
    (st', showPos st' ++ " " ++ showDurable st')
  | ["recoverp"] =>    -- recovery of an image taken INSIDE a dictionary flush: positions and data files only
    let st' := step cfg (step cfg st .recover) .rewind
    (st', showPos st' ++ " files=" ++ showFiles st')
  | _ => (st, "bad-op")

def main (_args : List String) : IO Unit := Proto.runLoop St.init stepLine

end LinVerif.Driver.C07
