/-
Line-protocol driver for the C01 model (kv manifest / crash recovery).

  reset <levels> <rollup: i,i|->          new case: empty disk, store closed
  open                                    kv.newStore on the current disk
  createfam <name> <threshold>
  fstart <name> <seqs: l:s,l:s|-> <kvs: k:v,k:v|->
  fcommit <name> <size>
  flushfail <name>                        Commit whose table close fails (I/O error): commits nothing
  compact <name> <size>
  edit <name> <log> <log> ...             rollup-bookkeeping commit
  close
  die <k>                                 the process dies; the disk is the one after the first k FS ops
  crash <k>                               observation: reopen the disk after the first k FS ops
  crashx <k>                              same, the recovery's own FS trace is not printed
  crashf <k> <name> <thr>                 crash image of createfam: reopen + is the family present / creatable
  crashj <k> <n>                          disk after k FS ops with a partial last record in MANIFEST-n; two reopens
  enc <fid> <log> ...                     hex of editLog.marshal
  dec <hex>                               editLog.unmarshal
  entries <B> <len,len,...>               bufio entry framing: write, read back with a B-byte read buffer
  bw <op,op,...>                          buffered entry writer (buffer size = regenerated defaultWriteBufferSize): w<len> Write,
                                          f Flush, s Sync, c Close; per op `file/buffered` sizes; after s also the read-back
                                          of the FILE (what a kill leaves): r=<records>,<clean end>,<equal to the records written>
  cfrace <name> <point> <seq>             two concurrent creators of one new family (creators' model, lock region as regenerated)
  mojob <inputs> <next> <k> <j> <c>       merge compaction with k outputs, c foreign cleanups after output j
  cfwitness <name>                        two creators, flusher of the unpublished object, cleanup of the published one

log tokens: nf,l,f,min,max,size  df,l,f  next,n  nr,f,i  dr,f,i  nref,storehex,fam,f  dref,storehex,fam,f  seq,l,s
-/
import LinVerif.Util.Proto
import LinVerif.Model.KvFs
import LinVerif.Model.Entries
import LinVerif.Model.C01Writer
import LinVerif.Model.C01CreateFam
import LinVerif.Model.C01MultiOut
import LinVerif.Generated.C01

namespace LinVerif.Driver.C01
open LinVerif LinVerif.Kv

/-! ### printing -/

def hexDigit (n : Nat) : Char := if n < 10 then Char.ofNat (48 + n) else Char.ofNat (87 + n)
def hexByte (b : Nat) : String := String.ofList [hexDigit (b / 16 % 16), hexDigit (b % 16)]
def hex (b : Bytes) : String := String.join (b.map hexByte)

def unhexDigit (c : Char) : Option Nat :=
  if '0' ≤ c ∧ c ≤ '9' then some (c.toNat - 48)
  else if 'a' ≤ c ∧ c ≤ 'f' then some (c.toNat - 87) else none

def unhexList : List Char → Option Bytes
  | [] => some []
  | [_] => none
  | a :: b :: t => do
    let x ← unhexDigit a
    let y ← unhexDigit b
    let r ← unhexList t
    some ((x * 16 + y) :: r)

def unhex (s : String) : Option Bytes := unhexList s.toList

def logTok : Log → String
  | .newFile l f mn mx sz => s!"nf,{l},{f},{mn},{mx},{sz}"
  | .deleteFile l f => s!"df,{l},{f}"
  | .nextFileNumber n => s!"next,{n}"
  | .newRollupFile f i => s!"nr,{f},{i}"
  | .deleteRollupFile f i => s!"dr,{f},{i}"
  | .newReferenceFile st fam f => s!"nref,{hex st},{fam},{f}"
  | .deleteReferenceFile st fam f => s!"dref,{hex st},{fam},{f}"
  | .sequence l s => s!"seq,{l},{s}"

def parseLog (w : String) : Option Log :=
  match w.splitOn "," with
  | ["nf", l, f, mn, mx, sz] => do
    some (.newFile (← l.toInt?) (← f.toInt?) (← mn.toNat?) (← mx.toNat?) (← sz.toNat?))
  | ["df", l, f] => do some (.deleteFile (← l.toInt?) (← f.toInt?))
  | ["next", n] => do some (.nextFileNumber (← n.toInt?))
  | ["nr", f, i] => do some (.newRollupFile (← f.toInt?) (← i.toInt?))
  | ["dr", f, i] => do some (.deleteRollupFile (← f.toInt?) (← i.toInt?))
  | ["nref", st, fam, f] => do some (.newReferenceFile (← unhex st) (← fam.toInt?) (← f.toInt?))
  | ["dref", st, fam, f] => do some (.deleteReferenceFile (← unhex st) (← fam.toInt?) (← f.toInt?))
  | ["seq", l, s] => do some (.sequence (← l.toInt?) (← s.toInt?))
  | _ => none

def sortStr (l : List String) : List String := (l.toArray.qsort (· < ·)).toList

def sortBy {α : Type} (lt : α → α → Bool) (l : List α) : List α := (l.toArray.qsort lt).toList

def ltPair (a b : Int × Int) : Bool := a.1 < b.1 || (a.1 == b.1 && a.2 < b.2)

def kvTok (c : List (Nat × Nat)) : String := ",".intercalate (c.map (fun kv => s!"{kv.1}={kv.2}"))

def recTok (n : Int) (r : Bytes) : String :=
  match unmarshal r with
  | some el => s!"rec({n},{el.fid}:{"|".intercalate (sortStr (el.logs.map logTok))})"
  | none => s!"rec({n},?{hex r})"

def fsTok : FsOp → String
  | .mkdirStore => "mkstore"
  | .writeOptions o =>
    "opts(" ++ ",".intercalate ((sortBy (fun (a b : FamOpt) => a.id < b.id) o).map (fun x => s!"{x.name}/{x.id}/{x.threshold}")) ++ ")"
  | .lockCreate => "lock+"
  | .lockRemove => "lock-"
  | .mkdirFam n => s!"mkfam({n})"
  | .createManifest n => s!"mcreate({n})"
  | .appendRec n r => recTok n r
  | .writeCurrentTmp n => s!"curtmp({n})"
  | .renameCurrent => "currename"
  | .removeManifest n => s!"mrm({n})"
  | .createTable fam f => s!"tcreate({fam}/{f})"
  | .closeTable fam f c => s!"tclose({fam}/{f}:{kvTok c})"
  | .removeTable fam f => s!"trm({fam}/{f})"

/-- canonical order of operations whose order comes from Go map iteration: maximal runs of
`removeTable` (families iterate in map order) are sorted by (family, number), runs of `mkdirFam` by name. -/
def isTrm : FsOp → Bool | .removeTable .. => true | _ => false
def isMkfam : FsOp → Bool | .mkdirFam .. => true | _ => false

def trmKey : FsOp → Int × Int
  | .removeTable fam f => ((fam : Int), f)
  | .mkdirFam n => ((n : Int), 0)
  | _ => (0, 0)

partial def canonRuns (ops : List FsOp) : List FsOp :=
  match ops with
  | [] => []
  | o :: t =>
    if isTrm o then
      let run := (o :: t).takeWhile isTrm
      sortBy (fun a b => ltPair (trmKey a) (trmKey b)) run ++ canonRuns ((o :: t).dropWhile isTrm)
    else if isMkfam o then
      let run := (o :: t).takeWhile isMkfam
      sortBy (fun a b => ltPair (trmKey a) (trmKey b)) run ++ canonRuns ((o :: t).dropWhile isMkfam)
    else o :: canonRuns t

def traceTok (ops : List FsOp) : String := "[" ++ ";".intercalate ((canonRuns ops).map fsTok) ++ "]"

def verTok (v : Version) : String :=
  let files := sortBy (fun (a b : (Int × Int) × FileMeta) => ltPair a.1 b.1) v.files
  let seqs := sortBy (fun (a b : Int × Int) => a.1 < b.1) v.seqs
  let roll := sortBy (fun (a b : Int × List Int) => a.1 < b.1) v.rollup
  let refs := sortStr (v.refs.map (fun e => s!"{hex e.1.1}/{e.1.2}:[{",".intercalate (e.2.map toString)}]"))
  "f=" ++ String.join (files.map (fun e => s!"({e.1.1},{e.1.2},{e.2.minKey},{e.2.maxKey},{e.2.size})")) ++
  ";s=" ++ ",".intercalate (seqs.map (fun e => s!"{e.1}:{e.2}")) ++
  ";r=" ++ ",".intercalate (roll.map (fun e => s!"{e.1}:[{",".intercalate (e.2.map toString)}]")) ++
  ";x=" ++ ",".intercalate refs

def famsSorted (m : Mem) : List Fam := sortBy (fun (a b : Fam) => a.opt.id < b.opt.id) m.fams

def stateTok (m : Mem) : String :=
  s!"m={m.vs.manifestNo} n={m.vs.next} " ++
  " ".intercalate ((famsSorted m).map (fun f =>
    match m.vs.verOf f.opt.id with
    | some v => "F" ++ toString f.opt.name ++ "/" ++ toString f.opt.id ++ "{" ++ verTok v ++ "}"
    | none => "F" ++ toString f.opt.name ++ "/" ++ toString f.opt.id ++ "{?}"))

/-- per key the sorted values found in the tables of the version (what Snapshot.Load delivers) -/
def contentTok (d : Disk) (name : Nat) (v : Version) : String :=
  let files := v.files.map (fun e => e.1.2)
  let missing := files.filter (fun f => match d.table name f with | some t => !t.complete | none => true)
  let pairs : List (Nat × Nat) := files.flatMap (fun f => match d.table name f with | some t => t.content | none => [])
  let keys := (sortBy (fun (a b : Nat) => a < b) (pairs.map (·.1))).eraseDups
  let body := keys.map (fun k =>
    let vs := sortBy (fun (a b : Nat) => a < b) ((pairs.filter (fun p => p.1 = k)).map (·.2))
    s!"{k}=[{",".intercalate (vs.map toString)}]")
  ";".intercalate (body ++ missing.map (fun f => s!"!{f}"))

def optTok : Option Int → String | some n => toString n | none => "-"

def lsTok (d : Disk) (m : Mem) : String :=
  let ms := sortInts (Map.keys d.manifests)
  s!"M=[{",".intercalate (ms.map toString)}] cur={optTok d.current} tmp={optTok d.currentTmp} " ++
  " ".intercalate ((famsSorted m).map (fun f =>
    s!"F{f.opt.name}=[{",".intercalate ((sortInts (Map.keys (d.tables f.opt.name))).map toString)}]"))

/-! ### state and step -/

structure DSt where
  cfg : Cfg
  mem : Option Mem
  disks : Array Disk
  pend : Option (Nat × List Log × Pre) := none   -- a commit in flight: family, logs, what it read before vs.mutex.Lock()

def DSt.init : DSt := ⟨⟨2, []⟩, none, #[Disk.empty], none⟩

def DSt.disk (s : DSt) : Disk := s.disks.back?.getD Disk.empty

def DSt.push (s : DSt) (ops : List FsOp) : DSt :=
  let (ds, _) := ops.foldl (fun (acc : Array Disk × Disk) o =>
    let d' := applyFs acc.2 o
    (acc.1.push d', d')) (s.disks, s.disk)
  { s with disks := ds }

def parsePairsInt (w : String) : Option (List (Int × Int)) :=
  if w = "-" then some [] else
  (w.splitOn ",").mapM (fun p => match p.splitOn ":" with
    | [a, b] => do some ((← a.toInt?), (← b.toInt?))
    | _ => none)

def parsePairsNat (w : String) : Option (List (Nat × Nat)) :=
  if w = "-" then some [] else
  (w.splitOn ",").mapM (fun p => match p.splitOn ":" with
    | [a, b] => do some ((← a.toNat?), (← b.toNat?))
    | _ => none)

def parseInts (w : String) : Option (List Int) :=
  if w = "-" then some [] else (w.splitOn ",").mapM String.toInt?

def crashOut (cfg : Cfg) (d : Disk) (showTrace : Bool := true) : String :=
  let (mem, ops) := openStore cfg d
  let d' := applyFsList d ops
  let traceTok := fun (o : List FsOp) => if showTrace then traceTok o else "*"
  match mem with
  | none => s!"err fs={traceTok ops}"
  | some m =>
    let content := " ".intercalate ((famsSorted m).map (fun f =>
      match m.vs.verOf f.opt.id with
      | some v => "F" ++ toString f.opt.name ++ "{" ++ contentTok d' f.opt.name v ++ "}"
      | none => "F" ++ toString f.opt.name ++ "{?}"))
    s!"ok fs={traceTok ops} st={stateTok m} c={content} ls={lsTok d' m} fresh={m.vs.next}"

/-- the creators' model as the source stands now (regenerated lock-region facts) -/
def cfCfg : C01CF.Cfg :=
  ⟨Generated.C01.createFamilyLockHeldToReturn && Generated.C01.createFamilyPublishesAfterLock == 1,
   Generated.C01.createFamilyRechecksUnderLock⟩

/-- op `bw`: the buffered writer model on a list of op tokens; record contents generated from the index of the write -/
def bwRun (B : Nat) : List String → Nat → BW.WState → List Bytes → List String → Option (List String)
  | [], _, _, _, acc => some acc.reverse
  | t :: ts, i, st, recs, acc =>
    if t = "f" then
      let st' := BW.stepW B st .flush
      bwRun B ts i st' recs (s!"{st'.file.length}/{st'.buf.length}" :: acc)
    else if t = "c" then
      let st' := BW.stepW B st .close
      bwRun B ts i st' recs (s!"{st'.file.length}/{st'.buf.length}" :: acc)
    else if t = "s" then
      let st' := BW.stepW B st .sync
      let r := readEntries Generated.C01.defaultReadBufferSize st'.file
      bwRun B ts i st' recs (s!"{st'.file.length}/{st'.buf.length} r={r.1.length},{r.2},{decide (r.1 = recs)}" :: acc)
    else match t.toList with
      | 'w' :: ds =>
        match (String.ofList ds).toNat? with
        | some n =>
          let rec_ : Bytes := (List.range n).map (fun j => (i * 31 + j * 7 + 3) % 251)
          let st' := BW.stepW B st (.write rec_)
          bwRun B ts (i + 1) st' (recs ++ [rec_]) (s!"{st'.file.length}/{st'.buf.length}" :: acc)
        | none => none
      | _ => none


def step (s : DSt) (ws : List String) : DSt × String :=
  match ws with
  | ["reset", lv, ru] =>
    match lv.toNat?, parseInts ru with
    | some l, some r => (⟨⟨l, r⟩, none, #[Disk.empty], none⟩, "ok")
    | _, _ => (s, "bad-op")
  | ["open"] =>
    match s.mem with
    | some _ => (s, "bad-op")
    | none =>
      let (mem, ops) := openStore s.cfg s.disk
      let s' := { s.push ops with mem := mem }
      match mem with
      | some m => (s', s!"ok fs={traceTok ops} st={stateTok m}")
      | none => (s', s!"err fs={traceTok ops}")
  | ["createfam", name, thr] =>
    match s.mem, name.toNat?, thr.toInt? with
    | some m, some n, some t =>
      match createFamily m s.disk n t with
      | some (m', ops) => ({ s.push ops with mem := some m' }, s!"ok fs={traceTok ops} st={stateTok m'}")
      | none => (s, "err")
    | _, _, _ => (s, "bad-op")
  | ["fstart", name, seqs, kvs] =>
    match s.mem, name.toNat?, parsePairsInt seqs, parsePairsNat kvs with
    | some m, some n, some sq, some kv =>
      match flushStart m n kv sq with
      | some (m', ops) => ({ s.push ops with mem := some m' }, s!"ok fs={traceTok ops}")
      | none => (s, "bad-op")
    | _, _, _, _ => (s, "bad-op")
  | ["fcommit", name, size] =>
    match s.mem, name.toNat?, size.toNat? with
    | some m, some n, some sz =>
      match flushCommit m n sz with
      | some (m', ops) => ({ s.push ops with mem := some m' }, s!"ok fs={traceTok ops} st={stateTok m'}")
      | none => (s, "bad-op")
    | _, _, _ => (s, "bad-op")
  | ["flushfail", name] =>
    match s.mem, name.toNat? with
    | some m, some n =>
      match flushFail m n with
      | some (m', ops) => ({ s.push ops with mem := some m' }, s!"ok fs={traceTok ops} st={stateTok m'}")
      | none => (s, "bad-op")
    | _, _ => (s, "bad-op")
  | ["compact", name, size] =>
    match s.mem, name.toNat?, size.toNat? with
    | some m, some n, some sz =>
      match compact m s.disk n sz with
      | some (m', ops, kind) => ({ s.push ops with mem := some m' }, s!"ok kind={kind} fs={traceTok ops} st={stateTok m'}")
      | none => (s, "bad-op")
    | _, _, _ => (s, "bad-op")
  | ["bgclose", name, size] =>
    -- Family.Compact() (background start of a compaction) directly followed by CloseStore: close waits for the
    -- started job (Props.C01.jobs_complete_before_close), so the trace is the job's then the close's
    match s.mem, name.toNat?, size.toNat? with
    | some m, some n, some sz =>
      match compact m s.disk n sz with
      | some (m', ops, kind) =>
        let ops2 := closeStore m'
        ({ s.push (ops ++ ops2) with mem := none }, s!"ok kind={kind} fs={traceTok (ops ++ ops2)}")
      | none => (s, "bad-op")
    | _, _, _ => (s, "bad-op")
  | "edit" :: name :: toks =>
    match s.mem, name.toNat?, toks.mapM parseLog with
    | some m, some n, some logs =>
      match editCommit m n logs with
      | some (m', ops) => ({ s.push ops with mem := some m' }, s!"ok fs={traceTok ops} st={stateTok m'}")
      | none => (s, "bad-op")
    | _, _, _ => (s, "bad-op")
  | "cbegin" :: name :: toks =>
    -- family.commitEditLog → CommitFamilyEditLog up to vs.mutex.Lock(): the committer is parked there
    match s.mem, s.pend, name.toNat?, toks.mapM parseLog with
    | some m, none, some n, some logs =>
      match m.fam? n with
      | some f =>
        if logs.all Log.isBookkeeping && !logs.isEmpty then
          ({ s with pend := some (n, logs, commitRead commitBeforeLockSteps m f.opt.id) }, "ok")
        else (s, "bad-op")
      | none => (s, "bad-op")
    | _, _, _, _ => (s, "bad-op")
  | ["cyield", name] =>
    -- a further schedule point of the commit in flight at which vs.mutex is not held: nothing is read there
    match s.pend, name.toNat? with
    | some (n, _, _), some n' => if n = n' then (s, "ok fs=[]") else (s, "bad-op")
    | _, _ => (s, "bad-op")
  | ["cend", name] =>
    -- the critical section of the commit in flight
    match s.mem, s.pend, name.toNat? with
    | some m, some (n, logs, pre), some n' =>
      if n ≠ n' then (s, "bad-op") else
      match m.fam? n with
      | some f =>
        match commitLocked m f.opt.id logs pre with
        | some (m', ops) => ({ s.push ops with mem := some m', pend := none }, s!"ok fs={traceTok ops} st={stateTok m'}")
        | none => (s, "bad-op")
      | none => (s, "bad-op")
    | _, _, _ => (s, "bad-op")
  | ["close"] =>
    match s.mem with
    | some m =>
      let ops := closeStore m
      ({ s.push ops with mem := none }, s!"ok fs={traceTok ops}")
    | none => (s, "bad-op")
  | ["die", k] =>
    match k.toNat? with
    | some k =>
      if k < s.disks.size then ({ s with mem := none, pend := none, disks := s.disks.extract 0 (k + 1) }, "ok")
      else (s, "bad-op")
    | none => (s, "bad-op")
  | ["crash", k] =>
    match k.toNat? with
    | some k =>
      match s.disks[k]? with
      | some d => (s, crashOut s.cfg d)
      | none => (s, "bad-op")
    | none => (s, "bad-op")
  | ["crashf", k, name, thr] =>
    -- crash image of a CreateFamily: reopen, then the family is present, or CreateFamily(name) is retried
    match k.toNat?, name.toNat?, thr.toInt? with
    | some k, some nm, some t =>
      match s.disks[k]? with
      | some d =>
        let (mem, ops) := openStore s.cfg d
        let d' := applyFsList d ops
        let probe := match mem with
          | none => "-"
          | some m =>
            match m.fam? nm with
            | some _ => "present"
            | none => match createFamily m d' nm t with
              | some _ => "created"
              | none => "failed"
        (s, crashOut s.cfg d ++ " probe=" ++ probe)
      | none => (s, "bad-op")
    | _, _, _ => (s, "bad-op")
  | ["crashx", k] =>
    -- like crash, without the recovery's own trace (the image was taken inside a run of table
    -- removals whose family order comes from Go map iteration)
    match k.toNat? with
    | some k =>
      match s.disks[k]? with
      | some d => (s, crashOut s.cfg d false)
      | none => (s, "bad-op")
    | none => (s, "bad-op")
  | ["crashj", k, n] =>
    -- the disk after the first k FS ops, where MANIFEST-n (being written, not named by CURRENT) ends in
    -- a partial record; reopened, closed, reopened again
    match k.toNat?, n.toInt? with
    | some k, some n =>
      match s.disks[k]? with
      | some d =>
        let d0 : Disk := match Map.lookup d.manifests n with
          | some mf => { d with manifests := Map.upsert d.manifests n ⟨mf.recs.dropLast, true⟩ }
          | none => d
        let (m1, ops1) := openStore s.cfg d0
        let d1 := applyFsList d0 ops1
        match m1 with
        | none => (s, s!"err1 fs={traceTok ops1}")
        | some m =>
          let d1' := applyFsList d1 (closeStore m)
          let out2 := crashOut s.cfg d1'
          if out2.startsWith "ok " then (s, s!"ok fs1={traceTok ops1} " ++ (out2.drop 3).toString)
          else (s, s!"err2 fs1={traceTok ops1} " ++ (out2.drop 4).toString)
      | none => (s, "bad-op")
    | _, _ => (s, "bad-op")
  | "enc" :: fid :: toks =>
    match fid.toInt?, toks.mapM parseLog with
    | some f, some logs => (s, hex (marshal ⟨f, logs⟩))
    | _, _ => (s, "bad-op")
  | ["cfrace", name, point, seq] =>
    match name.toNat?, seq.toNat? with
    | some nm, some sq =>
      if point ≠ "pre-opts" ∧ point ≠ "pre-mkfam" ∧ point ≠ "post-mkfam" then (s, "bad-op") else
      if !cfCfg.held && point = "pre-opts" then (s, "unscheduled") else
      let st := C01CF.run cfCfg { C01CF.St.init with seq := sq } (C01CF.raceSchedule cfCfg nm point)
      (s, C01CF.raceObs st nm)
    | _, _ => (s, "bad-op")
  | ["cfwitness", name] =>
    match name.toNat? with
    | some nm => (s, C01CF.witnessObs cfCfg nm)
    | none => (s, "bad-op")
  | ["mojob", inputsS, nextS, kS, jS, cS] =>
    -- a merge compaction with k output tables, c foreign deleteObsoleteFiles runs after output j (Model/C01MultiOut)
    match (inputsS.splitOn ",").mapM String.toInt?, nextS.toInt?, kS.toNat?, jS.toNat?, cS.toNat? with
    | some inputs, some next, some k, some j, some c =>
      if j > k ∨ k = 0 then (s, "bad-op") else (s, MO.caseObs MO.codeCfg inputs next k j c)
    | _, _, _, _, _ => (s, "bad-op")
  | ["entries", b, lens] =>
    -- entry framing: write records of the given lengths (content generated from the index), read them
    -- back with a read buffer of b bytes; print count, clean-end flag and length:checksum per record
    match b.toNat?, (lens.splitOn ",").mapM String.toNat? with
    | some bsz, some ls =>
      if bsz = 0 then (s, "bad-op") else
      let recs : List Bytes := (List.range ls.length).zip ls |>.map (fun (i, len) =>
        (List.range len).map (fun j => (i * 31 + j * 7 + 3) % 251))
      let r := readEntries bsz (writeEntries recs)
      let sums := r.1.map (fun rec => s!"{rec.length}:{rec.foldl (fun a x => (a * 131 + x) % 1000003) 7}")
      (s, s!"ok n={r.1.length} clean={r.2} {" ".intercalate sums}")
    | _, _ => (s, "bad-op")
  | ["bw", opsS] =>
    match bwRun Generated.C01.defaultWriteBufferSize (opsS.splitOn ",") 0 BW.WState.init [] [] with
    | some outs => (s, " ".intercalate outs)
    | none => (s, "bad-op")
  | ["dec", h] =>
    match unhex h with
    | some b =>
      match unmarshal b with
      | some el => (s, " ".intercalate (toString el.fid :: el.logs.map logTok))
      | none => (s, "err")
    | none => (s, "bad-op")
  | _ => (s, "bad-op")

def main (_args : List String) : IO Unit := Proto.runLoop DSt.init step

end LinVerif.Driver.C01
