/-
Line-protocol driver for the C19 model (query pipeline).

  new <node> <node> ...      stage tree in preorder, node = <S|A|Q|Z|X|C><o|e|p|l|n><#children>
                             (S sync / A pooled / Q pooled, context cancelled while the task is queued /
                             Z pooled, the pool is stopped while Submit is blocked on the full queue /
                             X pooled on a stopped pool / C pooled with a
                             cancelled context on a saturated pool — X and C: the pool rejects the task;
                             o ok / e error / p execution panics / l Plan() panics / n NextStages()
                             panics); runs the caller of pipeline.Execute up to its first gate
  rel <k>                    goroutine k (0 = caller of Execute, k = k-th submitted task) is parked at
                             the gate in front of a stage execution: release it and run it to its next
                             gate or to its end
  cwin <a> <b>               a (successful pooled leaf) parks inside its Complete() hook, b is released
                             and runs, then a goes on (the window inside completeStage)
  burst                      every goroutine is released at once and runs freely (the real tails of
                             completeStage race): the tree is run to the end by some schedule — for the
                             trees the harness uses with it (nothing loses a completion) the final
                             observation does not depend on the schedule (theorems)
  end                        final observation
  chook <o|p> ...            lock discipline of completeStage: pooled leaf stages are completed one after
                             the other in this order, `p` = the stage's Complete() hook panics
                             (Model/CompleteLock.lean, variant = regenerated `completeHookGuarded`)
  leaf-new | leaf-send <nil|err>     LeafExecuteContext.SendResponse
  bmeta <answer> ...         broker side of a metadata query: the nodes' answers in arrival order
  leafreq <data|data-collect-fails|meta|meta-notfound> (<node> ... | - | o | x)    one request on the real leaf path whose stages form this tree
                             (`-`: the request is refused before a pipeline exists and the task
                             handler answers; `o`: a request type Process omits; `x`: the task handler's own pool rejects the
                             request; meta-notfound: the suggest callback answers a not-found failure as an empty result): the tree is run to the end (lowest runnable goroutine
                             first — by the theorems the answer does not depend on the schedule) and
                             the responses `LeafExecuteContext.SendResponse` produces are reported

A *gate* is the point in front of `stage.execute(node)` (instruction `exec`): the only place where
the harness can park a goroutine of the real code without touching lindb's source.  `rel` is a
sequence of atomic model steps of one goroutine, so every harness schedule is a model schedule.
The variant of the model is selected by the regenerated facts `completePassesFirstError`,
`stageRecoversPanic` and `submitRejectNotifies`.
-/
import LinVerif.Util.Proto
import LinVerif.Model.Pipeline
import LinVerif.Model.BrokerMeta
import LinVerif.Model.CompleteLock
import LinVerif.Model.C19Deadline
import LinVerif.Model.C19Either
import LinVerif.Model.C19PlanExec
import LinVerif.Model.C19PoolQueue
import LinVerif.Generated.C19
import LinVerif.Generated.C19b

namespace LinVerif.Driver.C19
open LinVerif LinVerif.Pipeline

def cfg : Cfg :=
  cfgOf Generated.C19.completePassesFirstError Generated.C19.stageRecoversPanic Generated.C19.submitRejectNotifies

structure St where
  pipe : Option State
  leaf : Leaf

def St.init : St := ⟨none, Leaf.init⟩

def parseNode (w : String) : Option (Run × Bool × Outcome × Nat) :=
  match w.toList with
  | a :: o :: k =>
    let run? : Option Run :=
      if a = 'S' then some .inline else if a = 'A' || a = 'Q' || a = 'Z' || a = 'R' then some .pooled
      else if a = 'X' || a = 'C' || a = 'r' then some .rejected else none
    let out? : Option (Bool × Outcome) :=
      if o = 'o' then some (false, .ok) else if o = 'e' then some (false, .error)
      else if o = 'p' then some (false, .panic) else if o = 'l' then some (true, .ok)
      else if o = 'n' then some (false, .nextPanic) else none
    match run?, out?, (String.ofList k).toNat? with
    | some r, some (pp, o), some n => some (r, pp, o, n)
    | _, _, _ => none
  | _ => none

/-- preorder tokens → tree: fold from the right with a stack of finished subtrees -/
def parseTree (ws : List String) : Option Stage :=
  let r : Option (List Stage) := ws.foldr (fun w acc =>
    match acc, parseNode w with
    | some stack, some (r, pp, o, k) =>
      if stack.length < k then none else some (Stage.mk r pp o (stack.take k) :: stack.drop k)
    | _, _ => none) (some [])
  match r with
  | some [root] => some root
  | _ => none

/-- like `parseNode`, with `E` = a pooled stage submitted with a done context and free queue capacity
(`Submit`'s select may take either case) -/
def parsePNode (w : String) : Option (PRun × Bool × Outcome × Nat) :=
  match w.toList with
  | 'E' :: rest =>
    (parseNode (String.ofList ('A' :: rest))).map fun (_, pp, o, k) => (PRun.either, pp, o, k)
  | _ => (parseNode w).map fun (r, pp, o, k) => (PRun.fixed r, pp, o, k)

def parsePTree (ws : List String) : Option PStage :=
  let r : Option (List PStage) := ws.foldr (fun w acc =>
    match acc, parsePNode w with
    | some stack, some (r, pp, o, k) =>
      if stack.length < k then none else some (PStage.mk r pp o (stack.take k) :: stack.drop k)
    | _, _ => none) (some [])
  match r with
  | some [root] => some root
  | _ => none

/-- plan-node tree of the `pexec` op: token = <i|n><o|f|e><#children> (i: built with
NewPlanNodeWithIgnore; o ok / f not found / e another error); ids = preorder positions -/
def parsePlanTree (ws : List String) : Option C19PlanExec.PNode :=
  let n := ws.length
  let r : Option (List C19PlanExec.PNode × Nat) := ws.foldr (fun w acc =>
    match acc, w.toList with
    | some (stack, idx), g :: o :: k =>
      let ig? : Option Bool := if g = 'i' then some true else if g = 'n' then some false else none
      let res? : Option C19PlanExec.OpRes :=
        if o = 'o' then some .ok else if o = 'f' then some .notFound else if o = 'e' then some .err else none
      match ig?, res?, (String.ofList k).toNat? with
      | some ig, some res, some k =>
        if stack.length < k then none
        else some (C19PlanExec.PNode.mk (idx - 1) ig res (stack.take k) :: stack.drop k, idx - 1)
      | _, _, _ => none
    | _, _ => none) (some ([], n))
  match r with
  | some ([root], _) => some root
  | _ => none

def parseDlEv (w : String) : Option C19Deadline.Ev :=
  if w = "dl" then some .deadline else if w = "wd" then some (.wake true) else if w = "wt" then some (.wake false)
  else if w = "un" then some .unregister
  else
    let body := (w.drop 2).toString
    let resp? : Option BrokerMeta.Resp :=
      if body = "nf" then some (.ok []) else if body = "err" then some .err else if body = "bad" then some .bad
      else if body.startsWith "ok:" then
        let vs := (body.drop 3).toString
        some (.ok (if vs = "" then [] else vs.splitOn ","))
      else none
    match resp? with
    | some r =>
      if w.startsWith "r:" then some (.resp r true) else if w.startsWith "x:" then some (.resp r false)
      else if w.startsWith "f:" then some (.inflight r) else none
    | none => none

def atGate (t : Thread) : Bool :=
  match t.code with
  | .exec _ :: _ => true
  | _ => false

/-- run goroutine `k` until it is parked at a gate or has finished -/
def runToGate : Nat → State → Nat → State
  | 0, s, _ => s
  | fuel + 1, s, k =>
    match s.threads[k]? with
    | some t =>
      if atGate t || t.code.isEmpty then s
      else match stepAt cfg s k with
        | some s' => runToGate fuel s' k
        | none => s
    | none => s

def fuel : Nat := 100000

/-- one answer of the `bmeta` op; `some none` = the request could not be sent -/
def parseBm (w : String) : Option (Option BrokerMeta.Resp) :=
  if w = "sf" then some none
  else if w = "nf" then some (some (.ok []))
  else if w = "err" then some (some .err)
  else if w = "bad" then some (some .bad)
  else if w.startsWith "ok:" then
    let body := (w.drop 3).toString
    some (some (.ok (if body = "" then [] else body.splitOn ",")))
  else none

/-- who answers a request: the regenerated facts about Process's return value and the pool -/
def reqCfg : ReqCfg :=
  ⟨Generated.C19.processReturnsPipelineErr, Generated.C19.submitRejectNotifies,
   !Generated.C19.unguardedSendResponseCallers.isEmpty⟩

def showResponses (rs : List Bool) : String :=
  let shown := match rs with
    | [] => "-"
    | r :: _ => if r then "err" else "nil"
  s!"responses={rs.length} resp={shown}"

/-- run to the end: always the lowest-numbered goroutine that still has an instruction -/
def runAll : Nat → State → State
  | 0, s => s
  | n + 1, s =>
    match (List.range s.threads.length).find? (fun k => (stepAt cfg s k).isSome) with
    | some k => match stepAt cfg s k with
      | some s' => runAll n s'
      | none => s
    | none => s

def gates (s : State) : List Nat :=
  (List.range s.threads.length).filter (fun k => match s.threads[k]? with | some t => atGate t | none => false)

def showArg (s : State) : String :=
  match s.sh.fired with
  | [] => "-"
  | f :: _ => if f.arg then "err" else "nil"

def status (s : State) : String :=
  s!"gates={",".intercalate ((gates s).map toString)} pending={s.sh.pending} cb={s.sh.fired.length} arg={showArg s}"

def final (s : State) : String :=
  let after := match s.sh.fired with
    | [] => "-"
    | f :: _ => if f.finished = f.registered && s.sh.registered = f.registered then "all" else "early"
  let idle := if s.threads.all (fun t => t.code.isEmpty) then "yes" else "no"
  s!"cb={s.sh.fired.length} arg={showArg s} after={after} reg={s.sh.registered} fin={s.sh.finished} pending={s.sh.pending} idle={idle}"


/-! ### op `poolq <slots> <n> <events…>` — the pool's queue (Model/C19PoolQueue.lean), tasks 0..n-1.
events: s<i> submit, c<i> check, n<i> send, j<i> ctxReject, t take, x<i> exec, k<i> cancel, `stop`,
`settle` (the pool runs by itself until nothing can move: exec / take / send / check, lowest task first).
Capacity and closure shape are the regenerated ones. -/

def pqEvent (w : String) : Option PoolQueue.Ev :=
  if w = "t" then some .take
  else if w = "stop" then some .stop
  else
    match w.toList with
    | c :: ds =>
      match (String.ofList ds).toNat? with
      | some i =>
        if c = 's' then some (.submit i) else if c = 'c' then some (.check i)
        else if c = 'n' then some (.send i) else if c = 'j' then some (.ctxReject i)
        else if c = 'x' then some (.exec i) else if c = 'k' then some (.cancel i) else none
      | none => none
    | [] => none

def pqProgress (n : Nat) : List PoolQueue.Ev :=
  (List.range n).map .exec ++ [.take] ++ (List.range n).map .send ++ (List.range n).map .check

def pqSettle (c : PoolQueue.Cfg) (n : Nat) : Nat → PoolQueue.St → PoolQueue.St
  | 0, s => s
  | fuel + 1, s =>
    match (pqProgress n).findSome? (fun e => PoolQueue.step c s e) with
    | some s' => pqSettle c n fuel s'
    | none => s

/-- `none`: an event of the script is not enabled or unreadable (`some none` = unreadable) -/
def pqRun (c : PoolQueue.Cfg) (n : Nat) : PoolQueue.St → List String → Option (Option PoolQueue.St)
  | s, [] => some (some s)
  | s, w :: ws =>
    if w = "settle" then pqRun c n (pqSettle c n (8 * n + 8) s) ws
    else match pqEvent w with
      | none => some none
      | some e => match PoolQueue.step c s e with
        | some s' => pqRun c n s' ws
        | none => none

def pqShow (s : PoolQueue.St) (i : Nat) : String :=
  let d := toString (s.done i)
  match s.ph i with
  | .executed => "x" ++ d
  | .rejected => "j" ++ d
  | .idle | .check | .select => "b" ++ d
  | .queued | .held | .skipped => "r" ++ d

def pqStuck (c : PoolQueue.Cfg) (n : Nat) (s : PoolQueue.St) : Bool :=
  (pqProgress n ++ (List.range n).map PoolQueue.Ev.ctxReject).all fun e => (PoolQueue.step c s e).isNone

def step (st : St) (ws : List String) : St × String :=
  match ws with
  | "new" :: toks =>
    match parseTree toks with
    | some root =>
      let s := runToGate fuel (Pipeline.init root) 0
      ({ st with pipe := some s }, status s)
    | none => (st, "bad-op")
  | ["rel", k] =>
    match st.pipe, k.toNat? with
    | some s, some k =>
      match s.threads[k]? with
      | some t =>
        if atGate t then
          match stepAt cfg s k with
          | some s1 =>
            let s2 := runToGate fuel s1 k
            ({ st with pipe := some s2 }, status s2)
          | none => (st, "bad-op")
        else (st, "bad-op not-at-gate")
      | none => (st, "bad-op no-such-goroutine")
    | _, _ => (st, "bad-op")
  | ["cwin", a, b] =>
    -- goroutine a (a successful pooled leaf stage) executes and is parked inside its Complete() hook,
    -- i.e. in front of `track` (the hook runs under sm.mutex, so for everybody else the critical
    -- section has not happened yet); goroutine b is released and runs to its next gate or end; then a
    -- goes on to its end
    match st.pipe, a.toNat?, b.toNat? with
    | some s, some a, some b =>
      match s.threads[a]?, s.threads[b]? with
      | some ta, some tb =>
        if atGate ta && atGate tb && a != b then
          match stepAt cfg s a with
          | some s1 =>
            match (s1.threads[a]?).map (·.code) with
            | some [Instr.track false] =>
              match stepAt cfg s1 b with
              | some s2 =>
                let s3 := runToGate fuel s2 b
                let s4 := runToGate fuel s3 a
                ({ st with pipe := some s4 }, status s4)
              | none => (st, "bad-op")
            | _ => (st, "bad-op not-a-successful-leaf")
          | none => (st, "bad-op")
        else (st, "bad-op not-at-gate")
      | _, _ => (st, "bad-op no-such-goroutine")
    | _, _, _ => (st, "bad-op")
  | ["burst"] =>
    match st.pipe with
    | some s =>
      let s' := runAll fuel s
      ({ st with pipe := some s' }, status s')
    | none => (st, "bad-op")
  | "chook" :: order =>
    if order.isEmpty || !order.all (fun w => w = "o" || w = "p") then (st, "bad-op")
    else
      let f := CompleteLock.runOrder Generated.C19.completeHookGuarded (order.map (· = "p"))
      let arg := if f.fired = 0 then "-" else if f.firstErr then "err" else "nil"
      let mutex := if f.holder = .free then "free" else "held"
      (st, s!"cb={f.fired} arg={arg} pending={f.pending} mutex={mutex}")
  | ["end"] =>
    match st.pipe with
    | some s => ({ st with pipe := none }, final s)
    | none => (st, "bad-op")
  | ["leafreq", _, "-"] => (st, showResponses (noPipelineResponses reqCfg .refused))
  | ["leafreq", _, "o"] => (st, showResponses (noPipelineResponses reqCfg .omitted))
  | ["leafreq", _, "x"] => (st, showResponses (noPipelineResponses reqCfg .rejected))
  | "leafreq" :: kind :: toks =>
    match parseTree toks, (if kind = "data" || kind = "meta" then some (false, false)
                            else if kind = "meta-notfound" then some (true, false)
                            else if kind = "data-collect-fails" then some (false, true) else none) with
    | some root, some (tolerated, collectFails) =>
      let s := runAll fuel (Pipeline.init root)
      (st, showResponses (runResponses reqCfg tolerated collectFails s))
    | _, _ => (st, "bad-op")
  | "bmeta" :: toks =>
    -- broker side of a metadata query: the nodes' answers in arrival order (`sf`: the request could
    -- not be sent, `ok:v1,v2`, `nf`, `err`, `bad`)
    match toks.mapM parseBm with
    | some items =>
      let sendFailed := items.any (·.isNone)
      let rs := items.filterMap id
      let f := BrokerMeta.run Generated.C19.metadataToleratesErrMsg items.length sendFailed rs
      if !f.completed then (st, "none")
      else if f.err then (st, "err")
      else
        let vs := (f.results.toArray.qsort (· < ·)).toList.eraseDups
        (st, "ok " ++ ",".intercalate vs)
    | none => (st, "bad-op")
  | "bdl" :: n :: sf :: evs =>
    -- a root metadata request with a deadline: the script of events as the harness observed them; an event
    -- the model does not allow at that point answers `not-allowed`
    match n.toNat?, (if sf = "0" then some false else if sf = "1" then some true else none), evs.mapM parseDlEv with
    | some n, some sf, some es =>
      match C19Deadline.run Generated.C19.metadataToleratesErrMsg (C19Deadline.init n sf) es with
      | some q =>
        let ret := match q.returned with
          | [] => "-"
          | [.ok vs] => "ok " ++ ",".intercalate ((vs.toArray.qsort (· < ·)).toList.eraseDups)
          | [.err] => "err"
          | [.timeout] => "timeout"
          | _ => "many"
        (st, s!"ret={ret} dropped={q.dropped}")
      | none => (st, "not-allowed")
    | _, _, _ => (st, "bad-op")
  | "leafdl" :: kind :: rest =>
    -- a leaf request whose context is done while stages run: `E` stages may be rejected or run; the
    -- last word is the response the harness observed; allowed = the responses of SOME resolution (a
    -- group-by request's SendResponse(nil) may in addition meet the done context in its collect wait)
    match rest.reverse with
    | obs :: toksR =>
      match parsePTree toksR.reverse, (if kind = "data" then some false else if kind = "data-group-by" then some true else none),
            (if obs = "nil" then some false else if obs = "err" then some true else none) with
      | some p, some groupBy, some o =>
        let outs := p.resolutions.map fun root => runResponses reqCfg false false (runAll fuel (Pipeline.init root))
        let allowed := outs.any fun rs => rs = [o] || (groupBy && o && rs = [false])
        if outs.all (fun rs => rs.length = 1) && allowed then (st, showResponses [o])
        else (st, "not-allowed")
      | _, _, _ => (st, "bad-op")
    | [] => (st, "bad-op")
  | "poolq" :: slots :: n :: evs =>
    match slots.toNat?, n.toNat? with
    | some slots, some n =>
      let c := PoolQueue.cfgOf Generated.C19.poolTasksCapacity slots Generated.C19.pooledClosureIsExecFnOnly
      match pqRun c n PoolQueue.init evs with
      | some (some s) =>
        (st, s!"tasks=[{" ".intercalate ((List.range n).map (pqShow s))}] stuck={pqStuck c n s}")
      | some none => (st, "bad-op")
      | none => (st, "not-allowed")
    | _, _ => (st, "bad-op")
  | "pexec" :: toks =>
    match parsePlanTree toks with
    | some root =>
      let (ran, e) := C19PlanExec.exec ⟨Generated.C19b.toleranceAsksNode, Generated.C19b.toleranceAsksNotFound⟩ root
      let res := match e with
        | none => "nil"
        | some m => s!"err:{m.id}"
      (st, s!"res={res} ran={",".intercalate (ran.map (fun m => toString m.id))}")
    | none => (st, "bad-op")
  | ["leaf-new"] => ({ st with leaf := Leaf.init }, "ok")
  | ["leaf-send", e] =>
    if e = "nil" || e = "err" then
      let l := st.leaf.sendResponse (e = "err")
      let sent := l.sent.length - st.leaf.sent.length
      let shown := " ".intercalate (l.sent.map (fun b => if b then "err" else "nil"))
      ({ st with leaf := l }, s!"sent={sent} responses=[{shown}]")
    else (st, "bad-op")
  | _ => (st, "bad-op")

def main (_args : List String) : IO Unit :=
  Proto.runLoop St.init step

end LinVerif.Driver.C19
