/-
Line-protocol driver for the C18 models (shard assignment + master state machine).

  assign <start> <shift> <startShard> <numShards> <rf> | n1 n2 ...
  modify <start> <shift> <startShard> <cfgShards> <rf> | n1 n2 ... | s:r,r s:r,r ...
  reset | up <id> | down <id> | dbcfg <db> | dropdb <db> | asg <db> s:r,r ...
  burst up <id> down <id> ...   (a batch of node events; answers the state after the last one)
  batch <line> | <line> | ...   (single-event lines; answers the state after the last one)
  noop <what>                   (a malformed event: the state stays as it is)
  leaders <id> | replicas <id>  (StorageState.LeadersOnNode / ReplicasOnNode on the current state)
  qtargets <db>                 (the broker's reading: every online shard of <db> > the live node it is sent to)
  Single events are applied with `Master.step2` — the handlers written with the StorageState helpers, as
  state_manager.go writes them (`step2 = step` on every reachable state: Props.C18.helpers_refine_step).
  cfgh <db> <numShards> <rf> <faults> | n1 n2 ... | none|some s:r,r ... | none|some s:r,r ...
      (the repository side of one handled config event: registered nodes in listing order, the
       persisted assignment found, the assignment persisted afterwards as observed; faults is `-` or
       letters of g (Get fails) l (List fails) p (first Put fails) q (second Put fails); answers
       `persisted <observed>` iff some start, shift < |nodes| make the model persist exactly that)
-/
import LinVerif.Util.Proto
import LinVerif.Model.Master
import LinVerif.Model.C18State

namespace LinVerif.Driver.C18
open LinVerif LinVerif.Assign LinVerif.Master

def sortByKey {α : Type} (l : List (Nat × α)) : List (Nat × α) :=
  (l.toArray.qsort (fun a b => a.1 < b.1)).toList

def showReplicas (rs : List Nat) : String := ",".intercalate (rs.map toString)

def showAsg (a : Assignment) : String :=
  " ".intercalate ((sortByKey a).map (fun (s, rs) => s!"{s}:{showReplicas rs}"))

def parseShard (w : String) : Option (Nat × List Nat) :=
  match w.splitOn ":" with
  | [s, rs] => do
    let sid ← s.toNat?
    let rl ← if rs = "" then some [] else (rs.splitOn ",").mapM String.toNat?
    some (sid, rl)
  | _ => none

def splitBar (ws : List String) : List (List String) :=
  ws.foldr (fun w acc => if w = "|" then [] :: acc else
    match acc with
    | [] => [[w]]
    | h :: t => (w :: h) :: t) [[]]

def showErr : Err → String
  | .numShards => "err num-shards"
  | .replicaFactor => "err replica-factor"
  | .tooFewNodes => "err too-few-nodes"

def showState (st : St) : String :=
  let live := (st.live.toArray.qsort (· < ·)).toList
  let dbs := sortByKey st.shards
  let body := dbs.map (fun (db, ss) =>
    " ".intercalate ((sortByKey ss).map (fun (sid, s) =>
      s!"{db}.{sid}:{s.state}:{s.leader}:{showReplicas s.replicas}")))
  s!"live={showReplicas live} dbs={showReplicas (st.dbs.toArray.qsort (· < ·)).toList} " ++ " ".intercalate body

def showOnNode (res : List (Nat × List Nat)) : String :=
  if res.isEmpty then "-" else
  " ".intercalate ((sortByKey res).map (fun (db, ids) =>
    s!"{db}:{showReplicas (ids.toArray.qsort (· < ·)).toList}"))

def parseBurst : List String → Option (List Event)
  | [] => some []
  | "up" :: id :: rest => do
    let i ← id.toNat?
    let t ← parseBurst rest
    some (.nodeUp i :: t)
  | "down" :: id :: rest => do
    let i ← id.toNat?
    let t ← parseBurst rest
    some (.nodeDown i :: t)
  | _ => none

def stepOne (st : St) (ws : List String) : St × String :=
  match ws with
  | "assign" :: rest =>
    match splitBar rest with
    | [[a, b, c, d, e], nodes] =>
      match a.toNat?, b.toNat?, c.toNat?, d.toInt?, e.toInt?, Proto.natList? nodes with
      | some start, some shift, some ss, some ns, some rf, some nl =>
        match shardAssignment nl ns rf start shift ss with
        | .ok r => (st, "ok " ++ showAsg r)
        | .error e => (st, showErr e)
      | _, _, _, _, _, _ => (st, "bad-op")
    | _ => (st, "bad-op")
  | "modify" :: rest =>
    match splitBar rest with
    | [[a, b, c, d, e], nodes, ex] =>
      match a.toNat?, b.toNat?, c.toNat?, d.toInt?, e.toInt?, Proto.natList? nodes, ex.mapM parseShard with
      | some start, some shift, some ss, some ns, some rf, some nl, some exl =>
        match modifyShardAssignment nl ns rf exl start shift ss with
        | .ok r => (st, "ok " ++ showAsg r)
        | .error e => (st, showErr e)
      | _, _, _, _, _, _, _ => (st, "bad-op")
    | _ => (st, "bad-op")
  | ["reset"] => (St.init, "ok")
  | ["leaders", id] =>
    match id.toNat? with
    | some i => (st, showOnNode (leadersOnNode st.shards i))
    | none => (st, "bad-op")
  | ["replicas", id] =>
    match id.toNat? with
    | some i => (st, showOnNode (replicasOnNode st.asg i))
    | none => (st, "bad-op")
  | ["qtargets", db] =>
    match db.toNat? with
    | some d =>
      match queryTargets st d with
      | none => (st, "no-db")
      | some ts =>
        let parts := (sortByKey ts).map (fun (sid, t) =>
          match t with
          | some l => s!"{sid}>{l}"
          | none => s!"{sid}>?")
        (st, if parts.isEmpty then "-" else " ".intercalate parts)
    | none => (st, "bad-op")
  | ["noop", _] => (st, showState st)      -- an event the manager rejects (malformed config / node event)
  | "burst" :: rest =>
    match parseBurst rest with
    | some evs => let s := Master.run2 st evs; (s, showState s)
    | none => (st, "bad-op")
  | ["up", id] =>
    match id.toNat? with
    | some i => let s := Master.step2 st (.nodeUp i); (s, showState s)
    | none => (st, "bad-op")
  | ["down", id] =>
    match id.toNat? with
    | some i => let s := Master.step2 st (.nodeDown i); (s, showState s)
    | none => (st, "bad-op")
  | ["dbcfg", db] =>
    match db.toNat? with
    | some i => let s := Master.step2 st (.dbCfg i); (s, showState s)
    | none => (st, "bad-op")
  | ["dropdb", db] =>
    match db.toNat? with
    | some i => let s := Master.step2 st (.dropDb i); (s, showState s)
    | none => (st, "bad-op")
  | "asg" :: db :: shards =>
    match db.toNat?, shards.mapM parseShard with
    | some i, some a => let s := Master.step2 st (.assignChanged i a); (s, showState s)
    | _, _ => (st, "bad-op")
  | _ => (st, "bad-op")

def parseOptAsg : List String → Option (Option Assignment)
  | ["none"] => some none
  | "some" :: ws => (ws.mapM parseShard).map some
  | _ => none

def parseFaults (w : String) : Option Faults :=
  if w = "-" then some Faults.none
  else if w.toList.all (fun ch => ch = 'g' || ch = 'l' || ch = 'p' || ch = 'q') && w ≠ "" then
    some { get := w.toList.contains 'g', list := w.toList.contains 'l', put := w.toList.contains 'p' }
  else none

def showOptAsg : Option Assignment → String
  | none => "none"
  | some a => if a.isEmpty then "some" else "some " ++ showAsg a

/-- does some pair of draws `start, shift < max 1 n` make the handler persist `obs`? Answers the
model's persisted assignment for the first matching pair, otherwise for `start = shift = 0`. -/
def cfghAnswer (db : Nat) (ns rf : Int) (f : Faults) (nodes : List Nat) (before : Option Assignment)
    (obs : Option Assignment) : String :=
  let r : Store := { reg := nodes, asgs := match before with | none => [] | some a => [(db, a)] }
  let n := max 1 nodes.length
  let result (start shift : Nat) : Option Assignment :=
    (Map.lookup (cfgHandle r [] db ns rf start shift f).asgs db).map sortByKey
  let want := obs.map sortByKey
  let pairs := (List.range n).flatMap (fun a => (List.range n).map (fun b => (a, b)))
  match pairs.find? (fun p => result p.1 p.2 == want) with
  | some p => "persisted " ++ showOptAsg (result p.1 p.2)
  | none => "persisted " ++ showOptAsg (result 0 0) ++ " (no start/shift reproduces the observed assignment)"

def stepCfgh (st : St) (ws : List String) : St × String :=
  match splitBar ws with
  | [[d, a, b, fl], nodes, bef, aft] =>
    match d.toNat?, a.toInt?, b.toInt?, parseFaults fl, Proto.natList? nodes, parseOptAsg bef, parseOptAsg aft with
    | some db, some ns, some rf, some f, some nl, some before, some obs =>
      (st, cfghAnswer db ns rf f nl before obs)
    | _, _, _, _, _, _, _ => (st, "bad-op")
  | _ => (st, "bad-op")

/-- `batch ev | ev | ...`: single-event lines applied in order, answers the state after the last one -/
def step (st : St) (ws : List String) : St × String :=
  match ws with
  | "batch" :: rest =>
    let r := (splitBar rest).foldl (fun (acc : St × Bool) seg =>
      if seg.isEmpty then acc else
        let so := stepOne acc.1 seg
        (so.1, acc.2 && so.2 != "bad-op")) (st, true)
    if r.2 then (r.1, showState r.1) else (st, "bad-op")
  | "cfgh" :: rest => stepCfgh st rest
  | _ => stepOne st ws

def main (_args : List String) : IO Unit := Proto.runLoop St.init step

end LinVerif.Driver.C18
