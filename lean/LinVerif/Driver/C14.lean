/-
Line-protocol driver for the C14 models (storage codecs). Objects are addressed by small
integer handles; bytes travel as lowercase hex (`-` for the empty string).

  uv n | sv i | ruv hex | rsv hex | zz i | zzd n | uvs n | mw n
  bw new|bit|bits|byte|flush|reset h ...        br new|bit|bits|byte|reset h ...
  xe new|write|reset|bytes h ...                xd new|next|reset h ...
  te new|get|rst|reset|time|val|emit|bytes|bwt|rel h ...
  td new|get|reset|rtr|next|hv|hvs|gv|val|seek|slot|err|se|rel h ...
  de new|reset|add|bytes h ...                  dd new|reset|hasnext|next h ...
  fe new|reset|add|from|marshal|msize|size h ...   fd new|get|unm|at|blk|size|width|rel h ...
  cw new h | fill h b hex | write h b n | cut h      (snappy chunk writer + the caller's row buffers)
-/
import LinVerif.Util.Proto
import LinVerif.Util.Map
import LinVerif.Model.Tsd
import LinVerif.Model.DeltaPack
import LinVerif.Model.FixedOffset
import LinVerif.Model.Stream
import LinVerif.Model.StreamExt
import LinVerif.Model.BufAlias
import LinVerif.Model.EncUtils

namespace LinVerif.Driver.C14
open LinVerif LinVerif.Bits LinVerif.Varint

def hexDigit (n : Nat) : Char :=
  if n < 10 then Char.ofNat (48 + n) else Char.ofNat (87 + n)

def hex (bs : List Nat) : String :=
  if bs.isEmpty then "-" else
  String.ofList (bs.foldr (fun b acc => hexDigit (b / 16 % 16) :: hexDigit (b % 16) :: acc) [])

def unhexDigit (c : Char) : Option Nat :=
  if '0' ≤ c ∧ c ≤ '9' then some (c.toNat - 48)
  else if 'a' ≤ c ∧ c ≤ 'f' then some (c.toNat - 87)
  else none

def unhexAux : List Char → Option (List Nat)
  | [] => some []
  | [_] => none
  | a :: b :: rest => do
    let x ← unhexDigit a
    let y ← unhexDigit b
    let t ← unhexAux rest
    some ((16 * x + y) :: t)

def unhex (s : String) : Option (List Nat) :=
  if s = "-" then some [] else unhexAux s.toList

def showB (b : Bool) : String := if b then "true" else "false"

def showRErr : RErr → String
  | .none => "nil"
  | .eof => "eof"
  | .overflow => "overflow"

def parseBit (s : String) : Option Bool :=
  if s = "1" then some true else if s = "0" then some false else none

structure St where
  bw : List (Nat × Writer) := []
  br : List (Nat × Reader) := []
  xe : List (Nat × (Xor.Enc × Writer)) := []
  xd : List (Nat × (Xor.Dec × Reader)) := []
  te : List (Nat × Tsd.Enc) := []
  td : List (Nat × Tsd.Dec) := []
  de : List (Nat × DeltaPack.Enc) := []
  dd : List (Nat × DeltaPack.Dec) := []
  fe : List (Nat × FixedOffset.Enc) := []
  fd : List (Nat × FixedOffset.Dec) := []
  sw : List (Nat × Stream.Writer) := []
  sr : List (Nat × Stream.Reader) := []
  tsw : List (Nat × Stream.Writer) := []
  tsr : List (Nat × (Stream.TsdStreamReader × Nat)) := []
  cw : List (Nat × BufAlias.World) := []
  swm : List (Nat × Nat) := []   -- handles of `sw` that are SliceWriters: maxLen

def bad (st : St) : St × String := (st, "bad-op")

def stepPure (ws : List String) : Option String :=
  match ws with
  | ["uv", n] => do
    let x ← n.toNat?
    if x ≥ two64 then none else
    let bs := putUvarint x
    let (v, rest, e) := readUvarint bs
    some s!"{hex bs} {v} {rest.length} {showRErr e}"
  | ["sv", n] => do
    let x ← n.toInt?
    if x < -(two63 : Int) ∨ x ≥ (two63 : Int) then none else
    let bs := putVarint x
    let (v, rest, e) := readVarint bs
    some s!"{hex bs} {v} {rest.length} {showRErr e}"
  | ["ruv", h] => do
    let bs ← unhex h
    let (v, rest, e) := readUvarint bs
    some s!"{v} {bs.length - rest.length} {showRErr e}"
  | ["rsv", h] => do
    let bs ← unhex h
    let (v, rest, e) := readVarint bs
    some s!"{v} {bs.length - rest.length} {showRErr e}"
  | ["zz", n] => do
    let x ← n.toInt?
    if x < -(two63 : Int) ∨ x ≥ (two63 : Int) then none else
    some s!"{zigzagEnc x}"
  | ["zzd", n] => do
    let x ← n.toNat?
    if x ≥ two64 then none else
    some s!"{zigzagDec x}"
  | ["uvs", n] => do
    let x ← n.toNat?
    if x ≥ two64 then none else
    some s!"{uvariantSize x}"
  | ["tdt", h] => do
    let bs ← unhex h
    match Tsd.decodeTSDTime bs with
    | some (a, b) => some s!"{a} {b}"
    | none => some "panic"
  | ["b2u", h] => do
    let bs ← unhex h
    some s!"{FixedOffset.byteSlice2Uint32 bs}"
  | ["hb", n] => do
    let x ← n.toNat?
    if x ≥ two32 then none else
    some s!"{EncUtils.highBits x} {EncUtils.lowBits x}"
  | ["hlv", hi, lo] => do
    let hi ← hi.toNat?
    let lo ← lo.toNat?
    if hi ≥ two32 ∨ lo ≥ 65536 then none else
    some s!"{EncUtils.valueWithHighLowBits hi lo}"
  | "u32b" :: vs => do
    let vs ← vs.mapM String.toNat?
    if vs.any (· ≥ two32) then none else
    some (hex (EncUtils.u32SliceToBytes vs))
  | "u64b" :: vs => do
    let vs ← vs.mapM String.toNat?
    if vs.any (· ≥ two64) then none else
    some (hex (EncUtils.u64SliceToBytes vs))
  | ["bu32", h] => do
    let bs ← unhex h
    some (" ".intercalate ("n" :: (EncUtils.bytesToU32Slice bs).map toString))
  | ["bu64", h] => do
    let bs ← unhex h
    some (" ".intercalate ("n" :: (EncUtils.bytesToU64Slice bs).map toString))
  | ["f64b", n] => do
    let x ← n.toNat?
    if x ≥ two64 then none else
    some (hex (EncUtils.float64ToBytes x))
  | ["bf64", h] => do
    let bs ← unhex h
    let v ← EncUtils.bytesToFloat64 bs
    some s!"{v}"
  | ["mw", n] => do
    let x ← n.toNat?
    if x ≥ two32 then none else
    some s!"{FixedOffset.uint32MinWidth x}"
  | _ => none

def showOptVal (o : Option Nat) : String :=
  match o with
  | some v => s!"{v} nil"
  | none => "0 err"

def stepBw (st : St) (ws : List String) : St × String :=
  match ws with
  | ["new", h] =>
    match h.toNat? with
    | some h => ({ st with bw := Map.upsert st.bw h Writer.fresh }, hex [])
    | none => bad st
  | op :: h :: args =>
    match h.toNat? with
    | none => bad st
    | some h =>
      match Map.lookup st.bw h with
      | none => bad st
      | some w =>
        let fin (w' : Writer) : St × String := ({ st with bw := Map.upsert st.bw h w' }, hex w'.out)
        match op, args with
        | "bit", [b] => match parseBit b with
          | some b => fin (w.writeBit b)
          | none => bad st
        | "bits", [u, n] => match u.toNat?, n.toNat? with
          | some u, some n => if u < two64 then fin (w.writeBits u n) else bad st
          | _, _ => bad st
        | "byte", [b] => match b.toNat? with
          | some b => if b < 256 then fin (w.writeByte b) else bad st
          | none => bad st
        | "flush", [] => fin w.flush
        | "reset", [] => fin (w.reset [])
        | _, _ => bad st
  | _ => bad st

def stepBr (st : St) (ws : List String) : St × String :=
  match ws with
  | ["new", h, d] =>
    match h.toNat?, unhex d with
    | some h, some d => ({ st with br := Map.upsert st.br h (Reader.fresh d) }, "ok")
    | _, _ => bad st
  | op :: h :: args =>
    match h.toNat? with
    | none => bad st
    | some h =>
      match Map.lookup st.br h with
      | none => bad st
      | some r =>
        let fin (r' : Reader) (out : String) : St × String := ({ st with br := Map.upsert st.br h r' }, out)
        match op, args with
        | "bit", [] => let (b, e, r') := r.readBit; fin r' s!"{showB b} {if e then "err" else "nil"}"
        | "bits", [n] => match n.toNat? with
          | some n => let (v, r') := r.readBits n; fin r' (showOptVal v)
          | none => bad st
        | "byte", [] => let (b, e, r') := r.readByte; fin r' s!"{b} {if e then "err" else "nil"}"
        | "reset", [] => fin r.reset "ok"
        | _, _ => bad st
  | _ => bad st

def stepXe (st : St) (ws : List String) : St × String :=
  match ws with
  | ["new", h] =>
    match h.toNat? with
    | some h => ({ st with xe := Map.upsert st.xe h (Xor.Enc.fresh, Writer.fresh) }, "ok")
    | none => bad st
  | op :: h :: args =>
    match h.toNat? with
    | none => bad st
    | some h =>
      match Map.lookup st.xe h with
      | none => bad st
      | some (e, w) =>
        match op, args with
        | "write", [u] => match u.toNat? with
          | some u => if u < two64 then ({ st with xe := Map.upsert st.xe h (e.write w u) }, "ok") else bad st
          | none => bad st
        | "reset", [] => ({ st with xe := Map.upsert st.xe h (e.reset, w.reset []) }, "ok")
        | "bytes", [] => let w' := w.flush; ({ st with xe := Map.upsert st.xe h (e, w') }, hex w'.out)
        | _, _ => bad st
  | _ => bad st

def stepXd (st : St) (ws : List String) : St × String :=
  match ws with
  | ["new", h, d] =>
    match h.toNat?, unhex d with
    | some h, some d => ({ st with xd := Map.upsert st.xd h (Xor.Dec.fresh, Reader.fresh d) }, "ok")
    | _, _ => bad st
  | op :: h :: args =>
    match h.toNat? with
    | none => bad st
    | some h =>
      match Map.lookup st.xd h with
      | none => bad st
      | some (d, r) =>
        match op, args with
        | "next", [] =>
          let (ok, d', r') := d.next r
          ({ st with xd := Map.upsert st.xd h (d', r') }, s!"{showB ok} {d'.value}")
        | "reset", [data] => match unhex data with
          | some data => ({ st with xd := Map.upsert st.xd h (d.reset, (r.setBuf data).reset) }, "ok")
          | none => bad st
        | _, _ => bad st
  | _ => bad st

def stepTe (st : St) (ws : List String) : St × String :=
  match ws with
  | [op, h, s] =>
    match h.toNat?, s.toNat? with
    | some h, some s =>
      if op = "new" ∨ op = "get" then
        if s < 65536 then ({ st with te := Map.upsert st.te h (Tsd.Enc.fresh s) }, "ok") else bad st
      else
        match Map.lookup st.te h with
        | none => bad st
        | some e =>
          let fin (e' : Tsd.Enc) : St × String := ({ st with te := Map.upsert st.te h e' }, "ok")
          if op = "rst" then (if s < 65536 then fin (e.resetWithStartTime s) else bad st)
          else if op = "time" then (if s < 2 then fin (e.appendTime (s == 1)) else bad st)
          else if op = "val" then (if s < two64 then fin (e.appendValue s) else bad st)
          else if op = "emit" then (if s < two64 then fin (e.emit s) else bad st)
          else bad st
    | _, _ => bad st
  | [op, h] =>
    match h.toNat? with
    | none => bad st
    | some h =>
      match Map.lookup st.te h with
      | none => bad st
      | some e =>
        if op = "reset" then ({ st with te := Map.upsert st.te h e.reset }, "ok")
        else if op = "bytes" then
          let (o, e') := e.bytes
          ({ st with te := Map.upsert st.te h e' }, match o with | some b => hex b | none => "nil")
        else if op = "bwt" then
          let (b, e') := e.bytesWithoutTime
          ({ st with te := Map.upsert st.te h e' }, hex b)
        else if op = "rel" then ({ st with te := Map.erase st.te h }, "ok")
        else bad st
  | _ => bad st

def stepTd (st : St) (ws : List String) : St × String :=
  match ws with
  | ["new", h, d] =>
    match h.toNat?, unhex d with
    | some h, some d => ({ st with td := Map.upsert st.td h (Tsd.Dec.fresh d) }, "ok")
    | _, _ => bad st
  | ["get", h] =>
    match h.toNat? with
    | some h => ({ st with td := Map.upsert st.td h Tsd.Dec.zero }, "ok")
    | none => bad st
  | op :: h :: args =>
    match h.toNat? with
    | none => bad st
    | some h =>
      match Map.lookup st.td h with
      | none => bad st
      | some d =>
        let fin (d' : Tsd.Dec) (out : String) : St × String := ({ st with td := Map.upsert st.td h d' }, out)
        match op, args with
        | "reset", [data] => match unhex data with
          | some data => fin (d.reset data) "ok"
          | none => bad st
        | "rtr", [data, s, e] => match unhex data, s.toNat?, e.toNat? with
          | some data, some s, some e => if s < 65536 ∧ e < 65536 then fin (d.resetWithTimeRange data s e) "ok" else bad st
          | _, _, _ => bad st
        | "next", [] => let (b, d') := d.next; fin d' (showB b)
        | "hv", [] => let (b, d') := d.hasValue; fin d' (showB b)
        | "hvs", [s] => match s.toNat? with
          | some s => if s < 65536 then (let (b, d') := d.hasValueWithSlot s; fin d' (showB b)) else bad st
          | none => bad st
        | "gv", [s] => match s.toNat? with
          | some s => if s < 65536 then
              (let (o, d') := d.getValue s
               fin d' (match o with | some v => s!"true {v}" | none => "false"))
            else bad st
          | none => bad st
        | "val", [] => let (v, d') := d.value; fin d' s!"{v}"
        | "seek", [s] => match s.toNat? with
          | some s => if s < 65536 then (let (b, d') := d.seek s; fin d' (showB b)) else bad st
          | none => bad st
        | "slot", [] => (st, s!"{d.slot}")
        | "err", [] => (st, showB d.err)
        | "se", [] => (st, s!"{d.startTime} {d.endTime}")
        | "rel", [] => ({ st with td := Map.erase st.td h }, "ok")
        | _, _ => bad st
  | _ => bad st

def inI32 (x : Int) : Bool := decide (-(two31 : Int) ≤ x ∧ x < (two31 : Int))

def stepDe (st : St) (ws : List String) : St × String :=
  match ws with
  | ["new", h] =>
    match h.toNat? with
    | some h => ({ st with de := Map.upsert st.de h DeltaPack.Enc.fresh }, "ok")
    | none => bad st
  | op :: h :: args =>
    match h.toNat? with
    | none => bad st
    | some h =>
      match Map.lookup st.de h with
      | none => bad st
      | some e =>
        match op, args with
        | "reset", [] => ({ st with de := Map.upsert st.de h e.reset }, "ok")
        | "add", [v] => match v.toInt? with
          | some v => if inI32 v then ({ st with de := Map.upsert st.de h (e.add v) }, "ok") else bad st
          | none => bad st
        | "bytes", [] => let (b, e') := e.bytes; ({ st with de := Map.upsert st.de h e' }, hex b)
        | _, _ => bad st
  | _ => bad st

def stepDd (st : St) (ws : List String) : St × String :=
  match ws with
  | ["new", h, d] =>
    match h.toNat?, unhex d with
    | some h, some d => ({ st with dd := Map.upsert st.dd h (DeltaPack.Dec.fresh d) }, "ok")
    | _, _ => bad st
  | op :: h :: args =>
    match h.toNat? with
    | none => bad st
    | some h =>
      match Map.lookup st.dd h with
      | none => bad st
      | some d =>
        match op, args with
        | "reset", [data] => match unhex data with
          | some data => ({ st with dd := Map.upsert st.dd h (d.reset data) }, "ok")
          | none => bad st
        | "hasnext", [] => (st, showB d.hasNext)
        | "next", [] => let (v, d') := d.next; ({ st with dd := Map.upsert st.dd h d' }, s!"{v}")
        | _, _ => bad st
  | _ => bad st

def showUErr : FixedOffset.UErr → String
  | .tooShort => "err too-short"
  | .badWidth => "err bad-width"
  | .badUvarint => "err bad-uvarint"
  | .badLength => "err bad-length"

def stepFe (st : St) (ws : List String) : St × String :=
  match ws with
  | ["new", h, inc] =>
    match h.toNat?, parseBit inc with
    | some h, some inc => ({ st with fe := Map.upsert st.fe h (FixedOffset.Enc.fresh inc) }, "ok")
    | _, _ => bad st
  | op :: h :: args =>
    match h.toNat? with
    | none => bad st
    | some h =>
      match Map.lookup st.fe h with
      | none => bad st
      | some e =>
        match op, args with
        | "reset", [] => ({ st with fe := Map.upsert st.fe h e.reset }, "ok")
        | "add", [v] => match v.toInt? with
          | some v =>
            if v < -(two63 : Int) ∨ v ≥ (two63 : Int) then bad st else
            match e.add v with
            | .ok e' => ({ st with fe := Map.upsert st.fe h e' }, "ok")
            | .error .notIncreasing => (st, "panic not-increasing")
            | .error .negative => (st, "panic negative")
          | none => bad st
        | "from", vs => match Proto.intList? vs with
          | some vs => ({ st with fe := Map.upsert st.fe h (e.fromValues vs) }, "ok")
          | none => bad st
        | "marshal", [] => (st, hex e.marshal)
        | "write", [k] => match k.toNat? with
          | some k => let (cs, err) := e.writeTo k; (st, s!"{hex cs.flatten} {showB err}")
          | none => bad st
        | "msize", [] => (st, s!"{e.marshalSize}")
        | "size", [] => (st, s!"{e.values.length}")
        | "empty", [] => (st, showB e.isEmpty)
        | _, _ => bad st
  | _ => bad st

def stepFd (st : St) (ws : List String) : St × String :=
  match ws with
  | [op, h] =>
    match h.toNat? with
    | none => bad st
    | some h =>
      if op = "new" ∨ op = "get" then ({ st with fd := Map.upsert st.fd h FixedOffset.Dec.fresh }, "ok")
      else
        match Map.lookup st.fd h with
        | none => bad st
        | some d =>
          if op = "size" then (st, s!"{d.sizeOf}")
          else if op = "width" then (st, s!"{d.width}")
          else if op = "rel" then ({ st with fd := Map.erase st.fd h }, "ok")
          else bad st
  | op :: h :: args =>
    match h.toNat? with
    | none => bad st
    | some h =>
      match Map.lookup st.fd h with
      | none => bad st
      | some d =>
        match op, args with
        | "unm", [data] => match unhex data with
          | some data =>
            let (res, d') := d.unmarshal data
            ({ st with fd := Map.upsert st.fd h d' },
              match res with
              | .ok left => s!"ok {hex left}"
              | .error e => showUErr e)
          | none => bad st
        | "at", [i] => match i.toInt? with
          | some i =>
            -- through `Dec.step` (Round 12): the object after a read is what the model says it is
            let r := d.step (.get i)
            ({ st with fd := Map.upsert st.fd h r.2 },
              match r.1 with
              | .get (some v) => s!"{v} true"
              | .get none => "0 false"
              | _ => "bad-op")
          | none => bad st
        | "blk", [i, data] => match i.toInt?, unhex data with
          | some i, some data =>
            let r := d.step (.blk i data)
            ({ st with fd := Map.upsert st.fd h r.2 },
              match r.1 with
              | .blk (.ok b) => s!"ok {hex b}"
              | .blk (.error .corruptedIndex) => "err corrupted-index"
              | .blk (.error .corruptedRange) => "err corrupted-range"
              | _ => "bad-op")
          | _, _ => bad st
        | _, _ => bad st
  | _ => bad st

def showSErr : Stream.SErr → String
  | .none => "nil"
  | .eof => "eof"
  | .overflow => "overflow"
  | .unexpected => "unexpected"

def showSr (r : Stream.Reader) : String := s!"{r.position} {showB r.empty} {showSErr r.err}"

/-- `sw new h | byte h b | bytes h hex | u16|u32|u64 h v | uv h v | sv h i | reset h` → buffer hex -/
def stepSw (st : St) (ws : List String) : St × String :=
  match ws with
  | ["new", h] =>
    match h.toNat? with
    | some h => ({ st with sw := Map.upsert st.sw h Stream.Writer.fresh, swm := Map.erase st.swm h }, hex [])
    | none => bad st
  | ["newslice", h, m] =>
    -- `NewSliceWriter(make([]byte, m))`
    match h.toNat?, m.toNat? with
    | some h, some m => ({ st with sw := Map.upsert st.sw h Stream.Writer.fresh, swm := Map.upsert st.swm h m }, hex [])
    | _, _ => bad st
  | op :: h :: args =>
    match h.toNat? with
    | none => bad st
    | some h =>
      match Map.lookup st.sw h with
      | none => bad st
      | some w =>
        let fin (w' : Stream.Writer) : St × String := ({ st with sw := Map.upsert st.sw h w' }, hex w'.buf)
        match op, args with
        | "i16", [v] => match v.toInt? with
          | some v => if v < -32768 ∨ v ≥ 32768 then bad st else fin (w.putInt16 v)
          | none => bad st
        | "i32", [v] => match v.toInt? with
          | some v => if v < -(two31 : Int) ∨ v ≥ (two31 : Int) then bad st else fin (w.putInt32 v)
          | none => bad st
        | "i64", [v] => match v.toInt? with
          | some v => if v < -(two63 : Int) ∨ v ≥ (two63 : Int) then bad st else fin (w.putInt64 v)
          | none => bad st
        | "len", [] => (st, s!"{w.len}")
        | "switch", [d] => match unhex d with
          | some d => match Map.lookup st.swm h with
            | some _ => bad st     -- SliceWriter has no SwitchBuffer
            | none => fin (w.switchBuffer d)
          | none => bad st
        | "err", [] => match Map.lookup st.swm h with
          | some m => (st, showB (Stream.SliceWriter.error ⟨w, m⟩))
          | none => (st, "false")
        | "backing", [d] => match unhex d, Map.lookup st.swm h with
          | some d, some m =>
            if d.length ≠ m then bad st else
            match Stream.SliceWriter.backing ⟨w, m⟩ d with
            | some arr => (st, hex arr)
            | none => (st, "moved")
          | _, _ => bad st
        | "byte", [b] => match b.toNat? with
          | some b => if b < 256 then fin (w.putByte b) else bad st
          | none => bad st
        | "bytes", [d] => match unhex d with
          | some d => fin (w.putBytes d)
          | none => bad st
        | "u16", [v] => match v.toNat? with
          | some v => if v < 65536 then fin (w.putUint16 v) else bad st
          | none => bad st
        | "u32", [v] => match v.toNat? with
          | some v => if v < two32 then fin (w.putUint32 v) else bad st
          | none => bad st
        | "u64", [v] => match v.toNat? with
          | some v => if v < two64 then fin (w.putUint64 v) else bad st
          | none => bad st
        | "uv", [v] => match v.toNat? with
          | some v => if v < two64 then fin (w.putUvarint v) else bad st
          | none => bad st
        | "sv", [v] => match v.toInt? with
          | some v => if v < -(two63 : Int) ∨ v ≥ (two63 : Int) then bad st else fin (w.putVarint v)
          | none => bad st
        | "reset", [] => fin w.reset
        | _, _ => bad st
  | _ => bad st

/-- `sr new h hex | byte|u16|u32|u64|uv64|uv32|sv64|sv32|unread|state h | bytes|slice|at|until h n`
→ `<result> <position> <empty> <err>` -/
def stepSr (st : St) (ws : List String) : St × String :=
  match ws with
  | ["new", h, d] =>
    match h.toNat?, unhex d with
    | some h, some d => ({ st with sr := Map.upsert st.sr h (Stream.Reader.fresh d) }, "ok")
    | _, _ => bad st
  | op :: h :: args =>
    match h.toNat? with
    | none => bad st
    | some h =>
      match Map.lookup st.sr h with
      | none => bad st
      | some r =>
        let fin (out : String) (r' : Stream.Reader) : St × String :=
          ({ st with sr := Map.upsert st.sr h r' }, s!"{out} {showSr r'}")
        match op, args with
        | "byte", [] => let (b, r') := r.readByte; fin s!"{b}" r'
        | "u16", [] => let (v, r') := r.readUintN 2; fin s!"{v}" r'
        | "u32", [] => let (v, r') := r.readUintN 4; fin s!"{v}" r'
        | "u64", [] => let (v, r') := r.readUintN 8; fin s!"{v}" r'
        | "uv64", [] => let (v, r') := r.readUvarint64; fin s!"{v}" r'
        | "uv32", [] => let (v, r') := r.readUvarint32; fin s!"{v}" r'
        | "sv64", [] => let (v, r') := r.readVarint64; fin s!"{v}" r'
        | "sv32", [] => let (v, r') := r.readVarint32; fin s!"{v}" r'
        | "i16", [] => let (v, r') := r.readInt16; fin s!"{v}" r'
        | "i32", [] => let (v, r') := r.readInt32; fin s!"{v}" r'
        | "i64", [] => let (v, r') := r.readInt64; fin s!"{v}" r'
        | "seek", [] => fin "-" r.seekStart
        | "unread", [] => fin (hex r.unreadSlice) r
        | "state", [] => fin "-" r
        | "bytes", [n] => match n.toInt? with
          | some n => let (bs, r') := r.readBytes n; fin (hex bs) r'
          | none => bad st
        | "slice", [n] => match n.toInt? with
          | some n => let (bs, r') := r.readSlice n; fin (hex bs) r'
          | none => bad st
        | "at", [n] => match n.toInt? with
          | some n => fin "-" (r.readAt n)
          | none => bad st
        | "until", [c] => match c.toNat? with
          | some c => if c < 256 then (let (bs, r') := r.readUntil c; fin (hex bs) r') else bad st
          | none => bad st
        | "reset", [d] => match unhex d with
          | some d => fin "-" (r.reset d)
          | none => bad st
        | _, _ => bad st
  | _ => bad st

/-- `tsw new h s e | field h id hex | bytes h` -/
def stepTsw (st : St) (ws : List String) : St × String :=
  match ws with
  | ["new", h, s, e] =>
    match h.toNat?, s.toNat?, e.toNat? with
    | some h, some s, some e =>
      if s < 65536 ∧ e < 65536 then ({ st with tsw := Map.upsert st.tsw h (Stream.tsdStreamNew s e) }, "ok") else bad st
    | _, _, _ => bad st
  | ["field", h, id, d] =>
    match h.toNat?, id.toNat?, unhex d with
    | some h, some id, some d =>
      match Map.lookup st.tsw h with
      | some w => if id < 65536 then ({ st with tsw := Map.upsert st.tsw h (Stream.tsdStreamWriteField w id d) }, "ok") else bad st
      | none => bad st
    | _, _, _ => bad st
  | ["bytes", h] =>
    match h.toNat? with
    | some h => match Map.lookup st.tsw h with
      | some w => (st, hex w.buf)
      | none => bad st
    | none => bad st
  | _ => bad st

/-- `tsr new h hex k` (the pooled field decoder becomes `td` handle `k`) | `hasnext h` | `next h` | `close h` -/
def stepTsr (st : St) (ws : List String) : St × String :=
  match ws with
  | ["new", h, d, k] =>
    match h.toNat?, unhex d, k.toNat? with
    | some h, some d, some k =>
      let sr := Stream.TsdStreamReader.new d Tsd.Dec.zero
      ({ st with tsr := Map.upsert st.tsr h (sr, k), td := Map.upsert st.td k sr.field }, s!"{sr.startTime} {sr.endTime}")
    | _, _, _ => bad st
  | [op, h] =>
    match h.toNat? with
    | none => bad st
    | some h =>
      match Map.lookup st.tsr h with
      | none => bad st
      | some (sr, k) =>
        if op = "hasnext" then (st, showB sr.hasNext)
        else if op = "next" then
          -- the decoder object is shared with the `td` handle: take its current state first
          let cur := (Map.lookup st.td k).getD sr.field
          let (id, _, sr') := ({ sr with field := cur }).next
          ({ st with tsr := Map.upsert st.tsr h (sr', k), td := Map.upsert st.td k sr'.field }, s!"{id}")
        else if op = "close" then ({ st with tsr := Map.erase st.tsr h, td := Map.erase st.td k }, "ok")
        else bad st
  | _ => bad st

/-- `cw new h | fill h b hex | write h b n | cut h`: the snappy chunk writer (`snappyWriter.Write/Close/Bytes`
followed by `Uncompress`, which by the library contract returns the chunk's plain text) and the caller's row
buffers. Whether `Write` copies or keeps the slice is what the SOURCE says now (`BufAlias.snappyWriteSem`); a
sink without known semantics answers `bad-op`. -/
def stepCw (st : St) (ws : List String) : St × String :=
  match BufAlias.snappyWriteSem with
  | none => bad st
  | some sem =>
    match ws with
    | ["new", h] =>
      match h.toNat? with
      | some h => ({ st with cw := Map.upsert st.cw h {} }, "ok")
      | none => bad st
    | ["fill", h, b, d] =>
      match h.toNat?, b.toNat?, unhex d with
      | some h, some b, some d =>
        match Map.lookup st.cw h with
        | some w => ({ st with cw := Map.upsert st.cw h (w.fill b d) }, "ok")
        | none => bad st
      | _, _, _ => bad st
    | ["write", h, b, n] =>
      match h.toNat?, b.toNat?, n.toNat? with
      | some h, some b, some n =>
        match Map.lookup st.cw h with
        | some w =>
          match w.write sem b n with
          | some w' => ({ st with cw := Map.upsert st.cw h w' }, s!"{n} nil")
          | none => bad st
        | none => bad st
      | _, _, _ => bad st
    | ["cut", h] =>
      match h.toNat? with
      | some h =>
        match Map.lookup st.cw h with
        | some w => ({ st with cw := Map.upsert st.cw h w.cut.2 }, hex w.cut.1)
        | none => bad st
      | none => bad st
    | _ => bad st

def step (st : St) (ws : List String) : St × String :=
  match ws with
  | "cw" :: rest => stepCw st rest
  | "bw" :: rest => stepBw st rest
  | "br" :: rest => stepBr st rest
  | "xe" :: rest => stepXe st rest
  | "xd" :: rest => stepXd st rest
  | "te" :: rest => stepTe st rest
  | "td" :: rest => stepTd st rest
  | "de" :: rest => stepDe st rest
  | "dd" :: rest => stepDd st rest
  | "fe" :: rest => stepFe st rest
  | "fd" :: rest => stepFd st rest
  | "sw" :: rest => stepSw st rest
  | "sr" :: rest => stepSr st rest
  | "tsw" :: rest => stepTsw st rest
  | "tsr" :: rest => stepTsr st rest
  | ["clear"] => ({}, "ok")
  | _ =>
    match stepPure ws with
    | some out => (st, out)
    | none => bad st

def main (_args : List String) : IO Unit := Proto.runLoop ({} : St) step

end LinVerif.Driver.C14
