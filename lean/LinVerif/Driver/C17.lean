/-
Line-protocol driver for the C17 model (statement wire format). All values are prefix-coded
token sequences (tokens separated by blanks):

  expr  := nil | field x<hex> | number <16 hex> | call <int> <n> expr*n | paren expr
         | binary <int> expr expr | equals x<hex> x<hex> | in x<hex> <n> x<hex>*n
         | like x<hex> x<hex> | regex x<hex> x<hex> | not expr | selectItem x<hex> expr
         | orderBy <0|1> expr
  query := query <explain> x<ns> x<metric> <allFields> <start> <end> <interval> <storage>
           <ratio> <auto> <limit> g <n> x<hex>*n s <n> expr*n c <0|1> [expr] h <0|1> [expr]
           o <n> expr*n
  meta  := meta x<ns> x<metric> <kind> x<tagKey> x<prefix> <limit> c <0|1> [expr]
  json  := null | true | false | i<int> | f<16 hex> | s<hex> | arr <n> json*n
         | obj <n> (k:<key> json)*n

  emarshal expr      -> json | empty    eround expr   -> ok expr | err <kind>
  qmarshal query     -> json            qround query  -> ok query | err <kind>
  mmarshal meta      -> json            mround meta   -> ok meta | err <kind>
  eunmarshal json|empty -> ok expr | err <kind>
  qunmarshal json    -> ok query | err <kind>
  munmarshal json    -> ok meta | err <kind>
  interval <int>     -> s<hex> ok <int> | s<hex> err <kind>      (String, then ValueOf of it)
  valueof s<hex>     -> ok <int> | err <kind>

  wseq <n> json*n    -> <res> ; <res> ; ...   (a request history on one worker, fresh scratch)
  qinto query json   -> ok query | err <kind>    (UnmarshalJSON into an existing receiver)
  duration s<hex> <T_SECOND|...|none> -> ok <int> | err range | err syntax   (parseDuration)
  limit s<hex>       -> ok <int> | err range | err syntax                    (visitLimit)
  cond  := atom <eq|neq|like|notlike|regex|neqregex|in|notin> x<key> <n> x<v>*n | paren cond
         | bin <int> cond cond
  cond cond          -> c <0|1> [expr] stack <n>   (the where-condition stack machine on the walk)

Strings are the hex of their UTF-8 bytes. Unknown / ill-formed lines answer `bad-op`.
-/
import LinVerif.Util.Proto
import LinVerif.Model.Stmt
import LinVerif.Model.StmtGlue
import LinVerif.Model.C17Parse

namespace LinVerif.Driver.C17
open LinVerif LinVerif.Json LinVerif.Stmt

/-! ### hex / strings -/

def hexDigit (n : Nat) : Char := if n < 10 then Char.ofNat (48 + n) else Char.ofNat (87 + n)

def hexVal (c : Char) : Option Nat :=
  if '0' ≤ c ∧ c ≤ '9' then some (c.toNat - 48)
  else if 'a' ≤ c ∧ c ≤ 'f' then some (c.toNat - 87)
  else if 'A' ≤ c ∧ c ≤ 'F' then some (c.toNat - 55)
  else none

def toHex (s : String) : String :=
  String.ofList (s.toUTF8.toList.foldr (fun b acc => hexDigit (b.toNat / 16) :: hexDigit (b.toNat % 16) :: acc) [])

def fromHexChars : List Char → Option (List UInt8)
  | [] => some []
  | [_] => none
  | a :: b :: rest => do
    let x ← hexVal a
    let y ← hexVal b
    let t ← fromHexChars rest
    some (UInt8.ofNat (x * 16 + y) :: t)

def fromHex (h : String) : Option String := do
  let bs ← fromHexChars h.toList
  String.fromUTF8? (ByteArray.mk bs.toArray)

def hexNat (cs : List Char) : Option Nat :=
  cs.foldlM (fun acc c => (hexVal c).map (fun v => acc * 16 + v)) 0

def natHex16 (n : Nat) : String :=
  String.ofList ((List.range 16).reverse.map (fun i => hexDigit ((n / 16 ^ i) % 16)))

/-- token with a one-letter prefix -/
def pfx (p : Char) (w : String) : Option String :=
  match w.toList with
  | c :: rest => if c = p then some (String.ofList rest) else none
  | [] => none

def strTok (p : Char) (w : String) : Option String := (pfx p w).bind fromHex

def bool01 (w : String) : Option Bool :=
  if w = "0" then some false else if w = "1" then some true else none

def showBool (b : Bool) : String := if b then "1" else "0"

/-! ### parsers (prefix notation over the word list) -/

abbrev P (α : Type) := List String → Option (α × List String)

partial def pMany {α : Type} (p : P α) : Nat → P (List α)
  | 0, ws => some ([], ws)
  | n + 1, ws => do
    let (a, ws) ← p ws
    let (as, ws) ← pMany p n ws
    some (a :: as, ws)

def pStr (p : Char) : P String
  | w :: ws => (strTok p w).map (·, ws)
  | [] => none

def pInt : P Int
  | w :: ws => w.toInt?.map (·, ws)
  | [] => none

def pNat : P Nat
  | w :: ws => w.toNat?.map (·, ws)
  | [] => none

def pBool : P Bool
  | w :: ws => (bool01 w).map (·, ws)
  | [] => none

def pF64 : P F64
  | w :: ws => if w.length = 16 then (hexNat w.toList).map (fun n => (⟨n⟩, ws)) else none
  | [] => none

partial def pExpr : P Expr
  | "nil" :: ws => some (.nil, ws)
  | "field" :: ws => do let (n, ws) ← pStr 'x' ws; some (.field n, ws)
  | "number" :: ws => do let (f, ws) ← pF64 ws; some (.number f, ws)
  | "call" :: ws => do
    let (ft, ws) ← pInt ws
    let (n, ws) ← pNat ws
    let (ps, ws) ← pMany pExpr n ws
    some (.call ft ps, ws)
  | "paren" :: ws => do let (e, ws) ← pExpr ws; some (.paren e, ws)
  | "binary" :: ws => do
    let (op, ws) ← pInt ws
    let (l, ws) ← pExpr ws
    let (r, ws) ← pExpr ws
    some (.binary l r op, ws)
  | "equals" :: ws => do let (k, ws) ← pStr 'x' ws; let (v, ws) ← pStr 'x' ws; some (.equals k v, ws)
  | "in" :: ws => do
    let (k, ws) ← pStr 'x' ws
    let (n, ws) ← pNat ws
    let (vs, ws) ← pMany (pStr 'x') n ws
    some (.inE k vs, ws)
  | "like" :: ws => do let (k, ws) ← pStr 'x' ws; let (v, ws) ← pStr 'x' ws; some (.like k v, ws)
  | "regex" :: ws => do let (k, ws) ← pStr 'x' ws; let (v, ws) ← pStr 'x' ws; some (.regex k v, ws)
  | "not" :: ws => do let (e, ws) ← pExpr ws; some (.not e, ws)
  | "selectItem" :: ws => do let (a, ws) ← pStr 'x' ws; let (e, ws) ← pExpr ws; some (.selectItem e a, ws)
  | "orderBy" :: ws => do let (d, ws) ← pBool ws; let (e, ws) ← pExpr ws; some (.orderBy e d, ws)
  | _ => none

def pKw (k : String) : P Unit
  | w :: ws => if w = k then some ((), ws) else none
  | [] => none

/-- `0` = nil interface, `1 expr` = a non-nil expression -/
def pOptExpr : P Expr
  | "0" :: ws => some (.nil, ws)
  | "1" :: ws => do
    let (e, ws) ← pExpr ws
    match e with
    | .nil => none
    | e => some (e, ws)
  | _ => none

def pQuery : P Query
  | "query" :: ws => do
    let (explain, ws) ← pBool ws
    let (ns, ws) ← pStr 'x' ws
    let (metric, ws) ← pStr 'x' ws
    let (all, ws) ← pBool ws
    let (start, ws) ← pInt ws
    let (stop, ws) ← pInt ws
    let (interval, ws) ← pInt ws
    let (storage, ws) ← pInt ws
    let (ratio, ws) ← pInt ws
    let (auto, ws) ← pBool ws
    let (limit, ws) ← pInt ws
    let (_, ws) ← pKw "g" ws
    let (n, ws) ← pNat ws
    let (groupBy, ws) ← pMany (pStr 'x') n ws
    let (_, ws) ← pKw "s" ws
    let (n, ws) ← pNat ws
    let (sel, ws) ← pMany pExpr n ws
    let (_, ws) ← pKw "c" ws
    let (cond, ws) ← pOptExpr ws
    let (_, ws) ← pKw "h" ws
    let (having, ws) ← pOptExpr ws
    let (_, ws) ← pKw "o" ws
    let (n, ws) ← pNat ws
    let (ord, ws) ← pMany pExpr n ws
    some ({ explain := explain, ns := ns, metricName := metric, selectItems := sel, allFields := all,
            condition := cond, timeRange := ⟨start, stop⟩, interval := interval,
            storageInterval := storage, intervalRatio := ratio, autoGroupByTime := auto,
            groupBy := groupBy, having := having, orderByItems := ord, limit := limit }, ws)
  | _ => none

def pMeta : P Metadata
  | "meta" :: ws => do
    let (ns, ws) ← pStr 'x' ws
    let (metric, ws) ← pStr 'x' ws
    let (kind, ws) ← pNat ws
    let (tagKey, ws) ← pStr 'x' ws
    let (pre, ws) ← pStr 'x' ws
    let (limit, ws) ← pInt ws
    let (_, ws) ← pKw "c" ws
    let (cond, ws) ← pOptExpr ws
    some ({ ns := ns, metricName := metric, kind := kind, tagKey := tagKey, prefix_ := pre,
            condition := cond, limit := limit }, ws)
  | _ => none

partial def pJson : P Json
  | "null" :: ws => some (.null, ws)
  | "true" :: ws => some (.bool true, ws)
  | "false" :: ws => some (.bool false, ws)
  | "arr" :: ws => do
    let (n, ws) ← pNat ws
    let (xs, ws) ← pMany pJson n ws
    some (.arr xs, ws)
  | "obj" :: ws => do
    let (n, ws) ← pNat ws
    let (kvs, ws) ← pMany (fun ws => match ws with
      | k :: ws => do
        if !k.startsWith "k:" then none
        let (v, ws) ← pJson ws
        some (((k.drop 2).toString, v), ws)
      | [] => none) n ws
    some (.obj kvs, ws)
  | w :: ws =>
    match w.toList with
    | 'i' :: rest => (String.ofList rest).toInt?.map (fun i => (.int i, ws))
    | 'f' :: rest => if rest.length = 16 then (hexNat rest).map (fun n => (.flt ⟨n⟩, ws)) else none
    | 's' :: rest => (fromHex (String.ofList rest)).map (fun s => (.str s, ws))
    | _ => none
  | [] => none

/-- a parser must consume the whole line -/
def whole {α : Type} (p : P α) (ws : List String) : Option α :=
  match p ws with
  | some (a, []) => some a
  | _ => none

/-! ### printers -/

def sx (s : String) : String := "x" ++ toHex s

partial def showExpr : Expr → String
  | .nil => "nil"
  | .field n => s!"field {sx n}"
  | .number f => s!"number {natHex16 f.bits}"
  | .call ft ps => " ".intercalate (["call", toString ft, toString ps.length] ++ ps.map showExpr)
  | .paren e => s!"paren {showExpr e}"
  | .binary l r op => s!"binary {op} {showExpr l} {showExpr r}"
  | .equals k v => s!"equals {sx k} {sx v}"
  | .inE k vs => " ".intercalate (["in", sx k, toString vs.length] ++ vs.map sx)
  | .like k v => s!"like {sx k} {sx v}"
  | .regex k v => s!"regex {sx k} {sx v}"
  | .not e => s!"not {showExpr e}"
  | .selectItem e a => s!"selectItem {sx a} {showExpr e}"
  | .orderBy e d => s!"orderBy {showBool d} {showExpr e}"

def showOptExpr : Expr → String
  | .nil => "0"
  | e => "1 " ++ showExpr e

def showList (tag : String) (xs : List String) : String :=
  " ".intercalate ([tag, toString xs.length] ++ xs)

def showQuery (q : Query) : String :=
  " ".intercalate ["query", showBool q.explain, sx q.ns, sx q.metricName, showBool q.allFields,
    toString q.timeRange.start, toString q.timeRange.stop, toString q.interval,
    toString q.storageInterval, toString q.intervalRatio, showBool q.autoGroupByTime,
    toString q.limit, showList "g" (q.groupBy.map sx), showList "s" (q.selectItems.map showExpr),
    "c " ++ showOptExpr q.condition, "h " ++ showOptExpr q.having,
    showList "o" (q.orderByItems.map showExpr)]

def showMeta (m : Metadata) : String :=
  " ".intercalate ["meta", sx m.ns, sx m.metricName, toString m.kind, sx m.tagKey, sx m.prefix_,
    toString m.limit, "c " ++ showOptExpr m.condition]

partial def showJson : Json → String
  | .null => "null"
  | .bool true => "true"
  | .bool false => "false"
  | .int i => s!"i{i}"
  | .flt f => s!"f{natHex16 f.bits}"
  | .str s => "s" ++ toHex s
  | .arr xs => " ".intercalate (["arr", toString xs.length] ++ xs.map showJson)
  | .obj kvs => " ".intercalate (["obj", toString kvs.length] ++ kvs.map (fun (k, v) => s!"k:{k} {showJson v}"))

def showErr : Err → String
  | .syntax => "err json"
  | .typeTag t => "err type-tag " ++ sx t
  | .intervalUnknown => "err interval-unknown"
  | .intervalInvalid => "err interval-invalid"

def showRes {α : Type} (f : α → String) : Except Err α → String
  | .ok a => "ok " ++ f a
  | .error e => showErr e


/-! ### round 8: worker histories, receivers, parser glue -/

def pAtomKind : P AtomKind
  | "eq" :: ws => some (.eq, ws) | "neq" :: ws => some (.neq, ws)
  | "like" :: ws => some (.like, ws) | "notlike" :: ws => some (.notLike, ws)
  | "regex" :: ws => some (.regex, ws) | "neqregex" :: ws => some (.neqRegex, ws)
  | "in" :: ws => some (.inList, ws) | "notin" :: ws => some (.notIn, ws)
  | _ => none

partial def pCond : P Cond
  | "atom" :: ws => do
    let (k, ws) ← pAtomKind ws
    let (key, ws) ← pStr 'x' ws
    let (n, ws) ← pNat ws
    let (vs, ws) ← pMany (pStr 'x') n ws
    some (.atom k key vs, ws)
  | "paren" :: ws => do let (c, ws) ← pCond ws; some (.paren c, ws)
  | "bin" :: ws => do
    let (op, ws) ← pInt ws
    let (l, ws) ← pCond ws
    let (r, ws) ← pCond ws
    some (.bin op l r, ws)
  | _ => none

def showGlue : Except GlueErr Int → String
  | .ok v => s!"ok {v}"
  | .error .syntax => "err syntax"
  | .error .range => "err range"
  | .error .timeOrder => "err time-order"

def unitOfToken (t : String) : Option (Option Int) :=
  if t = "none" then some none
  else (durationUnitTable.find? (fun p => p.1 == t)).map (fun p => some p.2)

def stepGlue (ws : List String) : Option String :=
  match ws with
  | "wseq" :: rest =>
    match whole (fun ws => do let (n, ws) ← pNat ws; pMany pJson n ws) rest with
    | some js => some (" ; ".intercalate ((Worker.run .fresh ⟨[]⟩ js).map (showRes showQuery)))
    | none => none
  | "qinto" :: rest =>
    match whole (fun ws => do let (q, ws) ← pQuery ws; let (j, ws) ← pJson ws; some ((q, j), ws)) rest with
    | some (q, j) => some (showRes showQuery (unmarshalQueryInto q j))
    | none => none
  | ["duration", w, t] =>
    match strTok 's' w, unitOfToken t with
    | some s, some u => some (showGlue (parseDuration s.toList u))
    | _, _ => none
  | ["limit", w] =>
    match strTok 's' w with
    | some s => some (showGlue (visitLimit s.toList))
    | none => none
  | "cond" :: rest =>
    match whole pCond rest with
    | some c =>
      let st := tagRun ⟨[], .nil⟩ c.walk
      some s!"c {showOptExpr st.condition} stack {st.stack.length}"
    | none => none
  | _ => none


/-! ### round 10: the field-expression stack machine -/

abbrev NumTexts := List (Nat × String)

partial def pFExpr : P (FExpr × NumTexts)
  | "ident" :: ws => do let (n, ws) ← pStr 'x' ws; some ((.ident n, []), ws)
  | "num" :: ws => do
    let (f, ws) ← pF64 ws
    let (t, ws) ← pStr 'x' ws
    some ((.num f, [(f.bits, t)]), ws)
  | "star" :: ws => some ((.star, []), ws)
  | "dur" :: ws => some ((.dur, []), ws)
  | "call" :: ws => do
    let (fn, ws) ← pInt ws
    let (n, ws) ← pNat ws
    let (ps, ws) ← pMany pFExpr n ws
    some ((.call fn (ps.map (·.1)), (ps.map (·.2)).flatten), ws)
  | "paren" :: ws => do let ((e, t), ws) ← pFExpr ws; some ((.paren e, t), ws)
  | "bin" :: o :: ws => do
    let op ← (match o with
      | "mul" => some ArOp.mul | "div" => some ArOp.div | "add" => some ArOp.add | "sub" => some ArOp.sub
      | _ => none)
    let ((l, t1), ws) ← pFExpr ws
    let ((r, t2), ws) ← pFExpr ws
    some ((.bin op l r, t1 ++ t2), ws)
  | _ => none

partial def pBExpr : P (BExpr × NumTexts)
  | "batom" :: ws => do
    let (op, ws) ← pInt ws
    let ((l, t1), ws) ← pFExpr ws
    let ((r, t2), ws) ← pFExpr ws
    some ((.atom op l r, t1 ++ t2), ws)
  | "bparen" :: ws => do let ((b, t), ws) ← pBExpr ws; some ((.paren b, t), ws)
  | "blogic" :: ws => do
    let (op, ws) ← pInt ws
    let ((l, t1), ws) ← pBExpr ws
    let ((r, t2), ws) ← pBExpr ws
    some ((.logic op l r, t1 ++ t2), ws)
  | _ => none

def pFieldItem : P (FieldItem × NumTexts) := fun ws => do
  let ((e, t), ws) ← pFExpr ws
  match ws with
  | "alias" :: ws => do let (a, ws) ← pStr 'x' ws; some ((⟨e, some a⟩, t), ws)
  | "noalias" :: ws => some ((⟨e, none⟩, t), ws)
  | _ => none

def pSortItem : P (SortItem × NumTexts) := fun ws => do
  let (d, ws) ← pBool ws
  let ((e, t), ws) ← pFExpr ws
  some ((⟨e, d⟩, t), ws)

def pQDeriv : P (QDeriv × NumTexts) := fun ws => do
  let (n, ws) ← pNat ws
  let (fs, ws) ← pMany pFieldItem n ws
  let (_, ws) ← pKw "having" ws
  let ((hv, th), ws) ← (match ws with
    | "0" :: ws => some ((none, []), ws)
    | "1" :: ws => do let ((b, t), ws) ← pBExpr ws; some ((some b, t), ws)
    | _ => none)
  let (_, ws) ← pKw "sorts" ws
  let (m, ws) ← pNat ws
  let (ss, ws) ← pMany pSortItem m ws
  some (({ fields := fs.map (·.1), having := hv, sorts := ss.map (·.1) },
         (fs.map (·.2)).flatten ++ th ++ (ss.map (·.2)).flatten), ws)

def showPErr : PErr → String
  | .parseFloat => "parse-float" | .orderByFunc => "order-by-func" | .orderByParams => "order-by-params"
  | .orderByField => "order-by-field" | .emptySelect => "empty-select" | .incompleteSelect => "incomplete-select"
  | .incompleteOrderBy => "incomplete-order-by" | .incompleteHaving => "incomplete-having" | .panic => "panic"

def stepField (ws : List String) : Option String :=
  match ws with
  | "fq" :: rest =>
    match whole pQDeriv rest with
    | some (qd, texts) =>
      let fmtNum : F64 → String := fun f =>
        match texts.find? (fun p => p.1 == f.bits) with
        | some p => p.2
        | none => "?"
      match buildFields (prun (rewriteWith fmtNum) PState.init qd.walk) with
      | .error e => some ("err " ++ showPErr e)
      | .ok b =>
        some (" ".intercalate ["ok", showList "sel" (b.selectItems.map showExpr), "all " ++ showBool b.allFields,
          "h " ++ showOptExpr b.having, showList "ob" (b.orderBy.map showExpr)])
    | none => none
  | _ => none

/-! ### the interpreter -/

def step (st : Unit) (ws : List String) : Unit × String :=
  (st, match stepGlue ws with
  | some out => out
  | none =>
  match stepField ws with
  | some out => out
  | none =>
  match ws with
  | "emarshal" :: rest =>
    match whole pExpr rest with
    | some e =>
      match marshalRaw e with
      | some j => showJson j
      | none => "empty"
    | none => "bad-op"
  | "eround" :: rest =>
    match whole pExpr rest with
    | some e => showRes showExpr (unmarshal (marshalRaw e))
    | none => "bad-op"
  | "qmarshal" :: rest =>
    match whole pQuery rest with
    | some q => showJson (marshalQuery q)
    | none => "bad-op"
  | "qround" :: rest =>
    match whole pQuery rest with
    | some q => showRes showQuery (unmarshalQuery (marshalQuery q))
    | none => "bad-op"
  | "mmarshal" :: rest =>
    match whole pMeta rest with
    | some m => showJson (marshalMetadata m)
    | none => "bad-op"
  | "mround" :: rest =>
    match whole pMeta rest with
    | some m => showRes showMeta (unmarshalMetadata (marshalMetadata m))
    | none => "bad-op"
  | ["eunmarshal", "empty"] => showRes showExpr (unmarshal none)
  | "eunmarshal" :: rest =>
    match whole pJson rest with
    | some j => showRes showExpr (unmarshal (some j))
    | none => "bad-op"
  | "qunmarshal" :: rest =>
    match whole pJson rest with
    | some j => showRes showQuery (unmarshalQuery j)
    | none => "bad-op"
  | "munmarshal" :: rest =>
    match whole pJson rest with
    | some j => showRes showMeta (unmarshalMetadata j)
    | none => "bad-op"
  | ["interval", v] =>
    match v.toInt? with
    | some i =>
      let s := intervalString i
      "s" ++ toHex s ++ " " ++ showRes toString (intervalValueOf s)
    | none => "bad-op"
  | ["valueof", w] =>
    match strTok 's' w with
    | some s => showRes toString (intervalValueOf s)
    | none => "bad-op"
  | _ => "bad-op")

def main (_args : List String) : IO Unit := Proto.runLoop () step

end LinVerif.Driver.C17
