/-
Line-protocol driver for Model/CompactOuts.lean (C02, area `compactouts`).

  init <nextFile>                         fresh family (no tables)
  <action> ; <action> ; ...               the actions are applied in order; answers the state after the last
     actions: nop | start <f,f,..|-> | open | finish | finishempty | install | fail | cleanup | drop <f> | dropall
              clist <i> | cpend <i> | cactive <i> | cdel <i> | cfull <i>
     `cactive` / `cdel` also finish the cleaner (cDone) when nothing is left to unlink; `cfull` = a whole
     deleteObsoleteFiles; `dropall` = drop of every table no longer listed by the current version.
  A disabled action answers `disabled <index> <action>`; anything else `bad-op`.
State line: nf=<n> disk=.. pend=.. cur=.. act=.. w=<phase> c0=<idle|listed|pended|del:<f>> c1=..
-/
import LinVerif.Util.Proto
import LinVerif.Model.CompactOuts

namespace LinVerif.Driver.C02Outs
open LinVerif LinVerif.CompactOuts

def sortNat (l : List Nat) : List Nat := (l.toArray.qsort (· < ·)).toList
def showL (l : List Nat) : String := ",".intercalate ((sortNat l).map toString)

def showW : WPhase → String
  | .idle => "idle" | .merging => "merging" | .installed => "installed" | .failed => "failed"

def showC (c : Cleaner) : String :=
  match c.phase with
  | .idle => "idle" | .listed => "listed" | .pended => "pended"
  | .actived => match c.todo with
    | f :: _ => s!"del:{f}"
    | [] => "del:-"

def showSt (s : St) : String :=
  s!"nf={s.nextFile} disk={showL s.disk} pend={showL s.pending} cur={showL s.cur} act={showL (s.cur ++ s.old).eraseDups} w={showW s.wphase} c0={showC (s.cl 0)} c1={showC (s.cl 1)}"

/-- cDone as soon as the delete list is empty (the real function returns) -/
def settle (cfg : Cfg) (s : St) (i : Nat) : St :=
  match step cfg s (.cDone i) with
  | some s' => s'
  | none => s

def delAll (cfg : Cfg) (i : Nat) : Nat → St → St
  | 0, s => s
  | fuel + 1, s => match step cfg s (.cDel i) with
    | some s' => delAll cfg i fuel s'
    | none => s

def dropAll (cfg : Cfg) (s : St) : St :=
  s.old.foldl (fun acc f => match step cfg acc (.drop f) with | some s' => s' | none => acc) s

def parseList (w : String) : Option (List Nat) :=
  if w = "-" then some [] else (w.splitOn ",").mapM String.toNat?

/-- one action; `none` = ill-formed, `some none` = disabled -/
def act (cfg : Cfg) (s : St) : List String → Option (Option St)
  | ["start", l] => (parseList l).map (fun ins => step cfg s (.start ins))
  | ["nop"] => some (some s)
  | ["open"] => some (step cfg s .open)
  | ["finish"] => some (step cfg s .finish)
  | ["finishempty"] => some (step cfg s .finishEmpty)
  | ["install"] => some (step cfg s .install)
  | ["fail"] => some (step cfg s .fail)
  | ["cleanup"] => some (step cfg s .cleanup)
  | ["drop", f] => f.toNat?.map (fun f => step cfg s (.drop f))
  | ["dropall"] => some (some (dropAll cfg s))
  | ["clist", i] => i.toNat?.map (fun i => step cfg s (.cList i))
  | ["cpend", i] => i.toNat?.map (fun i => step cfg s (.cPend i))
  | ["cactive", i] => i.toNat?.map (fun i => (step cfg s (.cActive i)).map (settle cfg · i))
  | ["cdel", i] => i.toNat?.map (fun i => (step cfg s (.cDel i)).map (settle cfg · i))
  | ["cfull", i] => i.toNat?.map (fun i =>
      (step cfg s (.cList i)).bind fun s1 => (step cfg s1 (.cPend i)).bind fun s2 =>
        (step cfg s2 (.cActive i)).map fun s3 => settle cfg (delAll cfg i (s3.cl i).todo.length s3) i)
  | _ => none

def splitSemi (ws : List String) : List (List String) :=
  ws.foldr (fun w acc => if w = ";" then [] :: acc else
    match acc with
    | [] => [[w]]
    | h :: t => (w :: h) :: t) [[]]

def runActs (cfg : Cfg) : St → Nat → List (List String) → Option St × String
  | s, _, [] => (some s, showSt s)
  | s, k, a :: as =>
    match act cfg s a with
    | none => (none, "bad-op")
    | some none => (none, s!"disabled {k} {" ".intercalate a}")
    | some (some s') => runActs cfg s' (k + 1) as

def stepLine (cfg : Cfg) (st : Option St) (ws : List String) : Option St × String :=
  match ws with
  | ["init", nf] =>
    match nf.toNat? with
    | some n => let s := init [] n; (some s, showSt s)
    | none => (st, "bad-op")
  | _ =>
    match st with
    | none => (none, "bad-op")
    | some s =>
      let groups := splitSemi ws
      if groups.any (· = []) then (st, "bad-op")
      else
        match runActs cfg s 0 groups with
        | (some s', out) => (some s', out)
        | (none, out) => (st, out)

def main (_args : List String) : IO Unit :=
  Proto.runLoop (none : Option St) (stepLine {})

end LinVerif.Driver.C02Outs
