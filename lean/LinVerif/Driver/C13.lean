/-
Line-protocol driver for the C13 models (calendar, interval calculators, query planner).
`<c>` is `day` | `month` | `year`; all numbers are decimal integers (milliseconds).

  all <c> <t>                       -> <segName> <seg> <family> <start> <end> <familyTime>
  zall <zone> <c> <t>               -> the same with time.Local = <zone>: an offset in seconds east of UTC
                                       (fixed-offset zone) or `ny2024` (America/New_York around 2024-11-03)
  zallt <c> <t> | off0 at1 off1 at2 off2 ...
                                    -> the same with time.Local = the zone with initial offset off0 (s) and
                                       transitions (UTC second, new offset): daylight-saving zones
  validate | i1 i2 ...              -> ok | empty | duplicate        (DatabaseOption.Validate, Ahead/Behind unset)
  segdir <interval>                 -> day | month | year            (last element of ShardIntervalSegmentPath)
  resolve <interval> | i1 i2 ...    -> the interval of the ladder the storage resolves <interval>'s type to | none
  istr <v>                          -> Interval.String()
  ival <text>                       -> Interval.ValueOf(text) | err  (`_` in <text> stands for a blank)
  windows <c> <a> <b>               -> CalcTimeWindows
  seg <c> <t>                       -> CalcSegmentTime
  fam <c> <t> <segTime>             -> CalcFamily
  fstart <c> <segTime> <family>     -> CalcFamilyStartTime
  fend <c> <familyStart>            -> CalcFamilyEndTime
  ftime <c> <t>                     -> CalcFamilyTime
  slot <c> <t> <base> <interval>    -> CalcSlot | panic
  ts <start> <slot> <interval>      -> CalcTimestamp
  type <interval>                   -> day | month | year   (Interval.Type / Calculator)
  slotrange <interval> <familyTime> <qs> <qe> -> <start> <end> | panic   (Interval.CalcSlotRange)
  wrange <c> <base> <t>             -> <start> <end> | nomatch          (segment.GetOrCreateDataFamily range)
  brange <c> <t>                    -> <start> <end>                    (timeRangeOfTimestamp)
  fqr <c> <base> <qs> <qe>          -> <start> <end>                    (GetDataFamilies' familyQueryTimeRange)
  gdf <c> <qs> <qe> | t1 t2 ...     -> sorted family starts | none      (Shard.GetDataFamilies over the families of t1..)
                                       (both in the code variant the regenerated fact gdfRangeExprs selects;
                                        `unknown-variant` if the source text is neither known variant)
  batch <c> t1 t2 ...               -> F:t,t,.. F:t,..  (family groups of one shard's rows, BrokerBatchShardFamilyIterator;
                                        groups sorted by family, rows sorted) | none
  dstzone <zone>@<year>             -> off0 a1 o1 a2 o2 (the table Model/C13DstZones.lean; the harness answers with what Go's
                                        time package reports from the tz database) | unknown
  bpool c1 t.. | c2 t.. | ..        -> the groups of every request, ` | `-separated: a sequence of write requests (interval type,
                                        rows) served by ONE pooled iterator object (stateful model FamIter, Model/C13Broker.lean)
  biter t1 t2 .. | c1 c2 ..         -> the same batch iterated once per calculator without release (rows stay as the previous
                                        in-place sort left them)
  bshard <c> | i1 t1 i2 t2 ..       -> <shard>=<groups> | ..: rows (shard index, timestamp) of one batch, the shard groups served
                                        by the batch's one family iterator
  rollup <src> <tgt> <srcFamilyTime> <slot> -> <targetFTime> <ratio> <baseSlot> <ts> <slot(ts)> | panic
  goc <c> | t1 t2 ... | i1 i2 ...   -> T <obj per writer> R <registered obj per writer> opened <n>
  gdfz <zone> <c> qs qe | t1 t2 ..     -> the range lookup with time.Local = the zone (family starts, sorted) | none
  gdfzt <c> qs qe | t1 t2 .. | off0 at1 off1 ..
                                    -> the range lookup with time.Local = the transition-list zone (daylight saving)
  goce <c> | t1 .. | i1 e i2 .. | p1 ..  -> writers + Shard.EvictSegment() (`e`) in the schedule, families of
                                       p1.. on disk: T <obj|-> R <registered obj|-> E <error flags> opened <n>
                                       (writers Shard.GetOrCrateDataFamily(t1), (t2), .. on fresh segments; the
                                        schedule i1 i2 .. lets writer i run one atomic step; then all run to the
                                        end in index order; objects numbered by first appearance; in the shapes the
                                        regenerated step lists of GetOrCreateSegment / GetOrCreateDataFamily select)
  overlap <s1> <e1> <s2> <e2>       -> true | false
  intersect <s1> <e1> <s2> <e2>     -> <s> <e>
  qi <start> <end> <interval>       -> CalcQueryInterval
  trunc <t> <interval>              -> Truncate | panic
  ratio <q> <s>                     -> CalIntervalRatio
  match <interval> | i1 i2 ...      -> FindMatchSmallestInterval | panic
  plan <interval> <start> <end> <auto 0|1> | i1 i2 ...
                                    -> <start> <end> <storage> <interval> <ratio> | panic
-/
import LinVerif.Util.Proto
import LinVerif.Model.Interval
import LinVerif.Model.IntervalZone
import LinVerif.Model.GetOrCreate
import LinVerif.Model.C13Evict
import LinVerif.Model.C13Broker
import LinVerif.Model.C13DstZones
import LinVerif.Generated.C13

namespace LinVerif.Driver.C13
open LinVerif LinVerif.Interval

def parseCalc : String → Option Calc
  | "day" => some .day
  | "month" => some .month
  | "year" => some .year
  | _ => none

def parseZone (w : String) : Option Zone :=
  if w = "ny2024" then some Zone.newYorkFall2024 else (w.toInt?).map Zone.fixed

def showCalc : Calc → String
  | .day => "day" | .month => "month" | .year => "year"

def showRange (r : TimeRange) : String := s!"{r.start} {r.stop}"

def splitBar (ws : List String) : List (List String) :=
  ws.foldr (fun w acc => if w = "|" then [] :: acc else
    match acc with
    | [] => [[w]]
    | h :: t => (w :: h) :: t) [[]]

/-- the lookup variant of the current source (regenerated fact) -/
def lookupVariant : Option LookupVariant := lookupVariantOf LinVerif.Generated.C13.gdfRangeExprs

/-- the shapes of the two get-or-create levels of the write path in the current source
(regenerated lock / lookup / create / store events) -/
def gocVariants : Option (GocVariant × GocVariant) :=
  match gocVariantOf "segments" "newSegmentFunc" LinVerif.Generated.C13.getOrCreateSegmentEvents,
        gocVariantOf "families" "newDataFamilyFunc"
          (gocInline "initDataFamily" LinVerif.Generated.C13.initDataFamilyEvents
            LinVerif.Generated.C13.getOrCreateDataFamilyEvents) with
  | some vs, some vf => some (vs, vf)
  | _, _ => none

def sortInts (l : List Int) : List Int := (l.toArray.qsort (· < ·)).toList

def showGroups (gs : List (Int × List Int)) : String :=
  let gs := (gs.toArray.qsort (fun a b => a.1 < b.1 || (a.1 == b.1 && (sortInts a.2).headD 0 < (sortInts b.2).headD 0))).toList
  if gs.isEmpty then "none" else
  " ".intercalate (gs.map fun (f, rows) => s!"{f}:" ++ ",".intercalate ((sortInts rows).map toString))

def ints (ws : List String) : Option (List Int) := ws.mapM String.toInt?

/-- `c t1 t2 ..` of a `bpool` request -/
def parseReq (ws : List String) : Option (Calc × List Int) :=
  match ws with
  | c :: ts => match parseCalc c, ts.mapM String.toInt? with
    | some c, some ts => some (c, ts)
    | _, _ => none
  | [] => none

/-- `i1 t1 i2 t2 ..` of `bshard` -/
def parsePairs : List String → Option (List (Nat × Int))
  | [] => some []
  | i :: t :: rest => match i.toNat?, t.toInt?, parsePairs rest with
    | some i, some t, some r => some ((i, t) :: r)
    | _, _, _ => none
  | [_] => none

/-- schedule token of `goce`: a writer index or `e` (one `Shard.EvictSegment()`) -/
def parseEStep (w : String) : Option EStep :=
  if w = "e" then some .evict else w.toNat?.map .w

def step (st : Unit) (ws : List String) : Unit × String :=
  let out : String :=
    match ws with
    | ["all", c, t] =>
      match parseCalc c, t.toInt? with
      | some c, some t =>
        let seg := calcSegmentTime c t
        let fam := calcFamily c t seg
        let start := calcFamilyStartTime c seg fam
        s!"{segmentName c t} {seg} {fam} {start} {calcFamilyEndTime c start} {calcFamilyTime c t}"
      | _, _ => "bad-op"
    | ["zall", z, c, t] =>
      match parseZone z, parseCalc c, t.toInt? with
      | some z, some c, some t =>
        let seg := calcSegmentTimeZ z c t
        let fam := calcFamilyZ z c t seg
        let start := calcFamilyStartTimeZ z c seg fam
        s!"{segmentNameZ z c t} {seg} {fam} {start} {calcFamilyEndTimeZ z c start} {calcFamilyTimeZ z c t}"
      | _, _, _ => "bad-op"
    | "zallt" :: c :: t :: "|" :: off0 :: trs =>
      let rec pairs : List Int → Option (List (Int × Int))
        | [] => some []
        | a :: o :: r => (pairs r).map ((a, o) :: ·)
        | [_] => none
      match parseCalc c, t.toInt?, off0.toInt?, (ints trs).bind pairs with
      | some c, some t, some off0, some trs =>
        let z := Zone.ofTransitions off0 trs
        let seg := calcSegmentTimeZ z c t
        let fam := calcFamilyZ z c t seg
        let start := calcFamilyStartTimeZ z c seg fam
        s!"{segmentNameZ z c t} {seg} {fam} {start} {calcFamilyEndTimeZ z c start} {calcFamilyTimeZ z c t}"
      | _, _, _, _ => "bad-op"
    | "validate" :: "|" :: ivs =>
      match ints ivs with
      | some ivs =>
        match validateOption ivs with
        | .ok => "ok" | .empty => "empty" | .duplicate => "duplicate"
      | none => "bad-op"
    | ["segdir", i] =>
      match i.toInt? with
      | some i => segmentDirName i
      | none => "bad-op"
    | "resolve" :: i :: "|" :: ivs =>
      match i.toInt?, ints ivs with
      | some i, some ivs =>
        match resolveByType ivs (intervalType i) with
        | some r => toString r
        | none => "none"
      | _, _ => "bad-op"
    | ["istr", v] =>
      match v.toInt? with
      | some v => intervalString v
      | none => "bad-op"
    | ["ival", txt] =>
      match valueOf (txt.replace "_" " ") with
      | some v => toString v
      | none => "err"
    | ["windows", c, a, b] =>
      match parseCalc c, a.toInt?, b.toInt? with
      | some c, some a, some b => toString (calcTimeWindows c a b)
      | _, _, _ => "bad-op"
    | ["seg", c, t] =>
      match parseCalc c, t.toInt? with
      | some c, some t => toString (calcSegmentTime c t)
      | _, _ => "bad-op"
    | ["fam", c, t, s] =>
      match parseCalc c, t.toInt?, s.toInt? with
      | some c, some t, some s => toString (calcFamily c t s)
      | _, _, _ => "bad-op"
    | ["fstart", c, s, f] =>
      match parseCalc c, s.toInt?, f.toInt? with
      | some c, some s, some f => toString (calcFamilyStartTime c s f)
      | _, _, _ => "bad-op"
    | ["fend", c, s] =>
      match parseCalc c, s.toInt? with
      | some c, some s => toString (calcFamilyEndTime c s)
      | _, _ => "bad-op"
    | ["ftime", c, t] =>
      match parseCalc c, t.toInt? with
      | some c, some t => toString (calcFamilyTime c t)
      | _, _ => "bad-op"
    | ["slot", c, t, b, i] =>
      match parseCalc c, t.toInt?, b.toInt?, i.toInt? with
      | some c, some t, some b, some i =>
        match slotVariantOf LinVerif.Generated.C13.monthCalcSlotExpr with
        | some v =>
          match calcSlotV v c t b i with
          | some s => toString s
          | none => "panic"
        | none => "unknown-variant"
      | _, _, _, _ => "bad-op"
    | ["ts", s, k, i] =>
      match s.toInt?, k.toInt?, i.toInt? with
      | some s, some k, some i => toString (calcTimestamp s k i)
      | _, _, _ => "bad-op"
    | ["type", i] =>
      match i.toInt? with
      | some i => showCalc (intervalType i)
      | none => "bad-op"
    | ["slotrange", i, f, qs, qe] =>
      match i.toInt?, f.toInt?, qs.toInt?, qe.toInt? with
      | some i, some f, some qs, some qe =>
        match slotVariantOf LinVerif.Generated.C13.monthCalcSlotExpr with
        | some v =>
          match calcSlotRangeV v i f ⟨qs, qe⟩ with
          | some (a, b) => s!"{a} {b}"
          | none => "panic"
        | none => "unknown-variant"
      | _, _, _, _ => "bad-op"
    | ["wrange", c, b, t] =>
      match parseCalc c, b.toInt?, t.toInt? with
      | some c, some b, some t =>
        match segmentFamilyRange c b t with
        | some r => showRange r
        | none => "nomatch"
      | _, _, _ => "bad-op"
    | ["brange", c, t] =>
      match parseCalc c, t.toInt? with
      | some c, some t => showRange (timeRangeOfTimestamp c t)
      | _, _ => "bad-op"
    | ["fqr", c, b, qs, qe] =>
      match parseCalc c, b.toInt?, qs.toInt?, qe.toInt? with
      | some c, some b, some qs, some qe =>
        match lookupVariant with
        | some v => showRange (familyQueryTimeRange v c b ⟨qs, qe⟩)
        | none => "unknown-variant"
      | _, _, _, _ => "bad-op"
    | ["overlap", a, b, c, d] =>
      match a.toInt?, b.toInt?, c.toInt?, d.toInt? with
      | some a, some b, some c, some d => toString ((TimeRange.mk a b).overlap ⟨c, d⟩)
      | _, _, _, _ => "bad-op"
    | ["intersect", a, b, c, d] =>
      match a.toInt?, b.toInt?, c.toInt?, d.toInt? with
      | some a, some b, some c, some d => showRange ((TimeRange.mk a b).intersect ⟨c, d⟩)
      | _, _, _, _ => "bad-op"
    | ["qi", s, e, i] =>
      match s.toInt?, e.toInt?, i.toInt? with
      | some s, some e, some i => toString (calcQueryInterval ⟨s, e⟩ i)
      | _, _, _ => "bad-op"
    | ["trunc", t, i] =>
      match t.toInt?, i.toInt? with
      | some t, some i =>
        match truncate t i with
        | some r => toString r
        | none => "panic"
      | _, _ => "bad-op"
    | ["ratio", q, s] =>
      match q.toInt?, s.toInt? with
      | some q, some s => toString (calIntervalRatio q s)
      | _, _ => "bad-op"
    | "gdf" :: rest =>
      match splitBar rest with
      | [[c, qs, qe], ts] =>
        match parseCalc c, qs.toInt?, qe.toInt?, ints ts with
        | some c, some qs, some qe, some ts =>
          match lookupVariant with
          | some v =>
            let r := (sortInts (getDataFamilies v c ⟨qs, qe⟩ ts)).eraseDups
            if r.isEmpty then "none" else Proto.joinInt r
          | none => "unknown-variant"
        | _, _, _, _ => "bad-op"
      | _ => "bad-op"
    | "gdfz" :: rest =>
      match splitBar rest with
      | [[z, c, qs, qe], ts] =>
        match parseZone z, parseCalc c, qs.toInt?, qe.toInt?, ints ts with
        | some z, some c, some qs, some qe, some ts =>
          match lookupVariant with
          | some .ownSegment =>
            let r := (sortInts (getDataFamiliesZ z c ⟨qs, qe⟩ ts)).eraseDups
            if r.isEmpty then "none" else Proto.joinInt r
          | _ => "unknown-variant"
        | _, _, _, _, _ => "bad-op"
      | _ => "bad-op"
    | "gdfzt" :: rest =>
      let rec pairs2 : List Int → Option (List (Int × Int))
        | [] => some []
        | a :: o :: r => (pairs2 r).map ((a, o) :: ·)
        | [_] => none
      match splitBar rest with
      | [[c, qs, qe], ts, off0 :: trs] =>
        match parseCalc c, qs.toInt?, qe.toInt?, ints ts, off0.toInt?, (ints trs).bind pairs2 with
        | some c, some qs, some qe, some ts, some off0, some trs =>
          match lookupVariant with
          | some .ownSegment =>
            let r := (sortInts (getDataFamiliesZ (Zone.ofTransitions off0 trs) c ⟨qs, qe⟩ ts)).eraseDups
            if r.isEmpty then "none" else Proto.joinInt r
          | _ => "unknown-variant"
        | _, _, _, _, _, _ => "bad-op"
      | _ => "bad-op"
    | "batch" :: c :: rest =>
      match parseCalc c, ints rest with
      | some c, some ts => showGroups (groupFamilies c ts)
      | _, _ => "bad-op"
    | ["dstzone", name] => (dstZoneLine name).getD "unknown"
    | "bpool" :: rest =>
      match (splitBar rest).mapM parseReq with
      | some reqs => " | ".intercalate ((FamIter.serveAll FamIter.zero reqs).map showGroups)
      | none => "bad-op"
    | "biter" :: rest =>
      match splitBar rest with
      | [ts, cs] =>
        match ints ts, cs.mapM parseCalc with
        | some ts, some cs =>
          if cs.isEmpty then "bad-op" else
          " | ".intercalate ((FamIter.reiterate FamIter.zero ts cs).map showGroups)
        | _, _ => "bad-op"
      | _ => "bad-op"
    | "bshard" :: rest =>
      match splitBar rest with
      | [[c], ps] =>
        match parseCalc c, parsePairs ps with
        | some c, some rows =>
          if rows.isEmpty then "none" else
          " | ".intercalate ((FamIter.serveShards FamIter.zero c (shardGroups rows)).map
            fun (i, gs) => s!"{i}=" ++ showGroups gs)
        | _, _ => "bad-op"
      | _ => "bad-op"
    | ["rollup", src, tgt, f, k] =>
      match src.toInt?, tgt.toInt?, f.toInt?, k.toInt? with
      | some src, some tgt, some f, some k =>
        let tf := rollupTargetFamilyTime tgt f
        let ts := rollupGetTimestamp src f k
        match rollupIntervalRatio src tgt, rollupBaseSlot tgt f tf, rollupCalcSlot tgt tf ts with
        | some r, some b, some sl => s!"{tf} {r} {b} {ts} {sl}"
        | _, _, _ => "panic"
      | _, _, _, _ => "bad-op"
    | "goc" :: rest =>
      match splitBar rest with
      | [[c], ts, sched] =>
        match parseCalc c, ints ts, sched.mapM String.toNat? with
        | some c, some ts, some sched =>
          match gocVariants with
          | some (vs, vf) =>
            let s := gDrain vs vf (gRun vs vf (gInit c ts) sched)
            let can := gCanon (s.threads.map (·.famObj) ++ s.threads.map (gRegistered s))
            let n := s.threads.length
            s!"T {" ".intercalate (can.take n)} R {" ".intercalate (can.drop n)} opened {s.opened}"
          | none => "unknown-variant"
        | _, _, _ => "bad-op"
      | _ => "bad-op"
    | "goce" :: rest =>
      match splitBar rest with
      | [[c], ts, sched, pre] =>
        match parseCalc c, ints ts, sched.mapM parseEStep, ints pre with
        | some c, some ts, some sched, some pre =>
          match gocVariants with
          | some (.atomic, .atomic) =>
            let s := eDrain (sched.foldl eHarnessStep (eInit c ts pre))
            let can := gCanon (s.threads.map (·.famObj) ++ s.threads.map (eRegistered s))
            let n := s.threads.length
            let errs := s.threads.map fun t => if t.err then "1" else "0"
            s!"T {" ".intercalate (can.take n)} R {" ".intercalate (can.drop n)} E {" ".intercalate errs} opened {s.sh.opened}"
          | _ => "unknown-variant"
        | _, _, _, _ => "bad-op"
      | _ => "bad-op"
    | "match" :: rest =>
      match splitBar rest with
      | [[q], ivs] =>
        match q.toInt?, ints ivs with
        | some q, some ivs =>
          match findMatchSmallestInterval ivs q with
          | some s => toString s
          | none => "panic"
        | _, _ => "bad-op"
      | _ => "bad-op"
    | "plan" :: rest =>
      match splitBar rest with
      | [[i, s, e, a], ivs] =>
        match i.toInt?, s.toInt?, e.toInt?, ints ivs with
        | some i, some s, some e, some ivs =>
          if a ≠ "0" ∧ a ≠ "1" then "bad-op" else
          match calcTimeRangeAndInterval ⟨i, ⟨s, e⟩, a = "1"⟩ ivs with
          | some p => s!"{showRange p.range} {p.storageInterval} {p.interval} {p.intervalRatio}"
          | none => "panic"
        | _, _, _, _ => "bad-op"
      | _ => "bad-op"
    | _ => "bad-op"
  (st, out)

def main (_args : List String) : IO Unit := Proto.runLoop () step

end LinVerif.Driver.C13
