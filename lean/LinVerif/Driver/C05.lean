/-
Line-protocol driver for the C05 queue model (sequential histories and scheduled
interleavings share one state; the shape of Put comes from the regenerated facts).

  new
  put <hex|->            putgen <start> <len>
  crashput <k> <hex|->   crashputgen <k> <start> <len>
  get <seq>   ack <seq>   gc   reopen
  c-alloc <t> <hex|->    c-allocgen <t> <start> <len>
  c-write <t>   c-persist <t>   c-crash
  putn <count> <hex|->   (count Puts of the same message; answers like the last one)
  putfail <hex|->        putfailgen <start> <len>   (Put under a one-shot data AcquirePage fault)
  g-snap   g-read   g-truncdata   g-truncindex      (the steps of one GC call)
  setapp <s>                                        (SetAppendedSeq)
  putfailidx <hex|->     (Put under a one-shot INDEX AcquirePage fault)
  f-new <pageSize>   f-acq <id>   f-get <id>   f-trunc <bound>   f-close   f-reopen
                                                     (pkg/queue/page/factory.go driven directly)
  p-new   p-write <hex|->   p-writegen <start> <len>   p-replica <idx> <hex|->   p-ackidx
  p-reset <idx>   p-expire   p-close   p-reopen      (replica/partition.go over the queue)
  mw-new   mw-call <t> put|reset|ack <arg>   mw-run <t>   mw-crash
                                                     (the writers of the meta page as threads, programs
                                                      decoded from Generated/C05Meta; mw-run executes thread t
                                                      up to its next store into the meta page)
  ipos   ip-put <hex|->                              (index page position, Model/C05IndexPos.lean: the held
                                                      index page object / indexPageIndex; ip-put = put that also
                                                      reports the page:slot its item was stored through, computed
                                                      with the switch test decoded from Generated.C05.persistSwitchCond)
-/
import LinVerif.Util.Proto
import LinVerif.Model.QueueFactory
import LinVerif.Model.C05QueueMeta
import LinVerif.Model.C05IndexPos
import LinVerif.Generated.C05
import LinVerif.Generated.C05Meta

namespace LinVerif.Driver.C05
open LinVerif LinVerif.Queue

def hexVal (c : Char) : Option Nat :=
  if '0' ≤ c ∧ c ≤ '9' then some (c.toNat - '0'.toNat)
  else if 'a' ≤ c ∧ c ≤ 'f' then some (c.toNat - 'a'.toNat + 10)
  else none

def parseHexList : List Char → Option (List Nat)
  | [] => some []
  | [_] => none
  | a :: b :: rest => do
    let x ← hexVal a
    let y ← hexVal b
    let r ← parseHexList rest
    some ((x * 16 + y) :: r)

/-- `-` is the empty message -/
def parseMsg (w : String) : Option Msg :=
  if w = "-" then some (Msg.ofList []) else (parseHexList w.toList).map Msg.ofList

def hexDigit (n : Nat) : Char :=
  if n < 10 then Char.ofNat ('0'.toNat + n) else Char.ofNat ('a'.toNat + (n - 10))

def hexOf (l : List Nat) : String :=
  String.ofList (l.foldr (fun b acc => hexDigit (b / 16 % 16) :: hexDigit (b % 16) :: acc) [])

def sortNat (l : List Nat) : List Nat := (l.toArray.qsort (· < ·)).toList

def showList (l : List Nat) : String := "[" ++ ",".intercalate ((sortNat l).map toString) ++ "]"

def showQ (q : Q) : String :=
  s!"app={q.appended} ack={q.acked} cur={q.dataPageIndex}:{q.messageOffset} ipg={q.indexPageIndex}"

def showCur (q : Q) : String := s!"cur={q.dataPageIndex}:{q.messageOffset} ipg={q.indexPageIndex}"

/-- positions probed in a long message -/
def probePositions (len : Nat) : List Nat := (List.range 32).map (fun j => j * (len - 1) / 31)

def showGet (st : St) (s : Int) : String :=
  match getLoc st s with
  | .outOfRange => "err out-of-range"
  | .notFound => "err not-found"
  | .loc e =>
    if e.len ≤ 256 then s!"ok len={e.len} hex={hexOf (readBytes st.mem e)}"
    else s!"ok len={e.len} probe={hexOf ((probePositions e.len).map (fun i => st.mem.data e.pg (e.off + i)))}"

structure DSt where
  σ : CSt
  shape : Option Shape
  fct : Option Fct := none       -- the factory of the `f-*` ops (none before `f-new`)
  pclosed : Bool := false        -- partition.closed of the `p-*` ops
  mw : Option QueueMeta.MSt := none                 -- the `mw-*` ops (none before `mw-new`)
  progs : Option QueueMeta.Progs := QueueMeta.decodeProgs Generated.C05Meta.metaWriters

def DSt.init : DSt := { σ := CSt.init, shape := shapeOf Generated.C05.putCalls }

def showFct (f : Fct) : String := s!"pages={showList f.pages} size={f.size}"

/-- the `f-*` ops: pkg/queue/page/factory.go driven directly -/
def fctStep (d : DSt) (ws : List String) : DSt × String :=
  match ws, d.fct with
  | ["f-new", ps], _ =>
    match ps.toNat? with
    | some ps => let f := Fct.new [] ps; ({ d with fct := some f }, "ok " ++ showFct f)
    | none => (d, "bad-op")
  | ["f-acq", i], some f =>
    match i.toNat? with
    | some i =>
      match f.acquire i with
      | (_, .closedErr) => (d, "err closed")
      | (f', .loaded) => ({ d with fct := some f' }, "ok loaded " ++ showFct f')
      | (f', .created) => ({ d with fct := some f' }, "ok created " ++ showFct f')
    | none => (d, "bad-op")
  | ["f-get", i], some f =>
    match i.toNat? with
    | some i => (d, s!"ok {f.getPage i}")
    | none => (d, "bad-op")
  | ["f-trunc", b], some f =>
    match b.toNat? with
    | some b => let f' := f.truncate b; ({ d with fct := some f' }, "ok " ++ showFct f')
    | none => (d, "bad-op")
  | ["f-close"], some f => ({ d with fct := some f.close }, "ok")
  | ["f-reopen"], some f => let f' := Fct.new f.pages f.pageSize; ({ d with fct := some f' }, "ok " ++ showFct f')
  | _, _ => (d, "bad-op")

/-- the `p-*` ops: replica/partition.go over the queue model (sequential; no Put / GC in flight) -/
def partStep (d : DSt) (ws : List String) : DSt × String :=
  if d.σ.busy ≠ 0 then (d, "not-enabled") else
  let withSt (st : St) : DSt := { d with σ := { d.σ with mem := st.mem, q := st.q } }
  let write (m : Msg) : DSt × String :=
    match writeLog d.pclosed d.σ.st m with
    | (_, .closed) => (d, "err closed")
    | (st, .noop) => (d, s!"ok noop app={st.q.appended}")
    | (st, .put (.ok s)) => (withSt st, s!"ok seq={s} {showCur st.q}")
    | (_, .put .tooLarge) => (d, "err too-large")
    | (_, .put .acquireFailed) => (d, "bad-op")
  match ws with
  | ["p-new"] => ({ d with σ := CSt.init, pclosed := false }, "ok " ++ showQ CSt.init.q)
  | ["p-write", w] =>
    match parseMsg w with
    | some m => write m
    | none => (d, "bad-op")
  | ["p-writegen", a, b] =>
    match a.toNat?, b.toNat? with
    | some start, some len => write (Msg.gen start len)
    | _, _ => (d, "bad-op")
  | ["p-replica", i, w] =>
    match i.toInt?, parseMsg w with
    | some i, some m =>
      match replicaLog d.pclosed d.σ.st i m with
      | (_, .closed) => (d, "err closed")
      | (_, .skip n) => (d, s!"ok skip next={n}")
      | (st, .ok n) => (withSt st, s!"ok idx={n} {showCur st.q}")
      | (_, .failed) => (d, "err failed ret=-1")
    | _, _ => (d, "bad-op")
  | ["p-ackidx"] => (d, s!"ok {replicaAckIndex d.σ.st}")
  | ["p-reset", i] =>
    match i.toInt? with
    | some i =>
      match d.σ.gc with
      | .idle => let st := resetReplicaIndex d.σ.st i; (withSt st, "ok " ++ showQ st.q)
      | _ => (d, "not-enabled")
    | none => (d, "bad-op")
  | ["p-expire"] =>
    -- IsExpire: log.Sync() (no consumer group: returns at once), Queue().GC(); the family is
    -- inside the write window, so the answer is false
    match d.σ.gc with
    | .idle =>
      let st := gc d.σ.st
      (withSt st, s!"ok expired=false data={showList st.mem.dataLive} index={showList st.mem.indexLive}")
    | _ => (d, "not-enabled")
  | ["p-close"] => ({ d with pclosed := true }, "ok")
  | ["p-reopen"] =>
    match d.σ.gc with
    | .idle => let st := reopen d.σ.st; ({ withSt st with pclosed := false }, "ok " ++ showQ st.q)
    | _ => (d, "not-enabled")
  | _ => (d, "bad-op")

def withSt (σ : CSt) (st : St) : CSt := { σ with mem := st.mem, q := st.q }

def seqPut (d : DSt) (m : Msg) : DSt × String :=
  if d.σ.busy ≠ 0 then (d, "not-enabled") else
  match put d.σ.st m with
  | (st, .ok s) => ({ d with σ := withSt d.σ st }, s!"ok seq={s} {showCur st.q}")
  | (_, .tooLarge) => (d, "err too-large")
  | (_, .acquireFailed) => (d, "bad-op")   -- a plain Put has no AcquirePage fault

/-- the position part of the queue object: in Model/Queue.lean the held index page object is the
page of `indexPageIndex` (Props.C05.index_store_page_follows_seq / index_pos_refines_queue_model) -/
def posOfQ (q : Q) : IndexPos.Pos := ⟨q.indexPageIndex, q.indexPageIndex, q.appended⟩

def showPos (p : IndexPos.Pos) : String := s!"held={p.held} idx={p.idx}"

/-- `ip-put`: the Put of the main model, plus where the position model (switch test from the
regenerated condition) stores the item and what it holds afterwards -/
def seqPutPos (d : DSt) (m : Msg) : DSt × String :=
  match IndexPos.decodeSw Generated.C05.persistSwitchCond with
  | none => (d, "bad-op")     -- a switch test the position model does not know
  | some sw =>
    if d.σ.busy ≠ 0 then (d, "not-enabled") else
    match put d.σ.st m with
    | (st, .ok s) =>
      let r := IndexPos.persistPos indexItemsPerPage sw (posOfQ d.σ.st.q)
      ({ d with σ := withSt d.σ st },
        s!"ok seq={s} {showCur st.q} store={r.2.page}:{r.2.slot} {showPos r.1}")
    | (_, .tooLarge) => (d, "err too-large")
    | (_, .acquireFailed) => (d, "bad-op")

def seqPutFail (d : DSt) (m : Msg) : DSt × String :=
  if d.σ.busy ≠ 0 then (d, "not-enabled") else
  match putF d.σ.st m with
  | (st, .ok s) => ({ d with σ := withSt d.σ st }, s!"ok seq={s} {showCur st.q}")
  | (_, .tooLarge) => (d, "err too-large")
  | (st, .acquireFailed) => ({ d with σ := withSt d.σ st }, "err acquire " ++ showQ st.q)

def seqPutFailIdx (d : DSt) (m : Msg) : DSt × String :=
  if d.σ.busy ≠ 0 then (d, "not-enabled") else
  match putFI d.σ.st m with
  | (st, .ok s) => ({ d with σ := withSt d.σ st }, s!"ok seq={s} {showCur st.q}")
  | (_, .tooLarge) => (d, "err too-large")
  | (st, .acquireFailed) => ({ d with σ := withSt d.σ st }, "err acquire " ++ showQ st.q)

def seqPutN (d : DSt) (m : Msg) : Nat → DSt × String
  | 0 => (d, "ok none")
  | 1 => seqPut d m
  | n + 1 => seqPutN (seqPut d m).1 m n

def gcPages (σ : CSt) : String := s!"data={showList σ.mem.dataLive} index={showList σ.mem.indexLive}"

/-- a GC step: `done` when the GC call has returned, `parked` when it waits before its next step -/
def gcStep (d : DSt) (shape : Shape) (e : Ev) : DSt × String :=
  match cstep shape d.σ e with
  | some (σ', _) =>
    let st := match σ'.gc with | .idle => "done" | _ => "parked"
    ({ d with σ := σ' }, s!"ok {st} {gcPages σ'}")
  | none => (d, "not-enabled")

def seqCrashPut (d : DSt) (k : Nat) (m : Msg) : DSt × String :=
  if d.σ.busy ≠ 0 then (d, "not-enabled") else
  let st := crashPut d.σ.st m k
  ({ d with σ := withSt d.σ st }, "ok " ++ showQ st.q)

def cAlloc (d : DSt) (shape : Shape) (t : Nat) (m : Msg) : DSt × String :=
  match cstep shape d.σ (.alloc t m) with
  | some (σ', .none) => ({ d with σ := σ' }, s!"ok parked {showCur σ'.q}")
  | some (σ', .ret s _) => ({ d with σ := σ' }, s!"ok seq={s} {showCur σ'.q}")
  | some (_, .tooLarge) => (d, "err too-large")
  | some (_, .failed) => (d, "bad-op")
  | _ => (d, "not-enabled")

def showMw (σ : QueueMeta.MSt) : String :=
  s!"mem={σ.memApp},{σ.memAck} disk={σ.diskApp},{σ.diskAck} held={σ.holder.isSome}"

/-- the `mw-*` ops: Put / SetAppendedSeq / SetAcknowledgedSeq as threads over the meta words -/
def mwStep (d : DSt) (ws : List String) : DSt × String :=
  match d.progs with
  | none => (d, "no-model")          -- the regenerated programs contain something the model does not know
  | some P =>
    match ws, d.mw with
    | ["mw-new"], _ =>
      if d.σ.busy ≠ 0 then (d, "not-enabled") else
      let σ : QueueMeta.MSt :=
        { memApp := d.σ.q.appended, memAck := d.σ.q.acked,
          diskApp := d.σ.mem.metaW queueAppendedSeqOffset, diskAck := d.σ.mem.metaW queueAcknowledgedSeqOffset,
          holder := none, ths := fun _ => .idle, rets := [] }
      ({ d with mw := some σ }, "ok " ++ showMw σ)
    | ["mw-call", t, k, a], some σ =>
      let kind : Option QueueMeta.Kind :=
        if k = "put" then some .put else if k = "reset" then some .reset else if k = "ack" then some .ack else none
      match t.toNat?, kind, a.toInt? with
      | some t, some k, some a =>
        match QueueMeta.mstep P σ (.call t k a) with
        | some σ' => ({ d with mw := some σ' }, "ok")
        | none => (d, "not-enabled")
      | _, _, _ => (d, "bad-op")
    | ["mw-run", t], some σ =>
      match t.toNat? with
      | some t =>
        match QueueMeta.runToStore P σ t 64 true with
        | (σ', .parked (.diskApp _) v) => ({ d with mw := some σ' }, s!"parked disk.app={v} " ++ showMw σ')
        | (σ', .parked (.diskAck _) v) => ({ d with mw := some σ' }, s!"parked disk.ack={v} " ++ showMw σ')
        | (σ', .parked _ _) => ({ d with mw := some σ' }, "bad-op")
        | (σ', .done .put r) => ({ d with mw := some σ' }, s!"done ret={r} " ++ showMw σ')
        | (σ', .done _ _) => ({ d with mw := some σ' }, "done " ++ showMw σ')
        | (σ', .blocked) => ({ d with mw := some σ' }, "blocked")
        | (_, .notRunning) => (d, "not-enabled")
        | (_, .stuck) => (d, "stuck")
      | none => (d, "bad-op")
    | ["mw-crash"], some σ =>
      let σ' := QueueMeta.crash P σ
      ({ d with mw := some σ' }, "ok " ++ showMw σ')
    | _, _ => (d, "bad-op")


def step (d : DSt) (ws : List String) : DSt × String :=
  match d.shape with
  | none => (d, "bad-op")      -- the structure of Put is not one the model knows
  | some shape =>
  match ws with
  | ["new"] => ({ d with σ := CSt.init }, "ok " ++ showQ CSt.init.q)
  | ["put", w] =>
    match parseMsg w with
    | some m => seqPut d m
    | none => (d, "bad-op")
  | ["ip-put", w] =>
    match parseMsg w with
    | some m => seqPutPos d m
    | none => (d, "bad-op")
  | ["ipos"] => (d, "ok " ++ showPos (posOfQ d.σ.q))
  | ["putgen", a, b] =>
    match a.toNat?, b.toNat? with
    | some start, some len => seqPut d (Msg.gen start len)
    | _, _ => (d, "bad-op")
  | ["putn", n, w] =>
    match n.toNat?, parseMsg w with
    | some n, some m => seqPutN d m n
    | _, _ => (d, "bad-op")
  | ["putfail", w] =>
    match parseMsg w with
    | some m => seqPutFail d m
    | none => (d, "bad-op")
  | ["putfailidx", w] =>
    match parseMsg w with
    | some m => seqPutFailIdx d m
    | none => (d, "bad-op")
  | ["putfailgen", a, b] =>
    match a.toNat?, b.toNat? with
    | some start, some len => seqPutFail d (Msg.gen start len)
    | _, _ => (d, "bad-op")
  | ["setapp", x] =>
    match x.toInt? with
    | some v =>
      if d.σ.busy ≠ 0 then (d, "not-enabled") else
      match d.σ.gc with
      | .idle => let st := setAppended d.σ.st v; ({ d with σ := withSt d.σ st }, "ok " ++ showQ st.q)
      | _ => (d, "not-enabled")
    | none => (d, "bad-op")
  | ["g-snap"] => gcStep d shape .gcSnap
  | ["g-read"] => gcStep d shape .gcRead
  | ["g-truncdata"] => gcStep d shape .gcTruncData
  | ["g-truncindex"] => gcStep d shape .gcTruncIndex
  | ["crashput", k, w] =>
    match k.toNat?, parseMsg w with
    | some k, some m => seqCrashPut d k m
    | _, _ => (d, "bad-op")
  | ["crashputgen", k, a, b] =>
    match k.toNat?, a.toNat?, b.toNat? with
    | some k, some start, some len => seqCrashPut d k (Msg.gen start len)
    | _, _, _ => (d, "bad-op")
  | ["get", s] =>
    match s.toInt? with
    | some s => (d, showGet d.σ.st s)
    | none => (d, "bad-op")
  | ["ack", s] =>
    match s.toInt? with
    | some s => let st := ack d.σ.st s; ({ d with σ := withSt d.σ st }, s!"ok ack={st.q.acked}")
    | none => (d, "bad-op")
  | ["gc"] =>
    match cstep shape d.σ .gc with
    | some (σ', _) => ({ d with σ := σ' }, s!"ok data={showList σ'.mem.dataLive} index={showList σ'.mem.indexLive}")
    | none => (d, "not-enabled")
  | ["reopen"] =>
    match cstep shape d.σ .reopen with
    | some (σ', _) => ({ d with σ := σ' }, "ok " ++ showQ σ'.q)
    | none => (d, "not-enabled")
  | ["c-crash"] =>
    match cstep shape d.σ .crash with
    | some (σ', _) => ({ d with σ := σ' }, "ok " ++ showQ σ'.q)
    | none => (d, "not-enabled")
  | ["c-alloc", t, w] =>
    match t.toNat?, parseMsg w with
    | some t, some m => cAlloc d shape t m
    | _, _ => (d, "bad-op")
  | ["c-allocgen", t, a, b] =>
    match t.toNat?, a.toNat?, b.toNat? with
    | some t, some start, some len => cAlloc d shape t (Msg.gen start len)
    | _, _, _ => (d, "bad-op")
  | ["c-write", t] =>
    match t.toNat? with
    | some t =>
      match shape, cstep shape d.σ (.write t) with
      | _, some (σ', _) => ({ d with σ := σ' }, "ok")
      | .atomic, none => (d, "skip")
      | .threeStep, none => (d, "not-enabled")
    | none => (d, "bad-op")
  | ["c-persist", t] =>
    match t.toNat? with
    | some t =>
      match shape, cstep shape d.σ (.persist t) with
      | _, some (σ', .ret s _) => ({ d with σ := σ' }, s!"ok seq={s} {showCur σ'.q}")
      | _, some (σ', _) => ({ d with σ := σ' }, "ok")
      | .atomic, none => (d, "skip")
      | .threeStep, none => (d, "not-enabled")
    | none => (d, "bad-op")
  | w :: _ =>
    if w.startsWith "f-" then fctStep d ws
    else if w.startsWith "p-" then partStep d ws
    else if w.startsWith "mw-" then mwStep d ws
    else (d, "bad-op")
  | _ => (d, "bad-op")

def main (_args : List String) : IO Unit := Proto.runLoop DSt.init step

end LinVerif.Driver.C05
