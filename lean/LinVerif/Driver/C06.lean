/-
Line-protocol driver for the C06 model (fan-out queue with consumer groups).

  append <len> | appendn <k> <len> | consume <g> | ack <g> <n> | setc <g> <n> | setseq <g> <n>
  setapp <n> | sync | gc | create <g> | stop <g> | pause <g> | reopen          (state operations)
  get <seq> | pages                                                             (observations)
  cbegin <g> | cend <g> | appendwake <len> <g> | pausewake <g>     (two-step Consume, Model/FanOutPark.lean:
      cbegin = a Consume call computes its head and parks; cend = it is woken (Signal) and returns;
      appendwake = Put, whose broadcast wakes the parked call, and the call returns; pausewake = Pause
      (signals) and the call returns). They answer `parked | …`, `<result> | …`, `blocked | …` or
      `not-parked | …`.
  reopenlazy     (Close ; NewFanOutQueue, no group looked up: answers `ok names=<ids> | q=… | `; until a
      group is looked up again with `create <g>` its positions are left out of the replies)
  reopenfault <g>  (Close ; NewFanOutQueue with a one-shot failure opening group g's directory — the
      start-up fails — ; retry: answers `retried | …`)
  createsync <g> | ackconsume <g> <n>      (lock-granularity races, Model/FanOutConc.lean: a create whose
      meta write is delayed while Sync+GC are called = create; sync; gc — an Ack whose meta write is
      delayed while Consume is called = ack; consume)

  ackrewind <g> <n> <m> | rewindack <g> <m> <n>   (round 12, SetConsumedSeq against Ack on one group, the
      thread `wSet` of Model/FanOutMicro.lean: the one that holds the lock first is first — ack; setc / setc; ack)

  rreset <g> <idx> | rstart <g> | rack <g> <idx> | rignore <g> <idx> | rconsume <g> | rhandshake <g> <rAck>  (round 12: the methods of
      replica/replicator.go over the group — ResetReplicaIndex, the rewind of NewLocalReplicator, SetAckIndex,
      IgnoreMessage, Consume — as the operations Model/C06Glue.lean says they issue; the first four answer
      `ok ri=<ReplicaIndex> ai=<AckIndex> ap=<AppendIndex> | …`)

  pending <g> | isempty <g>      (observations: ConsumerGroup.Pending / IsEmpty, Model/FanOutRepl.lean)
  expire           (queue part of replica/partition.go IsExpire: Sync; GC; every live group that IsEmpty is
      stopped: answers `ok stopped=<ids> | …`)
  ackcrash <g> <n> <k>   (Ack n on g; a crash image taken when k of its two meta stores had landed is opened:
      answers `img[q=<a>/<b>;<g>=<c>/<a>,…] | …` — the image's positions, then the state after the Ack)
  race2 <g> <g2> <n>     (two stores parked at once: Ack n on g ‖ Consume g ‖ GetOrCreate g2 ‖ Sync;GC
      = ack; consume; create; sync; gc — answers the Consume result)
  setappsync <n>         (Sync called in the middle of SetAppendedSeq n = setapp n)
  wbegin <g> | wend <g>  (three-step Consume, Model/C06Woken.lean: wbegin = a Consume call has passed NotEmpty
      and sits before the lock of consume() (yield point c06-consume-enter): answers `woken | …`; wend = it
      takes the lock and returns: answers `<result> | …`. Lines closing the group's handle answer
      `not-enabled` meanwhile.)
  ackfault <g> <n>       (Ack n on g whose msync fails, Model/C06Msync.lean `State.ackFault`: in the pinned
      shape = ack g n)
  acksync <g> <n> <f>    (Sync; GC while Ack n on g sits in its msync, which then returns — f=1: with an
      error —, `State.ackSync`: in the pinned shape = ack g n; sync; gc)
  syncack <g> <n>        (Sync parked in the msync of queue.SetAcknowledgedSeq, holding the queue's lock,
      while g acknowledges n and a second Sync is started = sync; ack g n; sync)
  syncreset <n>          (the same while FanOutQueue.SetAppendedSeq n is started = sync; setapp n)
      The msync shape interpreted (`Msync.shapeOf`) is computed from the regenerated access tables of Ack
      and queue.SetAcknowledgedSeq.

State operations answer `<result> | q=<appended>/<ack> | <g>=<consumed>/<ack> ...` (live groups,
ascending by name); `get` answers `ok <len>` / `out-of-range` / `not-found`; `pages` answers
`data=<ids> index=<ids>`.

The variant of `NewConsumerGroup` that is interpreted is the one selected by the regenerated
fact `Generated.C06.newGroupShape`; with an unknown shape every line answers `bad-op`.
-/
import LinVerif.Util.Proto
import LinVerif.Model.FanOutPark
import LinVerif.Model.FanOutFault
import LinVerif.Model.FanOutRepl
import LinVerif.Model.C06Msync
import LinVerif.Model.C06Woken
import LinVerif.Model.C06Glue
import LinVerif.Generated.C06

namespace LinVerif.Driver.C06
open LinVerif LinVerif.FanOut

def sortNat (l : List Nat) : List Nat := (l.toArray.qsort (· < ·)).toList

def showRes : Res → String
  | .done => "ok"
  | .val n => toString n
  | .tooLarge => "too-large"
  | .noGroup => "no-group"

def showState (s : State) : String :=
  let gs := (s.live.toArray.qsort (fun a b => a.1 < b.1)).toList
  s!"q={s.q.appended}/{s.q.ack} | " ++ " ".intercalate (gs.map (fun (k, g) => s!"{k}={g.consumed}/{g.ack}"))

def showIds (l : List Nat) : String := ",".intercalate ((sortNat l).map toString)

def reply (p : State × Res) : State × String := (p.1, showRes p.2 ++ " | " ++ showState p.1)

/-- `k` successive `Put`s of `len` bytes; stops at the first error -/
def appendN (v : Variant) : Nat → State → Nat → State × Res
  | 0, s, _ => (s, .done)
  | k + 1, s, len =>
    match step v s (.append len) with
    | (s', .done) => appendN v k s' len
    | r => r

def stepLine (v : Variant) (s : State) (ws : List String) : State × String :=
  match ws with
  | ["append", a] =>
    match a.toNat? with
    | some len => reply (step v s (.append len))
    | none => (s, "bad-op")
  | ["appendn", k, a] =>
    match k.toNat?, a.toNat? with
    | some k, some len => reply (appendN v k s len)
    | _, _ => (s, "bad-op")
  | ["consume", g] =>
    match g.toNat? with
    | some g => reply (step v s (.consume g))
    | none => (s, "bad-op")
  | ["ack", g, n] =>
    match g.toNat?, n.toInt? with
    | some g, some n => reply (step v s (.ack g n))
    | _, _ => (s, "bad-op")
  | ["setc", g, n] =>
    match g.toNat?, n.toInt? with
    | some g, some n => reply (step v s (.setConsumed g n))
    | _, _ => (s, "bad-op")
  | ["setseq", g, n] =>
    match g.toNat?, n.toInt? with
    | some g, some n => reply (step v s (.setSeq g n))
    | _, _ => (s, "bad-op")
  | ["setapp", n] =>
    match n.toInt? with
    -- below -1 the next Put would index the page with a negative offset: outside the model
    | some n => if n < -1 then (s, "bad-op") else reply (step v s (.setAppended n))
    | none => (s, "bad-op")
  | ["sync"] => reply (step v s .sync)
  | ["gc"] => reply (step v s .gc)
  | ["create", g] =>
    match g.toNat? with
    | some g => reply (step v s (.create g))
    | none => (s, "bad-op")
  | ["stop", g] =>
    match g.toNat? with
    | some g => reply (step v s (.stop g))
    | none => (s, "bad-op")
  | ["pause", g] =>
    match g.toNat? with
    | some g => reply (step v s (.pause g))
    | none => (s, "bad-op")
  | ["reopen"] => reply (step v s .reopen)
  | ["get", n] =>
    match n.toInt? with
    | some n =>
      match s.q.get n with
      | .ok len => (s, s!"ok {len}")
      | .outOfRange => (s, "out-of-range")
      | .notFound => (s, "not-found")
    | none => (s, "bad-op")
  | ["pages"] => (s, s!"data={showIds s.q.dataPages} index={showIds s.q.indexPages}")
  | ["reset"] => (State.init, "ok")
  | _ => (s, "bad-op")

def showPRes : PRes → String
  | .res r => showRes r
  | .parkedNow => "parked"
  | .blocked => "blocked"
  | .notParked => "not-parked"

def preply (p : PState × PRes) : PState × String := (p.1, showPRes p.2 ++ " | " ++ showState p.1.s)

/-- the msync shape of the current source (regenerated access tables) -/
def msyncShape : Msync.Shape := Msync.shapeOf Generated.C06.ackAccess Generated.C06.queueSetAckAccess

/-- round 12: a method of the replicator (replica/replicator.go, Model/C06Glue.lean) = the operations it
issues on the group; answers ReplicaIndex / AckIndex / AppendIndex afterwards -/
def replReply (v : Variant) (ps : PState) (g : Nat) (ops : List Op) : PState × String :=
  let s' := run v ps.s ops
  match LinVerif.Map.lookup s'.live g with
  | some grp =>
    ({ ps with s := s' },
     s!"ok ri={Glue.replicaIndex grp} ai={Glue.ackIndex grp} ap={Glue.appendIndex s'.q} | " ++ showState s')
  | none => (ps, "no-group")

def pstepLine (v : Variant) (ps : PState) (ws : List String) : PState × String :=
  match ws with
  | ["cbegin", g] =>
    match g.toNat? with
    | some g => preply (pstep v ps (.cbegin g))
    | none => (ps, "bad-op")
  | ["cend", g] =>
    match g.toNat? with
    | some g => preply (pstep v ps (.cend g))
    | none => (ps, "bad-op")
  | ["appendwake", a, g] =>
    match a.toNat?, g.toNat? with
    | some len, some g =>
      match pstep v ps (.op (.append len)) with
      | (ps', .res .done) => preply (pstep v ps' (.cend g))
      | r => preply r
    | _, _ => (ps, "bad-op")
  | ["pausewake", g] =>
    match g.toNat? with
    | some g => preply (pstep v (pstep v ps (.op (.pause g))).1 (.cend g))
    | none => (ps, "bad-op")
  | ["createsync", g] =>
    -- GetOrCreateConsumerGroup ‖ Sync; GC in the pinned (locked) shape: create, then sync, then gc
    match g.toNat? with
    | some g =>
      let s1 := (step v ps.s (.create g)).1
      let s2 := (step v s1 .sync).1
      ({ ps with s := (step v s2 .gc).1 }, "ok | " ++ showState (step v s2 .gc).1)
    | none => (ps, "bad-op")
  | ["ackconsume", g, n] =>
    -- Ack ‖ Consume on one group in the pinned shape (Ack holds the read lock first): ack, then consume
    match g.toNat?, n.toInt? with
    | some g, some n =>
      let s1 := (step v ps.s (.ack g n)).1
      let r := step v s1 (.consume g)
      ({ ps with s := r.1 }, showRes r.2 ++ " | " ++ showState r.1)
    | _, _ => (ps, "bad-op")
  | ["rreset", g, idx] =>
    match g.toNat?, idx.toInt? with
    | some g, some idx => replReply v ps g [Glue.resetReplicaIndex g idx]
    | _, _ => (ps, "bad-op")
  | ["rstart", g] =>
    match g.toNat? with
    | some g => replReply v ps g (Glue.localStart ps.s g)
    | none => (ps, "bad-op")
  | ["rack", g, idx] =>
    match g.toNat?, idx.toInt? with
    | some g, some idx => replReply v ps g [Glue.setAckIndex g idx]
    | _, _ => (ps, "bad-op")
  | ["rignore", g, idx] =>
    match g.toNat?, idx.toInt? with
    | some g, some idx => replReply v ps g (Glue.ignoreMessage ps.s g idx)
    | _, _ => (ps, "bad-op")
  | ["rhandshake", g, r] =>
    match g.toNat?, r.toInt? with
    | some g, some r => replReply v ps g (Glue.handshakeOps ps.s g r)
    | _, _ => (ps, "bad-op")
  | ["rconsume", g] =>
    match g.toNat? with
    | some g =>
      let r := step v ps.s (.consume g)
      ({ ps with s := r.1 }, showRes r.2 ++ " | " ++ showState r.1)
    | none => (ps, "bad-op")
  | ["ackrewind", g, n, m] =>
    -- round 12: Ack ‖ SetConsumedSeq on one group, Ack holds the read lock first: ack, then the rewind
    match g.toNat?, n.toInt?, m.toInt? with
    | some g, some n, some m =>
      let s1 := (step v ps.s (.ack g n)).1
      let r := step v s1 (.setConsumed g m)
      ({ ps with s := r.1 }, showRes r.2 ++ " | " ++ showState r.1)
    | _, _, _ => (ps, "bad-op")
  | ["rewindack", g, m, n] =>
    -- round 12: SetConsumedSeq holds the write lock first: the rewind, then the ack against the new window
    match g.toNat?, m.toInt?, n.toInt? with
    | some g, some m, some n =>
      let s1 := (step v ps.s (.setConsumed g m)).1
      let r := step v s1 (.ack g n)
      ({ ps with s := r.1 }, showRes r.2 ++ " | " ++ showState r.1)
    | _, _, _ => (ps, "bad-op")
  | ["pending", g] =>
    match g.toNat? with
    | some g =>
      match LinVerif.Map.lookup ps.s.live g with
      | some grp => (ps, toString (grp.pending ps.s.q.appended))
      | none => (ps, "no-group")
    | none => (ps, "bad-op")
  | ["isempty", g] =>
    match g.toNat? with
    | some g =>
      match LinVerif.Map.lookup ps.s.live g with
      | some grp => (ps, toString (grp.isEmpty ps.s.q.appended))
      | none => (ps, "no-group")
    | none => (ps, "bad-op")
  | ["expire"] =>
    let s' := ps.s.expire v false
    let before := ps.s.live.map (·.1)
    let stopped := before.filter (fun k => (LinVerif.Map.lookup s'.live k).isNone)
    ({ ps with s := s' }, s!"ok stopped={showIds stopped} | " ++ showState s')
  | ["ackcrash", g, n, k] =>
    match g.toNat?, n.toInt?, k.toNat? with
    | some g, some n, some k =>
      if k > 1 then (ps, "bad-op") else
      let img := ps.s.ackCrashImage v g n k
      let r := step v ps.s (.ack g n)
      ({ ps with s := r.1 }, "img[" ++ ((showState img).replace " | " ";").replace " " "," ++ "] | " ++ showState r.1)
    | _, _, _ => (ps, "bad-op")
  | ["race2", g, g2, n] =>
    match g.toNat?, g2.toNat?, n.toInt? with
    | some g, some g2, some n =>
      let s1 := (step v ps.s (.ack g n)).1
      let r := step v s1 (.consume g)
      let s3 := (step v r.1 (.create g2)).1
      let s4 := (step v s3 .sync).1
      let s5 := (step v s4 .gc).1
      ({ ps with s := s5 }, showRes r.2 ++ " | " ++ showState s5)
    | _, _, _ => (ps, "bad-op")
  | ["setappsync", n] =>
    -- Sync in the middle of an index reset is the identity (`micro_sync_during_reset_noop`)
    match n.toInt? with
    | some n => if n < -1 then (ps, "bad-op") else
      let r := step v ps.s (.setAppended n)
      ({ ps with s := r.1 }, showRes r.2 ++ " | " ++ showState r.1)
    | none => (ps, "bad-op")
  | ["ackfault", g, n] =>
    match g.toNat?, n.toInt? with
    | some g, some n =>
      let s' := Msync.State.ackFault msyncShape v ps.s g n
      ({ ps with s := s' }, "ok | " ++ showState s')
    | _, _ => (ps, "bad-op")
  | ["acksync", g, n, f] =>
    match g.toNat?, n.toInt?, f.toNat? with
    | some g, some n, some f =>
      if f > 1 then (ps, "bad-op") else
      let s' := Msync.State.ackSync msyncShape v ps.s g n (f == 1)
      ({ ps with s := s' }, "ok | " ++ showState s')
    | _, _, _ => (ps, "bad-op")
  | ["syncack", g, n] =>
    -- the parked Sync holds the queue's write lock: the second Sync is ordered after it
    match g.toNat?, n.toInt? with
    | some g, some n =>
      let s1 := (step v ps.s .sync).1
      let s2 := (step v s1 (.ack g n)).1
      let s3 := (step v s2 .sync).1
      ({ ps with s := s3 }, "ok | " ++ showState s3)
    | _, _ => (ps, "bad-op")
  | ["syncreset", n] =>
    match n.toInt? with
    | some n => if n < -1 then (ps, "bad-op") else
      let s1 := (step v ps.s .sync).1
      let r := step v s1 (.setAppended n)
      ({ ps with s := r.1 }, showRes r.2 ++ " | " ++ showState r.1)
    | none => (ps, "bad-op")
  | ["reset"] => (PState.init, "ok")
  | _ =>
    let r := stepLine v ps.s ws
    ({ ps with s := r.1 }, r.2)

/-- Driver state: the model state plus the groups the caller has not looked up since the last
`reopenlazy` (presentation only: their positions are not printed, the implementation side has no
handle to read them from). -/
structure DState where
  ps : PState
  hidden : List Nat
  /-- groups whose Consume call sits between NotEmpty's return and consume()'s lock (Model/C06Woken.lean) -/
  woken : List Nat := []

/-- lines that close a group's handle; not enabled while a Consume call of that group is in flight -/
def closingLine (ws : List String) (woken : List Nat) : Bool :=
  match ws with
  | ["stop", g] => match g.toNat? with | some gi => woken.contains gi | none => false
  | ["reopen"] | ["reopenlazy"] | ["reopenfault", _] | ["expire"] => !woken.isEmpty
  | _ => false

def hideGroups (hidden : List Nat) (line : String) (s : State) : String :=
  -- re-render the state part of a reply without the hidden groups
  match line.splitOn " | " with
  | [r, _, _] =>
    let vis : State := { s with live := s.live.filter (fun p => !hidden.contains p.1) }
    r ++ " | " ++ showState vis
  | _ => line

def dstepLine (v : Variant) (d : DState) (ws : List String) : DState × String :=
  if closingLine ws d.woken then (d, "not-enabled") else
  match ws with
  | ["wbegin", g] =>
    match g.toNat? with
    | some gi =>
      let r := wstep v { ps := d.ps, woken := d.woken } (.wbegin gi)
      match r.2 with
      | .wokenNow => ({ d with woken := r.1.woken }, "woken | " ++ showState d.ps.s)
      | _ => (d, "not-enabled | " ++ showState d.ps.s)
    | none => (d, "bad-op")
  | ["wend", g] =>
    match g.toNat? with
    | some gi =>
      let r := wstep v { ps := d.ps, woken := d.woken } (.wend gi)
      match r.2 with
      | .res (.res x) => ({ d with ps := r.1.ps, woken := r.1.woken }, showRes x ++ " | " ++ showState r.1.ps.s)
      | _ => (d, "not-enabled | " ++ showState d.ps.s)
    | none => (d, "bad-op")
  | ["reopenlazy"] =>
    -- Close ; NewFanOutQueue without looking any group up: the model restores all of them
    let r := pstepLine v d.ps ["reopen"]
    let names := sortNat (r.1.s.live.map (·.1))
    ({ ps := r.1, hidden := names }, s!"ok names={showIds names} | q={r.1.s.q.appended}/{r.1.s.q.ack} | ")
  | ["reopen"] =>
    let r := pstepLine v d.ps ws
    ({ ps := r.1, hidden := [] }, r.2)
  | ["reopenfault", g] =>
    -- Close ; NewFanOutQueue failing on group g's directory ; retry
    match g.toNat? with
    | some gi =>
      let s' := d.ps.s.reopenFault v gi
      let res := if (LinVerif.Map.lookup d.ps.s.metas gi).isSome then "retried" else "ok-no-fault"
      ({ ps := { d.ps with s := s' }, hidden := [] }, res ++ " | " ++ showState s')
    | none => (d, "bad-op")
  | ["reset"] => ({ ps := PState.init, hidden := [] }, "ok")
  | ["create", g] =>
    match g.toNat? with
    | some gi =>
      let hidden := d.hidden.filter (· ≠ gi)
      let r := pstepLine v d.ps ws
      ({ ps := r.1, hidden := hidden }, hideGroups hidden r.2 r.1.s)
    | none => (d, "bad-op")
  | _ =>
    let r := pstepLine v d.ps ws
    ({ d with ps := r.1 }, if d.hidden.isEmpty then r.2 else hideGroups d.hidden r.2 r.1.s)

def main (_args : List String) : IO Unit :=
  match variantOf Generated.C06.newGroupShape with
  | some v => Proto.runLoop ({ ps := PState.init, hidden := [] } : DState) (dstepLine v)
  | none => Proto.runLoop () (fun s _ => (s, "bad-op"))

end LinVerif.Driver.C06
