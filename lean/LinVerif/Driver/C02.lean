/-
Line-protocol driver for the C02 interleaving model (Model/VersionSet.lean).

  init <v0> <f0> <threshold> <rollup:0|1|2> [recheck:0|1]   reset; family's first version id, next file number;
                         rollup = number of rollup target intervals (0: none, 1: [5m], 2: [5m, 1h]; intervals in minutes)
  acquire <r>            reader r takes a snapshot
  getr <r> <f>           snapshot.GetReader(f)
  find <r> <k>           snapshot.FindReaders(k) + Get(k) on every reader
  findfail <r> <k> <f>   snapshot.FindReaders(k) while the open of table f fails once (injected fault)
  load <r> <k>           snapshot.Load(k)
  loadc <r> <k> f ..     snapshot.Load(k), a Cleanup tick inside the loader closed the entries f ..
  close <r>              snapshot.Close() up to the yield after ref.Dec
  close2 <r>             a second Close() on the same snapshot object (overlapping or after the first)
  parget <r1> <r2> <f>   both snapshots call GetReader(f) at the same time (f not mapped)
  run r<r> | run j<j> [+j<k> ..]   continue a closing reader / a job up to its next park point
                         (`at=blocked`: its next step needs the version-set mutex / compacting flag);
                         +j<k>: jobs that were blocked and were released by this step, run next
  spawn flush k:t k:t .. | spawn compact | spawn rollup f f .. | spawn delobs
  rollupjob iv ..        the real family.rollup(); iv .. = the target intervals whose target store is open (those
                         rollups succeed, every other target is skipped) + its deferred deleteObsoleteFiles
  par j<a> j<b> ..       the commits of these jobs run concurrently (released together, unscheduled)
  cleanup f f ..         storeCache.Cleanup closed exactly these entries
Every answer is `<result> | <state>`; unknown or ill-formed lines answer `bad-op`.
The code variant (does removeVersion re-check the refcount?) is the regenerated fact
`Generated.C02.removeVersionRechecksRef` unless the init line overrides it.
-/
import LinVerif.Util.Proto
import LinVerif.Model.VersionSet
import LinVerif.Generated.C02

namespace LinVerif.Driver.C02
open LinVerif LinVerif.VersionSet LinVerif.TableCache

structure D where
  cfg : Cfg
  st : St
  readers : List (Nat × Nat)   -- reader name ↦ snapshot id
  ok : Bool                    -- init seen

def codeCfg0 : Cfg :=
  { recheck := Generated.C02.removeVersionRechecksRef, cloneLocked := Generated.C02.commitCloneUnderLock,
    allocLocked := Generated.C02.allocUnderCommitLock, findErrReleases := Generated.C02.findErrReleases,
    pendFirst := Generated.C02.pendBeforeCreate, closeCAS := Generated.C02.closeIsCAS,
    getReaderAtomic := Generated.C02.getReaderOneSection, listFirst := Generated.C02.listBeforeLive,
    rollDelPerInterval := Generated.C02.rollupDelPerInterval }

def D.empty : D := { cfg := codeCfg0, st := St.init 0 0, readers := [], ok := false }

def sortedNat (l : List Nat) : List Nat := sortNat l
def dedup (l : List Nat) : List Nat := l.foldr (fun x acc => if acc.contains x then acc else x :: acc) []
def commaNat (l : List Nat) : String := ",".intercalate (l.map toString)

def showState (d : D) : String :=
  let s := d.st
  let act := sortedNat (dedup s.active)
  let rvs := sortedNat (dedup (d.readers.map (fun p => (s.snap p.2).ver)))
  let files := List.range s.nextFile
  let cache := files.filterMap (fun f => (s.cref f).map (fun r => s!"{f}:{r}"))
  let pr (vs : List Nat) := ",".intercalate (vs.map (fun v => s!"{v}:{s.ref v}"))
  let marks := (files.flatMap (fun f => (sortedNat (((s.ver s.cur).rollup.filter (fun p => p.1 == f)).map (·.2))).map (fun iv => s!"{f}:{iv}")))
  s!"cur={s.cur} act={pr act} rv={pr rvs} disk={commaNat (sortedNat s.disk)} pend={commaNat (sortedNat s.pending)} cache={",".intercalate cache} lock={if s.lock.isSome then 1 else 0} cmp={if s.compacting then 1 else 0} roll={",".intercalate marks}"

/-- `StoreOption.Rollup` of the harness' source store, in minutes -/
def targetsOf (ro : Nat) : List Nat := if ro == 0 then [] else if ro == 1 then [5] else [5, 60]

def answer (d : D) (res : String) : D × String := (d, res ++ " | " ++ showState d)

def pcName : Pc → String
  | .start => "start" | .picked => "picked" | .reading => "reading" | .merging => "merging"
  | .allocd => "allocd" | .ready => "ready" | .cCloned => "cCloned" | .cLocked => "cLocked" | .cSnapped => "cSnapped"
  | .cSwapped => "cSwapped" | .cChecked => "cChecked" | .cPrevDone => "cPrevDone" | .cDecd => "cDecd"
  | .cRemoved => "cRemoved" | .cReleased => "cReleased" | .cUnlocked => "cUnlocked"
  | .closeOwn => "closeOwn" | .oDecd => "oDecd" | .oRemoved => "oRemoved" | .doStart => "doStart"
  | .doListed => "doListed" | .doPended => "doPended" | .doActived => "doActived" | .doRolled => "doRolled"
  | .doEvicted => "doEvicted" | .doRemoved => "doRemoved" | .done => "done" | .createdU => "createdU"
  | .doLiveL => "doLiveL"

/-- park points including the one after the table file was created (`ready` of a merging
compaction, `createdU` in the create-first variant) -/
def parkAt (b : Job) : Bool :=
  isPark b.kind b.pc || (b.kind == .compact && b.pc == .ready && !b.trivial) || b.pc == .createdU || b.pc == .doLiveL

/-- run job j until it parks (fuel-bounded) or its next step is not enabled (blocked on the
version-set mutex / the compacting flag). The flag says whether the job ended at a park point it
reached by at least one step. -/
def runJob (cfg : Cfg) (s : St) (j : Nat) : Nat → St × Bool
  | 0 => (s, false)
  | fuel + 1 =>
    match step cfg s (.jstep j) with
    | none => (s, false)
    | some s' => if parkAt (s'.job j) then (s', true) else runJob cfg s' j fuel

/-- where a job stands after `runJob`: a park point, or blocked -/
def atName (r : St × Bool) (j : Nat) : String :=
  if r.2 then pcName (r.1.job j).pc else "blocked"

def showRead (r : List (Nat × List Nat)) : String :=
  "ok toks=" ++ commaNat (sortNat (r.flatMap (·.2)))

/-- FindReaders / Load over the files covering k, in the version's order, stopping at the first
failed open (files before it stay retained exactly as the loop left them) -/
def readFiles (s : St) (i : Nat) (keep : Bool) : List Nat → St × Bool
  | [] => (s, true)
  | f :: rest => if getReaderOk s f then readFiles (snapGetReader s i f keep) i keep rest else (s, false)

def parsePayload (ws : List String) : Option Content :=
  ws.mapM (fun w => match w.splitOn ":" with
    | [k, t] => do some ((← k.toNat?), [(← t.toNat?)])
    | _ => none)

def sidOf (d : D) (r : Nat) : Option Nat := (d.readers.find? (fun p => p.1 == r)).map (·.2)

def doRead (d : D) (r k : Nat) (keep : Bool) : D × String :=
  match sidOf d r with
  | none => (d, "bad-op")
  | some i =>
    if readerSnap d.st i && (d.st.snap i).st = .opened then
      let fs := (findFiles (d.st.ver (d.st.snap i).ver) k).map (·.no)
      match readFiles d.st i keep fs with
      | (s', true) =>
        let vals := fs.filterMap (fun f => (lookupKey (d.st.content f) k).map (fun ts => (f, ts)))
        answer { d with st := s' } (showRead vals)
      | (s', false) => answer { d with st := s' } "err"
    else (d, "bad-op")

def act (d : D) (a : Act) (res : String) : D × String :=
  match step d.cfg d.st a with
  | some s' => answer { d with st := s' } res
  | none => answer d "blocked"

def step' (d : D) (ws : List String) : D × String :=
  match ws with
  | "init" :: rest =>
    match rest.mapM String.toNat? with
    | some [v0, f0, th, ro] =>
      answer { cfg := { recheck := Generated.C02.removeVersionRechecksRef, cloneLocked := Generated.C02.commitCloneUnderLock,
                        allocLocked := Generated.C02.allocUnderCommitLock, findErrReleases := Generated.C02.findErrReleases,
                        pendFirst := Generated.C02.pendBeforeCreate, closeCAS := Generated.C02.closeIsCAS,
                        getReaderAtomic := Generated.C02.getReaderOneSection, listFirst := Generated.C02.listBeforeLive,
                        rollDelPerInterval := Generated.C02.rollupDelPerInterval,
                        threshold := th, targets := targetsOf ro },
               st := St.init v0 f0, readers := [], ok := true } "ok"
    | some [v0, f0, th, ro, rc, cl, al] =>
      answer { cfg := { recheck := rc == 1, cloneLocked := cl == 1, allocLocked := al == 1, threshold := th, targets := targetsOf ro },
               st := St.init v0 f0, readers := [], ok := true } "ok"
    | _ => (d, "bad-op")
  | _ =>
  if !d.ok then (d, "bad-op") else
  match ws with
  | ["acquire", r] =>
    match r.toNat? with
    | some r =>
      if (sidOf d r).isSome then (d, "bad-op") else
      let i := d.st.nSnap
      act { d with readers := (r, i) :: d.readers } .acquire "ok"
    | none => (d, "bad-op")
  | ["getr", r, f] =>
    match r.toNat?, f.toNat? with
    | some r, some f =>
      match sidOf d r with
      | some i =>
        let okr := getReaderOk d.st f
        act d (.getReader i f) (if okr then "ok" else "err")
      | none => (d, "bad-op")
    | _, _ => (d, "bad-op")
  | ["find", r, k] =>
    match r.toNat?, k.toNat? with
    | some r, some k => doRead d r k true
    | _, _ => (d, "bad-op")
  | ["load", r, k] =>
    match r.toNat?, k.toNat? with
    | some r, some k => doRead d r k false
    | _, _ => (d, "bad-op")
  | "loadc" :: r :: k :: ev =>
    -- Load(k) whose loader lets a cache Cleanup tick run (closing exactly the entries ev) before it
    -- uses the value: the tables Load reads are retained, so the tick can only close others
    match r.toNat?, k.toNat?, ev.mapM String.toNat? with
    | some r, some k, some ev =>
      let (d1, res) := doRead d r k false
      if res.startsWith "ok" then
        match step d1.cfg d1.st (.cleanup ev) with
        | some s' => answer { d1 with st := s' } (((res.splitOn " | ").headD "") )
        | none => answer d1 "bad-evict"
      else (d1, res)
    | _, _, _ => (d, "bad-op")
  | ["findfail", r, k, f] =>
    -- FindReaders(k) where opening table f (the only covering table of its level, not mapped) fails:
    -- the covering tables of the lower levels were opened before it (levels are visited in order)
    match r.toNat?, k.toNat?, f.toNat? with
    | some r, some k, some f =>
      match sidOf d r with
      | none => (d, "bad-op")
      | some i =>
        let cov := findFiles (d.st.ver (d.st.snap i).ver) k
        match cov.find? (fun m => m.no == f) with
        | none => (d, "bad-op")
        | some mf =>
          if readerSnap d.st i && (d.st.snap i).st = .opened && (d.st.cref f).isNone then
            let before := (cov.filter (fun m => m.level < mf.level)).map (·.no)
            let (s1, _) := readFiles d.st i true before
            let s2 := if d.cfg.findErrReleases then
                (step d.cfg s1 (.findErrRelease i before)).getD s1 else s1
            answer { d with st := s2 } "err"
          else (d, "bad-op")
    | _, _, _ => (d, "bad-op")
  | ["close2", r] =>
    -- a second Close() on the same snapshot while / after the first: a no-op with the CAS guard
    match r.toNat? with
    | some r =>
      match sidOf d r with
      | some i =>
        if d.cfg.closeCAS then answer d "at=noop"
        else match step d.cfg d.st (.sDec2 i) with
          | some s' => answer { d with st := s' } "at=decd"
          | none => answer d "at=noop"
      | none => (d, "bad-op")
    | none => (d, "bad-op")
  | ["parget", r1, r2, f] =>
    match r1.toNat?, r2.toNat?, f.toNat? with
    | some r1, some r2, some f =>
      match sidOf d r1, sidOf d r2 with
      | some i1, some i2 =>
        let ok1 := getReaderOk d.st f
        match step d.cfg d.st (.getReader i1 f) with
        | some s1 =>
          let ok2 := getReaderOk s1 f
          match step d.cfg s1 (.getReader i2 f) with
          | some s2 => answer { d with st := s2 } ((if ok1 then "ok" else "err") ++ " " ++ (if ok2 then "ok" else "err"))
          | none => (d, "bad-op")
        | none => (d, "bad-op")
      | _, _ => (d, "bad-op")
    | _, _, _ => (d, "bad-op")
  | ["close", r] =>
    match r.toNat? with
    | some r =>
      match sidOf d r with
      | some i => act d (.sDec i) "at=decd"
      | none => (d, "bad-op")
    | none => (d, "bad-op")
  | "run" :: t :: woken =>
    -- `run X +jA +jB`: X runs to its next park point; the jobs that were blocked on the mutex and
    -- were released by it then run to theirs (in the order given)
    match (t.drop 1).toString.toNat?, woken.mapM (fun w => if w.startsWith "+j" then (w.drop 2).toString.toNat? else none) with
    | some n, some ws =>
      let first : Option (D × String) :=
        if t.startsWith "r" then
          match sidOf d n with
          | none => none
          | some i =>
            match (d.st.snap i).st with
            | .decd _ => (step d.cfg d.st (.sRemove i)).map (fun s' => ({ d with st := s' }, "removed"))
            | .removed => (step d.cfg d.st (.sRel i)).map (fun s' => ({ d with st := s' }, "closed"))
            | _ => none
        else if t.startsWith "j" then
          if n < d.st.nJob then
            let r := runJob d.cfg d.st n 64
            some ({ d with st := r.1 }, atName r n)
          else none
        else none
      match first with
      | none => (d, "bad-op")
      | some (d1, r1) =>
        if ws.all (fun w => w < d1.st.nJob) then
          let (d2, rs) := ws.foldl (fun (acc : D × List String) w =>
            let r := runJob acc.1.cfg acc.1.st w 64
            ({ acc.1 with st := r.1 }, acc.2 ++ [atName r w])) (d1, [r1])
          answer d2 ("at=" ++ "+".intercalate rs)
        else (d, "bad-op")
    | _, _ => (d, "bad-op")
  | "rollupjob" :: oks =>
    -- the real family.rollup(), unscheduled: GetLiveRollupFiles; for every target interval of the marks
    -- whose target store is open (oks): doRollupWork = a snapshot of THIS family, one GetReader per marked
    -- table that is still in level 0 (`v.GetFile(0, file)`), Close; the rollup-done commit; the deferred
    -- deleteObsoleteFiles. A target whose source table cannot be opened fails (it is not ok).
    match oks.mapM String.toNat? with
    | none => (d, "bad-op")
    | some oks =>
      let s0 := d.st
      let marks := (s0.ver s0.cur).rollup
      let srcOf (iv : Nat) : List Nat :=
        ((marks.filter (fun p => p.2 == iv)).map (·.1)).filter
          (fun f => (s0.ver s0.cur).files.any (fun m => m.no == f && m.level == 0))
      let ok := (rollupIntervals marks).filter (fun iv => oks.contains iv && (srcOf iv).all (getReaderOk s0))
      match step d.cfg s0 (.spawn .rollupJob (ok.map (fun iv => (iv, [])))) with
      | none => (d, "bad-op")
      | some s1 =>
        let j := s0.nJob
        match step d.cfg s1 (.jstep j) with
        | none => (d, "bad-op")
        | some s2 =>
          let work (s : Option St) (iv : Nat) : Option St := do
            let s ← s
            let i := s.nSnap
            let sa ← step d.cfg s .acquire
            let sr ← (srcOf iv).foldl (fun (acc : Option St) f => acc.bind (fun x => step d.cfg x (.getReader i f))) (some sa)
            let s3 ← step d.cfg sr (.sDec i)
            let s4 ← step d.cfg s3 (.sRemove i)
            step d.cfg s4 (.sRel i)
          match ok.foldl work (some s2) with
          | none => (d, "bad-op")
          | some s3 =>
            let s' := (List.range 200).foldl (fun s _ => (runJob d.cfg s j 64).1) s3
            answer { d with st := s' } "ok"
  | "par" :: ts =>
    -- commits released together: their critical sections are serialised by the version-set mutex;
    -- the resulting state does not depend on the order (flushes / rollup-done commits only)
    match ts.mapM (fun w => if w.startsWith "j" then (w.drop 1).toString.toNat? else none) with
    | some js =>
      if js.all (fun j => j < d.st.nJob) then
        let toDone (s : St) (j : Nat) : St := (List.range 24).foldl (fun s _ => (runJob d.cfg s j 64).1) s
        let s' := js.foldl toDone d.st
        answer { d with st := s' } ("at=" ++ "+".intercalate (js.map (fun j => if (s'.job j).pc == .done then "done" else "blocked")))
      else (d, "bad-op")
    | none => (d, "bad-op")
  | "spawn" :: "flush" :: kvs =>
    match parsePayload kvs with
    | some p => if p.isEmpty then (d, "bad-op") else act d (.spawn .flush p) s!"job={d.st.nJob}"
    | none => (d, "bad-op")
  | ["spawn", "compact"] => act d (.spawn .compact []) s!"job={d.st.nJob}"
  | ["spawn", "delobs"] => act d (.spawn .delObs []) s!"job={d.st.nJob}"
  | "spawn" :: "rollup" :: fs =>
    match fs.mapM String.toNat? with
    | some l => act d (.spawn .rollupDone (l.map (fun f => (f, [5])))) s!"job={d.st.nJob}"
    | none => (d, "bad-op")
  | ["other", what] =>
    -- one whole operation of another family of the same store (`Act.env`): what it does to the
    -- shared counters. create: `newVersionID()` for its first version; flush / merging compaction:
    -- `NextFileNumber()` + the commit's NextFileNumber record + `Clone()`; read: nothing
    let dd : Option (Nat × Nat) := match what with
      | "create" => some (0, 1)
      | "flush" => some (2, 1)
      | "compact" => some (2, 1)
      | "read" => some (0, 0)
      | _ => none
    match dd with
    | some (df, dv) =>
      match step d.cfg d.st (.env df dv) with
      | some s' => answer { d with st := s' } s!"ok nf={s'.nextFile}"
      | none => answer d "blocked"
    | none => (d, "bad-op")
  | "cleanup" :: fs =>
    match fs.mapM String.toNat? with
    | some l =>
      match step d.cfg d.st (.cleanup l) with
      | some s' => answer { d with st := s' } "ok"
      | none => answer d "bad-evict"
    | none => (d, "bad-op")
  | _ => (d, "bad-op")

def main (_args : List String) : IO Unit := Proto.runLoop D.empty step'

end LinVerif.Driver.C02
