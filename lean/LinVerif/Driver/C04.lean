/-
Line-protocol driver for the C04 model (Model/Rollup.lean).

  cfg <src> <day,day,..> <code,code,..> | <tgt> <tgt> ...   (family code = dayIndex*100 + hour)
  loc <h> <tgt>
  flush <h> <file> <nonEmpty> | <metric>/<start>/<end>/<series>.<field>.<ftype>.<slot>.<val>,... ...
  rollup <h> ivs=<a,b|-> dvs=<a,b|-> avail=<a,b|-> cut=<n|->
  reopen | state
  rollupf <h> ivs=.. dvs=.. avail=.. fail=<k>   (complete run whose k-th manifest commit fails; the code goes on)
  rollupq <h> ivs=.. dvs=.. avail=..   (one family's job of a concurrent ForceRollup)
  rollupw <h> ivs=.. dvs=.. avail=.. at=<n> <fh> <file> <ne> | <blocks>   (complete run with one flush committed before its record n)
  read <tgt>
  arith <src> <tgt> <srcSegTime> <fTime> | <slot> <slot> ...
  cfgz <src> <localDay,..> <code,..> | <tgt> ... | <off0> <at1> <off1> ...   (the same with time.Local = the zone with
                                         initial offset off0 (s) and transitions (UTC second, new offset); day numbers are
                                         wall-clock days, the segment time of a day store is that local midnight)
  arithz <src> <tgt> <srcSegTime> <fTime> | <slot> ... | <off0> <at1> <off1> ...
  topen <tgt> <segTime> | tclose <tgt> <segTime>   (round 10: CreateStore / CloseStore of ONE target store while the
                                         source family objects live on; the model keeps the registry and resolves the
                                         target of every rollup run itself: `avail=` of the rollup ops only lists the
                                         intervals whose job did not fail for another reason)
-/
import LinVerif.Util.Proto
import LinVerif.Model.Rollup
import LinVerif.Model.C04Zone
import LinVerif.Model.C04Resolve
import LinVerif.Generated.C04

namespace LinVerif.Driver.C04
open LinVerif LinVerif.Rollup

structure DS where
  src : Int := 0
  day : Int := 0
  /-- day numbers of the source stores; a source family is coded `dayIndex * 100 + hour` -/
  days : List Int := []
  tgts : List Nat := []
  st : St := St.init
  files : List (Key × FileData) := []
  /-- committed target outputs: (interval, output of the merge) -/
  tfiles : List ((Iv × String) × FileData) := []
  dead : Bool := false
  /-- `time.Local` of the case (`none` = UTC, the `Cal` model) -/
  zone : Option LinVerif.Interval.Zone := none
  /-- registry of target stores, generations, (second shape) cached targets; its `st` is not used -/
  wr : World := {}

/-- the shape of `(*month).CalcFamily` the code has (regenerated) -/
def byCal : Bool := Generated.C04.monthFamilyIsCalendarDay

/-- segment time of the source store of family code `c` -/
def DS.segOf (d : DS) (c : Nat) : Int :=
  match d.zone with
  | none => (d.days.getD (c / 100) d.day) * oneDay
  | some z => segOfDayZ z (d.days.getD (c / 100) d.day)
def hourOf (c : Nat) : Int := ((c % 100 : Nat) : Int)
def DS.locOf (d : DS) (c : Nat) (tgt : Int) : Loc :=
  match d.zone with
  | none => locate stdCal d.src tgt (d.segOf c) (hourOf c)
  | some z => locateZ byCal z d.src tgt (d.segOf c) (hourOf c)
def DS.rOf (d : DS) (c : Nat) (tgt : Int) : R :=
  match d.zone with
  | none => mkR stdCal d.src tgt (d.segOf c) (hourOf c)
  | some z => mkRZ byCal z d.src tgt (d.segOf c) (hourOf c)
/-- `<target segment time>/<target family>`: where the rollup of family `c` writes for `tgt` -/
def DS.locKey (d : DS) (c : Nat) (tgt : Int) : String :=
  let l := d.locOf c tgt
  s!"{l.tSegTime}/{l.tFamily}"

/-- the shape of the target resolution the code has (regenerated): `false` = lookup on every run -/
def cachedShape : Bool := !Generated.C04.rollupResolvesTargetPerRun
/-- the target store `rollup()` of family `c` looks up for interval `i` -/
def DS.nameOf (d : DS) (c : Nat) (i : Iv) : TName := (i, (d.locOf c (i : Int)).tSegTime)
def DS.world (d : DS) : World := { d.wr with st := d.st }
/-- the intervals of a run whose job can commit: not failed for another reason (`av`) and the resolved
target is a live object (`World.step`, rollup branch) -/
def DS.effAvail (d : DS) (h : Nat) (ivs av : List Nat) : List Nat :=
  ivs.filter (fun i => decide (i ∈ av) && d.world.canCommit cachedShape d.nameOf h i)
/-- registry/cache after a run of family `h` (a cut run is followed by a restart: every object is new) -/
def DS.afterRun (d : DS) (h : Nat) (ivs : List Nat) (cut : Bool) : World :=
  let w1 := { d.world with cache := d.world.fillCache cachedShape d.nameOf h ivs }
  if cut then w1.renew else w1
def showReg (w : World) : String :=
  let l := w.reg.map (fun o => s!"{o.1.1}:{o.1.2}")
  "reg=" ++ ",".intercalate (l.toArray.qsort (· < ·)).toList

/-- `off0 at1 off1 at2 off2 ...` -/
def parseZone (ws : List String) : Option LinVerif.Interval.Zone :=
  let rec pairs : List Int → Option (List (Int × Int))
    | [] => some []
    | a :: o :: r => (pairs r).map ((a, o) :: ·)
    | [_] => none
  match ws.mapM String.toInt? with
  | some (off0 :: trs) => (pairs trs).map (LinVerif.Interval.Zone.ofTransitions off0)
  | _ => none

/-- split a word list at the `|` separators -/
def splitBars (ws : List String) : List (List String) :=
  ws.foldr (fun w acc =>
    match acc with
    | [] => if w = "|" then [[], []] else [[w]]
    | g :: gs => if w = "|" then [] :: g :: gs else (w :: g) :: gs) [[]]

def sortNat3 (l : List (Nat × Nat × Nat)) : List (Nat × Nat × Nat) :=
  (l.toArray.qsort (fun a b => a.1 < b.1 || (a.1 == b.1 && (a.2.1 < b.2.1 || (a.2.1 == b.2.1 && a.2.2 < b.2.2))))).toList

def dedupAdj {α : Type} [BEq α] : List α → List α
  | [] => []
  | [a] => [a]
  | a :: b :: t => if a == b then dedupAdj (b :: t) else a :: dedupAdj (b :: t)

def canon3 (l : List (Nat × Nat × Nat)) : List (Nat × Nat × Nat) := dedupAdj (sortNat3 l)

def commaList (l : List String) : String := ",".intercalate l

def showKeys (ks : List Key) : String :=
  commaList ((canon3 (ks.map (fun k => (k.1, k.2, 0)))).map (fun (h, f, _) => s!"{h}.{f}"))

def showPairs (ps : List (Key × Iv)) : String :=
  commaList ((canon3 (ps.map (fun p => (p.1.1, p.1.2, p.2)))).map (fun (h, f, i) => s!"{h}.{f}@{i}"))

def showRefs (rs : List (Iv × Key)) : String :=
  commaList ((canon3 (rs.map (fun r => (r.1, r.2.1, r.2.2)))).map (fun (i, h, f) => s!"{i}:{h}.{f}"))

def showState (σ : St) : String := s!"pending={showPairs σ.pending} refs={showRefs σ.refs}"

/-- the bookkeeping as the harness can read it: the references of a target store that is closed are on disk
only (not visible through the store manager) -/
def DS.showSt (d : DS) (σ : St) : String :=
  showState { σ with refs := σ.refs.filter (fun q => (d.world.lookup (d.nameOf q.2.1 q.1)).isSome) }

def showRec : Rec → String
  | .flush k ne ivs =>
    let is := (ivs.toArray.qsort (· < ·)).toList
    s!"F{k.1}.{k.2}:{if ne then 1 else 0}[{commaList (is.map toString)}]"
  | .merge i inputs => s!"T{i}[{showKeys inputs}]"
  | .delRollup ds => s!"S[{showPairs ds}]"
  | .delRef i ks => s!"D{i}[{showKeys ks}]"
  | .compact ks => s!"C[{showKeys ks}]"

def parseNatList (s : String) : Option (List Nat) :=
  if s = "-" || s = "" then some [] else (s.splitOn ",").mapM String.toNat?

def parseCell (w : String) : Option Cell :=
  match w.splitOn "." with
  | [a, b, c, d, e] => do
    let s ← a.toNat?; let f ← b.toNat?; let t ← c.toNat?; let sl ← d.toNat?; let v ← e.toInt?
    some { series := s, field := f, ftype := t, slot := sl, val := v }
  | _ => none

def parseBlock (w : String) : Option MBlock :=
  match w.splitOn "/" with
  | [m, s, e, cs] => do
    let m ← m.toNat?; let s ← s.toNat?; let e ← e.toNat?
    let cells ← if cs = "" then some [] else (cs.splitOn ",").mapM parseCell
    some { metric := m, start := s, stop := e, cells := cells }
  | _ => none

def kv? (w key : String) : Option String :=
  if w.startsWith (key ++ "=") then some (w.drop (key.length + 1)).toString else none

def showLoc (l : Loc) (r : R) : String :=
  s!"{l.srcFamStart} {l.tSegTime} {l.tFamily} {l.tFamStart} base={r.baseSlot} ratio={r.intervalRatio}"

/-- combined view of the committed target files of interval `i` -/
def viewOf (tf : List ((Iv × String) × FileData)) (i : Iv × String) : List ((Nat × Nat × Nat × Nat) × (Nat × Int × Nat)) :=
  let cells : List (Nat × Cell) := (tf.filter (·.1 = i)).flatMap (fun (_, fd) =>
    fd.flatMap (fun b => b.cells.map (fun c => (b.metric, c))))
  cells.foldl (fun acc (m, c) =>
    let k := (m, c.series, c.field, c.slot)
    match acc.find? (·.1 = k) with
    | none => acc ++ [(k, (c.ftype, c.val, 1))]
    | some (_, (ft, v, n)) =>
      let v' := if ft = 4 ∨ ft = 6 then v else agg ft v c.val
      acc.map (fun e => if e.1 = k then (k, (ft, v', n + 1)) else e)) []

def showView (v : List ((Nat × Nat × Nat × Nat) × (Nat × Int × Nat))) : String :=
  let lt := fun (a b : (Nat × Nat × Nat × Nat) × (Nat × Int × Nat)) =>
    let (a1, a2, a3, a4) := a.1; let (b1, b2, b3, b4) := b.1
    a1 < b1 || (a1 == b1 && (a2 < b2 || (a2 == b2 && (a3 < b3 || (a3 == b3 && a4 < b4)))))
  let s := (v.toArray.qsort lt).toList
  " ".intercalate (s.map (fun ((m, sr, f, sl), (ft, val, n)) =>
    let vs := if (ft = 4 ∨ ft = 6) ∧ n > 1 then "conflict" else toString val
    s!"{m}.{sr}.{f}.{sl}={vs}"))

def step (d : DS) (ws : List String) : DS × String :=
  if d.dead then (d, "dead") else
  match ws with
  | "cfg" :: src :: day :: _hs :: "|" :: tgts =>
    match src.toInt?, (day.splitOn ",").mapM String.toInt?, tgts.mapM String.toNat? with
    | some s, some (dy :: dys), some ts =>
      if (dy :: dys).all (fun x => decide (x ≥ 0) && stdCal.okAtB x) then
        ({ src := s, day := dy, days := dy :: dys, tgts := ts }, "ok")
      else ({}, "bad-calendar")
    | _, _, _ => (d, "bad-op")
  | "cfgz" :: src :: day :: _hs :: "|" :: rest =>
    match splitBars rest with
    | [tgts, zws] =>
      match src.toInt?, (day.splitOn ",").mapM String.toInt?, tgts.mapM String.toNat?, parseZone zws with
      | some s, some (dy :: dys), some ts, some z =>
        if (dy :: dys).all (fun x => decide (x ≥ 0)) then
          ({ src := s, day := dy, days := dy :: dys, tgts := ts, zone := some z }, "ok")
        else ({}, "bad-calendar")
      | _, _, _, _ => (d, "bad-op")
    | _ => (d, "bad-op")
  | ["loc", h, tgt] =>
    match h.toNat?, tgt.toInt? with
    | some h, some t =>
      (d, showLoc (d.locOf h t) (d.rOf h t))
    | _, _ => (d, "bad-op")
  | "flush" :: h :: file :: ne :: "|" :: toks =>
    match h.toNat?, file.toNat?, ne.toNat?, toks.mapM parseBlock with
    | some h, some f, some ne, some blocks =>
      if d.st.registered.all (fun p => decide (p.1 ≠ (h, f))) && d.files.all (fun p => decide (p.1 ≠ (h, f))) then
        let r := Rec.flush (h, f) (ne ≠ 0) d.tgts
        let σ := d.st.step (.flush h f (ne ≠ 0) d.tgts)
        ({ d with st := σ, files := d.files ++ [((h, f), blocks)] }, s!"rec={showRec r} {d.showSt σ}")
      else (d, "stale-file-number")
    | _, _, _, _ => (d, "bad-op")
  | ["rollup", h, ivs, dvs, avail, cut] =>
    match h.toNat?, (kv? ivs "ivs").bind parseNatList, (kv? dvs "dvs").bind parseNatList,
      (kv? avail "avail").bind parseNatList, kv? cut "cut" with
    | some h, some ivs, some dvs, some av, some cutS =>
      let cut? : Option (Option Nat) := if cutS = "-" then some none else cutS.toNat?.map some
      match cut? with
      | none => (d, "bad-op")
      | some cut =>
        let av := d.effAvail h ivs av
        let all := rollupRecs d.st h ivs (fun i => decide (i ∈ av)) dvs
        let recs := match cut with | none => all | some n => all.take n
        -- data: outputs of the committed merge records
        let outs : Option (List ((Iv × String) × FileData)) := recs.foldl (fun acc r =>
          match acc, r with
          | some l, .merge i inputs =>
            let fds := inputs.filterMap (fun k => (d.files.find? (·.1 = k)).map (·.2))
            match mergeFiles Generated.C04.placementByTimestamp (d.rOf h i) fds with
            | some o => some (l ++ [((i, d.locKey h i), o)])
            | none => none
          | acc, _ => acc) (some [])
        match outs with
        | none => ({ d with dead := true }, "panic-div0")
        | some o =>
          let σ := d.st.step (.rollup h ivs av dvs cut)
          let rs := if recs.isEmpty then "-" else ";".intercalate (recs.map showRec)
          ({ d with st := σ, tfiles := d.tfiles ++ o, wr := d.afterRun h ivs cut.isSome },
            s!"recs={rs} {d.showSt σ}")
    | _, _, _, _, _ => (d, "bad-op")
  | "rollupw" :: h :: ivs :: dvs :: avail :: atS :: fh :: file :: ne :: "|" :: toks =>
    -- a complete rollup run of family `h` with ONE flush (family `fh`, file `file`) committed between its
    -- records: the flush record sits at position `at` of the committed list. The job's own records are
    -- those of the run from the state at its start (Props/C04Weave: `rollup_job_ignores_flush`).
    match h.toNat?, (kv? ivs "ivs").bind parseNatList, (kv? dvs "dvs").bind parseNatList,
      (kv? avail "avail").bind parseNatList, (kv? atS "at").bind String.toNat?, fh.toNat?, file.toNat?, ne.toNat?,
      toks.mapM parseBlock with
    | some h, some ivs, some dvs, some av, some n, some fh, some f, some ne, some blocks =>
      let av := d.effAvail h ivs av
      let all := rollupRecs d.st h ivs (fun i => decide (i ∈ av)) dvs
      if n > all.length then (d, "bad-op")
      else if !(d.st.registered.all (fun p => decide (p.1 ≠ (fh, f))) && d.files.all (fun p => decide (p.1 ≠ (fh, f)))) then
        (d, "stale-file-number")
      else
        let fl := Rec.flush (fh, f) (ne ≠ 0) d.tgts
        let out := all.take n ++ [fl] ++ all.drop n
        let outs : Option (List ((Iv × String) × FileData)) := all.foldl (fun acc r =>
          match acc, r with
          | some l, .merge i inputs =>
            let fds := inputs.filterMap (fun k => (d.files.find? (·.1 = k)).map (·.2))
            match mergeFiles Generated.C04.placementByTimestamp (d.rOf h i) fds with
            | some o => some (l ++ [((i, d.locKey h i), o)])
            | none => none
          | acc, _ => acc) (some [])
        match outs with
        | none => ({ d with dead := true }, "panic-div0")
        | some o =>
          let σ := d.st.applyAll out
          ({ d with st := σ, files := d.files ++ [((fh, f), blocks)], tfiles := d.tfiles ++ o,
                    wr := d.afterRun h ivs false },
            s!"recs={";".intercalate (out.map showRec)} {d.showSt σ}")
    | _, _, _, _, _, _, _, _, _ => (d, "bad-op")
  | ["rollupq", h, ivs, dvs, avail] =>
    -- the job of family `h` inside ONE Store.ForceRollup (jobs of different families interleave;
    -- they touch disjoint keys, so the model runs them one after the other); state via `state`
    match h.toNat?, (kv? ivs "ivs").bind parseNatList, (kv? dvs "dvs").bind parseNatList,
      (kv? avail "avail").bind parseNatList with
    | some h, some ivs, some dvs, some av =>
      let av := d.effAvail h ivs av
      let recs := rollupRecs d.st h ivs (fun i => decide (i ∈ av)) dvs
      let outs : Option (List ((Iv × String) × FileData)) := recs.foldl (fun acc r =>
        match acc, r with
        | some l, .merge i inputs =>
          let fds := inputs.filterMap (fun k => (d.files.find? (·.1 = k)).map (·.2))
          match mergeFiles Generated.C04.placementByTimestamp (d.rOf h i) fds with
          | some o => some (l ++ [((i, d.locKey h i), o)])
          | none => none
        | acc, _ => acc) (some [])
      match outs with
      | none => ({ d with dead := true }, "panic-div0")
      | some o =>
        let σ := d.st.step (.rollup h ivs av dvs none)
        let rs := if recs.isEmpty then "-" else ";".intercalate (recs.map showRec)
        ({ d with st := σ, tfiles := d.tfiles ++ o, wr := d.afterRun h ivs false }, s!"recs={rs}")
    | _, _, _, _ => (d, "bad-op")
  | ["rollupf", h, ivs, dvs, avail, fail] =>
    -- a complete rollup run in which the manifest commit of record number `fail` FAILS (I/O error): the
    -- code goes on (the result of that commitEditLog is not looked at), so the run's other records are
    -- committed as if nothing had happened (`St.applyDropping`)
    match h.toNat?, (kv? ivs "ivs").bind parseNatList, (kv? dvs "dvs").bind parseNatList,
      (kv? avail "avail").bind parseNatList, (kv? fail "fail").bind String.toNat? with
    | some h, some ivs, some dvs, some av, some k =>
      let av := d.effAvail h ivs av
      let all := rollupRecs d.st h ivs (fun i => decide (i ∈ av)) dvs
      let recs := rollupRecsFailing (Generated.C04.installCommitResult == "checked")
        (Generated.C04.rollupSourceCommitResult == "checked") d.st h ivs (fun i => decide (i ∈ av)) dvs k
      let outs : Option (List ((Iv × String) × FileData)) := recs.foldl (fun acc r =>
        match acc, r with
        | some l, .merge i inputs =>
          let fds := inputs.filterMap (fun k => (d.files.find? (·.1 = k)).map (·.2))
          match mergeFiles Generated.C04.placementByTimestamp (d.rOf h i) fds with
          | some o => some (l ++ [((i, d.locKey h i), o)])
          | none => none
        | acc, _ => acc) (some [])
      match outs with
      | none => ({ d with dead := true }, "panic-div0")
      | some o =>
        let σ := d.st.applyAll recs
        let rs := if recs.isEmpty then "-" else ";".intercalate (recs.map showRec)
        let failed := match all[k]? with | some r => showRec r | none => "-"
        ({ d with st := σ, tfiles := d.tfiles ++ o, wr := d.afterRun h ivs false },
          s!"recs={rs} failed={failed} {d.showSt σ}")
    | _, _, _, _, _ => (d, "bad-op")
  | ["state"] => (d, d.showSt d.st)
  | ["compact", ks] =>
    -- (outside C04's operations) a compaction of the source family: the files leave level 0
    match (ks.splitOn ",").mapM (fun w => match w.splitOn "." with
        | [a, b] => do let x ← a.toNat?; let y ← b.toNat?; some (x, y)
        | _ => none) with
    | some keys => let σ := d.st.apply (.compact keys); ({ d with st := σ }, d.showSt σ)
    | none => (d, "bad-op")
  | ["reopen"] =>
    -- close + open: the manifest snapshot (`createFamilySnapshot`, shape regenerated) replayed into
    -- fresh versions
    let σ := d.st.restart Generated.C04.snapshotRefFamilyIsLoopVar (fun _ => 0) id
    ({ d with st := σ, wr := d.world.renew }, d.showSt σ)
  | ["topen", tgt, seg] =>
    -- CreateStore of one target store (`World.step`, `.topen`): a new object unless one is registered
    match tgt.toNat?, seg.toInt? with
    | some t, some sg =>
      let w := d.world.step cachedShape d.nameOf (fun _ => 0) (.topen (t, sg) id)
      let d' := { d with st := w.st, wr := w }
      (d', s!"{showReg w} {d'.showSt w.st}")
    | _, _ => (d, "bad-op")
  | ["tclose", tgt, seg] =>
    match tgt.toNat?, seg.toInt? with
    | some t, some sg =>
      let w := d.world.step cachedShape d.nameOf (fun _ => 0) (.tclose (t, sg))
      let d' := { d with st := w.st, wr := w }
      (d', s!"{showReg w} {d'.showSt w.st}")
    | _, _ => (d, "bad-op")
  | ["read", tgt] =>
    match tgt.toNat? with
    | some t =>
      let keys := ((d.tfiles.filter (·.1.1 = t)).map (·.1.2)).eraseDups
      let groups := (keys.toArray.qsort (· < ·)).toList.filterMap (fun k =>
        let v := viewOf d.tfiles (t, k)
        if v.isEmpty then none else some s!"{k} {showView v}")
      if groups.isEmpty then (d, "empty") else (d, " | ".intercalate groups)
    | none => (d, "bad-op")
  | "arith" :: src :: tgt :: seg :: ft :: "|" :: slots =>
    match src.toInt?, tgt.toInt?, seg.toInt?, ft.toInt?, slots.mapM String.toNat? with
    | some s, some t, some sg, some f, some sl =>
      if seg.toInt?.any (· < 0) ∨ ¬ stdCal.okAtB (dayNo (calcFamilyStartTime stdCal (itype s) sg f)) then (d, "bad-calendar") else
      let l := locate stdCal s t sg f
      let r := mkR stdCal s t sg f
      if r.intervalRatio = 0 then (d, "panic-div0") else
      let outs := sl.map (fun (x : Nat) =>
        let ts := r.getTimestamp (x : Int)
        let pos := targetPos r.intervalRatio r.baseSlot 0 x
        let p := if 0 ≤ pos ∧ pos < 4000 then toString pos else "x"
        s!"{ts}:{r.calcSlot ts}:{p}")
      (d, showLoc l r ++ " | " ++ " ".intercalate outs)
    | _, _, _, _, _ => (d, "bad-op")
  | "arithz" :: src :: tgt :: seg :: ft :: "|" :: rest =>
    match splitBars rest with
    | [slots, zws] =>
      match src.toInt?, tgt.toInt?, seg.toInt?, ft.toInt?, slots.mapM String.toNat?, parseZone zws with
      | some s, some t, some sg, some f, some sl, some z =>
        if sg < 0 then (d, "bad-calendar") else
        let l := locateZ byCal z s t sg f
        let r := mkRZ byCal z s t sg f
        if r.intervalRatio = 0 then (d, "panic-div0") else
        let outs := sl.map (fun (x : Nat) =>
          let ts := r.getTimestamp (x : Int)
          let pos := targetPos r.intervalRatio r.baseSlot 0 x
          let p := if 0 ≤ pos ∧ pos < 4000 then toString pos else "x"
          s!"{ts}:{r.calcSlot ts}:{p}")
        (d, showLoc l r ++ " | " ++ " ".intercalate outs)
      | _, _, _, _, _, _ => (d, "bad-op")
    | _ => (d, "bad-op")
  | _ => (d, "bad-op")

def main (_args : List String) : IO Unit := Proto.runLoop ({} : DS) step

end LinVerif.Driver.C04
