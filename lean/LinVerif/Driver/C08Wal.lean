/-
Line-protocol driver for the C08 side model `WalOpen` (concurrent first opens of one write-ahead-log partition by
several write streams: `writeAheadLog.GetOrCreatePartition`), area `wal`.

  reset | call <a|b|c> | go <a|b|c> | write <a|b|c> | drain

Every line answers `a=<pc> b=<pc> c=<pc> opens=<n> parts=<n> app=<n> fol=<n>`. `WalOpen.step true`: the WAL mutex is
held from the lookup to the store (`Props.C08.Tie.wal_lock_across_open`).
-/
import LinVerif.Util.Proto
import LinVerif.Model.Replication

namespace LinVerif.Driver.C08Wal
open LinVerif LinVerif.Replication

def showPc : Option WalOpen.Pc → String
  | some .idle => "idle"
  | some .held => "held"
  | some .blocked => "blocked"
  | some .done => "done"
  | none => "?"

def showW (w : WalOpen.W) : String :=
  "a=" ++ showPc w.pcs[0]? ++ " b=" ++ showPc w.pcs[1]? ++ " c=" ++ showPc w.pcs[2]? ++
  " opens=" ++ toString w.opens ++ " parts=" ++ toString w.parts ++ " app=" ++ toString w.app ++ " fol=" ++ toString w.fol

def who : String → Option Nat
  | "a" => some 0
  | "b" => some 1
  | "c" => some 2
  | _ => none

def parse : List String → Option WalOpen.Step
  | ["call", x] => (who x).map .call
  | ["go", x] => (who x).map .go
  | ["write", x] => (who x).map .write
  | ["drain"] => some .drain
  | _ => none

def step (w : WalOpen.W) (ws : List String) : WalOpen.W × String :=
  match ws with
  | ["reset"] => (WalOpen.W.init 3, showW (WalOpen.W.init 3))
  | _ =>
    match parse ws with
    | none => (w, "bad-op")
    | some s => let w' := WalOpen.step true w s; (w', showW w')

def main (_args : List String) : IO Unit := Proto.runLoop (WalOpen.W.init 3) step

end LinVerif.Driver.C08Wal
