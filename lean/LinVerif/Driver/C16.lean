/-
Line-protocol driver for the C16 models (row canonicalisation + batch routing).

Strings are hex of their UTF-8 bytes (`-` = empty string). Lists use `,` / `;`, `-` = empty list.

  cfg <maxName> <maxField> <maxTagKey> <maxTagVal> <maxTags> <maxFields> <reqNs> <enriched k:v,…>
      (the six limits may be the single word `default`: the regenerated defaults of models.Limits)
  newbatch <stale marks, e.g. 0110 | ->          start a batch (taken from the pool with these marks)
  conv <metric>                                  convert one metric, do not append
  add <metric>                                   convert and TryAppend
  route <n> <day|month|year>                     shard / family groups of the current batch
  routep <n> <day|month|year> <present s,s,…|->  the same through databaseChannel.Write with only these shard channels
  evict <behind> <ahead> <stale|-> | off1 off2 … fresh batch of rows with ts = now+off, evict, write
  ifields <maxFields> <maxFieldName> | key:value:pint:pfloat …   field section of an influx line
  pnew <fresh|pooled>                            NewBrokerRowProtoConverter for the last cfg: brand-new converter, or the pooled one
  pconv <metric>                                 ConvertTo through that converter (its state is carried along)
  fnew <fresh|pooled>                            a flat decoder: brand-new, or the one the last request released
  famscan <ts:fam:start:end>…                    the family iterator over one shard group, calculator given as a table
  its <precision> <literal>                      parseTimestamp: the literal in milliseconds
  inew                                           influx.Parse takes a RowBuilder (the pooled one: what the last request left)
  iline <ok|badts|strfields|badtags|comment> <metric>   one line of the request through the shared RowBuilder
  fdec <metric>                                  BrokerRowFlatDecoder.DecodeTo of the raw flat row (no nil entries)

  <metric> = nil | n=<s> ns=<s> ts=<int> tags=<k:v|nil,…> f=<name:type:val|nil,…> cf=<-|min:max:sum:count:v;v;…:b;b;…>
  val = <int> | nan | +inf | -inf
-/
import LinVerif.Util.Proto
import LinVerif.Model.Route
import LinVerif.Model.Hash64
import LinVerif.Model.InfluxField
import LinVerif.Model.FlatRow
import LinVerif.Model.InfluxStream
import LinVerif.Model.C16Ident
import LinVerif.Model.C16ProtoConv
import LinVerif.Generated.C16

namespace LinVerif.Driver.C16
open LinVerif LinVerif.Row LinVerif.Route

/-! ### decoding -/

def hexVal (c : Char) : Option Nat :=
  if '0' ≤ c ∧ c ≤ '9' then some (c.toNat - '0'.toNat)
  else if 'a' ≤ c ∧ c ≤ 'f' then some (c.toNat - 'a'.toNat + 10)
  else none

def hexBytes : List Char → Option (List UInt8)
  | [] => some []
  | [_] => none
  | a :: b :: rest => do
    let x ← hexVal a
    let y ← hexVal b
    let r ← hexBytes rest
    some (UInt8.ofNat (x * 16 + y) :: r)

def str? (w : String) : Option String :=
  if w = "-" then some "" else do
    let bs ← hexBytes w.toList
    String.fromUTF8? (ByteArray.mk bs.toArray)

def hexDigit (n : Nat) : Char := if n < 10 then Char.ofNat (n + 48) else Char.ofNat (n - 10 + 97)

def showStr (s : String) : String :=
  if s = "" then "-" else
    String.ofList (s.toUTF8.toList.flatMap (fun b => [hexDigit (b.toNat / 16), hexDigit (b.toNat % 16)]))

def list? {α : Type} (sep : String) (item : String → Option α) (w : String) : Option (List α) :=
  if w = "-" then some [] else (w.splitOn sep).mapM item

def tag? (w : String) : Option (Option Tag) :=
  if w = "nil" then some none else
    match w.splitOn ":" with
    | [k, v] => do
      let k ← str? k
      let v ← str? v
      some (some ⟨k, v⟩)
    | _ => none

def plainTag? (w : String) : Option Tag := do
  let t ← tag? w
  t

def f? (w : String) : Option F :=
  if w = "nan" then some .nan
  else if w = "+inf" then some .pinf
  else if w = "-inf" then some .ninf
  else (w.toInt?).map .num

def showF : F → String
  | .num i => toString i
  | .nan => "nan"
  | .pinf => "+inf"
  | .ninf => "-inf"

def field? (w : String) : Option (Option SField) :=
  if w = "nil" then some none else
    match w.splitOn ":" with
    | [n, t, v] => do
      let n ← str? n
      let t ← t.toNat?
      let v ← f? v
      some (some ⟨n, t, v⟩)
    | _ => none

def flist? (w : String) : Option (List F) :=
  if w = "_" then some [] else (w.splitOn ";").mapM f?

def compound? (w : String) : Option (Option Compound) :=
  if w = "-" then some none else
    match w.splitOn ":" with
    | [mn, mx, sm, ct, vs, bs] => do
      let mn ← f? mn
      let mx ← f? mx
      let sm ← f? sm
      let ct ← f? ct
      let vs ← flist? vs
      let bs ← flist? bs
      some (some ⟨mn, mx, sm, ct, vs, bs⟩)
    | _ => none

def kv? (pre : String) (w : String) : Option String :=
  if w.startsWith pre then some (w.drop pre.length).toString else none

def metric? (ws : List String) : Option (Option PMetric) :=
  match ws with
  | ["nil"] => some none
  | [n, ns, ts, tags, fs, cf] => do
    let n ← (kv? "n=" n) >>= str?
    let ns ← (kv? "ns=" ns) >>= str?
    let ts ← (kv? "ts=" ts) >>= String.toInt?
    let tags ← (kv? "tags=" tags) >>= list? "," tag?
    let fs ← (kv? "f=" fs) >>= list? "," field?
    let cf ← (kv? "cf=" cf) >>= compound?
    some (some ⟨n, ns, ts, tags, fs, cf⟩)
  | _ => none

/-! ### printing -/

def showErr : Err → String
  | .nilMetric => "nil-metric"
  | .emptyName => "empty-name"
  | .nameTooLong => "name-too-long"
  | .emptyField => "empty-field"
  | .tooManyTags => "too-many-tags"
  | .emptyTagKV => "empty-tag"
  | .tagKeyTooLong => "tag-key-too-long"
  | .tagValueTooLong => "tag-value-too-long"
  | .tooManyFields => "too-many-fields"
  | .badFormat => "bad-format"
  | .emptyFieldName => "empty-field-name"
  | .fieldNameTooLong => "field-name-too-long"
  | .nanField => "nan-field"
  | .infField => "inf-field"

def showList (sep : String) (xs : List String) : String :=
  if xs.isEmpty then "-" else sep.intercalate xs

def showFList (xs : List F) : String := if xs.isEmpty then "_" else ";".intercalate (xs.map showF)

def showCompound : Option Compound → String
  | none => "-"
  | some c => s!"{showF c.min}:{showF c.max}:{showF c.sum}:{showF c.count}:{showFList c.values}:{showFList c.bounds}"

def showStored (s : Stored) : String :=
  let ts := if s.ts = 0 then "now" else toString s.ts
  let tags := showList "," (s.tags.map (fun t => s!"{showStr t.key}:{showStr t.value}"))
  let fs := showList "," (s.fields.map (fun f => s!"{showStr f.name}:{f.ftype}:{showF f.value}"))
  s!"ok n={showStr s.name} ns={showStr s.ns} ts={ts} tags={tags} f={fs} cf={showCompound s.compound} hash={s.hash} nhash={s.nameHash}"

/-! ### the instances of the parameters the driver runs -/

/-- the variant of KeyValues.Less the code has now -/
def tb : Bool := Generated.C16.lessTieBreakOnValue

/-- Go's sort.Sort on ≤ 12 elements is insertion sort; above that the harness only sends tag lists
whose sorted order does not depend on the algorithm (see design note). -/
def sortTags : List Tag → List Tag := insertionSort (less tb)

/-- where the converter sanitises the metric name / the namespace now (regenerated from the source) -/
def nameFlow : C16Ident.NameFlow := .ofTriple Generated.C16.protoNameFlow
def nsFlow : C16Ident.NameFlow := .ofTriple Generated.C16.protoNsFlow

def H : String → Nat := Hash64.xxh64Str

/-- days since 1970-01-01 → (year, month) and back (proleptic Gregorian, Hinnant's algorithms);
executable instance for the `year` calculator only — its `CalcSpec` is C13's subject. -/
def civilFromDays (z0 : Int) : Int × Int :=
  let z := z0 + 719468
  let era := (if z ≥ 0 then z else z - 146096) / 146097
  let doe := z - era * 146097
  let yoe := (doe - doe / 1460 + doe / 36524 - doe / 146096) / 365
  let y := yoe + era * 400
  let doy := doe - (365 * yoe + yoe / 4 - yoe / 100)
  let mp := (5 * doy + 2) / 153
  let m := if mp < 10 then mp + 3 else mp - 9
  (if m ≤ 2 then y + 1 else y, m)

def daysFromCivil (y0 m : Int) : Int :=
  let y := if m ≤ 2 then y0 - 1 else y0
  let era := (if y ≥ 0 then y else y - 399) / 400
  let yoe := y - era * 400
  let mp := if m > 2 then m - 3 else m + 9
  let doy := (153 * mp + 2) / 5
  let doe := yoe * 365 + yoe / 4 - yoe / 100 + doy
  era * 146097 + doe - 719468

/-- year calculator under TZ=UTC: segment = 1 January, family = month -/
def yearCalc : Calc where
  famTime t :=
    let (y, m) := civilFromDays (t / oneDay)
    daysFromCivil y m * oneDay
  range t :=
    let (y, m) := civilFromDays (t / oneDay)
    let start := daysFromCivil y m * oneDay
    let (y', m') := if m = 12 then (y + 1, 1) else (y, m + 1)
    (start, daysFromCivil y' m' * oneDay - 1)

def calc? : String → Option Calc
  | "day" => some dayCalc
  | "month" => some monthCalc
  | "year" => some yearCalc
  | _ => none

/-! ### state and step -/

structure St where
  cfg : Cfg
  stale : List Bool
  batch : List Stored   -- rows appended so far (slot i = position i)
  dec : FlatRow.Dec     -- the flat decoder (with its RowBuilder) as the last row left it
  pc : C16ProtoConv.PC  -- the pooled protobuf converter as the last request left it
  irb : FlatRow.RB      -- the RowBuilder of influx.Parse as the last line / request left it

def showFErr : FlatRow.FErr → String
  | .tooManyTags => "too-many-tags"
  | .tagKeyTooLong => "tag-key-too-long"
  | .tagValueTooLong => "tag-value-too-long"
  | .emptyTag => "empty-tag"
  | .tooManyFields => "too-many-fields"
  | .fieldNameTooLong => "field-name-too-long"
  | .fieldTypeUnspecified => "field-type-unspecified"
  | .fieldInf => "field-inf"
  | .fieldNaN => "field-nan"
  | .emptyFieldName => "empty-field-name"
  | .bucketsLenMismatch => "buckets-len-mismatch"
  | .tooFewBuckets => "too-few-buckets"
  | .boundsNotIncreasing => "bounds-not-increasing"
  | .lastBoundNotInf => "last-bound-not-inf"
  | .firstBoundNegative => "first-bound-negative"
  | .bucketInf => "bucket-inf"
  | .bucketNegative => "bucket-negative"
  | .bucketNaN => "bucket-nan"
  | .mmscNegative => "mmsc-negative"
  | .nameTooLong => "name-too-long"
  | .nsTooLong => "ns-too-long"
  | .emptyName => "empty-name"
  | .noField => "no-field"

/-- a flat row has no nil entries -/
def frow? (m : PMetric) : Option FlatRow.FRow := do
  let tags ← m.tags.mapM id
  let fs ← m.fields.mapM id
  some ⟨m.name, m.ns, m.ts, tags, fs, m.compound⟩

/-- rowKVs.Less of the RowBuilder compares keys only; ≤ 12 elements: insertion sort -/
def sortFlatTags : List Tag → List Tag := insertionSort (less false)

def lim0 : Limits :=
  ⟨Generated.C16.defaultMaxMetricNameLength, Generated.C16.defaultMaxFieldNameLength,
   Generated.C16.defaultMaxTagNameLength, Generated.C16.defaultMaxTagValueLength,
   Generated.C16.defaultMaxTagsPerMetric, Generated.C16.defaultMaxFieldsPerMetric⟩

def St.init : St := ⟨⟨lim0, "", [], 0⟩, [], [], FlatRow.Dec.fresh, C16ProtoConv.PC.fresh lim0, FlatRow.RB.fresh⟩

def marks? (w : String) : Option (List Bool) :=
  if w = "-" then some [] else
    w.toList.mapM (fun c => if c = '1' then some true else if c = '0' then some false else none)

def showIds (rs : List BRow) : String :=
  showList "," (((rs.map (·.id)).toArray.qsort (· < ·)).toList.map toString)

def showGroups (gs : List Group) : String :=
  showList " " (gs.map (fun g => s!"{g.shard}:{g.famTime}:{showIds g.rows}:{showIds (written g)}"))

def simpleRow (ts : Int) : Stored := ⟨"r", "ns", ts, [], [], none, 0, 0⟩

def limits? (ws : List String) : Option (Limits × List String) :=
  match ws with
  | "default" :: rest => some (lim0, rest)
  | a :: b :: c :: d :: e :: f :: rest => do
    let a ← a.toNat?
    let b ← b.toNat?
    let c ← c.toNat?
    let d ← d.toNat?
    let e ← e.toNat?
    let f ← f.toNat?
    some (⟨a, b, c, d, e, f⟩, rest)
  | _ => none

def step (st : St) (ws : List String) : St × String :=
  match ws with
  | "cfg" :: rest =>
    match limits? rest with
    | some (l, [ns, enr]) =>
      match str? ns, list? "," plainTag? enr with
      | some ns, some enr => ({ st with cfg := ⟨l, ns, enr, 0⟩ }, "ok")
      | _, _ => (st, "bad-op")
    | _ => (st, "bad-op")
  | ["newbatch", m] =>
    match marks? m with
    | some ms => ({ st with stale := ms, batch := [] }, "ok")
    | none => (st, "bad-op")
  | "conv" :: rest =>
    match metric? rest with
    | some m =>
      match C16Ident.convertF nameFlow nsFlow tb sortTags H st.cfg m with
      | .ok s => (st, showStored s)
      | .error e => (st, "err " ++ showErr e)
    | none => (st, "bad-op")
  | "add" :: rest =>
    match metric? rest with
    | some m =>
      match C16Ident.convertF nameFlow nsFlow tb sortTags H st.cfg m with
      | .ok s => ({ st with batch := st.batch ++ [s] }, showStored s)
      | .error e => (st, "err " ++ showErr e)
    | none => (st, "bad-op")
  | ["route", n, k] =>
    match n.toNat?, calc? k with
    | some n, some C =>
      if n = 0 then (st, "bad-op") else
      let rows := appendAll Generated.C16.appendClearsMark st.stale st.batch
      let gs := route Hash64.jumpHash C (insertionSort lessShard) (insertionSort lessTs) n rows
      if gs.all (fun g => decide (g.shard < n)) then (st, "groups " ++ showGroups gs) else (st, "bad-jump")
    | _, _ => (st, "bad-op")
  | ["routep", n, k, pr] =>
    match n.toNat?, calc? k, (if pr = "-" then some [] else (pr.splitOn ",").mapM String.toNat?) with
    | some n, some C, some present =>
      if n = 0 then (st, "bad-op") else
      let rows := appendAll Generated.C16.appendClearsMark st.stale st.batch
      let gs := route Hash64.jumpHash C (insertionSort lessShard) (insertionSort lessTs) n rows
      if gs.all (fun g => decide (g.shard < n)) then
        let d := deliver (fun s => present.contains s) gs
        (st, s!"groups {showGroups d.1} err={if d.2 then 1 else 0}")
      else (st, "bad-jump")
    | _, _, _ => (st, "bad-op")
  | "ifields" :: mf :: mn :: "|" :: toks =>
    -- ifields <maxFields> <maxFieldName> | key:value:parseInt:parseFloat …   (strconv results supplied by the harness)
    let tok? (w : String) : Option (String × String × Option Int × Option F) :=
      match w.splitOn ":" with
      | [k, v, pi, pf] => do
        let k ← str? k
        let v ← str? v
        let pi ← if pi = "-" then some none else pi.toInt?.map some
        let pf ← if pf = "-" then some none else (f? pf).map some
        some (k, v, pi, pf)
      | _ => none
    match mf.toNat?, mn.toNat?, toks.mapM tok? with
    | some mf, some mn, some ts =>
      let E : InfluxField.Strconv :=
        { parseInt := fun s => (ts.find? (fun t => InfluxField.dropLast t.2.1 == s && t.2.2.1.isSome)).bind (fun t => t.2.2.1)
          parseFloat := fun s => (ts.find? (fun t => t.2.1 == s)).bind (fun t => t.2.2.2) }
      match InfluxField.lineFields E mf mn (ts.map (fun t => (t.1, t.2.1))) with
      | .rejected => (st, "rejected")
      | .stored fs => (st, "stored " ++ showList "," (fs.map (fun f => s!"{showStr f.name}:{f.ftype}:{showF f.value}")))
    | _, _, _ => (st, "bad-op")
  | ["pnew", k] =>
    -- NewBrokerRowProtoConverter for the request described by the last `cfg`: a brand-new converter or the
    -- one the previous request released
    if k = "fresh" then
      ({ st with pc := (C16ProtoConv.PC.fresh st.cfg.limits).newFor st.cfg.reqNs st.cfg.enriched st.cfg.limits }, "ok")
    else if k = "pooled" then
      ({ st with pc := st.pc.newFor st.cfg.reqNs st.cfg.enriched st.cfg.limits }, "ok")
    else (st, "bad-op")
  | "pconv" :: rest =>
    match metric? rest with
    | some m =>
      match st.pc.marshal nameFlow nsFlow tb sortTags H st.cfg.now m with
      | (pc', .ok s) => ({ st with pc := pc' }, showStored s)
      | (pc', .error e) => ({ st with pc := pc' }, "err " ++ showErr e)
    | none => (st, "bad-op")
  | ["fnew", k] =>
    if k = "fresh" then ({ st with dec := FlatRow.Dec.fresh }, "ok")
    else if k = "pooled" then (st, "ok")
    else (st, "bad-op")
  | "fdec" :: rest =>
    match metric? rest with
    | some (some m) =>
      match frow? m with
      | some r =>
        let fc : FlatRow.FCfg := ⟨st.cfg, Generated.C16.defaultMaxNamespaceLength⟩
        match FlatRow.decodeTo fc sortFlatTags H st.dec r with
        | (d', .ok s) => ({ st with dec := d' }, showStored s)
        | (d', .error e) => ({ st with dec := d' }, "ferr " ++ showFErr e)
      | none => (st, "bad-op")
    | _ => (st, "bad-op")
  | "famscan" :: rows =>
    -- famscan <ts:famTime:rangeStart:rangeEnd>…  one shard group in batch order (row id = position); the
    -- calculator is the table the harness read off the real one
    let row? (w : String) : Option (Int × Int × Int × Int) :=
      match w.splitOn ":" with
      | [a, b, c, d] => do
        let a ← a.toInt?
        let b ← b.toInt?
        let c ← c.toInt?
        let d ← d.toInt?
        some (a, b, c, d)
      | _ => none
    match rows.mapM row? with
    | some tbl =>
      if tbl.isEmpty then (st, "bad-op") else
      let look (t : Int) : Option (Int × Int × Int × Int) := tbl.find? (fun r => r.1 == t)
      let C : Calc :=
        { famTime := fun t => match look t with | some r => r.2.1 | none => 0
          range := fun t => match look t with | some r => (r.2.2.1, r.2.2.2) | none => (1, 0) }
      let brs : List BRow := (List.range tbl.length).zip tbl |>.map (fun (i, r) => ⟨i, simpleRow r.1, 0, false⟩)
      let gs := familyGroupsCode C (insertionSort lessTs) brs
      (st, "groups " ++ showList " " (gs.map (fun g => s!"{g.1}:{showIds g.2}")))
    | none => (st, "bad-op")
  | ["its", p, lit] =>
    -- the timestamp literal of a line under the request's (lower-cased) precision
    match lit.toInt? with
    | some f =>
      match InfluxStream.toMillis (InfluxStream.multiplierOf Generated.C16.influxPrecisionTable p) f with
      | some ms => (st, toString ms)
      | none => (st, "guessed")
    | none => (st, "bad-op")
  | ["inew"] => (st, "ok")
  | "iline" :: kind :: rest =>
    -- one line of a line-protocol request through the shared RowBuilder; `kind` = what the scanning layer
    -- makes of the line, the metric = what it parses to. Where Reset stands is read from the source.
    match metric? rest with
    | some (some m) =>
      match frow? m, (["ok", "badts", "strfields", "badtags", "comment"].contains kind) with
      | some r, true =>
        let ln : InfluxStream.ILine :=
          { comment := kind == "comment", nameErr := false, name := r.name,
            tagsErr := kind == "badtags", tags := r.tags,
            fieldsErr := kind == "strfields", fields := r.fields,
            tsErr := kind == "badts", ts := if r.ts = 0 then none else some r.ts }
        match InfluxStream.lineStep Generated.C16.influxResetAtLoopTop st.cfg sortFlatTags H st.irb ln with
        | (b, .stored s) => ({ st with irb := b }, showStored s)
        | (b, .fatal) => ({ st with irb := b }, "fatal")
        | (b, _) => ({ st with irb := b }, "rej")
      | _, _ => (st, "bad-op")
    | _ => (st, "bad-op")
  | "evict" :: b :: a :: m :: "|" :: offs =>
    match b.toInt?, a.toInt?, marks? m, Proto.intList? offs with
    | some behind, some ahead, some ms, some offs =>
      let rows := appendAll Generated.C16.appendClearsMark ms (offs.map simpleRow)
      let ev := evict behind ahead 0 rows
      let marks := String.ofList (ev.map (fun r => if r.oor then '1' else '0'))
      (st, s!"evicted={evictedCount behind ahead 0 rows} marks={if marks = "" then "-" else marks} written={showIds (ev.filter (fun r => !r.oor))}")
    | _, _, _, _ => (st, "bad-op")
  | _ => (st, "bad-op")

def main (_args : List String) : IO Unit := Proto.runLoop St.init step

end LinVerif.Driver.C16
