/-
Line-protocol driver for the C08 side model `Tick` (the expiry check's emptiness test / stopReplicator against the
replica loop's Consume / acknowledgement / lost request and appenders, one follower), area `tick`.

  reset | append | consume | ack | lose | test | stop

Every line answers `app=<n> cons=<n> gack=<n> infl=<n|-> verdict=<b> stopped=<b>` (the ghosts `late`, `hs` are not
observable). `Tick.step true`: the emptiness test is `consumerGroup.IsEmpty` (`Props.C08.Tie.tick_empty_by_ack`).
-/
import LinVerif.Util.Proto
import LinVerif.Model.Replication

namespace LinVerif.Driver.C08Tick
open LinVerif LinVerif.Replication

def b01 (b : Bool) : String := if b then "1" else "0"

def showT (t : Tick.T) : String :=
  "app=" ++ toString t.app ++ " cons=" ++ toString t.cons ++ " gack=" ++ toString t.gack ++
  " infl=" ++ (match t.infl with | some i => toString i | none => "-") ++
  " verdict=" ++ b01 t.verdict ++ " stopped=" ++ b01 t.stopped

def parse : List String → Option Tick.Step
  | ["append"] => some .append
  | ["consume"] => some .consume
  | ["ack"] => some .ack
  | ["lose"] => some .lose
  | ["test"] => some .test
  | ["stop"] => some .stop
  | _ => none

def step (t : Tick.T) (ws : List String) : Tick.T × String :=
  match ws with
  | ["reset"] => (Tick.T.init, showT Tick.T.init)
  | _ =>
    match parse ws with
    | none => (t, "bad-op")
    | some s => let t' := Tick.step true t s; (t', showT t')

def main (_args : List String) : IO Unit := Proto.runLoop Tick.T.init step

end LinVerif.Driver.C08Tick
