/-
Line-protocol helpers shared by all model drivers (core Lean only).

A driver is `step : σ → List String → σ × String`; `runLoop` reads one operation per
line from stdin, echoes comment lines (starting with `#`) verbatim and prints exactly
one output line per operation line. Unknown operations must answer `bad-op`.
-/
namespace LinVerif.Proto

def words (line : String) : List String :=
  (line.splitOn " ").filter (· ≠ "")

def trimNl (s : String) : String :=
  let s := if s.endsWith "\n" then (s.dropEnd 1).toString else s
  if s.endsWith "\r" then (s.dropEnd 1).toString else s

partial def runLoop {σ : Type} (init : σ) (step : σ → List String → σ × String) : IO Unit := do
  let stdin ← IO.getStdin
  let stdout ← IO.getStdout
  let rec loop (s : σ) : IO Unit := do
    let line ← stdin.getLine
    if line.isEmpty then
      stdout.flush
      return ()
    let l := trimNl line
    if l.startsWith "#" then
      stdout.putStrLn l
      loop s
    else
      let (s', out) := step s (words l)
      stdout.putStrLn out
      loop s'
  loop init

def natList? (ws : List String) : Option (List Nat) := ws.mapM String.toNat?
def intList? (ws : List String) : Option (List Int) := ws.mapM String.toInt?

def joinNat (xs : List Nat) : String := " ".intercalate (xs.map toString)
def joinInt (xs : List Int) : String := " ".intercalate (xs.map toString)

end LinVerif.Proto
