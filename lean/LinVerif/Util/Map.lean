/-
Association-list maps used by the executable models (core Lean only).
Insertion order is kept; `upsert` replaces in place. Lemmas are stated once, here.
-/
set_option linter.unusedSimpArgs false
namespace LinVerif.Map

variable {κ : Type} [DecidableEq κ] {ν : Type}

def lookup (m : List (κ × ν)) (k : κ) : Option ν :=
  match m with
  | [] => none
  | (k', v) :: t => if k' = k then some v else lookup t k

def upsert (m : List (κ × ν)) (k : κ) (v : ν) : List (κ × ν) :=
  match m with
  | [] => [(k, v)]
  | (k', v') :: t => if k' = k then (k, v) :: t else (k', v') :: upsert t k v

def erase (m : List (κ × ν)) (k : κ) : List (κ × ν) :=
  m.filter (fun p => p.1 ≠ k)

def keys (m : List (κ × ν)) : List κ := m.map Prod.fst

@[simp] theorem lookup_nil (k : κ) : lookup ([] : List (κ × ν)) k = none := rfl

theorem lookup_upsert_self (m : List (κ × ν)) (k : κ) (v : ν) :
    lookup (upsert m k v) k = some v := by
  induction m with
  | nil => simp [upsert, lookup]
  | cons p t ih =>
    obtain ⟨k', v'⟩ := p
    by_cases h : k' = k
    · simp [upsert, lookup, h]
    · simp [upsert, lookup, h, ih]

theorem lookup_upsert_ne (m : List (κ × ν)) (k k2 : κ) (v : ν) (h : k ≠ k2) :
    lookup (upsert m k v) k2 = lookup m k2 := by
  induction m with
  | nil => simp [upsert, lookup, h]
  | cons p t ih =>
    obtain ⟨k', v'⟩ := p
    by_cases h1 : k' = k
    · subst h1; simp [upsert, lookup, h]
    · by_cases h2 : k' = k2
      · subst h2; simp [upsert, lookup, h1]
      · simp [upsert, lookup, h1, h2, ih]

theorem erase_cons (p : κ × ν) (t : List (κ × ν)) (k : κ) :
    erase (p :: t) k = if p.1 = k then erase t k else p :: erase t k := by
  by_cases h : p.1 = k <;> simp [erase, List.filter_cons, h]

theorem lookup_erase_self (m : List (κ × ν)) (k : κ) : lookup (erase m k) k = none := by
  induction m with
  | nil => simp [erase, lookup]
  | cons p t ih =>
    rw [erase_cons]
    by_cases h : p.1 = k
    · simp [h, ih]
    · simp [h, lookup, ih]

theorem lookup_erase_ne (m : List (κ × ν)) (k k2 : κ) (h : k ≠ k2) :
    lookup (erase m k) k2 = lookup m k2 := by
  induction m with
  | nil => simp [erase, lookup]
  | cons p t ih =>
    rw [erase_cons]
    obtain ⟨k', v'⟩ := p
    by_cases h1 : k' = k
    · subst h1; simp [lookup, h, ih]
    · simp [h1, lookup, ih]

theorem mem_keys_of_lookup {m : List (κ × ν)} {k : κ} {v : ν} (h : lookup m k = some v) :
    k ∈ keys m := by
  induction m with
  | nil => simp [lookup] at h
  | cons p t ih =>
    obtain ⟨k', v'⟩ := p
    by_cases h1 : k' = k
    · simp [keys, h1]
    · simp only [lookup, h1, ite_false] at h
      have := ih h
      simp only [keys, List.map_cons, List.mem_cons]
      right; exact this

end LinVerif.Map
