/-
State a reused `snappyReader` (pkg/compress/snappy.go) carries between `Uncompress` calls, core Lean only.

    defer func() { r.compressed.Reset(); r.decompressed.Reset(); r.reader.Reset(&r.compressed) }()
    _, err := r.compressed.Write(compressData)
    if err == nil { _, err = io.Copy(&r.decompressed, r.reader) }
    if err != nil { return nil, err }
    return r.decompressed.Bytes(), nil

The snappy stream decoder itself is a parameter (`Lib.decode`): given the bytes in the input buffer it returns the
decoded bytes produced so far, whether it failed, and the bytes it left unread. What is modelled is what lindb's
code adds: three pieces of state (`compressed`, `decompressed`, the library reader's sticky error) and WHICH of them
the deferred function re-initialises — read from the source (`Generated.C14.snappyReaderUncompressDeferred`).
-/
import LinVerif.Generated.C14

namespace LinVerif.SnappyReuse

structure Lib where
  /-- stream decode of an input buffer: (output so far, failed?, unread rest) -/
  decode : List Nat → List Nat × Bool × List Nat

structure Reader where
  compressed : List Nat := []     -- unread bytes of `r.compressed`
  decompressed : List Nat := []   -- content of `r.decompressed`
  stuck : Bool := false           -- the library reader holds a sticky error (or EOF) from an earlier stream
  deriving DecidableEq, Repr

/-- the deferred function: only what the listed calls re-initialise -/
def Reader.cleanup (calls : List String) (r : Reader) : Reader :=
  { compressed := if calls.contains "compressed.Reset" then [] else r.compressed
    decompressed := if calls.contains "decompressed.Reset" then [] else r.decompressed
    stuck := if calls.contains "reader.Reset" then false else r.stuck }

/-- `Uncompress(data)` with a given deferred call list → (`some block` | `none` = error, reader afterwards) -/
def Reader.uncompressWith (calls : List String) (lib : Lib) (r : Reader) (data : List Nat) : Option (List Nat) × Reader :=
  let input := r.compressed ++ data
  if r.stuck then
    (none, Reader.cleanup calls { r with compressed := input })
  else
    let (out, failed, rest) := lib.decode input
    let r1 : Reader := { compressed := rest, decompressed := r.decompressed ++ out, stuck := true }
    (if failed then none else some r1.decompressed, Reader.cleanup calls r1)

/-- `Uncompress` as the source has it now -/
def Reader.uncompress (lib : Lib) (r : Reader) (data : List Nat) : Option (List Nat) × Reader :=
  r.uncompressWith Generated.C14.snappyReaderUncompressDeferred lib data

/-- a history of `Uncompress` calls on arbitrary inputs -/
def Reader.run (lib : Lib) (r : Reader) : List (List Nat) → Reader
  | [] => r
  | d :: t => Reader.run lib (r.uncompress lib d).2 t

end LinVerif.SnappyReuse
