/-
Byte-exact model of pkg/encoding/xor.go (XOREncoder / XORDecoder), core Lean only.
Values are 64-bit patterns (`Nat` below 2^64): the codec never interprets them as floats.
The encoder/decoder hold a pointer to a bit writer/reader that they share with their owner
(the TSD encoder interleaves slot bits); the model passes that writer/reader in and out.
-/
import LinVerif.Model.Bits

namespace LinVerif.Xor
open LinVerif.Bits
open LinVerif.Varint (two64 two63)

/-- number of significant bits of `x` (`fuel` = word size) -/
def bitLenAux : Nat → Nat → Nat
  | 0, _ => 0
  | fuel + 1, x => if x = 0 then 0 else 1 + bitLenAux fuel (x / 2)

/-- `bits.LeadingZeros64` -/
def clz64 (x : Nat) : Nat := 64 - bitLenAux 64 x
/-- `bits.LeadingZeros32` -/
def clz32 (x : Nat) : Nat := 32 - bitLenAux 32 x

def ctzAux : Nat → Nat → Nat
  | 0, _ => 0
  | fuel + 1, x => if x % 2 = 1 then 0 else 1 + ctzAux fuel (x / 2)

/-- `bits.TrailingZeros64` (64 for 0) -/
def ctz64 (x : Nat) : Nat := if x = 0 then 64 else ctzAux 64 x

/-- constants of xor.go (tied to the regenerated facts in Props/C14) -/
def firstValueLen : Nat := 64
def blockSizeAdjustment : Nat := 1

structure Enc where
  prev : Nat
  leading : Nat
  trailing : Nat
  first : Bool
  deriving DecidableEq, Repr

/-- `NewXOREncoder(bw)`: zero values, `first: true` -/
def Enc.fresh : Enc := { prev := 0, leading := 0, trailing := 0, first := true }
/-- `XOREncoder.Reset()` -/
def Enc.reset (_e : Enc) : Enc := { prev := 0, leading := 0, trailing := 0, first := true }

/-- `XOREncoder.Write(val)` -/
def Enc.write (e : Enc) (w : Writer) (v : Nat) : Enc × Writer :=
  if e.first then
    ({ e with first := false, prev := v }, w.writeBits v firstValueLen)
  else
    let delta := v ^^^ e.prev
    if delta = 0 then
      ({ e with prev := v }, w.writeBit false)
    else
      let w := w.writeBit true
      let leading := clz64 delta
      let trailing := ctz64 delta
      if leading ≥ e.leading ∧ trailing ≥ e.trailing then
        let w := w.writeBit true
        let w := w.writeBits (delta >>> e.trailing) (64 - e.leading - e.trailing)
        ({ e with prev := v }, w)
      else
        let w := w.writeBit false
        let blockSize := 64 - leading - trailing
        let w := w.writeBits leading 6
        let w := w.writeBits (blockSize - blockSizeAdjustment) 6
        let w := w.writeBits (delta >>> trailing) blockSize
        ({ e with prev := v, leading := leading, trailing := trailing }, w)

structure Dec where
  err : Bool
  val : Nat
  leading : Nat
  trailing : Nat
  first : Bool
  deriving DecidableEq, Repr

/-- `NewXORDecoder(br)` -/
def Dec.fresh : Dec := { err := false, val := 0, leading := 0, trailing := 0, first := true }
/-- `XORDecoder.Reset()` -/
def Dec.reset (_d : Dec) : Dec := { err := false, val := 0, leading := 0, trailing := 0, first := true }

/-- `uint64` subtraction `64 - a - b` with wrap-around -/
def sub64 (a b : Nat) : Nat := (64 + 2 * two64 - a % two64 - b % two64) % two64

/-- `br.ReadBits(int(blockSize))`: a `uint64` ≥ 2^63 converts to a negative `int`, for which
both loops of `ReadBits` do not run. -/
def readBitsInt (r : Reader) (n : Nat) : Option Nat × Reader :=
  if n ≥ two63 then (some 0, r) else r.readBits n

/-- `delta << d.trailing` on `uint64` (a shift count ≥ 64 gives 0) -/
def shl64 (x s : Nat) : Nat := if s ≥ 64 then 0 else (x <<< s) % two64

/-- tail of `Next()`: read the meaningful bits and xor them into the value -/
def Dec.finish (d : Dec) (blockSize : Nat) (r : Reader) : Bool × Dec × Reader :=
  match readBitsInt r blockSize with
  | (none, r3) => (false, { d with err := true }, r3)
  | (some delta, r3) => (true, { d with val := d.val ^^^ shl64 delta d.trailing }, r3)

/-- `XORDecoder.Next()` → (result, decoder, reader) -/
def Dec.next (d : Dec) (r : Reader) : Bool × Dec × Reader :=
  if d.err then (false, d, r)
  else if d.first then
    match r.readBits firstValueLen with
    | (some v, r1) => (true, { d with first := false, val := v }, r1)
    | (none, r1) => (true, { d with first := false, val := 0, err := true }, r1)
  else
    let (b, e, r1) := r.readBit
    if e then (false, { d with err := true }, r1)
    else if !b then (true, d, r1)
    else
      let (b2, e2, r2) := r1.readBit
      if e2 then (false, { d with err := true }, r2)
      else
        if !b2 then
          match r2.readBits 6 with
          | (none, r3) => (false, { d with leading := 0, err := true }, r3)
          | (some l, r3) =>
            let d := { d with leading := l }
            match r3.readBits 6 with
            | (none, r4) => (false, { d with err := true }, r4)
            | (some bs, r4) =>
              let blockSize := bs + blockSizeAdjustment
              let d := { d with trailing := sub64 d.leading blockSize }
              d.finish blockSize r4
        else
          d.finish (sub64 d.leading d.trailing) r2

/-- `XORDecoder.Value()` -/
def Dec.value (d : Dec) : Nat := d.val

end LinVerif.Xor
