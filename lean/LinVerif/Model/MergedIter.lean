/-
C15 — executable model of kv/table/iterator.go (mergedIterator + priorityQueue) on top of Go's
container/heap (core Lean only).

Go anchors
  container/heap (Go stdlib)   Init, Pop, Fix, up, down — modelled as the stdlib implements them,
                               generic in the `heap.Interface` (`HeapIface`)
  kv/table/iterator.go         priorityQueue.Len/Less/Swap/Push/Pop/update, item,
                               mergedIterator.initQueue/HasNext/Key/Value, NewMergedIterator

An input iterator is the list of (key, value) pairs it still has to deliver: `HasNext` = non-empty,
`Key(); Value()` = take the head.
-/
import LinVerif.Model.Table

namespace LinVerif.MergedIter
open LinVerif.Table (Bytes)

/-! ## container/heap -/

/-- the part of `heap.Interface` that `Init/Pop/Fix/up/down` use on the container itself
(`sort.Interface`: Len, Less, Swap) -/
structure HeapIface (H : Type) where
  len : H → Nat
  less : H → Nat → Nat → Bool
  swap : H → Nat → Nat → H

variable {H : Type}

/-- `heap.up(h, j)`: `for { i := (j-1)/2; if i == j || !h.Less(j, i) { break }; h.Swap(i, j); j = i }`.
(Go's `(j-1)/2` truncates toward zero, so it is 0 for j = 0 — the same as over `Nat`.)
Fuel: j strictly decreases, `j + 1` is enough. -/
def up (I : HeapIface H) : Nat → H → Nat → H
  | 0, h, _ => h
  | f + 1, h, j =>
    let i := (j - 1) / 2
    if i = j || !I.less h j i then h
    else up I f (I.swap h i j) i

/-- loop of `heap.down(h, i0, n)`; returns the container and the final `i`.
Fuel: i strictly increases and stays < n, `n` is enough. -/
def downLoop (I : HeapIface H) : Nat → H → Nat → Nat → H × Nat
  | 0, h, i, _ => (h, i)
  | f + 1, h, i, n =>
    let j1 := 2 * i + 1
    if j1 ≥ n then (h, i)
    else
      let j2 := j1 + 1
      let j := if j2 < n && I.less h j2 j1 then j2 else j1
      if !I.less h j i then (h, i)
      else downLoop I f (I.swap h i j) j n

/-- `heap.down(h, i0, n) bool` (`return i > i0`) -/
def down (I : HeapIface H) (h : H) (i0 n : Nat) : H × Bool :=
  let r := downLoop I n h i0 n
  (r.1, decide (r.2 > i0))

/-- `for i := k-1; i >= 0; i-- { down(h, i, n) }` -/
def initLoop (I : HeapIface H) (n : Nat) : Nat → H → H
  | 0, h => h
  | k + 1, h => initLoop I n k (down I h k n).1

/-- `heap.Init`: `n := h.Len(); for i := n/2 - 1; i >= 0; i-- { down(h, i, n) }` -/
def heapInit (I : HeapIface H) (h : H) : H :=
  let n := I.len h
  initLoop I n (n / 2) h

/-- `heap.Fix(h, i)`: `if !down(h, i, h.Len()) { up(h, i) }` -/
def heapFix (I : HeapIface H) (h : H) (i : Nat) : H :=
  let r := down I h i (I.len h)
  if !r.2 then up I (i + 1) r.1 i else r.1

/-- the container part of `heap.Pop`: `n := h.Len() - 1; h.Swap(0, n); down(h, 0, n)`
(followed by the interface's own `Pop()`, see `pqPop`) -/
def heapPopPrepare (I : HeapIface H) (h : H) : H :=
  let n := I.len h - 1
  (down I (I.swap h 0 n) 0 n).1

/-! ## kv/table/iterator.go: item, priorityQueue -/

/-- `item` (`it` is represented by the number `src` of the input iterator) -/
structure Item where
  src : Nat
  key : Nat
  value : Bytes
  index : Int
deriving Repr, DecidableEq

abbrev PQ := List Item

/-- `priorityQueue.Len` -/
def pqLen (pq : PQ) : Nat := pq.length

/-- `priorityQueue.Less`: `pq[i].key < pq[j].key` (out of range would panic in Go; the heap
algorithms never do that — proved in Lemmas/C15Heap) -/
def pqLess (pq : PQ) (i j : Nat) : Bool :=
  match pq[i]?, pq[j]? with
  | some a, some b => decide (a.key < b.key)
  | _, _ => false

/-- `priorityQueue.Swap`: `pq[i], pq[j] = pq[j], pq[i]; pq[i].index = j; pq[j].index = i`
— exactly as written in the code: after the exchange the item now in slot i (the old `pq[j]`)
gets index **j** and the item now in slot j (the old `pq[i]`) gets index **i**, i.e. every item
keeps the index it had if that index was right before. (Items are distinct pointers; for i = j
the one item ends with index i, which is what the two `set`s below give.) -/
def pqSwap (pq : PQ) (i j : Nat) : PQ :=
  match pq[i]?, pq[j]? with
  | some a, some b => (pq.set i { b with index := (j : Int) }).set j { a with index := (i : Int) }
  | _, _ => pq

/-- `priorityQueue.Push`: `item.index = n; *pq = append(*pq, item)` -/
def pqPush (pq : PQ) (x : Item) : PQ :=
  pq ++ [{ x with index := (pq.length : Int) }]

/-- `priorityQueue.Pop`: removes and returns the last element, `item.index = -1` -/
def pqPop (pq : PQ) : Option (PQ × Item) :=
  match pq.getLast? with
  | some x => some (pq.dropLast, { x with index := -1 })
  | none => none

def pqIface : HeapIface PQ := { len := pqLen, less := pqLess, swap := pqSwap }

/-- `priorityQueue.update`: `heap.Fix(pq, item.index)`; a negative index would panic in Go
(`none`) -/
def pqUpdate (pq : PQ) (index : Int) : Option PQ :=
  if index < 0 then none else some (heapFix pqIface pq index.toNat)

/-- `heap.Pop(&pq)` -/
def heapPop (pq : PQ) : Option (PQ × Item) :=
  pqPop (heapPopPrepare pqIface pq)

/-- the container part of `heap.Push(h, x)`: after the interface's own `h.Push(x)` comes
`up(h, h.Len()-1)` -/
def heapPushFinish (I : HeapIface H) (h : H) : H := up I (I.len h) h (I.len h - 1)

/-- `heap.Push(&pq, item)` on lindb's queue (not called by iterator.go, which does
`pq.Push(item); pq.update(item)`; transcribed so that all of container/heap's API is modelled) -/
def heapPush (pq : PQ) (x : Item) : PQ := heapPushFinish pqIface (pqPush pq x)

/-! ## mergedIterator -/

abbrev Input := List (Nat × Bytes)

structure MIter where
  its : List Input        -- what every input iterator still has to deliver
  pq : PQ
  curKey : Nat := 0
  curValue : Bytes := []
  curSrc : Nat := 0       -- ghost (not in the Go struct): which input the current pair came from
deriving Repr

/-- loop of `initQueue`: every iterator that `HasNext()` contributes one item (its first pair),
`index` = running count i -/
def initItems : List Input → Nat → Nat → List Input × PQ
  | [], _, _ => ([], [])
  | it :: rest, src, i =>
    match it with
    | [] =>
      let r := initItems rest (src + 1) i
      ([] :: r.1, r.2)
    | (k, v) :: tl =>
      let r := initItems rest (src + 1) (i + 1)
      (tl :: r.1, { src := src, key := k, value := v, index := (i : Int) } :: r.2)

/-- `NewMergedIterator` → `initQueue`: `if len(m.pq) > 0 { heap.Init(&m.pq) }` -/
def MIter.new (its : List Input) : MIter :=
  let r := initItems its 0 0
  { its := r.1, pq := if r.2.length > 0 then heapInit pqIface r.2 else r.2 }

/-- `mergedIterator.HasNext`; `none` = a panic inside (impossible from `MIter.new`, proved) -/
def MIter.hasNext (m : MIter) : Option (Bool × MIter) :=
  if m.pq.length > 0 then
    match heapPop m.pq with
    | none => none
    | some (pq1, item) =>
      let m1 := { m with pq := pq1, curKey := item.key, curValue := item.value, curSrc := item.src }
      match m.its[item.src]? with
      | some ((k, v) :: tl) =>
        -- it.HasNext(): item.key = it.Key(); item.value = it.Value(); m.pq.Push(item); m.pq.update(item)
        let item' := { item with key := k, value := v }
        let pq2 := pqPush pq1 item'
        -- Push set item.index = len-1; update = heap.Fix(pq, item.index)
        match pqUpdate pq2 (pq1.length : Int) with
        | none => none
        | some pq3 => some (true, { m1 with its := m.its.set item.src tl, pq := pq3 })
      | _ => some (true, m1)
  else some (false, m)

/-- `for it.HasNext() { out = append(out, (it.Key(), it.Value())) }` -/
def MIter.drain : Nat → MIter → List (Nat × Bytes)
  | 0, _ => []
  | f + 1, m =>
    match m.hasNext with
    | some (true, m') => (m'.curKey, m'.curValue) :: MIter.drain f m'
    | _ => []

/-- the same run, every pair tagged with the number of the input it came from (ghost) -/
def MIter.drainTagged : Nat → MIter → List (Nat × Nat × Bytes)
  | 0, _ => []
  | f + 1, m =>
    match m.hasNext with
    | some (true, m') => (m'.curSrc, m'.curKey, m'.curValue) :: MIter.drainTagged f m'
    | _ => []

/-- NOT the code: the `HasNext` of seeded change c15-22 — the top item is advanced in place (no
Pop/Push) and the heap is re-fixed (at slot 0) only when `pq[1]` has a smaller key; an exhausted top
item is popped. Kept to state why the real code pops and pushes (`Props.C15.Neg.inplace_top_…`). -/
def MIter.hasNextInPlace (m : MIter) : Option (Bool × MIter) :=
  match m.pq with
  | [] => some (false, m)
  | item :: _ =>
    let m1 := { m with curKey := item.key, curValue := item.value, curSrc := item.src }
    match m.its[item.src]? with
    | some ((k, v) :: tl) =>
      let pq1 := m.pq.set 0 { item with key := k, value := v }
      let smaller := match pq1[1]? with
        | some b => decide (b.key < k)
        | none => false
      some (true, { m1 with its := m.its.set item.src tl, pq := if smaller then heapFix pqIface pq1 0 else pq1 })
    | _ =>
      match heapPop m.pq with
      | none => none
      | some (pq1, _) => some (true, { m1 with pq := pq1 })

def MIter.drainInPlace : Nat → MIter → List (Nat × Bytes)
  | 0, _ => []
  | f + 1, m =>
    match m.hasNextInPlace with
    | some (true, m') => (m'.curKey, m'.curValue) :: MIter.drainInPlace f m'
    | _ => []

def totalLen (its : List Input) : Nat := (its.map List.length).sum

/-- everything the merged iterator over `its` delivers -/
def mergeAll (its : List Input) : List (Nat × Bytes) :=
  MIter.drain (totalLen its + 1) (MIter.new its)

def mergeAllTagged (its : List Input) : List (Nat × Nat × Bytes) :=
  MIter.drainTagged (totalLen its + 1) (MIter.new its)

end LinVerif.MergedIter
