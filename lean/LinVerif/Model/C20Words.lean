/-
C20, layer 2b: the 64-bit WORD arithmetic of pkg/trie (bits_vector.go, bits.go).

A `uint64` is modelled as the list of its 64 bits, least significant first (`Word`), so that the Go
operators are list operations:

  x >> k                  = `shr x k`   (drop the k low bits, zero-fill on top)
  x << k                  = `shl x k`   (k zeros below, the top k bits fall off)
  x > 0 / x != 0          = `nz x`
  bits.TrailingZeros64(x) = `tz x`      (number of clear bits from the low end)
  bits.OnesCount64(x)     = `Louds.popcount x`

and the functions that navigate a bit vector word by word are written branch for branch:

  `distNextGo`   = bitVector.DistanceToNextSetBit   (early exit, in-word test, last-word return, word loop,
                                                     unused-tail correction of the last word)
  `popcountBlockGo` = popcountBlock                 (full words + the last word shifted left)
  `selectInByte`, `selectInByteLut`, `select64Bytes` = the byte table of bits.go and the byte-level
                                                     skeleton of select64Broadword (byte sums, place, byte rank, table)

`Lemmas/C20Words.lean` proves them against `Louds.distNext` / `Louds.popcount` / `Louds.select`.
Core Lean only.
-/
import LinVerif.Model.Louds

namespace LinVerif.C20Words
open LinVerif.Louds

abbrev Word := List Bool

def zeroWord : Word := List.replicate 64 false

/-- `x >> k` -/
def shr (x : Word) (k : Nat) : Word := x.drop k ++ List.replicate (min k x.length) false

/-- `x << k` -/
def shl (x : Word) (k : Nat) : Word := List.replicate (min k x.length) false ++ x.take (x.length - k)

/-- `x > 0` -/
def nz (x : Word) : Bool := x.any id

/-- `bits.TrailingZeros64(x)` for `x != 0` -/
def tz (x : Word) : Nat := leadingZeros x

/-- the words of a vector: `k` chunks of 64 bits -/
def chunks : Nat → List Bool → List Word
  | 0, _ => []
  | k + 1, bs => bs.take 64 :: chunks k (bs.drop 64)

/-- `bitVector.numWords()` -/
def numWords (numBits : Nat) : Nat := numBits / 64 + (if numBits % 64 != 0 then 1 else 0)

/-- what `bitVector.Init` leaves in `v.bits` for the bits `bs`: `numWords` words, the unused tail of the
last word zero, followed by `extra` zero words when a longer buffer of an earlier build is re-used -/
def toWords (bs : List Bool) (extra : Nat) : List Word :=
  chunks (numWords bs.length) (bs ++ List.replicate (64 * numWords bs.length - bs.length) false)
    ++ List.replicate extra zeroWord

inductive Scan where
  | found (r : Nat)
  | ended (distance : Nat)
  deriving Repr, DecidableEq

/-- the loop `for wordOff < numWords-1 { wordOff++; testBits = v.bits[wordOff]; if testBits > 0 { return
distance + tz }; distance += wordSize }` over the words `v.bits[wordOff+1 .. numWords-1]` -/
def scanWords : List Word → Nat → Scan
  | [], d => .ended d
  | w :: ws, d => if nz w then .found (d + tz w) else scanWords ws (d + 64)

/-- `bitVector.DistanceToNextSetBit(pos)`, statement by statement (`numBits` = v.numBits, `bits` = v.bits,
`v.words` = `numWords numBits`) -/
def distNextGo (numBits : Nat) (bits : List Word) (pos : Nat) : Nat :=
  let wordOff := (pos + 1) / 64
  let bitsOff := (pos + 1) % 64
  if wordOff ≥ bits.length then 0                                  -- if wordOff >= uint32(len(v.bits)) { return 0 }
  else
    let testBits := shr (bits.getD wordOff zeroWord) bitsOff       -- testBits := v.bits[wordOff] >> bitsOff
    if nz testBits then 1 + tz testBits                            -- if testBits > 0 { return distance + tz }
    else
      let nw := numWords numBits                                   -- numWords := v.words
      if wordOff == nw - 1 then numBits - pos                      -- if wordOff == numWords-1 { return v.numBits - pos }
      else
        let distance := 1 + (64 - bitsOff)                         -- distance += wordSize - bitsOff
        match scanWords ((bits.take nw).drop (wordOff + 1)) distance with
        | .found r => r
        | .ended d =>
          -- after the loop wordOff = numWords-1 unless it started beyond (re-used longer buffer)
          if (max wordOff (nw - 1) == nw - 1) && (numBits % 64 != 0)   -- if wordOff == numWords-1 && v.numBits%64 != 0
          then d - (64 - numBits % 64)                             --   distance -= wordSize - v.numBits%64
          else d

/-- `popcountBlock(bs, off, nbits)`: full words, then the last word shifted left by `63 - lastBits` -/
def popcountBlockGo (bits : List Word) (off nbits : Nat) : Nat :=
  if nbits == 0 then 0 else
  let lastWord := (nbits - 1) / 64
  let lastBits := (nbits - 1) % 64
  let p := (((bits.drop off).take lastWord).map popcount).sum
  let last := shl (bits.getD (off + lastWord) zeroWord) (64 - 1 - lastBits)
  p + popcount last

/-- `rankVectorSparse.Rank(pos)` over the words: table entry + `popcountBlock` inside the block -/
def rankWords (lut : List Nat) (bits : List Word) (pos : Nat) : Nat :=
  let wordPerBlk := rankSparseBlockSize / wordSize
  let blockOff := pos / rankSparseBlockSize
  let bitsOff := pos % rankSparseBlockSize
  lut.getD blockOff 0 + popcountBlockGo bits (blockOff * wordPerBlk) (bitsOff + 1)

/-! ### select inside a word: the byte table of bits.go and the byte-level skeleton of select64Broadword -/

/-- a byte as its 8 bits, least significant first -/
def byteBits (b : Nat) : List Bool := (List.range 8).map (fun i => b / 2 ^ i % 2 == 1)

/-- `findFirstSet(x) = TrailingZeros64(x) + 1` on a number (`fuel` bits are inspected) -/
def findFirstSet : Nat → Nat → Nat
  | 0, _ => 65       -- TrailingZeros64(0) = 64
  | fuel + 1, x => if x % 2 == 1 then 1 else
      match findFirstSet fuel (x / 2) with
      | 65 => 65
      | r => r + 1

/-- `selectInByte(i, j)` of bits.go: `for ; j != 0; j-- { s := findFirstSet(i); r += s; i >>= s }`,
`if i == 0 { return 8 }`, `return r + findFirstSet(i) - 1` -/
def selectInByteLoop : Nat → Nat → Nat → Nat × Nat
  | 0, i, r => (i, r)
  | j + 1, i, r => let s := findFirstSet 9 i; selectInByteLoop j (i / 2 ^ s) (r + s)

def selectInByte (i j : Nat) : Nat :=
  let (i', r) := selectInByteLoop j i 0
  if i' == 0 then 8 else r + findFirstSet 9 i' - 1

/-- the table `selectInByteLut[256][8]` filled by `init()` -/
def selectInByteLut : List (List Nat) :=
  (List.range 256).map (fun i => (List.range 8).map (fun j => selectInByte i j))

/-- position of the (j+1)-th set bit of a byte (zero-based j), or 8: the table's specification -/
def selectByteSpec (b j : Nat) : Nat :=
  if j < popcount (byteBits b) then select (byteBits b) (j + 1) else 8

/-- the byte-level skeleton of `select64Broadword(x, nth)`: `byteSums` = running sums of the bytes'
popcounts, `place` = 8 × number of bytes whose running sum is ≤ k (`k = nth-1`), `byteRank` = k minus the
running sum before that byte, result = `place + selectInByteLut[byte][byteRank]` -/
def select64Bytes : List Nat → Nat → Nat
  | [], _ => 0
  | b :: rest, k =>
    let c := popcount (byteBits b)
    if c ≤ k then 8 + select64Bytes rest (k - c)
    else (selectInByteLut.getD b []).getD k 8

end LinVerif.C20Words
