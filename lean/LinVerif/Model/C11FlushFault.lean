/-
Write-side fault path of `dataFamily.Flush` (core Lean only), at the level of WHICH points a query
of the family can see: the mutable memory database, the immutable one (being flushed), the files.

  Flush:  if immutableMemDB != nil || mutableMemDB == nil || no series → return nil      (skip guard)
          immutableMemDB = mutableMemDB; mutableMemDB = nil
          if err := flushMemoryDatabase(...); err != nil { return err }                  (failure: KEEP)
          immutableMemDB = nil                                                           (success only)

Variant flag `keepOnFail` (regenerated fact `familyFlushAfterWrite`): is the immutable memory
database reset only after a successful flush (the code), or also after a failed one (seeded c11-22).
Points are opaque (`Nat` ids); what a query computes from the visible points is the business of
`Model/MemDB.lean` (a family in the state after a failed flush is its `Window` state).
-/
namespace LinVerif.C11FlushFault

structure Fam where
  mem : List Nat := []
  imm : Option (List Nat) := none
  files : List Nat := []
deriving DecidableEq, Repr

inductive Op where
  | write (p : Nat)
  | flush (fails : Bool)
deriving DecidableEq, Repr

def step (keepOnFail : Bool) (f : Fam) : Op → Fam
  | .write p => { f with mem := f.mem ++ [p] }
  | .flush fails =>
    match f.imm with
    | some _ => f                                  -- skip guard: `f.immutableMemDB != nil`
    | none =>
      if f.mem = [] then f else                    -- skip guard: nothing to flush
      if fails then
        (if keepOnFail then { f with imm := some f.mem, mem := [] } else { f with imm := none, mem := [] })
      else { f with files := f.files ++ f.mem, mem := [], imm := none }

def run (keepOnFail : Bool) (f : Fam) (ops : List Op) : Fam := ops.foldl (step keepOnFail) f

/-- what `dataFamily.Filter` unions: files, immutable, mutable (as points, in write order). -/
def visible (f : Fam) : List Nat := f.files ++ f.imm.getD [] ++ f.mem

def written : List Op → List Nat
  | [] => []
  | .write p :: ops => p :: written ops
  | .flush _ :: ops => written ops

end LinVerif.C11FlushFault
