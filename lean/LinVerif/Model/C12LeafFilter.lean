/-
C12 — the leaf's where-clause path on ONE storage node, and what a layout of nodes matches.

Mirrors (branch for branch)
* `query/operator/tag_values_lookup.go`  `tagValuesLookup.Execute / findTagValueIDsByExpr / getTagKeyID`
  (metadata stage of the leaf pipeline: every ATOMIC tag filter of the condition is resolved against
  the NODE's metadata database and stored in `StorageExecuteContext.TagFilterResult`, keyed by the
  marshalled filter);
* `query/operator/series_filtering.go`  `seriesFiltering.Execute / findSeriesIDsByExpr /
  getSeriesIDsByExpr` (shard scan stage: per SHARD, the atoms' tag value ids are turned into series
  ids through the shard's index database and combined with AND / OR / NOT);
* `index/kv_store.go FindValuesByExpr` as far as the node dictionary goes: the values a node knows
  for a tag key are exactly the values of the series WRITTEN ON THAT NODE (ids are node-local).

Everything is parametric in the type `V` of tag values and the type `P` of atomic patterns with an
acceptance function `acc : P → V → Bool` (`=`, `in`, `like` of `FindValuesByExpr`; the driver
instantiates `V := String`, `P := Pat`). Roaring bitmaps are modelled as lists of series ids; the
theorems speak about membership only. Core Lean only.
-/
namespace LinVerif.C12LeafFilter

/-- a tag key id of the metric's schema. `0` is what `findSeriesIDsByExpr` returns as "tag key" for
every expression that is not an atomic filter (or a parenthesised one). -/
abbrev Key := Nat

/-- one written series: a (layout-independent) identity and its tag values by key -/
structure Series (V : Type) where
  id : Nat
  tags : List (Key × V)

/-- the value of tag key `k` of the series (forward index) -/
def Series.val {V : Type} (s : Series V) (k : Key) : Option V :=
  match s.tags.find? (fun p => p.1 == k) with
  | some p => some p.2
  | none => none

/-- `stmt.TagFilter`: `EqualsExpr` / `InExpr` / `LikeExpr` over one tag key -/
structure Atom (P : Type) where
  key : Key
  pat : P
  deriving DecidableEq

/-- `stmt.Expr` as far as a where-condition goes -/
inductive Cond (P : Type) where
  | atom (a : Atom P)
  | paren (c : Cond P)
  | not (c : Cond P)
  | and (l r : Cond P)
  | or (l r : Cond P)

/-- one shard of a node: the series its index database knows -/
abbrev Shard (V : Type) := List (Series V)
/-- one storage node: its shards; ONE metadata database (tag value dictionary) for all of them -/
abbrev Node (V : Type) := List (Shard V)

/-- the node's tag value dictionary for key `k`: the values of the series written on the node -/
def Node.dict {V : Type} (n : Node V) (k : Key) : List V :=
  n.flatten.filterMap (fun s => s.val k)

/-- why a leaf's metadata stage fails -/
inductive LookupErr where
  | tagKeyNotFound     -- constants.ErrTagKeyIDNotFound  ("tag key not found": a not-found answer)
  | tagValueNotFound   -- constants.ErrTagValueIDNotFound ("tag value not found": a not-found answer)
  deriving DecidableEq, Repr

/-- `StorageExecuteContext.TagFilterResult`: marshalled atomic filter ↦ tag value ids -/
abbrev FilterResult (V P : Type) := List (Atom P × List V)

section
variable {V P : Type} [DecidableEq V] [DecidableEq P]

/-- `metaDB.FindTagValueDsByExpr(tagKeyID, expr)`: the node's values of the key the pattern accepts
(no value ⇒ an EMPTY id set, no error) -/
def lookupAtom (acc : P → V → Bool) (n : Node V) (a : Atom P) : List V :=
  (n.dict a.key).filter (acc a.pat)

/-- `tagValuesLookup.findTagValueIDsByExpr`, threading `op.err` / `TagFilterResult`.
`keys` = `executeCtx.Schema.TagKeys` of THIS node. `failFast` is the variant switch read from the
source: `false` = the code (an atom without a matching value stores the empty set), `true` = "an
atom that matches nothing on this node fails the lookup with tag value not found". -/
def lookupGo (failFast : Bool) (acc : P → V → Bool) (keys : List Key) (n : Node V) :
    Cond P → Except LookupErr (FilterResult V P) → Except LookupErr (FilterResult V P)
  | _, .error e => .error e                                   -- `if op.err != nil { return }`
  | .atom a, .ok res =>
    if keys.contains a.key then                                -- getTagKeyID
      let ids := lookupAtom acc n a
      if failFast && ids.isEmpty then .error .tagValueNotFound
      else .ok ((a, ids) :: res.filter (fun p => !(p.1 == a))) -- map assignment
    else .error .tagKeyNotFound
  | .paren c, r => lookupGo failFast acc keys n c r
  | .not c, r => lookupGo failFast acc keys n c r
  | .and l r', r => lookupGo failFast acc keys n r' (lookupGo failFast acc keys n l r)
  | .or l r', r => lookupGo failFast acc keys n r' (lookupGo failFast acc keys n l r)

/-- `tagValuesLookup.Execute` -/
def lookup (failFast : Bool) (acc : P → V → Bool) (keys : List Key) (n : Node V) (c : Cond P) :
    Except LookupErr (FilterResult V P) :=
  lookupGo failFast acc keys n c (.ok [])

/-! ### bitmaps of series ids (membership is all that matters) -/

def bmAnd (a b : List Nat) : List Nat := a.filter (fun i => b.contains i)
def bmOr (a b : List Nat) : List Nat := a ++ b.filter (fun i => !a.contains i)
def bmAndNot (a b : List Nat) : List Nat := a.filter (fun i => !b.contains i)

/-- `indexDB.GetSeriesIDsByTagValueIDs`: the shard's series that carry one of the tag value ids.
(Tag value ids are node-wide unique per (key, value): the pair stands for the id.) -/
def seriesByValues (sh : Shard V) (k : Key) (vs : List V) : List Nat :=
  (sh.filter (fun s => match s.val k with | some v => vs.contains v | none => false)).map (·.id)

/-- `indexDB.GetSeriesIDsForTag`: the shard's series that have the tag key at all -/
def seriesForTag (sh : Shard V) (k : Key) : List Nat :=
  (sh.filter (fun s => (s.val k).isSome)).map (·.id)

/-- `seriesFiltering.findSeriesIDsByExpr`: `(tagKey, seriesIDs)`; `none` = `op.err` set
(`ErrTagValueFilterResultNotFound`: the atom has no entry in `TagFilterResult`). -/
def findSeries (res : FilterResult V P) (sh : Shard V) : Cond P → Option (Key × List Nat)
  | .atom a =>
    match res.find? (fun p => p.1 == a) with
    | some p => some (a.key, seriesByValues sh a.key p.2)
    | none => none
  | .paren c => findSeries res sh c
  | .not c =>
    match findSeries res sh c with
    | some (k, m) => some (0, bmAndNot (seriesForTag sh k) m)
    | none => none
  | .and l r =>
    match findSeries res sh l, findSeries res sh r with
    | some (_, a), some (_, b) => some (0, bmAnd a b)
    | _, _ => none
  | .or l r =>
    match findSeries res sh l, findSeries res sh r with
    | some (_, a), some (_, b) => some (0, bmOr a b)
    | _, _ => none

/-- `seriesFiltering.Execute`: what ends up in `SeriesIDsAfterFiltering` (an error leaves it empty:
the plan node ignores it and the shard contributes nothing) -/
def filterShard (res : FilterResult V P) (sh : Shard V) (c : Cond P) : List Nat :=
  match findSeries res sh c with
  | some (_, ids) => ids
  | none => []

/-- one node's answer to the where-clause: the lookup's error, or the matched series per shard -/
def nodeFilter (failFast : Bool) (acc : P → V → Bool) (keys : List Key) (n : Node V) (c : Cond P) :
    Except LookupErr (List (List Nat)) :=
  match lookup failFast acc keys n c with
  | .error e => .error e
  | .ok res => .ok (n.map (fun sh => filterShard res sh c))

/-- what a whole layout matches: the union over the nodes that answer (a node whose lookup fails
answers "… not found" and the root ignores it — `MetricContext.checkError`). Every node comes with
the tag keys of ITS schema (`[]`: the node never saw the metric). -/
def layoutMatched (failFast : Bool) (acc : P → V → Bool) (nodes : List (List Key × Node V))
    (c : Cond P) : List Nat :=
  nodes.flatMap (fun kn => match nodeFilter failFast acc kn.1 kn.2 c with
    | .ok perShard => perShard.flatten
    | .error _ => [])

/-- every series written anywhere in the layout -/
def allSeries (nodes : List (List Key × Node V)) : List (Series V) :=
  nodes.flatMap (fun kn => kn.2.flatten)

/-! ### the per-series meaning of a condition (the reference the layouts are compared with) -/

/-- the "tag key" `findSeriesIDsByExpr` hands to an enclosing NOT -/
def keyOf : Cond P → Key
  | .atom a => a.key
  | .paren c => keyOf c
  | _ => 0

/-- does the series satisfy the condition, as the code evaluates it: NOT ranges over the series that
HAVE the tag key of its (atomic) operand; NOT of a composite ranges over key 0 -/
def sem (acc : P → V → Bool) : Cond P → Series V → Bool
  | .atom a, s => (match s.val a.key with | some v => acc a.pat v | none => false)
  | .paren c, s => sem acc c s
  | .not c, s => (s.val (keyOf c)).isSome && !sem acc c s
  | .and l r, s => sem acc l s && sem acc r s
  | .or l r, s => sem acc l s || sem acc r s

/-- the tag keys the condition's atoms name -/
def condKeys : Cond P → List Key
  | .atom a => [a.key]
  | .paren c => condKeys c
  | .not c => condKeys c
  | .and l r => condKeys l ++ condKeys r
  | .or l r => condKeys l ++ condKeys r

end

/-! ### concrete patterns of the driver: `FindValuesByExpr` over strings -/

/-- `EqualsExpr`, `InExpr`, `LikeExpr` (`FindValuesByLike`: `*`, `p*`, `*s`, `*m*`, no star = equals,
empty = nothing) -/
inductive Pat where
  | eq (v : String)
  | isIn (vs : List String)
  | like (p : String)
  deriving DecidableEq

def isInfix (m : List Char) : List Char → Bool
  | [] => m.isEmpty
  | c :: t => m.isPrefixOf (c :: t) || isInfix m t

def likeAccept (p v : String) : Bool :=
  let pc := p.toList
  let vc := v.toList
  let hasPre := pc.head? == some '*'
  let hasSuf := pc.getLast? == some '*'
  if pc.isEmpty then false
  else if pc == ['*'] then true
  else if !hasPre && hasSuf then pc.dropLast.isPrefixOf vc
  else if hasPre && !hasSuf then (pc.drop 1).isSuffixOf vc
  else if hasPre && hasSuf then isInfix (pc.drop 1).dropLast vc
  else v == p

def Pat.accept : Pat → String → Bool
  | .eq x, v => v == x
  | .isIn xs, v => xs.contains v
  | .like p, v => likeAccept p v

end LinVerif.C12LeafFilter
