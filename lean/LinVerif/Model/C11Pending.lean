/-
Model of the pending-load protocol of the leaf pipeline (core Lean only):

  groupingStage.NextStages   one data-load stage per time segment; the SHARED counter
                             `PendingDataLoadTasks` += number of filter result sets of the segment
                             (all additions happen before any data-load stage runs)
  dataLoadStage.Plan         children: one `dataLoad` operator per filter result set, then `leafReduce`
                             (executed in this order on one goroutine of the scanner pool; the stages of
                             different segments run in parallel)
  dataLoad.Execute           `defer PendingDataLoadTasks.Dec()`; two early returns (no series left
                             after grouping; nil loader) and the normal end
  leafReduce.Execute         `if PendingDataLoadTasks.Load() == 0 { Reduce(...) }`

A thread = one data-load stage; its atomic steps = its operators (the atomic `Dec` / `Load`).
The variant flag `deferred` (regenerated fact `dataLoadDecDeferred`): is the decrement deferred (runs
on every return path) or does it only run at the normal end of `Execute` (seeded c11-13 / c11-21).
-/
namespace LinVerif.C11Pending

/-- the return statement a `dataLoad.Execute` leaves by. -/
inductive Outcome where
  | noSeries     -- `roaring.FastAnd(...).IsEmpty()` → return nil
  | nilLoader    -- `loader == nil` → return nil
  | loaded       -- the end of the function
deriving DecidableEq, Repr

/-- a data-load stage: its remaining `dataLoad` operators, whether its `leafReduce` ran. -/
structure Stage where
  loads : List Outcome
  checked : Bool := false
deriving DecidableEq, Repr

structure St where
  counter : Int              -- PendingDataLoadTasks
  stages : List Stage
  fired : Nat := 0           -- calls of `DataLoadContext.Reduce`
  premature : Bool := false  -- ghost: some `Reduce` ran while a `dataLoad` had not finished
deriving DecidableEq, Repr

/-- loads that have not finished. -/
def remaining : List Stage → Nat
  | [] => 0
  | g :: gs => g.loads.length + remaining gs

/-- does this return path decrement the counter. -/
def decs (deferred : Bool) (o : Outcome) : Bool := deferred || o == .loaded

/-- `groupingStage.NextStages`: the counter is the number of all filter result sets. -/
def init (stages : List (List Outcome)) : St :=
  let gs := stages.map (fun l => ({ loads := l } : Stage))
  { counter := (remaining gs : Int), stages := gs }

/-- one atomic step of stage `t` (an index without a stage or a finished stage: no step). -/
def step (deferred : Bool) (s : St) (t : Nat) : St :=
  match s.stages[t]? with
  | none => s
  | some g =>
    match g.loads with
    | o :: rest =>
      { s with counter := if decs deferred o then s.counter - 1 else s.counter,
               stages := s.stages.set t { g with loads := rest } }
    | [] =>
      if g.checked then s else
      { s with fired := if s.counter = 0 then s.fired + 1 else s.fired,
               premature := s.premature || (decide (s.counter = 0) && decide (remaining s.stages ≠ 0)),
               stages := s.stages.set t { g with checked := true } }

def run (deferred : Bool) (s : St) (sched : List Nat) : St := sched.foldl (step deferred) s

/-- every stage ran all its operators. -/
def finished (s : St) : Bool := s.stages.all (fun g => g.loads.isEmpty && g.checked)

/-- the schedule of a one-worker scanner pool: stage after stage. -/
def seqSched : Nat → List (List Outcome) → List Nat
  | _, [] => []
  | t, l :: ls => List.replicate (l.length + 1) t ++ seqSched (t + 1) ls

end LinVerif.C11Pending
