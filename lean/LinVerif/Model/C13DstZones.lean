/-
C13 (round 12) — the daylight-saving zones of the harness's DST pass as data: one (zone, year) =
initial offset + the two offset changes of that year, as Go's `time` package reports them from the tz
database (the `dstzone` op diffs this table against the running tz database on every run), and the
wall-clock days `d₁`, `d₂` the two changes happen in.  Core Lean only.
-/
import LinVerif.Model.IntervalZone

namespace LinVerif.Interval

/-- initial offset `off0`, change to `o1` at the UTC second `a1`, change to `o2` at `a2` (seconds east of
UTC); `d1`, `d2` = wall-clock day numbers (days since 1970-01-01) of the two changes -/
structure Dst2 where
  off0 : Int
  a1 : Int
  o1 : Int
  a2 : Int
  o2 : Int
  d1 : Int
  d2 : Int
  deriving DecidableEq, Repr

/-- the transition-list zone model of the DST pass (`zallt` op) for these values -/
def Dst2.zone (p : Dst2) : Zone := Zone.ofTransitions p.off0 [(p.a1, p.o1), (p.a2, p.o2)]

/-- the margins `Lemmas.C13.Dst2Margins` as a computable check -/
def Dst2.marginsOk (p : Dst2) : Bool :=
  decide (-86400 < p.off0 ∧ p.off0 < 86400) && decide (-86400 < p.o1 ∧ p.o1 < 86400) &&
  decide (-86400 < p.o2 ∧ p.o2 < 86400) &&
  decide (p.d1 * 86400 < p.a1 + p.off0 ∧ p.d1 * 86400 < p.a1 + p.o1 ∧
    p.a1 + p.off0 < (p.d1 + 1) * 86400 ∧ p.a1 + p.o1 < (p.d1 + 1) * 86400) &&
  decide (p.d2 * 86400 < p.a2 + p.o1 ∧ p.d2 * 86400 < p.a2 + p.o2 ∧
    p.a2 + p.o1 < (p.d2 + 1) * 86400 ∧ p.a2 + p.o2 < (p.d2 + 1) * 86400) &&
  decide (p.d1 + 1 < p.d2)

/-- both offset changes are whole hours -/
def Dst2.wholeHours (p : Dst2) : Bool :=
  decide ((p.o1 - p.off0) % 3600 = 0) && decide ((p.o2 - p.o1) % 3600 = 0)

/-- tz database values (historical years of the DST pass) -/
def dstZones : List (String × Dst2) := [
  ("America/New_York@1987", ⟨-18000, 544604400, -14400, 562140000, -18000, 6303, 6506⟩),
  ("America/New_York@2007", ⟨-18000, 1173596400, -14400, 1194156000, -18000, 13583, 13821⟩),
  ("America/New_York@2024", ⟨-18000, 1710054000, -14400, 1730613600, -18000, 19792, 20030⟩),
  ("Australia/Lord_Howe@1987", ⟨39600, 542732400, 37800, 562087800, 39600, 6282, 6506⟩),
  ("Australia/Lord_Howe@2007", ⟨39600, 1174748400, 37800, 1193499000, 39600, 13597, 13814⟩),
  ("Australia/Lord_Howe@2024", ⟨39600, 1712415600, 37800, 1728142200, 39600, 19820, 20002⟩)
]

/-- `dstzone <name>` of the driver: `off0 a1 o1 a2 o2` -/
def dstZoneLine (name : String) : Option String :=
  (dstZones.find? (·.1 == name)).map fun (_, p) => s!"{p.off0} {p.a1} {p.o1} {p.a2} {p.o2}"

end LinVerif.Interval
