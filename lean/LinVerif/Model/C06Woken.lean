/-
Three-step `Consume` (core Lean only): on top of Model/FanOutPark.lean, the point BETWEEN the return
of `NotEmpty` (B) and the write lock of `consume()` (C).

    headSeq := f.consumedSeq.Load() + 1                      -- (A)
    if !f.Queue().Queue().NotEmpty(headSeq, f.isPause) {…}   -- (B) returned true: messages available
    return f.consume()                                       -- (C) verifhook.Yield("c06-consume-enter");
                                                             --     Lock; re-read; compare; Store; Put

`wbegin g` = (A) + (B) returning true at once (enabled when the group is live, not paused and
consumed+1 ≤ appended); the call then sits before the lock of `consume()` while any other goroutine
runs any operation — rewind, explicit resets, acks, Pause, puts, Sync, GC —; `wend g` = (C). `consume()`
does not look at the pause flag or at the head computed at (A): `State.consumeInner`.
Stop / reopen of the group while the call is in flight (Close unmaps the meta page `consume()` is
about to write) is not enabled.
-/
import LinVerif.Model.FanOutPark

namespace LinVerif.FanOut
open LinVerif.Map

/-- `consumerGroup.consume()`: under the write lock, re-reads the consumed position -/
def State.consumeInner (s : State) (g : Nat) : State × Res :=
  match lookup s.live g with
  | none => (s, .noGroup)
  | some grp =>
    if grp.consumed + 1 ≤ s.q.appended then
      (s.putGroup g { grp with consumed := grp.consumed + 1 }, .val (grp.consumed + 1))
    else (s, .val noSeq)

structure WState where
  ps : PState
  woken : List Nat       -- groups whose Consume call is between NotEmpty's return and consume()'s lock
  deriving DecidableEq, Repr

def WState.init : WState := { ps := PState.init, woken := [] }

inductive WOp
  | p (o : POp)
  | wbegin (g : Nat)
  | wend (g : Nat)
  deriving DecidableEq, Repr

inductive WRes
  | res (r : PRes)
  | wokenNow
  | notEnabled
  deriving DecidableEq, Repr

/-- operations that close the handle of `g` (Close unmaps the page the call in flight will write) -/
def closes (g : Nat) : POp → Bool
  | .op (.stop k) => k == g
  | .op .reopen => true
  | _ => false

def wstep (v : Variant) (w : WState) : WOp → WState × WRes
  | .p o =>
    if w.woken.any (fun g => closes g o) then (w, .notEnabled)
    else ({ w with ps := (pstep v w.ps o).1 }, .res (pstep v w.ps o).2)
  | .wbegin g =>
    match lookup w.ps.s.live g with
    | some grp =>
      if !grp.paused && decide (grp.consumed + 1 ≤ w.ps.s.q.appended) && !w.woken.contains g
          && (lookup w.ps.parked g).isNone then
        ({ w with woken := g :: w.woken }, .wokenNow)
      else (w, .notEnabled)
    | none => (w, .notEnabled)
  | .wend g =>
    if w.woken.contains g then
      ({ ps := { w.ps with s := (w.ps.s.consumeInner g).1 }, woken := w.woken.erase g }, .res (.res (w.ps.s.consumeInner g).2))
    else (w, .notEnabled)

def wrun (v : Variant) : WState → List WOp → WState
  | w, [] => w
  | w, o :: os => wrun v (wstep v w o).1 os

end LinVerif.FanOut
