/-
Three small models around the metric-data merge (core Lean only):

A. `Alias`   — `merger.prepare` building the union of the input blocks' series-id bitmaps while the
               blocks' `dataScanner`s keep reading their own bitmaps afterwards (references into a heap).
B. `Stream`  — one TSD stream: the has-value bit of a slot and, right behind a set bit, the slot's
               XOR-coded value share ONE bit stream (pkg/encoding/tsd.go `HasValueWithSlot`/`Value`),
               and the decoder loop of `DownSamplingMultiSeriesInto` over it.
C. `Edit`    — the version edit of a compaction over (level, level+1) inputs
               (kv/version/compact.go `MarkInputDeletes`, `AddFile`; kv/compact_job.go
               `installCompactionResults`) applied to the per-level file sets.
-/
import LinVerif.Model.Merge

namespace LinVerif.MergeAux
open LinVerif.Map LinVerif.MetricBlock LinVerif.Merge

/-! ## A. bitmaps by reference -/
namespace Alias

/-- a heap of bitmaps (ascending id lists); a reference is an index -/
abbrev Heap := List (List Nat)

def deref (h : Heap) (r : Nat) : List Nat := h.getD r []

def store (h : Heap) (r : Nat) (v : List Nat) : Heap := h.set r v

/-- `dst.Or(src)` in place -/
def orInto (h : Heap) (dst src : Nat) : Heap :=
  store h dst ((deref h src).foldl (fun acc s => insertId s acc) (deref h dst))

/-- `merger.prepare`'s handling of the union: `fresh = true`: `seriesIDs: roaring.New()` then
`ctx.seriesIDs.Or(reader.GetSeriesIDs())` for every block; `fresh = false`: the first block's bitmap
itself is taken as the union and the others are or-ed into it. `refs` are the blocks' bitmaps
(`reader.seriesIDs`), which their scanners read afterwards. Returns the heap and the union's reference. -/
def prepareUnion (fresh : Bool) (h : Heap) (refs : List Nat) : Heap × Nat :=
  if fresh then
    let u := h.length
    (refs.foldl (fun hp r => orInto hp u r) (h ++ [[]]), u)
  else
    match refs with
    | [] => (h ++ [[]], h.length)
    | r0 :: rest => (rest.foldl (fun hp r => orInto hp r0 r) h, r0)

end Alias

/-! ## B. one TSD stream -/
namespace Stream

/-- an item of the stream: a has-value bit, or the coded value that follows a set bit -/
inductive Item (V : Type)
  | bit (b : Bool)
  | val (v : V)

/-- `TSDEncoder`: for every slot of the range a bit, and behind a set bit the value -/
def encode {V : Type} (vals : List (Nat × V)) : Nat → Nat → List (Item V)
  | _, 0 => []
  | t, n + 1 =>
    match lookup vals t with
    | none => Item.bit false :: encode vals (t + 1) n
    | some v => Item.bit true :: Item.val v :: encode vals (t + 1) n

/-- `HasValueWithSlot` on the expected slot: the next item read as a bit. A value item met where a
bit is expected means the reader is desynchronised (its bits would be taken for slot bits): `none`. -/
def readBit {V : Type} : List (Item V) → Option (Bool × List (Item V))
  | Item.bit b :: r => some (b, r)
  | _ => none

/-- `Value()`: the next item read as a value -/
def readVal {V : Type} : List (Item V) → Option (V × List (Item V))
  | Item.val v :: r => some (v, r)
  | _ => none

/-- the decoder loop of `DownSamplingMultiSeriesInto` over the stream. `eager = true` is the code: the
value of a present slot is read right after its bit, before the position tests. `eager = false` is the
variant that reads the value only where it is used (not for a negative position, not for an
already-set position of a `First` field: `keepsOld`). -/
def feedS {V : Type} (eager : Bool) (keepsOld : Bool) (op : V → V → V) (cfg : Cfg) (tStart len : Nat) :
    List (Item V) → List (Nat × V) → Nat → Nat → Option (List (Nat × V))
  | _, acc, _, 0 => some acc
  | s, acc, t, n + 1 =>
    match readBit s with
    | none => none
    | some (false, s1) => feedS eager keepsOld op cfg tStart len s1 acc (t + 1) n
    | some (true, s1) =>
      let p : Int := (cfg.baseSlot : Int) + ((t / cfg.ratio : Nat) : Int) - (tStart : Int)
      if eager then
        match readVal s1 with
        | none => none
        | some (v, s2) =>
          if p < 0 then feedS eager keepsOld op cfg tStart len s2 acc (t + 1) n
          else if p ≥ (len : Int) then some acc
          else feedS eager keepsOld op cfg tStart len s2 (put op acc p.toNat v) (t + 1) n
      else
        if p < 0 then
          -- the lazy variant still skips the value of a slot it does not place
          match readVal s1 with
          | none => none
          | some (_, s2) => feedS eager keepsOld op cfg tStart len s2 acc (t + 1) n
        else if p ≥ (len : Int) then some acc
        else if keepsOld && (lookup acc p.toNat).isSome then
          -- set before, the old value is kept: the value is NOT read
          feedS eager keepsOld op cfg tStart len s1 acc (t + 1) n
        else
          match readVal s1 with
          | none => none
          | some (v, s2) => feedS eager keepsOld op cfg tStart len s2 (put op acc p.toNat v) (t + 1) n

end Stream

/-! ## C. the version edit of a compaction -/
namespace Edit

/-- `version.Log`s a compaction job writes -/
inductive Rec
  | delete (level : Nat) (file : Nat)
  | add (level : Nat) (file : Nat)
  deriving DecidableEq, Repr

/-- the file numbers of every level -/
abbrev Version := List (List Nat)

def levelOf (v : Version) (i : Nat) : List Nat := v.getD i []

/-- applying one record (`level.deleteFile` / `level.addFile`; a level outside the version is ignored) -/
def applyRec (v : Version) : Rec → Version
  | .delete l f => if l < v.length then v.set l ((levelOf v l).filter (· ≠ f)) else v
  | .add l f => if l < v.length then v.set l (levelOf v l ++ [f]) else v

def applyAll (v : Version) (rs : List Rec) : Version := rs.foldl applyRec v

/-- `Compaction.MarkInputDeletes`. `bothLevels = true` is the code: the inputs of `level` are deleted
from `level`, the inputs of `level+1` from `level+1`; `false`: all of them from `level`. -/
def markInputDeletes (bothLevels : Bool) (level : Nat) (inputs upInputs : List Nat) : List Rec :=
  inputs.map (Rec.delete level) ++ upInputs.map (Rec.delete (if bothLevels then level + 1 else level))

/-- `installCompactionResults` of a merge compaction: deletes, then the outputs added one level up -/
def installRecs (bothLevels : Bool) (level : Nat) (inputs upInputs outputs : List Nat) : List Rec :=
  markInputDeletes bothLevels level inputs upInputs ++ outputs.map (Rec.add (level + 1))

end Edit

end LinVerif.MergeAux
