/-
C09 — the node's get-or-create operations called with VIEWS into the caller's reused buffer (core Lean only).

What `memdb` does for a row (tsdb/memdb/metadata_database.go handleRow, index_database.go handleRow,
index/metric_index_database.go GenSeriesID / buildInvertIndex):

    GenMetricID(row.NameSpace(), row.Name())            two views into the block
    GenFieldID(metricID, field.Meta{Name: itr.NextName()})   the caller copies (`field.Name([]byte)` conversion)
    GenTagKeyID(metricID, tags.NextKey())               a view
    GenTagValueID(tagKeyID, tags.NextValue())           a view
    GenSeriesID(metricID, row)                          the row IS a view of the block

`BNode` = the node + the caller's buffer. A view operation reads the bytes its views show NOW (the copy the
callee takes), decodes the harness's name from them and runs the value-level operation of Model/IdAssign.lean;
`load` / `poke` change the buffer only. The node keeps no reference to the buffer: that is the contract, made
explicit by the state shape, and `Props.C09.buffer_history_is_value_history` states what follows from it.
What happens to a store that DOES keep a reference is Model/IdAssignBuf.lean (`Key.ref`).
-/
import LinVerif.Model.IdAssign
import LinVerif.Model.IdAssignBuf

namespace LinVerif.IdAssign
open Buf

inductive BOp
  | load (bs : Bytes)                      -- the next block is decoded into the buffer
  | poke (off : Nat) (bs : Bytes)          -- part of the buffer is overwritten
  | metric (nsV nameV : View)
  | field (m : Nat) (v : View)
  | tagKey (m : Nat) (v : View)
  | tagValue (tk : Nat) (v : View)
  | series (sh m ts : Nat) (tags : List (View × View))
  | plain (op : Op)                        -- flushes, recoveries, calls with names given by value
  deriving Repr

def decodeTags (buf : Bytes) : List (View × View) → Option (List (Nat × Nat))
  | [] => some []
  | (kv, vv) :: rest => do
    let k ← (read buf kv).bind (decodeName 107)
    let v ← (read buf vv).bind (decodeName 118)
    let r ← decodeTags buf rest
    some ((k, v) :: r)

/-- the value-level operation a buffer operation amounts to, given the buffer at call time:
`none` = a view is out of range or does not show one of the harness's names; `some none` = no node operation -/
def BOp.toOp (buf : Bytes) : BOp → Option (Option Op)
  | .load _ => some none
  | .poke _ _ => some none
  | .metric nsV nameV => do
    let ns ← (read buf nsV).bind decodeNs
    let n ← (read buf nameV).bind (decodeName 109)
    some (some (.metric ns.1 ns.2 n))
  | .field m v => do
    let f ← (read buf v).bind (decodeName 102)
    some (some (.field m f))
  | .tagKey m v => do
    let k ← (read buf v).bind (decodeName 107)
    some (some (.tagKey m k))
  | .tagValue tk v => do
    let x ← (read buf v).bind (decodeName 118)
    some (some (.tagValue tk x))
  | .series sh m ts tags => do
    let t ← decodeTags buf tags
    some (some (.series sh m ts t))
  | .plain op => some (some op)

def BOp.bufAfter (buf : Bytes) : BOp → Bytes
  | .load bs => bs
  | .poke off bs => write buf off bs
  | _ => buf

structure BNode where
  nd : Node := {}
  buf : Bytes := []

/-- one operation of the caller -/
def bstep (c : Cfg) (st : BNode) (bop : BOp) : Option (BNode × Option GenOut) :=
  match bop.toOp st.buf with
  | none => none
  | some none => some ({ st with buf := bop.bufAfter st.buf }, none)
  | some (some op) => let r := step c st.nd op; some ({ st with nd := r.1 }, r.2)

def brun (c : Cfg) : BNode → List BOp → Option BNode
  | st, [] => some st
  | st, bop :: rest =>
    match bstep c st bop with
    | none => none
    | some r => brun c r.1 rest

/-- the value-level history: every view call replaced by the call with the copies taken at call time -/
def bmaterialize : Bytes → List BOp → Option (List Op)
  | _, [] => some []
  | buf, bop :: rest =>
    match bop.toOp buf with
    | none => none
    | some none => bmaterialize (bop.bufAfter buf) rest
    | some (some op) => (bmaterialize buf rest).map (op :: ·)

end LinVerif.IdAssign
