/-
Model of lindb's fan-out WAL queue as far as property C06 needs it (core Lean only).

Go anchors
  pkg/queue/fanout_queue.go   NewFanOutQueue / initConsumerGroups, GetOrCreateConsumerGroup,
                              StopConsumerGroup, SetAppendedSeq, Sync, Close
  pkg/queue/consumer_group.go NewConsumerGroup, Consume / consume, SetConsumedSeq, Ack, SetSeq, Pause
  pkg/queue/queue.go          NewQueue (initSequence / initDataPageIndex), Put (alloc +
                              persistMetaOfMessage), Get / validateSequence, SetAppendedSeq,
                              SetAcknowledgedSeq, GC
  pkg/queue/page/factory.go   AcquirePage, GetPage, TruncatePages, loadPages

What is modelled: all sequence positions (in memory and in the meta pages), the index entry of
every message (data page id, offset, length), which data / index page files exist, the write
cursor. What is not: message bytes (C05), msync, the condition variable of `NotEmpty`.

Sequences are unbounded `Int` (the code uses int64; wrap-around is not part of C06).
Consumer-group names are numbers (replica/partition.go uses the decimal node id as the name).

`Variant` selects between the code as it is (`Variant.current`) and the two candidate repairs of
`NewConsumerGroup`; which variant the *current source* is, is decided by the regenerated fact
`Generated.C06.newGroupShape` (see `variantOf`).
-/
import LinVerif.Util.Map

namespace LinVerif.FanOut
open LinVerif.Map

/-- pkg/queue/constants.go `indexItemsPerPage` (tied to the generated fact in Props/C06) -/
def indexItemsPerPage : Nat := 262144
/-- pkg/queue/constants.go `dataPageSize`; `alloc` and `Put` compare against this constant -/
def dataPageSize : Nat := 134217728
/-- `SeqNoNewMessageAvailable`, also the initial value of every position -/
def noSeq : Int := -1

/-- The two places where `NewConsumerGroup` may differ from the pinned source. -/
structure Variant where
  /-- restore path: after lifting `ackSeq` to the queue's ack, `consumedSeq` is lifted to `ackSeq` too -/
  liftConsumed : Bool
  /-- a group without a meta file starts at the queue's ack instead of (-1,-1) -/
  freshAtQueueAck : Bool
  deriving DecidableEq, Repr

/-- the pinned source: neither -/
def Variant.current : Variant := { liftConsumed := false, freshAtQueueAck := false }
/-- fixes/C06-new-group-positions.patch applied -/
def Variant.fixed : Variant := { liftConsumed := true, freshAtQueueAck := true }

/-- The assignments to consumedSeq / ackSeq / ackOfQueue in `NewConsumerGroup`, with the enclosing
`if`s, as emitted by `lvh extract` (harness/internal/extract/facts_c06.go): the part every variant
shares ... -/
def shapeBase : List String :=
  ["consumedSeq := int64(-1)", "ackSeq := int64(-1)", "if hasMeta {",
   "consumedSeq = int64(metaPage.ReadUint64(consumerGroupConsumedSeqOffset))",
   "ackSeq = int64(metaPage.ReadUint64(consumerGroupAcknowledgedSeqOffset))",
   "ackOfQueue := q.Queue().AcknowledgedSeq()",
   "if ackSeq < ackOfQueue {", "ackSeq = ackOfQueue", "}"]

/-- ... the lift of `consumedSeq` on the restore path (fixes/C06-new-group-positions.patch) ... -/
def shapeLift : List String := ["if consumedSeq < ackSeq {", "consumedSeq = ackSeq", "}"]

/-- ... and the `else` branch that starts a new group at the queue's ack (same patch). -/
def shapeFresh : List String :=
  ["} else {", "ackSeq = q.Queue().AcknowledgedSeq()", "consumedSeq = ackSeq", "}"]

def shapeOf (v : Variant) : List String :=
  shapeBase ++ (if v.liftConsumed then shapeLift else []) ++ (if v.freshAtQueueAck then shapeFresh else ["}"])

def allVariants : List Variant :=
  [Variant.current, Variant.fixed, { liftConsumed := true, freshAtQueueAck := false },
   { liftConsumed := false, freshAtQueueAck := true }]

/-- which model the extracted shape of `NewConsumerGroup` selects; an unknown shape selects none
(the tie theorem `Props.C06.newGroup_shape_known` then fails and the driver answers `bad-op`). -/
def variantOf (shape : List String) : Option Variant :=
  allVariants.find? (fun v => shapeOf v = shape)

/-- one item of an index page: data page id (8 bytes), offset (4), length (4) -/
structure Entry where
  page : Nat
  off : Nat
  len : Nat
  deriving DecidableEq, Repr

/-- what a never-written slot of a (zero-filled) index page reads as -/
def Entry.zero : Entry := { page := 0, off := 0, len := 0 }

/-- `consumerGroup` (in memory) -/
structure Group where
  consumed : Int
  ack : Int
  paused : Bool
  deriving DecidableEq, Repr

/-- the group's meta page `cg/<name>/0.bat`: consumed at offset 0, ack at offset 8 -/
structure Meta where
  consumed : Int
  ack : Int
  deriving DecidableEq, Repr

/-- `queue` + its three page factories -/
structure Queue where
  appended : Int                 -- appendedSeq
  ack : Int                      -- acknowledgedSeq
  mAppended : Int                -- meta page, queueAppendedSeqOffset
  mAck : Int                     -- meta page, queueAcknowledgedSeqOffset
  entries : List (Int × Entry)   -- written index items (first match wins = last write)
  dataPages : List Nat           -- data/*.bat
  indexPages : List Nat          -- index/*.bat
  curData : Nat                  -- dataPageIndex
  curIndex : Nat                 -- indexPageIndex
  offset : Nat                   -- messageOffset
  deriving DecidableEq, Repr

structure State where
  q : Queue
  live : List (Nat × Group)      -- fanOutQueue.consumerGroups
  metas : List (Nat × Meta)      -- directories under cg/ (one per group ever created)
  deriving DecidableEq, Repr

/-- `factory.AcquirePage`: returns the page, creating the file when it does not exist -/
def acquire (ps : List Nat) (p : Nat) : List Nat := if p ∈ ps then ps else p :: ps

/-- `NewQueue` on an empty directory: positions (-1,-1) persisted, data page 0 and index page 0 acquired -/
def Queue.init : Queue :=
  { appended := noSeq, ack := noSeq, mAppended := noSeq, mAck := noSeq, entries := [],
    dataPages := [0], indexPages := [0], curData := 0, curIndex := 0, offset := 0 }

/-- `NewFanOutQueue` on an empty directory -/
def State.init : State := { q := Queue.init, live := [], metas := [] }

/-- index item of `seq` (zero when never written / its index page was re-created) -/
def Queue.entryOf (q : Queue) (seq : Int) : Entry := (lookup q.entries seq).getD Entry.zero

/-- index page id of a sequence (`sequence / indexItemsPerPage`; only used for `seq ≥ 0`) -/
def ipOf (seq : Int) : Nat := seq.toNat / indexItemsPerPage

/-- `alloc`: does a message of `len` bytes roll to the next data page? -/
def Queue.rolls (q : Queue) (len : Nat) : Prop := q.offset + len > dataPageSize

instance (q : Queue) (len : Nat) : Decidable (q.rolls len) := by unfold Queue.rolls; infer_instance

/-- `alloc`: the data page the message is written to ... -/
def Queue.allocPage (q : Queue) (len : Nat) : Nat := if q.rolls len then q.curData + 1 else q.curData
/-- ... the data page files afterwards (`AcquirePage(nextDataPageIndex)`) ... -/
def Queue.allocPages (q : Queue) (len : Nat) : List Nat :=
  if q.rolls len then acquire q.dataPages (q.curData + 1) else q.dataPages
/-- ... and the offset of the message in its page. -/
def Queue.allocOff (q : Queue) (len : Nat) : Nat := if q.rolls len then 0 else q.offset

/-- `persistMetaOfMessage`: the index page files after the entry of `seq` has been written -/
def Queue.persistPages (q : Queue) (seq : Int) : List Nat :=
  if ipOf seq ≠ q.curIndex then acquire q.indexPages (ipOf seq) else q.indexPages

/-- `queue.Put` for a message of `len ≤ dataPageSize` bytes: `alloc` then `persistMetaOfMessage` -/
def Queue.put (q : Queue) (len : Nat) : Queue :=
  { q with curData := q.allocPage len, dataPages := q.allocPages len, offset := q.allocOff len + len,
           curIndex := ipOf (q.appended + 1), indexPages := q.persistPages (q.appended + 1),
           entries := (q.appended + 1, { page := q.allocPage len, off := q.allocOff len, len := len }) :: q.entries,
           appended := q.appended + 1, mAppended := q.appended + 1 }

/-- `queue.SetAcknowledgedSeq` -/
def Queue.setAck (q : Queue) (n : Int) : Queue :=
  if n > q.ack ∧ n ≤ q.appended then { q with ack := n, mAck := n } else q

/-- `queue.SetAppendedSeq` (explicit reset): both positions, both persisted -/
def Queue.setAppended (q : Queue) (n : Int) : Queue :=
  { q with appended := n, ack := n, mAppended := n, mAck := n }

/-- `queue.GC` + `factory.TruncatePages` on the data and the index factory: pages below the data
page of the acknowledged message, index pages below its index page.
Entries living on a removed index page are dropped (a re-created page is zero-filled). -/
def Queue.gc (q : Queue) : Queue :=
  if q.ack < 0 then q
  else if ipOf q.ack ∈ q.indexPages then
    { q with dataPages := q.dataPages.filter (fun p => decide ((q.entryOf q.ack).page ≤ p)),
             indexPages := q.indexPages.filter (fun p => decide (ipOf q.ack ≤ p)),
             entries := q.entries.filter (fun e => decide (ipOf q.ack ≤ ipOf e.1)) }
  else q

/-- `queue.Close` then `NewQueue` on the same directory (`hasMeta`): `initSequence`,
`initDataPageIndex` (cursor from the index entry of the appended sequence); the page factories
re-load the files that exist. -/
def Queue.reopen (q : Queue) : Queue :=
  if q.mAppended = noSeq then
    { q with appended := q.mAppended, ack := q.mAck, curData := 0, offset := 0, curIndex := 0,
             dataPages := acquire q.dataPages 0, indexPages := acquire q.indexPages 0 }
  else
    { q with appended := q.mAppended, ack := q.mAck, curIndex := ipOf q.mAppended,
             indexPages := acquire q.indexPages (ipOf q.mAppended),
             curData := (q.entryOf q.mAppended).page,
             offset := (q.entryOf q.mAppended).off + (q.entryOf q.mAppended).len,
             dataPages := acquire q.dataPages (q.entryOf q.mAppended).page }

inductive GetRes
  | ok (len : Nat)
  | outOfRange      -- ErrOutOfSequenceRange
  | notFound        -- ErrMsgNotFound
  deriving DecidableEq, Repr

/-- `queue.Get` (result kind and length only) -/
def Queue.get (q : Queue) (seq : Int) : GetRes :=
  if seq > q.appended ∨ seq ≤ q.ack then .outOfRange
  else if ipOf seq ∈ q.indexPages then
    let e := q.entryOf seq
    if e.page ∈ q.dataPages then .ok e.len else .notFound
  else .notFound

/-- `NewConsumerGroup`, restore path: "if queue ack > consume group ack, need reset use queue ack" -/
def restoredAck (qack : Int) (m : Meta) : Int := if m.ack < qack then qack else m.ack

/-- `NewConsumerGroup`, restore path: the consumed position is taken from the meta page as it is
(pinned source); with `liftConsumed` it is lifted to the restored ack when it lies below. -/
def restoredConsumed (v : Variant) (qack : Int) (m : Meta) : Int :=
  if v.liftConsumed = true ∧ m.consumed < restoredAck qack m then restoredAck qack m else m.consumed

/-- The positions `NewConsumerGroup` computes and persists. `m` = content of an existing meta page
(`hasMeta`), `qack` = `q.Queue().AcknowledgedSeq()`. -/
def newGroup (v : Variant) (qack : Int) : Option Meta → Meta
  | some m => { consumed := restoredConsumed v qack m, ack := restoredAck qack m }
  | none =>
    if v.freshAtQueueAck then { consumed := qack, ack := qack } else { consumed := noSeq, ack := noSeq }

def Meta.toGroup (m : Meta) : Group := { consumed := m.consumed, ack := m.ack, paused := false }

/-- the loop of `fanOutQueue.Sync`: minimum of the start value and every group's ack -/
def minAck : Int → List (Nat × Group) → Int
  | a, [] => a
  | a, (_, g) :: t => minAck (if g.ack < a then g.ack else a) t

inductive Op
  | append (len : Nat)                -- Queue().Put
  | consume (g : Nat)                 -- ConsumerGroup.Consume
  | ack (g : Nat) (n : Int)           -- ConsumerGroup.Ack
  | setConsumed (g : Nat) (n : Int)   -- ConsumerGroup.SetConsumedSeq
  | setSeq (g : Nat) (n : Int)        -- ConsumerGroup.SetSeq            (explicit reset)
  | setAppended (n : Int)             -- FanOutQueue.SetAppendedSeq       (explicit reset)
  | sync                              -- FanOutQueue.Sync
  | gc                                -- Queue().GC
  | create (g : Nat)                  -- FanOutQueue.GetOrCreateConsumerGroup
  | stop (g : Nat)                    -- FanOutQueue.StopConsumerGroup
  | pause (g : Nat)                   -- ConsumerGroup.Pause
  | reopen                            -- FanOutQueue.Close ; NewFanOutQueue(same dir)
  deriving DecidableEq, Repr

inductive Res
  | done
  | val (n : Int)      -- result of Consume (noSeq = nothing available)
  | tooLarge           -- ErrExceedingMessageSizeLimit
  | noGroup            -- the history addresses a group that is not live (no handle exists)
  deriving DecidableEq, Repr

/-- write-through of a group's positions into its meta page -/
def State.putGroup (s : State) (g : Nat) (grp : Group) : State :=
  { s with live := upsert s.live g grp,
           metas := upsert s.metas g { consumed := grp.consumed, ack := grp.ack } }

/-- `consumerGroup.Consume`: `NotEmpty` answers false for a paused group; otherwise `consume()`
under the write lock. (A call that would block in `NotEmpty` is represented by its only possible
non-blocking outcome, "nothing available".) -/
def State.consume (s : State) (g : Nat) : State × Res :=
  match lookup s.live g with
  | none => (s, .noGroup)
  | some grp =>
    if grp.paused then (s, .val noSeq)
    else if grp.consumed + 1 ≤ s.q.appended then
      (s.putGroup g { grp with consumed := grp.consumed + 1 }, .val (grp.consumed + 1))
    else (s, .val noSeq)

/-- `consumerGroup.Ack` (under the read lock): inside [ack, consumed] the ack moves and both
positions are persisted; outside nothing happens (a warning is logged). -/
def State.ackGroup (s : State) (g : Nat) (n : Int) : State × Res :=
  match lookup s.live g with
  | none => (s, .noGroup)
  | some grp =>
    if n ≥ grp.ack ∧ n ≤ grp.consumed then (s.putGroup g { grp with ack := n }, .done)
    else (s, .done)

/-- `fanOutQueue.Sync` -/
def State.sync (s : State) : State :=
  if s.live.isEmpty then s
  else if minAck s.q.appended s.live ≥ 0 then { s with q := s.q.setAck (minAck s.q.appended s.live) }
  else s

/-- `fanOutQueue.GetOrCreateConsumerGroup` -/
def State.create (v : Variant) (s : State) (g : Nat) : State :=
  match lookup s.live g with
  | some _ => s
  | none =>
    { s with live := upsert s.live g (newGroup v s.q.ack (lookup s.metas g)).toGroup,
             metas := upsert s.metas g (newGroup v s.q.ack (lookup s.metas g)) }

/-- `fanOutQueue.SetAppendedSeq`: the queue, then `SetSeq` on every live group -/
def State.setAppended (s : State) (n : Int) : State :=
  { q := s.q.setAppended n,
    live := s.live.map (fun p => (p.1, { p.2 with consumed := n, ack := n })),
    metas := s.metas.map (fun p =>
      match lookup s.live p.1 with
      | some _ => (p.1, { consumed := n, ack := n })
      | none => p) }

/-- the meta pages after `initConsumerGroups` (with the re-opened queue's ack `qack`) -/
def reopenMetas (v : Variant) (qack : Int) (metas : List (Nat × Meta)) : List (Nat × Meta) :=
  metas.map (fun p => (p.1, newGroup v qack (some p.2)))

/-- `fanOutQueue.Close` then `NewFanOutQueue` on the same directory: the queue is re-read from its
meta page, then `initConsumerGroups` runs `NewConsumerGroup` for every directory under cg/. -/
def State.reopen (v : Variant) (s : State) : State :=
  { q := s.q.reopen, metas := reopenMetas v s.q.reopen.ack s.metas,
    live := (reopenMetas v s.q.reopen.ack s.metas).map (fun p => (p.1, p.2.toGroup)) }

def step (v : Variant) (s : State) : Op → State × Res
  | .append len =>
    if len > dataPageSize then (s, .tooLarge) else ({ s with q := s.q.put len }, .done)
  | .consume g => s.consume g
  | .ack g n => s.ackGroup g n
  | .setConsumed g n =>
    match lookup s.live g with
    | none => (s, .noGroup)
    | some grp => (s.putGroup g { grp with consumed := n }, .done)
  | .setSeq g n =>
    match lookup s.live g with
    | none => (s, .noGroup)
    | some grp => (s.putGroup g { grp with consumed := n, ack := n }, .done)
  | .setAppended n => (s.setAppended n, .done)
  | .sync => (s.sync, .done)
  | .gc => ({ s with q := s.q.gc }, .done)
  | .create g => (s.create v g, .done)
  | .stop g => ({ s with live := erase s.live g }, .done)
  | .pause g =>
    match lookup s.live g with
    | none => (s, .noGroup)
    | some grp => ({ s with live := upsert s.live g { grp with paused := true } }, .done)
  | .reopen => (s.reopen v, .done)

/-- the state after a history -/
def run (v : Variant) : State → List Op → State
  | s, [] => s
  | s, o :: os => run v (step v s o).1 os

/-- the results of a history -/
def results (v : Variant) : State → List Op → List Res
  | _, [] => []
  | s, o :: os => (step v s o).2 :: results v (step v s o).1 os

end LinVerif.FanOut
