/-
Model of the metric block layout written by `tsdb/tblstore/metricsdata/flusher.go` and read back by
`reader.go` / `metric_data_loader.go` (core Lean only), at the level of POSITIONS:

  metric block  = series bucket (one per roaring high key of the series ids) ... | field metas | ...
  series bucket = series entry ... | low-key offsets | 4-byte position of the offsets   (the bucket footer)
  series entry  = field data ... | field offsets | reversed uvarint length of the offsets   (several fields)
                = field data                                                              (one field)

The writer is the imperative `flusher` branch for branch: `size` is `kvWriter.Size()`, `l3` / `l4` are
`Level3.startAt` / `Level4.startAt` (the bases the low-key offsets resp. the field offsets are taken
against). Bytes are not modelled: a write advances `size` by a length, and what a decoder would find at
an absolute position is kept in tables (`lowAt`, `posAt`, `fldAt`, `lenAt`); `truth` records where
`kvWriter.Write(data)` put every field block. The reader computes the span of a field block from the
offsets exactly as `metricReader.Load`, `metricLoader.Load` and `readSeriesData` do; a decoder applied
at a position where nothing was encoded answers `none` (in reality: garbage or an error).

External codecs (FixedOffsetEncoder, uvarint): only their encoded LENGTHS matter here (`Enc`).
The code variant (`Cfg.rebaseAfterFooter`): does the high-key branch of `FlushSeries` set
`Level4.startAt` again after the previous bucket's footer was written (regenerated fact).
-/
namespace LinVerif.BlockLayout

structure Cfg where
  rebaseAfterFooter : Bool
deriving DecidableEq, Repr

/-- encoded lengths of the external codecs. -/
structure Enc where
  offLen : List Nat → Nat      -- FixedOffsetEncoder.Write of these offsets
  uvarLen : Nat → Nat          -- stream.PutUvariantLittleEndian of a block length

/-- a simple concrete codec for the driver / the witnesses: 1 header byte + 1 byte per offset (+ width). -/
def Enc.simple : Enc := ⟨fun xs => 1 + xs.length, fun _ => 1⟩

def upd {α : Type} (f : Nat → Option α) (k : Nat) (v : α) : Nat → Option α :=
  fun x => if x = k then some v else f x

def upd2 {α : Type} (f : Nat → Nat → Option α) (a b : Nat) (v : α) : Nat → Nat → Option α :=
  fun x y => if x = a ∧ y = b then some v else f x y

/-- the flusher's state (Level2 / Level3 / Level4 contexts) + the decoder-view tables. -/
structure W where
  size : Nat := 0                 -- kvWriter.Size()
  l4 : Nat := 0                   -- Level4.startAt
  l3 : Nat := 0                   -- Level3.startAt
  highKey : Nat := 0              -- Level3.highKey
  highSet : Bool := false         -- Level3.isHighKeySetEver
  lowOffs : List Nat := []        -- Level3.lowKeyOffsets
  highOffs : List Nat := []       -- Level2.highKeyOffsets
  fOffs : List Nat := []          -- Level4.fieldDataOffsets
  ids : List Nat := []            -- Level2.seriesIDs (in arrival order = ascending)
  lowAt : Nat → Option (List Nat) := fun _ => none         -- low-key offsets encoded AT this position
  posAt : Nat → Option Nat := fun _ => none                -- 4-byte position word ENDING at this position
  fldAt : Nat → Option (List Nat) := fun _ => none         -- field offsets encoded AT this position
  lenAt : Nat → Option (Nat × Nat) := fun _ => none        -- reversed uvarint ENDING here: (value, own length)
  truth : Nat → Nat → Option (Nat × Nat) := fun _ _ => none -- series id, field index ↦ (start, length) written

/-- `PrepareMetric`: `highKeyOffsets.Add(0)`. -/
def prepare : W := { highOffs := [0] }

/-- the loop of `flushField`: `fieldDataAt := Size() - Level4.startAt; Write(data); if multi { offsets.Add }`. -/
def writeFields (sid : Nat) (multi : Bool) : W → Nat → List Nat → W
  | w, _, [] => w
  | w, k, len :: rest =>
    let fieldDataAt := w.size - w.l4
    writeFields sid multi
      { w with size := w.size + len, truth := upd2 w.truth sid k (w.size, len),
               fOffs := if multi then w.fOffs ++ [fieldDataAt] else w.fOffs } (k + 1) rest

/-- `writeLevel4OffsetsFooter`. -/
def writeL4Footer (e : Enc) (w : W) : W :=
  let bl := e.offLen w.fOffs
  let ul := e.uvarLen bl
  { w with size := w.size + bl + ul, fldAt := upd w.fldAt w.size w.fOffs,
           lenAt := upd w.lenAt (w.size + bl + ul) (bl, ul) }

/-- `flushLevel2SeriesBucket`: nothing when the bucket is empty, else low-key offsets + position. -/
def flushBucket (e : Enc) (w : W) : W :=
  let pos := w.size - w.l3
  if pos = 0 then w else
  let bl := e.offLen w.lowOffs
  { w with size := w.size + bl + 4, lowAt := upd w.lowAt w.size w.lowOffs,
           posAt := upd w.posAt (w.size + bl + 4) pos }

/-- the high-key branch of `FlushSeries` (a series id with another roaring high key arrives). -/
def newBucket (c : Cfg) (e : Enc) (w : W) (hk : Nat) : W :=
  let w := flushBucket e w
  { w with highKey := hk, lowOffs := [], l3 := w.size, highOffs := w.highOffs ++ [w.size],
           l4 := if c.rebaseAfterFooter then w.size else w.l4 }

/-- the part of `FlushSeries` after the high-key branch: low-key offset, `flushField`, series id. -/
def writeEntry (e : Enc) (nf : Nat) (w : W) (sid : Nat) (flds : List Nat) : W :=
  let w := { w with lowOffs := w.lowOffs ++ [w.size - w.l3] }
  let w := writeFields sid (decide (1 < nf)) w 0 flds
  let w := if 1 < nf then writeL4Footer e w else w
  { w with ids := w.ids ++ [sid] }

/-- the first part of `FlushSeries`: first high key ever / another high key (previous bucket's footer,
new bucket). -/
def enterBucket (c : Cfg) (e : Enc) (w : W) (sid : Nat) : W :=
  let hk := sid / 65536
  let w := if w.highSet then w else { w with highSet := true, highKey := hk }
  if hk ≠ w.highKey then newBucket c e w hk else w

/-- `FlushSeries(seriesID)` after `flds.length` calls of `FlushField` (`flds` = the data lengths;
`nf` = number of fields of the metric). The deferred function re-bases Level4 at the end. -/
def flushSeries (c : Cfg) (e : Enc) (nf : Nat) (w : W) (sid : Nat) (flds : List Nat) : W :=
  if flds.isEmpty then { w with l4 := w.size, fOffs := [] } else   -- `!seriesHasData`
  let w := writeEntry e nf (enterBucket c e w sid) sid flds
  { w with l4 := w.size, fOffs := [] }

/-- a flushed metric block: the writer's final state + where the field metas start
(`seriesBucket = metricBlock[:fieldMetaStartPos]`). -/
structure Blk where
  w : W
  metasAt : Nat
  nf : Nat

/-- `PrepareMetric`, one `FlushSeries` per series, the first statements of `CommitMetric`. -/
def flushBlock (c : Cfg) (e : Enc) (nf : Nat) (series : List (Nat × List Nat)) : Blk :=
  let w := series.foldl (fun w s => flushSeries c e nf w s.1 s.2) prepare
  let w := flushBucket e w
  ⟨w, w.size, nf⟩

/-! ### reader -/

/-- `FixedOffsetDecoder.GetBlock(index, dataBlock)` as a relative (start, end) pair;
`len` = `len(dataBlock)`. -/
def getBlock (offs : List Nat) (i len : Nat) : Option (Nat × Nat) :=
  match offs[i]? with
  | none => none
  | some s =>
    let e := match offs[i + 1]? with
      | some e => e
      | none => len              -- `if !ok { endOffset = len(dataBlock) }`
    if e < s ∨ len < e then none else some (s, e)

/-- distinct high keys of the series ids, ascending (the bitmap's container keys). -/
def highKeys : List Nat → List Nat
  | [] => []
  | x :: xs => let r := highKeys xs; if r.head? = some (x / 65536) then r else (x / 65536) :: r

/-- `seriesIDs.GetContainerIndex(highKey)` (only the found case is used). -/
def containerIdx (ids : List Nat) (hk : Nat) : Option Nat :=
  let ks := highKeys ids
  if ks.contains hk then some (ks.takeWhile (· ≠ hk)).length else none

/-- rank of the series inside its container (index into the low-key offsets). -/
def entryIdx (ids : List Nat) (sid : Nat) : Nat :=
  (ids.filter (fun x => x / 65536 = sid / 65536 ∧ x < sid)).length

/-- `readSeriesData` on the series entry `[es, ee)`: the absolute (start, length) of field `k`. -/
def readEntry (fldAt : Nat → Option (List Nat)) (lenAt : Nat → Option (Nat × Nat))
    (nf es ee k : Nat) : Option (Nat × Nat) :=
  if nf = 1 then (if k = 0 then some (es, ee - es) else none) else
  match lenAt ee with
  | none => none
  | some (bl, ul) =>
    let elen := ee - es
    -- `uVariantEncodingLen <= 0 || fieldOffsetsAt <= 0 || fieldOffsetsAt >= len(seriesEntryBlock)`
    if ul = 0 ∨ elen ≤ bl + ul then none else
    let fat := elen - bl - ul
    match fldAt (es + fat) with
    | none => none
    | some foffs =>
      match getBlock foffs k fat with
      | none => none
      | some (fs, fe) => some (es + fs, fe - fs)

/-- `metricReader.Load` + `metricLoader.Load` + `readSeriesData` for one series and field. -/
def readField (b : Blk) (sid k : Nat) : Option (Nat × Nat) :=
  if !b.w.ids.contains sid then none else
  match containerIdx b.w.ids (sid / 65536) with
  | none => none
  | some i =>
    match getBlock b.w.highOffs i b.metasAt with
    | none => none
    | some (bs, be) =>
      if be - bs ≤ 4 then none else           -- `len(level3Block) <= 4`
      match b.w.posAt be with
      | none => none
      | some pos =>
        if be - bs ≤ pos + 4 then none else   -- `lowKeyOffsetsAt+4 >= len(level3Block)`
        match b.w.lowAt (bs + pos) with
        | none => none
        | some lows =>
          match getBlock lows (entryIdx b.w.ids sid) pos with
          | none => none
          | some (es, ee) => readEntry b.w.fldAt b.w.lenAt b.nf (bs + es) (bs + ee) k

/-- what was written: `truth` of the writer. -/
def written (b : Blk) (sid k : Nat) : Option (Nat × Nat) := b.w.truth sid k

/-- every field block of every series is read back where it was written (executable check used by
the driver and the witnesses; a series whose field data are ALL empty may be skipped — by
`readSeriesData` (`fieldOffsetsAt <= 0`) or, when its bucket holds nothing else, by `Load`
(`flushLevel2SeriesBucket` writes no footer for an empty bucket) — which loses nothing). -/
def seriesOK (b : Blk) (s : Nat × List Nat) : Bool :=
  (List.range s.2.length).all (fun k =>
    match readField b s.1 k, written b s.1 k with
    | some r, some t => r == t
    | none, some t => t.2 == 0 ∧ s.2.all (· == 0)
    | _, none => false)

def lostSeries (c : Cfg) (e : Enc) (nf : Nat) (series : List (Nat × List Nat)) : List Nat :=
  let b := flushBlock c e nf series
  (series.filter (fun s => !s.2.isEmpty && !seriesOK b s)).map Prod.fst

end LinVerif.BlockLayout
