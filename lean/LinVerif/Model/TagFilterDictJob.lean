/-
C10 (round 13) — the tag value dictionary merger as a compaction JOB: one `indexKVMerger` object whose
`Merge(bucketID, buckets)` is called for every tag key of the job in turn. Core Lean only.

A trie is its list of (key, id) pairs (the encoding of one trie is C20's). `bucketWrite` is
`TrieBucket.Write` branch for branch; `Empties` says when `Write` empties the bucket object and
`perCall` whether `Merge` builds its bucket itself — the current source: never / yes.
-/
import LinVerif.Model.TagFilter

namespace LinVerif.TagFilter

abbrev Trie := List (Bytes × ValId)

/-- when `TrieBucket.Write` empties the bucket object (`b.kvs = b.kvs[:0]`): `never` = the current
source (the tries stay in `b.kvs`), `exceptNoPending` = emptied at the end but `case 0: return nil`
leaves before that, `always` = emptied on every path -/
inductive Empties | never | exceptNoPending | always
  deriving DecidableEq, Repr

/-- `TrieBucket.Write` on the bucket's tries `kvs`: `sort.Slice` by size (parameter `srt`, in place);
tries of at least `bs` keys are written through; `switch len(pending)`: `0` → return, `1` → written as
it is, default → all pending tries iterated into one key/id list and cut into blocks of `bs` again.
Result: (the tries written, the bucket's tries afterwards). -/
def bucketWrite (srt : List Trie → List Trie) (bs : Nat) (em : Empties) (kvs : List Trie) :
    List Trie × List Trie :=
  let s := srt kvs
  let big := s.filter (fun t => decide (bs ≤ t.length))
  match s.filter (fun t => !decide (bs ≤ t.length)) with
  | [] => (big, if em = .always then [] else s)
  | [p] => (big ++ [p], if em = .never then s else [])
  | p :: q :: r => (big ++ blocksOf bs (mergeTries (p :: q :: r)), if em = .never then s else [])

/-- one `indexKVMerger.Merge` call: the bucket is `model.NewTrieBucket()` (`perCall`) or the one the
merger carries; `Unmarshal` of every input bucket APPENDS its tries; then `Write`. -/
def mergeCall (srt : List Trie → List Trie) (bs : Nat) (em : Empties) (perCall : Bool)
    (carried : List Trie) (inputs : List (List Trie)) : List Trie × List Trie :=
  bucketWrite srt bs em ((if perCall then [] else carried) ++ inputs.flatten)

/-- a compaction job: the calls `(bucket id, input buckets)` in turn on one merger object; the tries
the bucket object holds after a call are what the next call starts from (unless `perCall`). -/
def dictJob (srt : List Trie → List Trie) (bs : Nat) (em : Empties) (perCall : Bool) :
    List Trie → List (Nat × List (List Trie)) → List (Nat × List Trie)
  | _, [] => []
  | carried, (k, ins) :: rest =>
    (k, (mergeCall srt bs em perCall carried ins).1) ::
      dictJob srt bs em perCall (mergeCall srt bs em perCall carried ins).2 rest

/-- how the source empties the bucket, from the facts read off `TrieBucket.Write`: does it assign
`b.kvs` at all, and does the `case 0` of its switch end in a `return` -/
def emptiesOfSource (assignsKvs : Bool) (switchEnds : List String) : Empties :=
  if !assignsKvs then .never
  else if switchEnds.all (fun e => !(e.endsWith "|return")) then .always
  else .exceptNoPending

end LinVerif.TagFilter
