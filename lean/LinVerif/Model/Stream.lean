/-
Byte-exact model of pkg/stream/writer.go (BufferWriter), pkg/stream/reader.go (Reader) and
pkg/encoding/tsd_stream.go (multi-field TSD stream), core Lean only.

`Reader.orig` is `r.original`; `Reader.rem` is what the inner `bytes.Reader` still holds (always
a suffix of `orig`), so `Position() = len(orig) - len(rem)`. `err` is `r.err`, which most methods
overwrite (also with nil) — it is not sticky except in `ReadSlice`.
-/
import LinVerif.Model.Tsd

namespace LinVerif.Stream
open LinVerif.Varint

/-! ### writer -/

def le16 (x : Nat) : List Nat := [x % 256, x / 256 % 256]
def le32 (x : Nat) : List Nat := [x % 256, x / 256 % 256, x / 65536 % 256, x / 16777216 % 256]
def le64 (x : Nat) : List Nat := le32 (x % two32) ++ le32 (x / two32 % two32)

/-- `BufferWriter` over its buffer content (`bytes.Buffer.Write` never fails) -/
structure Writer where
  buf : List Nat
  deriving DecidableEq, Repr

def Writer.fresh : Writer := ⟨[]⟩
def Writer.reset (_w : Writer) : Writer := ⟨[]⟩
def Writer.putByte (w : Writer) (b : Nat) : Writer := ⟨w.buf ++ [b]⟩
def Writer.putBytes (w : Writer) (bs : List Nat) : Writer := ⟨w.buf ++ bs⟩
def Writer.putUint16 (w : Writer) (v : Nat) : Writer := ⟨w.buf ++ le16 v⟩
def Writer.putUint32 (w : Writer) (v : Nat) : Writer := ⟨w.buf ++ le32 v⟩
def Writer.putUint64 (w : Writer) (v : Nat) : Writer := ⟨w.buf ++ le64 v⟩
/-- `PutUvarint32(v)` = `PutUvarint64(uint64(v))` -/
def Writer.putUvarint (w : Writer) (v : Nat) : Writer := ⟨w.buf ++ Varint.putUvarint v⟩
/-- `PutVarint32(v)` = `PutVarint64(int64(v))` -/
def Writer.putVarint (w : Writer) (v : Int) : Writer := ⟨w.buf ++ Varint.putVarint v⟩

/-! ### reader -/

inductive SErr | none | eof | overflow | unexpected
  deriving DecidableEq, Repr

def ofRErr : RErr → SErr
  | .none => .none
  | .eof => .eof
  | .overflow => .overflow

structure Reader where
  orig : List Nat
  rem : List Nat
  err : SErr
  deriving DecidableEq, Repr

/-- `NewReader(data)` / `Reset(data)` -/
def Reader.fresh (data : List Nat) : Reader := ⟨data, data, .none⟩
def Reader.reset (_r : Reader) (data : List Nat) : Reader := ⟨data, data, .none⟩

def Reader.position (r : Reader) : Nat := r.orig.length - r.rem.length
def Reader.empty (r : Reader) : Bool := r.rem.length = 0

/-- `ReadByte()` -/
def Reader.readByte (r : Reader) : Nat × Reader :=
  match r.rem with
  | [] => (0, { r with err := .eof })
  | b :: rest => (b, { r with rem := rest, err := .none })

/-- `ReadUvarint64()` -/
def Reader.readUvarint64 (r : Reader) : Nat × Reader :=
  let (v, rest, e) := readUvarint r.rem
  (v, { r with rem := rest, err := ofRErr e })

/-- `ReadUvarint32()` = `uint32(ReadUvarint64())` -/
def Reader.readUvarint32 (r : Reader) : Nat × Reader :=
  let (v, r1) := r.readUvarint64
  (v % two32, r1)

/-- `ReadVarint64()` -/
def Reader.readVarint64 (r : Reader) : Int × Reader :=
  let (v, rest, e) := readVarint r.rem
  (v, { r with rem := rest, err := ofRErr e })

/-- `ReadVarint32()` = `int32(ReadVarint64())` -/
def Reader.readVarint32 (r : Reader) : Int × Reader :=
  let (v, r1) := r.readVarint64
  (toI32 v, r1)

/-- `ReadSlice(n)` -/
def Reader.readSlice (r : Reader) (n : Int) : List Nat × Reader :=
  if n < 0 then ([], { r with err := .unexpected })
  else if r.err ≠ .none then ([], r)
  else if n.toNat > r.rem.length then (r.rem, { r with rem := [], err := .eof })
  else (r.rem.take n.toNat, { r with rem := r.rem.drop n.toNat })

def rdLE (bs : List Nat) : Nat := bs.foldr (fun b acc => b + 256 * acc) 0

/-- `ReadUint16/32/64()`: `ReadSlice(k)`, 0 when fewer than `k` bytes came back -/
def Reader.readUintN (r : Reader) (k : Nat) : Nat × Reader :=
  let (bs, r1) := r.readSlice k
  (if bs.length ≠ k then 0 else rdLE bs, r1)

/-- the loop of `ReadBytes(n)` -/
def Reader.readBytesLoop : Nat → Reader → List Nat → List Nat × Reader
  | 0, r, acc => (acc, r)
  | k + 1, r, acc =>
    let (b, r1) := r.readByte
    if r1.err ≠ .none then (acc, r1) else Reader.readBytesLoop k r1 (acc ++ [b])

/-- `ReadBytes(n)` -/
def Reader.readBytes (r : Reader) (n : Int) : List Nat × Reader :=
  if n < 0 then ([], { r with err := .unexpected })
  else Reader.readBytesLoop n.toNat r []

/-- `ReadAt(pos)` -/
def Reader.readAt (r : Reader) (p : Int) : Reader :=
  if p < 0 then { r with err := .unexpected }
  else if p.toNat > r.orig.length then { r with rem := [], err := .eof }
  else { r with rem := r.orig.drop p.toNat, err := .none }

/-- `UnreadSlice()` -/
def Reader.unreadSlice (r : Reader) : List Nat := if r.err ≠ .none then [] else r.rem

/-- `ReadUntil(c)`: `ReadSlice(IndexByte(UnreadSlice(), c) + 1)` -/
def Reader.readUntil (r : Reader) (c : Nat) : List Nat × Reader :=
  let u := r.unreadSlice
  let off : Int := match u.findIdx? (· == c) with
    | some i => (i : Int)
    | none => -1
  r.readSlice (off + 1)

/-! ### TSD stream (several fields over one time range) -/

/-- `NewTSDStreamWriter(start, end)` -/
def tsdStreamNew (s e : Nat) : Writer := (Writer.fresh.putUint16 s).putUint16 e

/-- `WriteField(pFieldID, data)` -/
def tsdStreamWriteField (w : Writer) (id : Nat) (data : List Nat) : Writer :=
  ((w.putUint16 id).putUvarint (data.length % two32)).putBytes data

/-- `tsdStreamReader`: the stream reader, the time range, the (pooled) field decoder -/
structure TsdStreamReader where
  r : Reader
  startTime : Nat
  endTime : Nat
  field : Tsd.Dec
  deriving DecidableEq, Repr

/-- `NewTSDStreamReader(data)`; `pooled` is whatever `GetTSDDecoder()` handed out -/
def TsdStreamReader.new (data : List Nat) (pooled : Tsd.Dec) : TsdStreamReader :=
  let (s, r1) := (Reader.fresh data).readUintN 2
  let (e, r2) := r1.readUintN 2
  { r := r2, startTime := s, endTime := e, field := pooled }

/-- `HasNext()` -/
def TsdStreamReader.hasNext (sr : TsdStreamReader) : Bool := !sr.r.empty

/-- `Next()` → (field id, field bytes, reader); the decoder is re-armed on the field bytes -/
def TsdStreamReader.next (sr : TsdStreamReader) : Nat × List Nat × TsdStreamReader :=
  let (id, r1) := sr.r.readUintN 2
  let (n, r2) := r1.readUvarint32
  let (data, r3) := r2.readSlice (n : Int)
  (id, data, { sr with r := r3, field := sr.field.resetWithTimeRange data sr.startTime sr.endTime })

end LinVerif.Stream
