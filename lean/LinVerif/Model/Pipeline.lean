/-
Model of lindb's query pipeline (property C19), core Lean only.

Go anchors
  query/pipeline.go                    pipeline.Execute / pipeline.executeStage
  query/pipeline_state_matchine.go     pipelineStateMachine.executeStage / completeStage / complete / isCompleted
  query/stage/base_stage.go            baseStage.Execute (inline or pooled task, errHandle as the task's panic handler)
  internal/concurrent/pool.go          workerPool.execTask (recover → task.panicHandle)
  query/context/leaf_execute_context.go  LeafExecuteContext.SendResponse (second CAS)

A *stage tree* gives, for every stage, how it is run (`inline`, `pooled`, or pooled but `rejected`
by its pool: stopped pool / cancelled context), whether its `Plan()` panics, what its execution does
(`ok | error | panic | nextPanic` = `NextStages()` panics in the completion handler) and which stages
`NextStages()` plans after a successful execution.  The semantics is small-step: every goroutine (the caller of `pipeline.Execute` and one
per pooled task) is a list of pending atomic instructions (its flattened continuation); one step
executes the first instruction of one goroutine.  The atomic instructions are exactly the code's
critical sections and atomic operations:

  start s     pipeline.executeStage entry: `stage == nil || p.sm.isCompleted()` (atomic load of `completed`)
  register s  sm.executeStage: one critical section under sm.mutex, contains `sm.pending.Inc()`
  launch s    `stage.Execute(stage.Plan(), …)`: `Plan()` (may panic), then pooled → `execPool.Submit(task)`
              (a new goroutine, or nothing when the pool rejects the task), else inline
  exec s      `execFn`: `stage.execute(node)` returns nil / an error / panics, or `NextStages()` panics
  track e     completeStage(stageID, err), first part: the critical section under sm.mutex
  dec e       completeStage, second part: `sm.pending.Dec() == 0`
  load own    (repaired variant only) read of the remembered first error under sm.mutex
  fire e own  sm.complete(e): `completed.CompareAndSwap(false, true)` and, for the winner, the callback

A panic unwinds the goroutine's whole continuation up to the only two `recover`s there are:
`pool.execTask` (→ `task.panicHandle` = the pooled stage's `errHandle` → `completeStage(stage, err)`)
and `pipeline.Execute` (→ `sm.complete(err)`).

Which value `completeStage` hands to `complete` is a *generated fact* (`LinVerif.Generated.C19`):
`own` = the `err` parameter of this very call (the code as it is), `first` = the first error any
stage reported (the repaired step order, fixes/C19-first-error.patch).
-/
namespace LinVerif.Pipeline

/-- how `baseStage.Execute` runs the stage -/
inductive Run where
  | inline    -- synchronous stage: `execFn()` on the goroutine that started it
  | pooled    -- `execPool.Submit(ctx, task)` accepted: the task runs on a pool worker
  | rejected  -- pooled stage whose task the pool does not accept: `Submit` returns without running it
              -- (the pool is stopped, or the query context is cancelled / past its deadline)
  deriving DecidableEq, Repr, Inhabited

/-- what `execFn` does: `stage.execute(node)` returns nil / an error / panics, or returns nil and
the completion handler's `stage.NextStages()` panics -/
inductive Outcome where
  | ok | error | panic | nextPanic
  deriving DecidableEq, Repr, Inhabited

/-- a stage: how it is run, whether its `Plan()` panics (evaluated inline by the goroutine that
starts the stage, before `Execute`), what its execution does, and the stages its `NextStages()`
returns after a successful execution -/
inductive Stage where
  | mk (run : Run) (planPanics : Bool) (out : Outcome) (children : List Stage)
  deriving Repr, Inhabited

namespace Stage
def run : Stage → Run | mk r _ _ _ => r
def planPanics : Stage → Bool | mk _ p _ _ => p
def out : Stage → Outcome | mk _ _ o _ => o
def children : Stage → List Stage | mk _ _ _ c => c
/-- `baseStage.IsAsync()`: `execPool != nil && ctx != nil` -/
def async (s : Stage) : Bool := s.run != .inline

@[simp] theorem run_mk (r p o c) : (mk r p o c).run = r := rfl
@[simp] theorem planPanics_mk (r p o c) : (mk r p o c).planPanics = p := rfl
@[simp] theorem out_mk (r p o c) : (mk r p o c).out = o := rfl
@[simp] theorem children_mk (r p o c) : (mk r p o c).children = c := rfl
end Stage

/-- the execution (or the completion handler) panics -/
def Outcome.panics : Outcome → Bool
  | .panic | .nextPanic => true
  | _ => false

/-- the argument `completeStage` passes to `complete` (regenerated from the source on every run) -/
inductive CompleteArg where
  | own    -- `sm.complete(err)`: the error of the stage that happened to finish last
  | first  -- `sm.complete(sm.firstError())`: the first error any stage reported
  deriving DecidableEq, Repr, Inhabited

structure Cfg where
  arg : CompleteArg
  /-- `pipeline.executeStage` has a deferred `recover` that completes the stage it started when the
  stage panics while executing inline (fixes/C19-stage-recover.patch); `false` = the source as it is -/
  stageRecover : Bool
  /-- `workerPool.Submit` tells the task's handler when it does not accept the task
  (fixes/C19-reject-notify.patch); `false`: the task is dropped silently -/
  rejectNotifies : Bool
  deriving DecidableEq, Repr, Inhabited

/-- atomic instructions (see the header) -/
inductive Instr where
  | start (s : Stage)
  | register (s : Stage)
  | launch (s : Stage)
  | exec (s : Stage)
  | track (e : Bool)
  | dec (e : Bool)
  | load (own : Bool)
  | fire (e : Bool) (own : Bool)
  deriving Repr, Inhabited

/-- a goroutine: `pooled = false` is the caller of `pipeline.Execute` (panics are recovered by
`Execute`), `pooled = true` a task of a `concurrent.Pool` (panics are recovered by `execTask`) -/
structure Thread where
  pooled : Bool
  code : List Instr
  deriving Repr, Inhabited

/-- one invocation of the completion callback, with ghost snapshots taken when it fired -/
structure Fired where
  /-- the callback's argument is a non-nil error -/
  arg : Bool
  /-- the `err` of the `completeStage` call that invoked `complete` was non-nil
      (`true` as well for the panic recovered by `pipeline.Execute`) -/
  own : Bool
  /-- ghost: some stage's execution had returned an error or panicked -/
  failedBefore : Bool
  /-- ghost: number of stages registered (started) so far -/
  registered : Nat
  /-- ghost: number of stages whose `completeStage` had decremented `pending` -/
  finished : Nat
  deriving DecidableEq, Repr, Inhabited

/-- the shared memory of `pipelineStateMachine` plus ghost observations -/
structure Shared where
  /-- `sm.pending` (atomic.Int32) -/
  pending : Int
  /-- `sm.completed` (atomic.Bool) -/
  completed : Bool
  /-- repaired variant: `sm.err != nil` -/
  firstErr : Bool
  /-- observation: the callback invocations, oldest first -/
  fired : List Fired
  /-- ghost counters -/
  registered : Nat
  finished : Nat
  failed : Bool
  deriving Repr, Inhabited

structure State where
  sh : Shared
  threads : List Thread
  deriving Repr, Inhabited

/-- the two closures `pipeline.executeStage` hands to `stage.Execute`; `completeHandle`:
plan and start the next stages in order, then `completeStage(stageID, nil)` -/
def handler (s : Stage) : List Instr :=
  s.children.map Instr.start ++ [Instr.track false]

/-- effect of one atomic instruction -/
structure Eff where
  sh : Shared
  code : List Instr
  spawn : List Thread

/-- a panic on a goroutine with continuation `rest`: with `stageRecover` it unwinds to the deferred
recover of the `executeStage` frame that started the stage (or, for a pooled stage's own task —
`rest = []` — to `execTask`'s recover): `completeStage(stageID, err)` and the continuation goes on.
Without it the whole continuation is lost: `execTask`'s recover (→ `panicHandle(err)` = `errHandle`
of the task's stage) or `pipeline.Execute`'s recover (→ `sm.complete(err)`). -/
def panicEff (cfg : Cfg) (sh : Shared) (pooled : Bool) (rest : List Instr) : Eff :=
  if cfg.stageRecover then ⟨{ sh with failed := true }, .track true :: rest, []⟩
  else ⟨{ sh with failed := true }, if pooled then [.track true] else [.fire true true], []⟩

/-- `i` is the first instruction of a goroutine with the remaining continuation `rest`. -/
def stepInstr (cfg : Cfg) (sh : Shared) (pooled : Bool) (i : Instr) (rest : List Instr) : Eff :=
  match i with
  | .start s =>
    -- `if stage == nil || p.sm.isCompleted() { return }`
    if sh.completed then ⟨sh, rest, []⟩ else ⟨sh, .register s :: rest, []⟩
  | .register s =>
    -- sm.executeStage: Lock; pending.Inc(); bookkeeping; Unlock
    ⟨{ sh with pending := sh.pending + 1, registered := sh.registered + 1 }, .launch s :: rest, []⟩
  | .launch s =>
    -- `stage.Execute(stage.Plan(), …)`: the argument `stage.Plan()` is evaluated first, inline
    if s.planPanics then panicEff cfg sh pooled rest
    else
      -- baseStage.Execute: `if stage.IsAsync() { execPool.Submit(ctx, NewTask(execFn, errHandle)) } else { execFn() }`
      match s.run with
      | .inline => ⟨sh, .exec s :: rest, []⟩
      | .pooled => ⟨sh, rest, [⟨true, [.exec s]⟩]⟩
      | .rejected =>
        -- workerPool.Submit: `if … p.Stopped() { return }` / `case <-ctx.Done(): return`
        if cfg.rejectNotifies then
          -- repaired: the pool calls the task's handler (`errHandle`) → completeStage(stageID, err)
          ⟨{ sh with failed := true }, .track true :: rest, []⟩
        else ⟨sh, rest, []⟩   -- the registered stage never runs and is never completed
  | .exec s =>
    match s.out with
    | .ok => ⟨sh, handler s ++ rest, []⟩                        -- completeHandle()
    | .error => ⟨{ sh with failed := true }, .track true :: rest, []⟩   -- errHandle(err)
    | .panic => panicEff cfg sh pooled rest
    | .nextPanic => panicEff cfg sh pooled rest   -- completeHandle(): `stage.NextStages()` panics first
  | .track e =>
    -- completeStage: Lock; (repaired: if err != nil && sm.err == nil { sm.err = err }); bookkeeping; Unlock
    ⟨{ sh with firstErr := sh.firstErr || (decide (cfg.arg = .first) && e) }, .dec e :: rest, []⟩
  | .dec e =>
    -- `if sm.pending.Dec() == 0 { sm.complete(…) }`
    let p := sh.pending - 1
    let sh' := { sh with pending := p, finished := sh.finished + 1 }
    if p = 0 then
      match cfg.arg with
      | .own => ⟨sh', .fire e e :: rest, []⟩
      | .first => ⟨sh', .load e :: rest, []⟩
    else ⟨sh', rest, []⟩
  | .load own =>
    -- sm.firstError(): Lock; read sm.err; Unlock
    ⟨sh, .fire sh.firstErr own :: rest, []⟩
  | .fire e own =>
    -- `if sm.completed.CompareAndSwap(false, true) && sm.completedCallbackFn != nil { sm.completedCallbackFn(err) }`
    if sh.completed then ⟨sh, rest, []⟩
    else ⟨{ sh with completed := true,
                    fired := sh.fired ++ [⟨e, own, sh.failed, sh.registered, sh.finished⟩] }, rest, []⟩

/-- goroutine `n` executes its next atomic instruction; `none` when it does not exist or has finished -/
def stepAt (cfg : Cfg) (s : State) (n : Nat) : Option State :=
  match s.threads[n]? with
  | some ⟨pooled, i :: rest⟩ =>
    let e := stepInstr cfg s.sh pooled i rest
    some ⟨e.sh, s.threads.set n ⟨pooled, e.code⟩ ++ e.spawn⟩
  | _ => none

/-- `pipeline.Execute(root)` has just been called on a fresh pipeline -/
def init (root : Stage) : State :=
  ⟨⟨0, false, false, [], 0, 0, false⟩, [⟨false, [.start root]⟩]⟩

/-- every state any schedule can reach -/
inductive Reachable (cfg : Cfg) (s0 : State) : State → Prop where
  | refl : Reachable cfg s0 s0
  | step {s s' : State} {n : Nat} : Reachable cfg s0 s → stepAt cfg s n = some s' → Reachable cfg s0 s'

/-- no goroutine has an instruction left: the end of a maximal run -/
def Terminal (s : State) : Prop := ∀ t ∈ s.threads, t.code = []

/-- run a schedule (a list of goroutine indices); `none` if some index is not runnable -/
def runSched (cfg : Cfg) : State → List Nat → Option State
  | s, [] => some s
  | s, n :: ns => match stepAt cfg s n with
    | some s' => runSched cfg s' ns
    | none => none

theorem runSched_reachable {cfg : Cfg} {s0 : State} :
    ∀ (sched : List Nat) (s s' : State), Reachable cfg s0 s → runSched cfg s sched = some s' → Reachable cfg s0 s'
  | [], s, s', hr, h => by simp [runSched] at h; subst h; exact hr
  | n :: ns, s, s', hr, h => by
    simp only [runSched] at h
    cases hs : stepAt cfg s n with
    | none => simp [hs] at h
    | some s1 =>
      simp only [hs] at h
      exact runSched_reachable ns s1 s' (Reachable.step hr hs) h

/-! ### stage-tree predicates used by the theorems -/

mutual
/-- nothing in the tree loses a completion under `cfg`: a panic (in `Plan()`, in the execution, in
`NextStages()`) occurs only if `executeStage` recovers and completes the stage, a rejected task only
if the pool notifies the task's handler -/
def Stage.clean (cfg : Cfg) : Stage → Bool
  | .mk r pp o cs =>
    ((!pp && !o.panics) || cfg.stageRecover) && (r != .rejected || cfg.rejectNotifies) && cleanL cfg cs
def cleanL (cfg : Cfg) : List Stage → Bool
  | [] => true
  | c :: cs => c.clean cfg && cleanL cfg cs
end

mutual
/-- every pool accepts every task (no stopped pool, no cancelled context): the quantifier of the
property ("returning, failing or panicking") -/
def Stage.noReject : Stage → Bool
  | .mk r _ _ cs => r != .rejected && noRejectL cs
def noRejectL : List Stage → Bool
  | [] => true
  | c :: cs => c.noReject && noRejectL cs
end

mutual
/-- no stage of the tree panics (anywhere) and no task is rejected by its pool -/
def Stage.noPanic : Stage → Bool
  | .mk r pp o cs => !pp && !o.panics && r != .rejected && noPanicL cs
def noPanicL : List Stage → Bool
  | [] => true
  | c :: cs => c.noPanic && noPanicL cs
end

mutual
/-- (source without the stage-level recover) every panic sits where the code recovers it *and*
completes the stage: the execution of a pooled stage (its own task: `execTask`'s recover completes
it through `errHandle`), or anything running inline on the goroutine that called
`pipeline.Execute` (`onMain`; `Execute`'s recover calls `complete`); no task is rejected. -/
def Stage.recoverable (onMain : Bool) : Stage → Bool
  | .mk r pp o cs =>
    r != .rejected && (!pp || onMain) &&
    (if r = .inline then (!o.panics || onMain) && recoverableL onMain cs
     else recoverableL false cs)
def recoverableL (onMain : Bool) : List Stage → Bool
  | [] => true
  | c :: cs => c.recoverable onMain && recoverableL onMain cs
end

mutual
/-- number of stages -/
def Stage.size : Stage → Nat
  | .mk _ _ _ cs => 1 + sizeL cs
def sizeL : List Stage → Nat
  | [] => 0
  | c :: cs => c.size + sizeL cs
end

/-! ### LeafExecuteContext.SendResponse -/

/-- `LeafExecuteContext`: `completed` flag and the responses put on the stream (`true` = error message) -/
structure Leaf where
  completed : Bool
  sent : List Bool
  deriving DecidableEq, Repr, Inhabited

def Leaf.init : Leaf := ⟨false, []⟩

/-- `SendResponse(err)`: `if ctx.completed.CompareAndSwap(false, true) { … ctx.sendResponse(…) }` -/
def Leaf.sendResponse (l : Leaf) (err : Bool) : Leaf :=
  if l.completed then l else ⟨true, l.sent ++ [err]⟩

/-- the leaf processor's callback is `leafExecuteCtx.SendResponse(err)`: the responses a request
produces, given the callback invocations -/
def responses (fired : List Fired) : List Bool :=
  (fired.foldl (fun l f => l.sendResponse f.arg) Leaf.init).sent

/-! ### the plan node between an operator and its stage (query/stage/plan_node.go)

`baseStage.execute` calls `planNode.ExecuteWithStats`, which runs the operator and attaches
statistics — for operators that implement `Stats()` (seriesFiltering, metricAllSeries, dataLoad) the
operator's own ones too. What the stage sees (`Stage.out`) is what the plan node hands on. -/

/-- what an operator does -/
inductive OpResult where
  | ok | error | panic
  deriving DecidableEq, Repr

/-- `planNode.ExecuteWithStats`; `returnsOperatorError` is the regenerated fact "every return site
after the operator ran returns the operator's own error" (`true` = the source as it is); the only
other shape seen so far drops the error of a trackable operator -/
def planNodeExec (returnsOperatorError trackable : Bool) (r : OpResult) : OpResult :=
  match r with
  | .panic => .panic            -- nothing between the operator and the stage recovers
  | .ok => .ok
  | .error => if !returnsOperatorError && trackable then .ok else .error

/-! ### one task request on the leaf node (query/task_handler.go, query/leaf_processor.go)

`TaskHandler.process` hands the request to its task pool; the task calls
`leafTaskProcessor.Process`. A response is sent at exactly these sites: the pipeline's completion
callback (`LeafExecuteContext.SendResponse` for a data search, `stream.Send` for a metadata suggest),
`TaskHandler.process` when `Process` returns an error, and the task's panic handler. -/

/-- what happens to a request -/
inductive LeafReq where
  /-- `Process` returns an error before any pipeline exists (unreadable plan / statement, node not in
  the plan, unknown database): `TaskHandler.process` answers -/
  | refused
  /-- a request type `Process` does not dispatch (`default: … return nil`): nobody answers -/
  | omitted
  /-- the task pool does not accept the request (stopped pool / cancelled context) -/
  | rejected
  /-- `processDataSearch` / `processMetadataSuggest` execute a pipeline; `tolerated`: the stages fail
  with a not-found error, which the metadata callback answers as an empty result without error -/
  | run (tolerated : Bool) (root : Stage)

structure ReqCfg where
  /-- regenerated fact: `processDataSearch` / `processMetadataSuggest` return something else than `nil`
  after the pipeline was executed, i.e. `TaskHandler.process` answers an error the completion
  callback has already answered (`false` = the source as it is) -/
  processReturnsPipelineErr : Bool
  /-- regenerated fact `submitRejectNotifies` -/
  rejectNotifies : Bool
  /-- regenerated fact: some function of query/context other than `SendResponse` calls the unguarded
  `sendResponse` (`false` = the source as it is: `unguardedSendResponseCallers = []`) -/
  collectUnguarded : Bool

/-- the `SendResponse` calls of a data-search request in the order they happen: a failing group-by
tag value collect (`LeafGroupingContext.collectGroupByTagValues`, run in the `Complete()` hook of the
last grouping task, i.e. inside `completeStage` of a stage, hence before the pipeline's completion
callback) and then the completion callback -/
def sendResponseCalls (collectFails : Bool) (fired : List Fired) : List Bool :=
  (if collectFails then [true] else []) ++ fired.map Fired.arg

/-- the responses of a request whose pipeline ended in state `s` (`true` = error response).
Every responder goes through `LeafExecuteContext.SendResponse`'s CAS — unless the collect answers
through the unguarded `sendResponse` (`collectUnguarded`), or `Process` hands the pipeline's error to
`TaskHandler.process` as well (`processReturnsPipelineErr`). -/
def runResponses (rc : ReqCfg) (tolerated collectFails : Bool) (s : State) : List Bool :=
  let guarded :=
    if rc.collectUnguarded then (s.sh.fired.map Fired.arg).foldl Leaf.sendResponse Leaf.init
    else (sendResponseCalls collectFails s.sh.fired).foldl Leaf.sendResponse Leaf.init
  let cb := guarded.sent
  (if rc.collectUnguarded && collectFails then [true] else []) ++
  (if tolerated then cb.map (fun _ => false) else cb) ++
    (if rc.processReturnsPipelineErr && !tolerated && s.sh.fired.any (·.arg) then [true] else [])

/-- the responses of a request that never reaches a pipeline -/
def noPipelineResponses (rc : ReqCfg) : LeafReq → List Bool
  | .refused => [true]
  | .omitted => []
  | .rejected => if rc.rejectNotifies then [true] else []
  | .run _ _ => []

/-! ### the source step orders the instructions stand for

The fact extractor (`harness/internal/extract/facts_c19.go`) re-reads these from /repo on every run
(calls, field stores, returns and branch conditions in source order, prefixed by the enclosing
branch / closure / defer) and `Props/C19.lean` proves the regenerated lists equal to the ones below. -/

/-- the variant the regenerated facts `completePassesFirstError`, `stageRecoversPanic`,
`submitRejectNotifies` select -/
def cfgOf (passesFirstError stageRecovers rejectNotifies : Bool) : Cfg :=
  ⟨if passesFirstError then .first else .own, stageRecovers, rejectNotifies⟩

/-- the `Complete()` hook inside `completeStage`'s critical section: called directly (`false`, the
source as it is: a panic of the hook leaves `sm.mutex` locked, see Model/CompleteLock.lean) or inside
a recover whose error is remembered as the first error (`true`, fixes/C19-complete-hook-recover.patch) -/
def completeHookOrder : Bool → List String
  | false => ["then:s.stage.Complete()"]
  | true => ["then:safeComplete(s.stage)", "then:if hookErr != nil && sm.err == nil", "then:then:sm.err = hookErr"]

/-- `pipelineStateMachine.completeStage`: `track` = the section between Lock and Unlock, `dec` = the
`Dec() == 0` test, then `fire e e` (own) resp. `load`, `fire firstErr` (first) -/
def completeStageOrder : CompleteArg → Bool → List String
  | .own, g => ["sm.mutex.Lock()"] ++ completeHookOrder g ++ ["sm.mutex.Unlock()",
             "if sm.pending.Dec() == 0", "then:sm.complete(err)"]
  | .first, g => ["sm.mutex.Lock()", "if err != nil && sm.err == nil", "then:sm.err = err"] ++
               completeHookOrder g ++ ["sm.mutex.Unlock()",
               "if sm.pending.Dec() == 0", "then:sm.firstError()", "then:sm.complete(sm.firstError())"]

/-- `pipelineStateMachine.firstError` (`load`); absent in the `own` variant -/
def firstErrorOrder : CompleteArg → List String
  | .own => []
  | .first => ["sm.mutex.Lock()", "defer:sm.mutex.Unlock()", "return sm.err"]

/-- `pipelineStateMachine.complete` (`fire`) -/
def completeOrder : List String :=
  ["if sm.completed.CompareAndSwap(false, true) && sm.completedCallbackFn != nil",
   "then:sm.completedCallbackFn(err)"]

/-- `pipelineStateMachine.isCompleted` (read by `start`) -/
def isCompletedOrder : List String := ["sm.completed.Load()", "return sm.completed.Load()"]

/-- `pipelineStateMachine.executeStage` (`register`) -/
def registerOrder : List String := ["sm.mutex.Lock()", "defer:sm.mutex.Unlock()", "sm.pending.Inc()"]

/-- `pipeline.Execute`: the top-level recover calls `sm.complete(err)` -/
def pipelineExecuteOrder : List String :=
  ["defer:λ1:recover()", "defer:λ1:then:p.sm.complete(err)", "p.executeStage(\"\", stage)"]

/-- `pipeline.executeStage` (`start`, `register`, `launch`; λ1 = `handler`, λ2 = the error handler);
with `stageRecover` the deferred recover that completes the stage -/
def pipelineExecuteStageOrder (stageRecover : Bool) : List String :=
  ["if stage == nil || p.sm.isCompleted()", "p.sm.executeStage(parentStageID, stageID, stage)"] ++
  (if stageRecover then
    ["defer:λ1:recover()", "defer:λ1:then:p.sm.completeStage(stageID, errorpkg.Error(r))"] else []) ++
  ["stage.Execute(stage.Plan(), (func() literal), (func(err error) literal))",
   "λ1:stage.NextStages()", "λ1:loop:p.executeStage(stageID, nextStages[idx])",
   "λ1:p.sm.completeStage(stageID, nil)", "λ2:p.sm.completeStage(stageID, err)"]

/-- `baseStage.Execute` (`launch`, `exec`) -/
def baseStageExecuteOrder : List String :=
  ["λ1:stage.execute(node)", "λ1:then:errHandle(err)", "λ1:else:completeHandle()", "if stage.IsAsync()",
   "then:concurrent.NewTask((func() literal), errHandle)",
   "then:stage.execPool.Submit(stage.ctx, concurrent.NewTask((func() literal), errHandle))",
   "then:λ1:execFn()", "else:execFn()"]

def baseStageIsAsyncOrder : List String := ["return stage.execPool != nil && stage.ctx != nil"]

/-- `planNode.ExecuteWithStats`: the named result `err` is assigned from `p.op.Execute()` only and
returned by the bare `return`; the stats are attached in a deferred closure -/
def planNodeExecuteWithStatsOrder : List String :=
  ["if p.op == nil", "then:return nil, nil", "defer:λ1:then:track.Stats()",
   "defer:λ1:then:stats.Stats = track.Stats()", "p.op.Execute()", "return"]

/-- `workerPool.execTask`: recover → `task.panicHandle(err)` -/
def execTaskOrder : List String :=
  ["defer:λ1:recover()", "defer:λ1:then:if task.panicHandle != nil",
   "defer:λ1:then:then:task.panicHandle(err)", "task.Exec()"]

/-- `workerPool.Submit` (`launch` of a pooled / rejected stage); with `rejectNotifies` both rejection
paths go through `reject`, which calls the task's handler -/
def submitOrder : Bool → List String
  | false => ["if task.handle == nil || p.Stopped()", "case <-ctx.Done():", "case p.tasks <- task:"]
  | true => ["if task.handle == nil", "if p.Stopped()", "then:p.reject(task, errPoolStopped)",
             "case <-ctx.Done():", "case:ctx.Err()", "case:p.reject(task, ctx.Err())", "case p.tasks <- task:"]

/-- `workerPool.reject`; absent without `rejectNotifies` -/
def rejectOrder : Bool → List String
  | false => []
  | true => ["if task.panicHandle != nil", "then:task.panicHandle(err)"]

/-- `LeafExecuteContext.SendResponse` (`Leaf.sendResponse`) -/
def sendResponseOrder : List String :=
  ["if ctx.completed.CompareAndSwap(false, true)", "then:then:ctx.sendResponse(nil, err)",
   "then:then:ctx.sendResponse(nil, err)", "then:ctx.sendResponse(resultSet, nil)"]


/-- `leafTaskProcessor.Process` (returns, dispatch on the request type) -/
def leafProcessOrder : List String :=
  ["if err != nil", "then:return fmt.Errorf(\"%w: %s\", ErrUnmarshalPlan, err)", "then:return fmt.Errorf(\"%w, i: %s am not a leaf node\", ErrBadPhysicalPlan, p.currentNodeID)", "then:return fmt.Errorf(\"%w: %s\", ErrNoDatabase, physicalPlan.Database)", "switch req.RequestType", "case protoCommonV1.RequestType_Data:", "case:p.processDataSearch(ctx, db, req, curLeaf, physicalPlan.Receivers)", "case:if err != nil", "case:then:return err", "case protoCommonV1.RequestType_Metadata:", "case:p.processMetadataSuggest(ctx, db, curLeaf.ShardIDs, req, stream)", "case:if err != nil", "case:then:return err", "default:", "case:return nil", "return nil"]

/-- `leafTaskProcessor.processDataSearch`: the callback answers, the function returns `nil` -/
def leafProcessDataSearchOrder : List String :=
  ["if err != nil", "then:return ErrUnmarshalQuery", "newExecutePipelineFn(tracker, (func(err error) literal))", "λ1:leafExecuteCtx.SendResponse(err)", "pipeline.Execute(stage.NewMetadataLookupStage(leafExecuteCtx))", "return nil"]

/-- `leafTaskProcessor.processMetadataSuggest`: the callback answers, the function returns `nil` -/
def leafProcessMetadataSuggestOrder : List String :=
  ["if err != nil", "then:return ErrUnmarshalSuggest", "newExecutePipelineFn(trackerpkg.NewStageTracker(ctx), (func(err error) literal))", "λ1:if err != nil && !errors.Is(err, constants.ErrNotFound)", "λ1:stream.Send(&protoCommonV1.TaskResponse{…})", "λ1:if err != nil", "pipeline.Execute(stage.NewMetadataSuggestStage(leafExecuteCtx))", "return nil"]

/-- `LeafGroupingContext.collectGroupByTagValues`: a `CollectTagValues` failure is answered through the
guarded `SendResponse(err)`, then `return` -/
def collectGroupByTagValuesOrder : List String :=
  ["then:return", "storageExecuteCtx.CollectTagValues((func() literal))", "λ1:loop:then:ctx.reduceTagValues(tagIndex, nil)", "λ1:loop:metaDB.CollectTagValues(tagKey.ID, tagValueIDs, tagValues)", "λ1:loop:if err != nil", "λ1:loop:then:ctx.leafExecuteCtx.SendResponse(err)", "λ1:loop:then:return", "λ1:loop:ctx.reduceTagValues(tagIndex, tagValues)"]

/-- `TaskHandler.process`: pool hand-over; answers a `Process` error; the panic handler answers -/
def taskHandlerProcessOrder : List String :=
  ["q.taskPool.Submit(taskCtx.Ctx, concurrent.NewTask((func() literal), (func(err error) literal)))", "λ1:q.processor.Process(taskCtx, stream, req)", "λ1:if err != nil", "λ1:then:stream.Send(&protoCommonV1.TaskResponse{…})", "λ2:stream.Send(&protoCommonV1.TaskResponse{…})"]

/-- every function of the query packages that puts a `TaskResponse` on a stream itself (with the
number of such calls). On the leaf: `LeafExecuteContext.SendResponse` (the CAS-guarded responder, three
calls of the low-level `sendResponse`, which does the one `stream.Send`), the metadata callback in
`processMetadataSuggest`, and `TaskHandler.process` (a `Process` error, the task's panic/reject
handler). `response_exactly_once` is about exactly these responders; any new site is a new responder
that the model does not know. (intermediate_processor / transport_manager: the intermediate node and
the broker-side transport, C12.) -/
def responseSendSitesExpected : List String :=
  ["query/intermediate_processor.go:processDataSearch×1", "query/intermediate_processor.go:processMetadataSearch×1",
   "query/intermediate_processor.go:sendResponse×1", "query/leaf_processor.go:processMetadataSuggest×1",
   "query/task_handler.go:process×2", "query/transport_manager.go:SendResponse×1",
   "query/context/leaf_execute_context.go:SendResponse×3", "query/context/leaf_execute_context.go:sendResponse×1"]

end LinVerif.Pipeline
