/-
Model of lindb's statement wire format (C17): sql/stmt/expr.go (`Marshal`/`Unmarshal` and the
tagged envelopes), sql/stmt/query.go (`Query.MarshalJSON`/`UnmarshalJSON`),
sql/stmt/metric_metadata.go, pkg/timeutil/interval.go (`Interval.String`/`ValueOf`/
`UnmarshalJSON`), sql/stmt/binary_operator.go. Core Lean only.

Conventions: Go's `nil` slice and empty slice are both `[]`; a nil `Expr` interface value
(possible in every child position and in `Query.Condition`/`Having`) is `Expr.nil`. Integers
are unbounded (`int`, `int64` ranges are not modelled).
-/
import LinVerif.Model.Json

namespace LinVerif.Stmt
open LinVerif.Json

/-! ## Expressions (sql/stmt/expr.go) -/

/-- `stmt.Expr` implementations. `funcType : function.FuncType` and `op : BinaryOP` are plain
Go ints on the wire, so any integer is a value of the model. -/
inductive Expr where
  | nil                                                     -- the nil interface value
  | field (name : String)                                   -- *FieldExpr
  | number (val : F64)                                      -- *NumberLiteral
  | call (funcType : Int) (params : List Expr)              -- *CallExpr
  | paren (e : Expr)                                        -- *ParenExpr
  | binary (left right : Expr) (op : Int)                   -- *BinaryExpr
  | equals (key value : String)                             -- *EqualsExpr
  | inE (key : String) (values : List String)               -- *InExpr
  | like (key value : String)                               -- *LikeExpr
  | regex (key regexp : String)                             -- *RegexExpr
  | not (e : Expr)                                          -- *NotExpr
  | selectItem (e : Expr) (alias : String)                  -- *SelectItem
  | orderBy (e : Expr) (desc : Bool)                        -- *OrderByExpr
  deriving Repr, Inhabited

/-- The type tags written by `Marshal`, by Go type name (tied to the source by
`Generated.C17.marshalTags`). -/
def marshalTagTable : List (String × String) :=
  [("RegexExpr", "regex"), ("LikeExpr", "like"), ("InExpr", "in"), ("EqualsExpr", "equals"),
   ("NumberLiteral", "number"), ("FieldExpr", "field"), ("NotExpr", "not"), ("ParenExpr", "paren"),
   ("SelectItem", "selectItem"), ("OrderByExpr", "orderBy"), ("CallExpr", "call"),
   ("BinaryExpr", "binary")]

/-- The case labels of the `switch expr.Type` in `Unmarshal`, in source order. -/
def unmarshalTagTable : List String :=
  ["regex", "like", "in", "equals", "number", "field", "paren", "binary", "selectItem",
   "orderBy", "call", "not"]

/-- json keys (and `omitempty`) of every struct that goes over the wire, in field order
(tied to the source by `Generated.C17.wireStructs`). -/
def wireStructTable : List (String × List (String × Bool)) := [
  ("exprData", [("type", false), ("expr", false)]),
  ("innerSelectItem", [("type", false), ("expr", false), ("alias", false)]),
  ("innerOrderByExpr", [("type", false), ("expr", false), ("desc", false)]),
  ("innerCallExpr", [("type", false), ("funcType", false), ("params", false)]),
  ("innerBinaryExpr", [("type", false), ("left", false), ("right", false), ("operator", false)]),
  ("FieldExpr", [("name", false)]),
  ("NumberLiteral", [("val", false)]),
  ("EqualsExpr", [("key", false), ("value", false)]),
  ("InExpr", [("key", false), ("values", false)]),
  ("LikeExpr", [("key", false), ("value", false)]),
  ("RegexExpr", [("key", false), ("regexp", false)]),
  ("innerQuery", [("explain", true), ("namespace", true), ("metricName", true), ("selectItems", true),
    ("allFields", true), ("condition", true), ("timeRange", true), ("interval", true),
    ("storageInterval", true), ("intervalRatio", true), ("autoGroupByTime", true), ("groupBy", true),
    ("having", true), ("orderByItems", true), ("limit", true)]),
  ("innerMetadata", [("namespace", true), ("metricName", true), ("type", true), ("tagKey", true),
    ("condition", true), ("prefix", true), ("limit", true)]),
  ("TimeRange", [("start", false), ("end", false)])]

/-- json keys of a wire struct -/
def structKeys (name : String) : List String :=
  match wireStructTable.find? (fun p => p.1 == name) with
  | some p => p.2.map Prod.fst
  | none => []

/-- the struct `Marshal` encodes a node with (outer envelope) -/
def Expr.envelope : Expr → String
  | .selectItem _ _ => "innerSelectItem" | .orderBy _ _ => "innerOrderByExpr"
  | .call _ _ => "innerCallExpr" | .binary _ _ _ => "innerBinaryExpr"
  | _ => "exprData"

/-- Go type name of a node. -/
def Expr.goType : Expr → String
  | .nil => "nil"
  | .field _ => "FieldExpr" | .number _ => "NumberLiteral" | .call _ _ => "CallExpr"
  | .paren _ => "ParenExpr" | .binary _ _ _ => "BinaryExpr" | .equals _ _ => "EqualsExpr"
  | .inE _ _ => "InExpr" | .like _ _ => "LikeExpr" | .regex _ _ => "RegexExpr"
  | .not _ => "NotExpr" | .selectItem _ _ => "SelectItem" | .orderBy _ _ => "OrderByExpr"

/-- The envelope tag of a node (the literal used in its `Marshal` case). -/
def Expr.tag : Expr → String
  | .nil => ""
  | .field _ => "field" | .number _ => "number" | .call _ _ => "call"
  | .paren _ => "paren" | .binary _ _ _ => "binary" | .equals _ _ => "equals"
  | .inE _ _ => "in" | .like _ _ => "like" | .regex _ _ => "regex"
  | .not _ => "not" | .selectItem _ _ => "selectItem" | .orderBy _ _ => "orderBy"

def strArr (xs : List String) : Json :=
  match xs with
  | [] => .null                       -- nil slice
  | _ => .arr (xs.map .str)

mutual
/-- `stmt.Marshal`, as the value a parent splices in. A nil expression hits the `default`
case (`return nil`): the nil `json.RawMessage` is written as `null` (see `marshalRaw` for the
bytes themselves). A `NumberLiteral` whose value is NaN/±Inf makes the inner
`encoding.JSONMarshal` fail (error only logged); that nil result is spliced as `null` too. -/
def marshal : Expr → Json
  | .nil => .null
  | .regex k r => .obj [("type", .str "regex"), ("expr", .obj [("key", .str k), ("regexp", .str r)])]
  | .like k v => .obj [("type", .str "like"), ("expr", .obj [("key", .str k), ("value", .str v)])]
  | .inE k vs => .obj [("type", .str "in"), ("expr", .obj [("key", .str k), ("values", strArr vs)])]
  | .equals k v => .obj [("type", .str "equals"), ("expr", .obj [("key", .str k), ("value", .str v)])]
  | .number f => .obj [("type", .str "number"),
                       ("expr", if f.isFinite then .obj [("val", .flt f)] else .null)]
  | .field n => .obj [("type", .str "field"), ("expr", .obj [("name", .str n)])]
  | .not e => .obj [("type", .str "not"), ("expr", marshal e)]
  | .paren e => .obj [("type", .str "paren"), ("expr", marshal e)]
  | .selectItem e a => .obj [("type", .str "selectItem"), ("expr", marshal e), ("alias", .str a)]
  | .orderBy e d => .obj [("type", .str "orderBy"), ("expr", marshal e), ("desc", .bool d)]
  | .call ft ps => .obj [("type", .str "call"), ("funcType", .int ft),
                         ("params", match ps with | [] => .null | _ => .arr (marshalList ps))]
  | .binary l r op => .obj [("type", .str "binary"), ("left", marshal l), ("right", marshal r),
                            ("operator", .int op)]
/-- the `for _, param := range e.Params { append(Marshal(param)) }` loops -/
def marshalList : List Expr → List Json
  | [] => []
  | e :: es => marshal e :: marshalList es
end

/-- `stmt.Marshal` as bytes: nil (no message, `none`) for a nil expression. -/
def marshalRaw : Expr → Option Json
  | .nil => none
  | e => some (marshal e)

/-! ### Unmarshal -/

theorem lookup_sizeOf {kvs : Fields} {k : String} {v : Json} (h : lookup kvs k = some v) :
    sizeOf v < sizeOf kvs := by
  induction kvs with
  | nil => simp [lookup] at h
  | cons hd tl ih =>
    obtain ⟨k', v'⟩ := hd
    simp only [lookup] at h
    cases hl : lookup tl k with
    | some w =>
      rw [hl] at h
      simp at h; subst h
      have := ih hl
      simp; omega
    | none =>
      rw [hl] at h
      by_cases hk : k' = k
      · simp [hk] at h; subst h; simp; omega
      · simp [hk] at h

theorem fields_sizeOf_pos (kvs : Fields) : 1 ≤ sizeOf kvs := by
  cases kvs <;> simp <;> omega

/-- termination measure of the recursive calls `Unmarshal(expr.Expr)` etc. -/
theorem rawElem_sizeOf (x : Json) : sizeOf (rawElem x) ≤ 1 + sizeOf x := by
  cases x <;> simp [rawElem]

theorem getRaw_sizeOf (kvs : Fields) (k : String) : sizeOf (getRaw kvs k) ≤ sizeOf kvs := by
  unfold getRaw
  have hp := fields_sizeOf_pos kvs
  cases hl : lookup kvs k with
  | none => simp; omega
  | some w =>
    have := lookup_sizeOf hl
    have := rawElem_sizeOf w
    simp only; omega

/-- The elements of an array-valued field (`[]json.RawMessage`); `[]` when the field is absent,
`null` or not an array (`getRawList` reports the error in the last case). -/
def arrElems (kvs : Fields) (k : String) : List Json :=
  match lookup kvs k with
  | some (.arr xs) => xs
  | _ => []

theorem arrElems_sizeOf (kvs : Fields) (k : String) : sizeOf (arrElems kvs k) ≤ sizeOf kvs := by
  unfold arrElems
  have hp := fields_sizeOf_pos kvs
  split
  · rename_i xs hl
    have := lookup_sizeOf hl
    simp at this; omega
  · simp; omega

/-- `unmarshal(&exprData, &RegexExpr{})` etc.: `encoding.JSONUnmarshal(exprData.Expr, leaf)`;
an empty RawMessage is a decoding error, `null` leaves the zero struct. -/
def leafFields (raw : Option Json) : Except Err Fields :=
  match raw with
  | none => .error .syntax
  | some j => structFields j

def unmarshalRegex (raw : Option Json) : Except Err Expr := do
  let fs ← leafFields raw
  let k ← getStr fs "key"
  let r ← getStr fs "regexp"
  pure (.regex k r)

def unmarshalLike (raw : Option Json) : Except Err Expr := do
  let fs ← leafFields raw
  let k ← getStr fs "key"
  let v ← getStr fs "value"
  pure (.like k v)

def unmarshalIn (raw : Option Json) : Except Err Expr := do
  let fs ← leafFields raw
  let k ← getStr fs "key"
  let vs ← getStrList fs "values"
  pure (.inE k vs)

def unmarshalEquals (raw : Option Json) : Except Err Expr := do
  let fs ← leafFields raw
  let k ← getStr fs "key"
  let v ← getStr fs "value"
  pure (.equals k v)

def unmarshalNumber (raw : Option Json) : Except Err Expr := do
  let fs ← leafFields raw
  let f ← getFlt fs "val"
  pure (.number f)

def unmarshalField (raw : Option Json) : Except Err Expr := do
  let fs ← leafFields raw
  let n ← getStr fs "name"
  pure (.field n)

mutual
/-- `stmt.Unmarshal`. `raw = none` is the empty `json.RawMessage` (absent or `null` field of the
parent): `encoding.JSONUnmarshal` fails on it. The text `null` decodes to the zero `exprData`,
whose empty tag falls to the `default` case. For `call`/`binary`/`selectItem`/`orderBy` the
whole value is decoded a second time into the inner struct (typed fields first, then the
children in source order). -/
def unmarshal (raw : Option Json) : Except Err Expr :=
  match raw with
  | none => .error .syntax
  | some .null => .error (.typeTag "")
  | some (.obj kvs) =>
    match getStr kvs "type" with
    | .error e => .error e
    | .ok tag =>
      if tag = "regex" then unmarshalRegex (getRaw kvs "expr")
      else if tag = "like" then unmarshalLike (getRaw kvs "expr")
      else if tag = "in" then unmarshalIn (getRaw kvs "expr")
      else if tag = "equals" then unmarshalEquals (getRaw kvs "expr")
      else if tag = "number" then unmarshalNumber (getRaw kvs "expr")
      else if tag = "field" then unmarshalField (getRaw kvs "expr")
      else if tag = "paren" then
        match unmarshal (getRaw kvs "expr") with
        | .error e => .error e
        | .ok e => .ok (.paren e)
      else if tag = "binary" then
        -- unmarshalBinary
        match getInt kvs "operator" with
        | .error e => .error e
        | .ok op =>
          match unmarshal (getRaw kvs "left") with
          | .error e => .error e
          | .ok l =>
            match unmarshal (getRaw kvs "right") with
            | .error e => .error e
            | .ok r => .ok (.binary l r op)
      else if tag = "selectItem" then
        -- unmarshalSelectItem
        match getStr kvs "alias" with
        | .error e => .error e
        | .ok a =>
          match unmarshal (getRaw kvs "expr") with
          | .error e => .error e
          | .ok e => .ok (.selectItem e a)
      else if tag = "orderBy" then
        -- unmarshalOrderByExpr
        match getBool kvs "desc" with
        | .error e => .error e
        | .ok d =>
          match unmarshal (getRaw kvs "expr") with
          | .error e => .error e
          | .ok e => .ok (.orderBy e d)
      else if tag = "call" then
        -- unmarshalCall
        match getInt kvs "funcType" with
        | .error e => .error e
        | .ok ft =>
          match getRawList kvs "params" with
          | .error e => .error e
          | .ok _ =>
            match unmarshalAll (arrElems kvs "params") with
            | .error e => .error e
            | .ok ps => .ok (.call ft ps)
      else if tag = "not" then
        match unmarshal (getRaw kvs "expr") with
        | .error e => .error e
        | .ok e => .ok (.not e)
      else .error (.typeTag tag)
  | some _ => .error .syntax
termination_by sizeOf raw
decreasing_by
  all_goals simp_wf
  all_goals
    first
    | (have := getRaw_sizeOf kvs "expr"; omega)
    | (have := getRaw_sizeOf kvs "left"; omega)
    | (have := getRaw_sizeOf kvs "right"; omega)
    | (have := arrElems_sizeOf kvs "params"; omega)
/-- `for _, item := range raws { e, err := Unmarshal(item); if err != nil { return err } ... }`
over the elements of a `[]json.RawMessage` (a `null` element is an empty message). -/
def unmarshalAll (xs : List Json) : Except Err (List Expr) :=
  match xs with
  | [] => .ok []
  | x :: rest =>
    match unmarshal (rawElem x) with
    | .error e => .error e
    | .ok p =>
      match unmarshalAll rest with
      | .error e => .error e
      | .ok ps => .ok (p :: ps)
termination_by sizeOf xs
decreasing_by
  all_goals simp_wf
  · have := rawElem_sizeOf x
    have : 1 ≤ sizeOf rest := by cases rest <;> simp <;> omega
    omega
  · omega
end

mutual
/-- no nil child anywhere and every `NumberLiteral` finite (neither NaN nor ±Inf): the trees
that survive the wire -/
def Expr.wellFormed : Expr → Bool
  | .nil => false
  | .number f => f.isFinite
  | .call _ ps => wellFormedList ps
  | .paren e => e.wellFormed
  | .binary l r _ => l.wellFormed && r.wellFormed
  | .not e => e.wellFormed
  | .selectItem e _ => e.wellFormed
  | .orderBy e _ => e.wellFormed
  | _ => true
def wellFormedList : List Expr → Bool
  | [] => true
  | e :: es => e.wellFormed && wellFormedList es
end

/-- atomic tag filters: what `stmt.TagFilter` values the parser builds (`=`, `like`, `in`, `=~`, and their negations) -/
def Expr.isTagFilter : Expr → Bool
  | .equals _ _ | .like _ _ | .inE _ _ | .regex _ _ => true
  | .not (.equals _ _) | .not (.like _ _) | .not (.inE _ _) | .not (.regex _ _) => true
  | _ => false

/-! ## BinaryOP (sql/stmt/binary_operator.go) -/

/-- (name, value, `BinaryOPString`) — the iota block and the String switch. -/
def binaryOpTable : List (String × Int × String) :=
  [("AND", 1, "and"), ("OR", 2, "or"), ("ADD", 3, "+"), ("SUB", 4, "-"), ("MUL", 5, "*"),
   ("DIV", 6, "/"), ("EQUAL", 7, "="), ("NOTEQUAL", 8, "!="), ("GREATER", 9, ">"),
   ("GREATEREQUAL", 10, ">="), ("LESS", 11, "<"), ("LESSEQUAL", 12, "<="), ("LIKE", 13, "like"),
   ("UNKNOWN", 14, "unknown")]

/-- `BinaryOPString` -/
def binaryOPString (op : Int) : String :=
  match binaryOpTable.find? (fun t => t.2.1 == op) with
  | some t => t.2.2
  | none => "unknown"

/-! ## Interval (pkg/timeutil/interval.go, lindb/common pkg/timeutil/time.go) -/

def oneSecond : Int := 1000
def oneMinute : Int := 60 * oneSecond
def oneHour : Int := 60 * oneMinute
def oneDay : Int := 24 * oneHour
def oneWeek : Int := 7 * oneDay
def oneMonth : Int := 30 * oneDay
def oneYear : Int := 365 * oneDay

/-- the `case` ladder of `Interval.String` before the `default` (unit, format suffix) -/
def stringLadder : List (Int × Char) :=
  [(oneYear, 'y'), (oneMonth, 'M'), (oneDay, 'd'), (oneHour, 'h'), (oneMinute, 'm')]

/-- the unit switch of `Interval.ValueOf` (suffix, unit) -/
def suffixUnits : List (Char × Int) :=
  [('s', oneSecond), ('S', oneSecond), ('m', oneMinute), ('h', oneHour), ('H', oneHour),
   ('d', oneDay), ('D', oneDay), ('M', oneMonth), ('y', oneYear), ('Y', oneYear)]

/-- `fmt.Sprintf("%d", v)` -/
def fmtInt (v : Int) : List Char :=
  if v < 0 then '-' :: Nat.toDigits 10 v.natAbs else Nat.toDigits 10 v.natAbs

/-- first matching `case val%unit == 0 && val/unit > 0` (Go's truncating `%` and `/`) -/
def pickUnit (val : Int) : List (Int × Char) → Option (Int × Char)
  | [] => none
  | (u, c) :: rest => if val.tmod u = 0 ∧ val.tdiv u > 0 then some (u, c) else pickUnit val rest

/-- `Interval.String` -/
def intervalChars (val : Int) : List Char :=
  match pickUnit val stringLadder with
  | some (u, c) => fmtInt (val.tdiv u) ++ [c]
  | none => fmtInt (val.tdiv oneSecond) ++ ['s']

def intervalString (val : Int) : String := String.ofList (intervalChars val)

/-- digits of `strconv.ParseInt`: at least one, decimal digits only -/
def parseDigits (ds : List Char) : Option Nat :=
  if ds ≠ [] ∧ ds.all Char.isDigit then some (Nat.ofDigitChars 10 ds 0) else none

/-- `strconv.ParseInt(s, 10, 64)` without the range check: optional sign, then digits. -/
def parseInt (cs : List Char) : Option Int :=
  match cs with
  | [] => none
  | c :: ds =>
    if c = '-' then (parseDigits ds).map (fun n => - (n : Int))
    else if c = '+' then (parseDigits ds).map (fun n => (n : Int))
    else (parseDigits (c :: ds)).map (fun n => (n : Int))

def unitOf (c : Char) : List (Char × Int) → Option Int
  | [] => none
  | (c', u) :: rest => if c' = c then some u else unitOf c rest

/-- `Interval.ValueOf` on the characters of the string: strip blanks, need more than one
character, last character selects the unit, the rest is a decimal integer. -/
def intervalValueOfChars (s : List Char) : Except Err Int :=
  let cs := s.filter (· != ' ')
  if cs.length ≤ 1 then .error .intervalUnknown else
  match cs.getLast? with
  | none => .error .intervalUnknown
  | some suf =>
    match unitOf suf suffixUnits with
    | none => .error .intervalUnknown
    | some unit =>
      match parseInt cs.dropLast with
      | none => .error .intervalUnknown
      | some v => .ok (v * unit)

def intervalValueOf (s : String) : Except Err Int := intervalValueOfChars s.toList

/-- `Interval.UnmarshalJSON`: only called when the key is present; anything but a JSON string
(including `null`) is "invalid interval". -/
def getInterval (kvs : Fields) (k : String) : Except Err Int :=
  match lookup kvs k with
  | none => .ok 0
  | some (.str s) => intervalValueOf s
  | some _ => .error .intervalInvalid

/-! ## Query (sql/stmt/query.go) -/

structure TimeRange where
  start : Int
  stop : Int                 -- `End`
  deriving DecidableEq, Repr, Inhabited

structure Query where
  explain : Bool
  ns : String
  metricName : String
  selectItems : List Expr
  allFields : Bool
  condition : Expr           -- `Expr.nil` when there is no where-clause filter
  timeRange : TimeRange
  interval : Int
  storageInterval : Int
  intervalRatio : Int
  autoGroupByTime : Bool
  groupBy : List String
  having : Expr
  orderByItems : List Expr
  limit : Int
  deriving Repr, Inhabited

/-- a field with `omitempty` -/
def optField (k : String) (empty : Bool) (v : Json) : Fields := if empty then [] else [(k, v)]

/-- `Marshal(q.Condition)` returns nil for a nil interface, dropped by `omitempty`. -/
def optExpr (k : String) (e : Expr) : Fields :=
  match marshalRaw e with
  | none => []
  | some j => [(k, j)]

/-- `Query.MarshalJSON` (`innerQuery` field order; `timeRange`, `interval`, `storageInterval`
are always written) -/
def queryFields (q : Query) : Fields :=
  (optField "explain" (!q.explain) (.bool true)
    ++ optField "namespace" (q.ns == "") (.str q.ns)
    ++ optField "metricName" (q.metricName == "") (.str q.metricName)
    ++ optField "selectItems" q.selectItems.isEmpty (.arr (marshalList q.selectItems))
    ++ optField "allFields" (!q.allFields) (.bool true)
    ++ optExpr "condition" q.condition
    ++ [("timeRange", .obj [("start", .int q.timeRange.start), ("end", .int q.timeRange.stop)]),
        ("interval", .str (intervalString q.interval)),
        ("storageInterval", .str (intervalString q.storageInterval))]
    ++ optField "intervalRatio" (q.intervalRatio == 0) (.int q.intervalRatio)
    ++ optField "autoGroupByTime" (!q.autoGroupByTime) (.bool true)
    ++ optField "groupBy" q.groupBy.isEmpty (.arr (q.groupBy.map .str))
    ++ optExpr "having" q.having
    ++ optField "orderByItems" q.orderByItems.isEmpty (.arr (marshalList q.orderByItems))
    ++ optField "limit" (q.limit == 0) (.int q.limit))

def marshalQuery (q : Query) : Json := .obj (queryFields q)

/-- `if inner.Condition != nil { Unmarshal(inner.Condition) }` -/
def unmarshalOpt (raw : Option Json) : Except Err Expr :=
  match raw with
  | none => .ok .nil
  | some v => unmarshal (some v)

/-- `Query.UnmarshalJSON` into a fresh `stmt.Query{}`: first the typed decode of `innerQuery`
(struct field order), then condition, having, select items, order-by items. -/
def unmarshalQuery (j : Json) : Except Err Query := do
  let kvs ← structFields j
  let explain ← getBool kvs "explain"
  let ns ← getStr kvs "namespace"
  let metric ← getStr kvs "metricName"
  let _ ← getRawList kvs "selectItems"
  let allFields ← getBool kvs "allFields"
  let tr ← getStruct kvs "timeRange"
  let start ← getInt tr "start"
  let stop ← getInt tr "end"
  let interval ← getInterval kvs "interval"
  let storage ← getInterval kvs "storageInterval"
  let ratio ← getInt kvs "intervalRatio"
  let auto ← getBool kvs "autoGroupByTime"
  let groupBy ← getStrList kvs "groupBy"
  let _ ← getRawList kvs "orderByItems"
  let limit ← getInt kvs "limit"
  let condition ← unmarshalOpt (getRaw kvs "condition")
  let having ← unmarshalOpt (getRaw kvs "having")
  let selectItems ← unmarshalAll (arrElems kvs "selectItems")
  let orderByItems ← unmarshalAll (arrElems kvs "orderByItems")
  pure { explain := explain, ns := ns, metricName := metric, selectItems := selectItems,
         allFields := allFields, condition := condition,
         timeRange := { start := start, stop := stop }, interval := interval,
         storageInterval := storage, intervalRatio := ratio, autoGroupByTime := auto,
         groupBy := groupBy, having := having, orderByItems := orderByItems, limit := limit }

/-- a nil condition/having is fine; a non-nil one must be well formed -/
def optWellFormed : Expr → Bool
  | .nil => true
  | e => e.wellFormed

def Query.wellFormed (q : Query) : Bool :=
  wellFormedList q.selectItems && optWellFormed q.condition && optWellFormed q.having
    && wellFormedList q.orderByItems

/-! ## MetricMetadata (sql/stmt/metric_metadata.go) -/

structure Metadata where
  ns : String
  metricName : String
  kind : Nat                 -- `Type MetricMetadataType` (uint8: the model's values are `< 256`) (uint8 enum), a plain number on the wire
  tagKey : String
  prefix_ : String
  condition : Expr
  limit : Int
  deriving Repr, Inhabited

/-- `MetricMetadata.MarshalJSON` (`innerMetadata` field order, all `omitempty`) -/
def metadataFields (m : Metadata) : Fields :=
  (optField "namespace" (m.ns == "") (.str m.ns)
    ++ optField "metricName" (m.metricName == "") (.str m.metricName)
    ++ optField "type" (m.kind == 0) (.int (m.kind : Int))
    ++ optField "tagKey" (m.tagKey == "") (.str m.tagKey)
    ++ optExpr "condition" m.condition
    ++ optField "prefix" (m.prefix_ == "") (.str m.prefix_)
    ++ optField "limit" (m.limit == 0) (.int m.limit))

def marshalMetadata (m : Metadata) : Json := .obj (metadataFields m)

/-- `MetricMetadata.UnmarshalJSON` into a fresh value -/
def unmarshalMetadata (j : Json) : Except Err Metadata := do
  let kvs ← structFields j
  let ns ← getStr kvs "namespace"
  let metric ← getStr kvs "metricName"
  let ty ← getU8 kvs "type"
  let tagKey ← getStr kvs "tagKey"
  let pre ← getStr kvs "prefix"
  let limit ← getInt kvs "limit"
  let condition ← unmarshalOpt (getRaw kvs "condition")
  pure { ns := ns, metricName := metric, kind := ty, tagKey := tagKey, prefix_ := pre,
         condition := condition, limit := limit }

/-! ## The plan stages (query/context: RootMetricContext / IntermediateMetricContext /
MetadataContext `.MakePlan`) and the receiving processors (query/leaf_processor.go,
query/intermediate_processor.go) -/

/-- (plan stage, the expression whose value becomes `TaskRequest.Payload`): in every stage it is
`MarshalJSON()` of the very statement the planning node keeps (`ctx.Deps.Statement` /
`ctx.statement`), computed after `calcTimeRangeAndInterval` rewrote that statement in place.
Tied to the source by `Generated.C17.planPayloads`. -/
def planPayloadTable : List (String × String) :=
  [("RootMetricContext.MakePlan", "ctx.Deps.Statement.MarshalJSON()"),
   ("IntermediateMetricContext.MakePlan", "ctx.statement.MarshalJSON()"),
   ("MetadataContext.MakePlan", "ctx.Deps.Statement.MarshalJSON()")]

/-- the calls of the plan stages in source order (nothing between the planner step and
`MarshalJSON`, nothing touching the payload afterwards) -/
def planCallTable : List (String × List String) :=
  [("RootMetricContext.MakePlan", ["Statement.HasGroupBy", "Choose.Choose", "len",
      "stateMgr.GetDatabaseCfg", "calcTimeRangeAndInterval", "Statement.MarshalJSON",
      "CurrentNode.Indicator", "physicalPlan.AddReceiver", "physicalPlan.Validate",
      "encoding.JSONMarshal", "ctx.addRequests"]),
   ("IntermediateMetricContext.MakePlan", ["stateMgr.Choose", "len", "stateMgr.GetDatabaseCfg",
      "calcTimeRangeAndInterval", "statement.MarshalJSON", "physicalPlan.AddReceiver",
      "physicalPlan.Validate", "encoding.JSONMarshal", "ctx.addRequests"]),
   ("MetadataContext.MakePlan", ["Choose.Choose", "len", "Statement.MarshalJSON",
      "CurrentNode.Indicator", "physicalPlan.AddReceiver", "physicalPlan.Validate",
      "encoding.JSONMarshal", "ctx.addRequests"])]

/-- what the receiving processors unmarshal: exactly `req.Payload` -/
def leafUnmarshalTable : List (String × List String) :=
  [("leafTaskProcessor.processMetadataSuggest", ["req.Payload"]),
   ("leafTaskProcessor.processDataSearch", ["req.Payload"]),
   ("intermediateTaskProcessor.processDataSearch", ["req.Payload"]),
   ("intermediateTaskProcessor.processMetadataSearch", ["req.Payload"])]

/-- the serialisation step of a data plan stage applied to the statement `q` the planning node
holds after planning: `payload, _ := statement.MarshalJSON()` — no transformation around it -/
def payloadOf (q : Query) : Json := marshalQuery q

/-- the same for `MetadataContext.MakePlan` -/
def metaPayloadOf (m : Metadata) : Json := marshalMetadata m

/-- `stmtQuery.UnmarshalJSON(req.Payload)` in `processDataSearch` (leaf and intermediate) -/
def leafStatement (payload : Json) : Except Err Query := unmarshalQuery payload

/-- `stmtQuery.UnmarshalJSON(req.Payload)` in `processMetadataSuggest` / `processMetadataSearch` -/
def leafMetadata (payload : Json) : Except Err Metadata := unmarshalMetadata payload

/-! ## queryStmtParser.build: where `TimeRange` comes from (sql/query_stmt_parser.go)

The parser is not modelled; this is only the last step of `build()`, which decides whether the
statement depends on the wall clock. `startTime`/`endTime` are the bounds found in the text
(0 = the text gives none). -/

/-- (assigned, enclosing conditions, value), tied to the source by `Generated.C17.buildTimeRange` -/
def buildTimeRangeTable : List (String × String × String) :=
  [("now", "", "commontimeutil.Now()"),
   ("query.TimeRange", "", "timeutil.TimeRange{Start: q.startTime, End: q.endTime}"),
   ("query.TimeRange.Start", "query.TimeRange.Start <= 0", "now - commontimeutil.OneHour"),
   ("query.TimeRange.End", "query.TimeRange.End <= 0", "now")]

/-- the defaulting rules of `build()` -/
def buildTimeRange (startTime endTime now : Int) : TimeRange :=
  { start := if startTime ≤ 0 then now - oneHour else startTime,
    stop := if endTime ≤ 0 then now else endTime }

/-! ## What the listener can leave incomplete, and `validation()` / `isCompleteExpr`
(sql/query_stmt_parser.go, sql/base_stmt_parser.go)

The antlr grammar and the tree walk are not modelled. What IS pinned (tables below, tied to the
source by `Generated.C17.*`): every expression-node literal the listener builds and the fields it
sets at construction, every place where nodes are linked or a clause of the statement is stored,
the case list of `isCompleteExpr`, what `validation()` applies it to, and the `ParseFloat` guard. -/

/-- `isCompleteExpr`: (case, body) -/
def completeCaseTable : List (String × String) := [("nil", "return false"),
  ("*stmt.SelectItem", "return isCompleteExpr(e.Expr)"),
  ("*stmt.OrderByExpr", "return isCompleteExpr(e.Expr)"),
  ("*stmt.ParenExpr", "return isCompleteExpr(e.Expr)"),
  ("*stmt.NotExpr", "return isCompleteExpr(e.Expr)"),
  ("*stmt.BinaryExpr", "return isCompleteExpr(e.Left) && isCompleteExpr(e.Right)"),
  ("*stmt.CallExpr", "for _, param := range e.Params { if !isCompleteExpr(param) { return false } }; return true"),
  ("default", "return true")]

/-- `validation()`: (enclosing range, argument) of every `isCompleteExpr` call -/
def validationCheckTable : List (String × String) := [("range q.selectItems", "item"), ("range q.orderBy", "item"), ("", "q.havingStmt")]

/-- `visitExprAtom`: the `ParseFloat` call and the guard on its error -/
def parseFloatGuardTable : List String := ["val, err := strconv.ParseFloat(valStr, 64)", "if err != nil { q.err = err return }"]

/-- (function, assigned link or clause, value) -/
def listenerLinkTable : List (String × String × String) := [
  ("completeSortField", "q.orderBy", "append(q.orderBy, q.curOrderByExpr)"),
  ("completeFuncExpr", "q.curOrderByExpr.Expr", "expr"),
  ("completeFuncExpr", "q.selectItems", "append(q.selectItems, &stmt.SelectItem{Expr: expr})"),
  ("parseFieldName", "q.curOrderByExpr.Expr", "fieldExpr"),
  ("parseFieldName", "q.selectItems", "append(q.selectItems, &stmt.SelectItem{Expr: fieldExpr})"),
  ("completeFieldExpr", "q.selectItems", "append(q.selectItems, &stmt.SelectItem{Expr: expr})"),
  ("completeHaving", "q.havingStmt", "q.exprStack.Pop().(stmt.Expr)"),
  ("completeTagFilterExpr", "parentExpr.Left", "e"),
  ("completeTagFilterExpr", "parentExpr.Right", "e"),
  ("completeTagFilterExpr", "parentExpr.Expr", "e"),
  ("completeTagFilterExpr", "b.condition", "e"),
  ("setExprParam", "expr.Params", "append(expr.Params, param)"),
  ("setExprParam", "expr.Expr", "param"),
  ("setExprParam", "expr.Left", "param"),
  ("setExprParam", "expr.Right", "param")]

/-- every expression node literal in the listener: (function, kind, fields set at construction) -/
def listenerConstructTable : List (String × String × List String) := [
  ("visitSortField", "OrderByExpr", ["Desc"]),
  ("visitFieldExpr", "CallExpr", []),
  ("visitFieldExpr", "ParenExpr", []),
  ("visitFieldExpr", "BinaryExpr", ["Operator"]),
  ("visitFieldExpr", "BinaryExpr", ["Operator"]),
  ("visitFieldExpr", "BinaryExpr", ["Operator"]),
  ("visitFieldExpr", "BinaryExpr", ["Operator"]),
  ("completeFuncExpr", "SelectItem", ["Expr"]),
  ("visitExprAtom", "NumberLiteral", ["Val"]),
  ("parseFieldName", "FieldExpr", ["Name"]),
  ("parseFieldName", "SelectItem", ["Expr"]),
  ("completeFieldExpr", "SelectItem", ["Expr"]),
  ("visitBoolExpr", "ParenExpr", []),
  ("visitBoolExprLogicalOp", "BinaryExpr", ["Operator"]),
  ("visitBoolExprAtom", "BinaryExpr", ["Operator"]),
  ("visitTagFilterExpr", "ParenExpr", []),
  ("visitTagFilterExpr", "BinaryExpr", ["Operator"]),
  ("visitTagFilterExpr", "BinaryExpr", ["Operator"]),
  ("createTagFilterExpr", "EqualsExpr", ["Key"]),
  ("createTagFilterExpr", "NotExpr", ["Expr"]),
  ("createTagFilterExpr", "LikeExpr", ["Key"]),
  ("createTagFilterExpr", "LikeExpr", ["Key"]),
  ("createTagFilterExpr", "RegexExpr", ["Key"]),
  ("createTagFilterExpr", "NotExpr", ["Expr"]),
  ("createTagFilterExpr", "RegexExpr", ["Key"]),
  ("createTagFilterExpr", "NotExpr", ["Expr"]),
  ("createTagFilterExpr", "EqualsExpr", ["Key"]),
  ("createTagFilterExpr", "NotExpr", ["Expr"]),
  ("createTagFilterExpr", "InExpr", ["Key"]),
  ("createTagFilterExpr", "InExpr", ["Key"])]

mutual
/-- `isCompleteExpr` -/
def Expr.complete : Expr → Bool
  | .nil => false
  | .selectItem e _ => e.complete
  | .orderBy e _ => e.complete
  | .paren e => e.complete
  | .not e => e.complete
  | .binary l r _ => l.complete && r.complete
  | .call _ ps => completeList ps
  | _ => true
/-- `for _, param := range e.Params { if !isCompleteExpr(param) { return false } }; return true` -/
def completeList : List Expr → Bool
  | [] => true
  | e :: es => e.complete && completeList es
end

mutual
/-- every number literal of the tree is finite (what `visitExprAtom`'s `ParseFloat` guard gives) -/
def Expr.numbersFinite : Expr → Bool
  | .number f => f.isFinite
  | .call _ ps => numbersFiniteList ps
  | .paren e => e.numbersFinite
  | .binary l r _ => l.numbersFinite && r.numbersFinite
  | .not e => e.numbersFinite
  | .selectItem e _ => e.numbersFinite
  | .orderBy e _ => e.numbersFinite
  | _ => true
def numbersFiniteList : List Expr → Bool
  | [] => true
  | e :: es => e.numbersFinite && numbersFiniteList es
end

/-- the variant of `isCompleteExpr` that trusts function-call parameters (not the code) -/
def Expr.completeNoParams : Expr → Bool
  | .nil => false
  | .selectItem e _ => e.completeNoParams
  | .orderBy e _ => e.completeNoParams
  | .paren e => e.completeNoParams
  | .not e => e.completeNoParams
  | .binary l r _ => l.completeNoParams && r.completeNoParams
  | _ => true

/-- the checks of `validation()` on the three clauses it looks at -/
def Query.validated (q : Query) : Bool :=
  completeList q.selectItems && completeList q.orderByItems &&
    (match q.having with | .nil => true | h => h.complete)

/-- node kinds with child links, and the fields that hold them -/
def childFields : String → List String
  | "SelectItem" | "OrderByExpr" | "ParenExpr" | "NotExpr" => ["Expr"]
  | "BinaryExpr" => ["Left", "Right"]
  | "CallExpr" => ["Params"]
  | _ => []

end LinVerif.Stmt
