/-
C03 — the arm / consume discipline of the pooled `TSDDecoder`s in `seriesMerger.merge`, with field steps that do
NOT go through `DownSamplingMultiSeriesInto` (core Lean only).

Go anchors: tsdb/tblstore/metricsdata/series_merger.go `merge` — per target field (1) the reader loop ARMS the
decoder of every input block that has data (`streams[idx].ResetWithTimeRange`), (2) `DownSamplingMultiSeriesInto`
CONSUMES every non-nil decoder of the slice, armed or left over. In the tree as it is every field step is
"arm, then consume" (`Path.normal`). A step that leaves the field loop between (1) and (2) — a fast path that hands
the stored bytes to `FlushField`, an early `continue` — is `Path.armedBypass`: decoders armed, nobody reads them.
A step that decides before (1) is `Path.plainBypass`: the slice is not touched.

The slice `streams` lives for the whole `merger.Merge` call (all series, all fields), `Model/C03Decoder.lean`.
-/
import LinVerif.Model.C03Decoder

namespace LinVerif.C03FastPath
open LinVerif.Map LinVerif.Merge LinVerif.C03Decoder

variable {V : Type}

/-- which way one iteration of the field loop of `seriesMerger.merge` takes -/
inductive Path where
  /-- reader loop (arm) then `DownSamplingMultiSeriesInto` (consume): the only path of the current source -/
  | normal
  /-- reader loop (arm), then the iteration is left without the down-sampling call -/
  | armedBypass
  /-- the iteration is left before the reader loop: no decoder is touched -/
  | plainBypass
  deriving DecidableEq, Repr

/-- one iteration of the field loop: the field type's aggregate, what the field readers answer per input block,
and the path taken -/
structure Step (V : Type) where
  op : V → V → V
  fds : List (FD V)
  path : Path

/-- one field step over the shared slice; the accumulator exists only when the values were decoded -/
def fieldStepF (cfg : Cfg) (tStart len : Nat) (ss : List (Option (Dec V))) (st : Step V) :
    List (Option (Dec V)) × Option (List (Nat × V)) :=
  match st.path with
  | .normal => let r := downAll st.op cfg tStart len (resetStreams ss st.fds) []; (r.1, some r.2)
  | .armedBypass => (resetStreams ss st.fds, none)
  | .plainBypass => (ss, none)

/-- all field steps of a `Merge` call in sequence, the slice threaded through -/
def stepsLoopF (cfg : Cfg) (tStart len : Nat) :
    List (Option (Dec V)) → List (Step V) → List (Option (Dec V)) × List (Option (List (Nat × V)))
  | ss, [] => (ss, [])
  | ss, st :: rest =>
    let r := fieldStepF cfg tStart len ss st
    let r2 := stepsLoopF cfg tStart len r.1 rest
    (r2.1, r.2 :: r2.2)

/-- what each step has to deliver: the decoded steps `specAll` (only the blocks with data, each from the start
of its data), the bypassing steps no accumulator -/
def specF (cfg : Cfg) (tStart len : Nat) (st : Step V) : Option (List (Nat × V)) :=
  match st.path with
  | .normal => some (specAll st.op cfg tStart len st.fds [])
  | _ => none

/-- the path the field loop of the tree under test takes, read off the regenerated flag "nothing leaves the field
loop between the arming loop and the down-sampling call" -/
def pathOf (everyArmIsConsumed : Bool) (wantsBypass : Bool) : Path :=
  if wantsBypass && !everyArmIsConsumed then .armedBypass else .normal

end LinVerif.C03FastPath
