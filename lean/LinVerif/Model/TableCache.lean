/-
Model of lindb's table-reader cache (kv/table/cache.go) as far as property C02 needs it:
which table files are mapped and how many users retain each mapping.

  cacheEntry.ref  ↦  `cref f = some r`   (entry present ⇒ the file is mmapped)
  no entry        ↦  `cref f = none`

The LRU order and `last` timestamps are NOT modelled: `Cleanup` is a nondeterministic step that
may close any set of entries whose `ref` is 0 (the code additionally requires them to be expired
and contiguous at the LRU tail — TTL timing / Go map iteration order decide which).
Core Lean only.
-/
namespace LinVerif.TableCache

/-- point update of a total map -/
def upd {α : Type} (f : Nat → α) (i : Nat) (x : α) : Nat → α :=
  fun j => if j = i then x else f j

@[simp] theorem upd_same {α : Type} (f : Nat → α) (i : Nat) (x : α) : upd f i x i = x := by
  simp [upd]

theorem upd_other {α : Type} (f : Nat → α) (i j : Nat) (x : α) (h : j ≠ i) : upd f i x j = f j := by
  simp [upd, h]

abbrev Cache := Nat → Option Int

/-- `storeCache.GetReader`: hit ⇒ `entry.retain()`; miss ⇒ open+mmap the file (needs it on disk),
new entry with ref 1. `none` = the open failed (file not in the directory). -/
def getReader (c : Cache) (disk : List Nat) (f : Nat) : Option Cache :=
  match c f with
  | some r => some (upd c f (some (r + 1)))
  | none => if f ∈ disk then some (upd c f (some 1)) else none

/-- `storeCache.ReleaseReaders(readers)` (one critical section): for every reader,
`cache.Get(name)` found ⇒ `entry.release()`. Entries are neither added nor removed inside the
loop, so entry `f` loses one reference per occurrence of `f` in `readers`. -/
def releaseAll (c : Cache) (fs : List Nat) : Cache :=
  fun f => (c f).map (fun r => r - (fs.count f : Int))

/-- `storeCache.Evict(fileName)`: closes (unmaps) the reader whatever its ref is, removes the entry -/
def evict (c : Cache) (f : Nat) : Cache := upd c f none

/-- may `Cleanup` close entry `f`? (`entry.ref.Load() == 0`; expiry is not modelled) -/
def canClean (c : Cache) (f : Nat) : Bool := c f == some 0

/-- `storeCache.Cleanup()` closing exactly the entries `fs` -/
def cleanup (c : Cache) (fs : List Nat) : Cache := fs.foldl evict c

/-! ### the concrete cache: LRU list, `last` timestamps, TTL

`Cache` above forgets the LRU order and the timestamps; `Cleanup` is nondeterministic there. The
list model below is what kv/table/cache.go does; Lemmas/C02Lru.lean proves that its TTL/LRU
`Cleanup` (and `Evict`) are instances of the abstract steps. -/

/-- `cacheEntry` (key = file name = table number) -/
structure Entry where
  file : Nat
  ref : Int
  last : Nat      -- `entry.last`: time of the last `retain()`
deriving Repr, DecidableEq

/-- `LRUCache.evictList`, front (most recently used) first -/
abbrev Lru := List Entry

/-- the abstraction to `Cache` -/
def absLru (l : Lru) : Cache := fun f => (l.find? (fun e => e.file == f)).map (·.ref)

/-- `GetReader` at time `now`: hit ⇒ `cache.Get` (MoveToFront) + `retain()` (ref+1, last := now);
miss ⇒ open (file must exist) + `retain()` + `cache.Add` (PushFront) -/
def lruGet (l : Lru) (disk : List Nat) (now f : Nat) : Option Lru :=
  match l.find? (fun e => e.file == f) with
  | some e => some ({ e with ref := e.ref + 1, last := now } :: l.filter (fun x => x.file != f))
  | none => if f ∈ disk then some ({ file := f, ref := 1, last := now } :: l) else none

/-- `Evict(fileName)`: `cache.Get` found ⇒ close + `cache.Remove` -/
def lruEvict (l : Lru) (f : Nat) : Lru := l.filter (fun x => x.file != f)

/-- the guard of `Cleanup`'s walk function: `entry.ref.Load() == 0 && now - entry.last > ttl` -/
def expired (ttl : Int) (now : Nat) (e : Entry) : Bool := e.ref == 0 && decide ((now : Int) - (e.last : Int) > ttl)

/-- `Cleanup()` = `LRUCache.Walk`: look at the BACK of the list; expired and unreferenced ⇒ close +
remove and go on, otherwise stop. What stays: -/
def lruWalk (ttl : Int) (now : Nat) (l : Lru) : Lru := (l.reverse.dropWhile (expired ttl now)).reverse
/-- … and which entries were closed -/
def lruClosed (ttl : Int) (now : Nat) (l : Lru) : List Nat := (l.reverse.takeWhile (expired ttl now)).map (·.file)

/-- one iteration of `ReleaseReaders`: `cache.Get(r.FileName())` — found ⇒ `MoveToFront` — then
`entry.release()` (ref − 1; `last` is NOT touched, only `retain()` sets it); not found ⇒ nothing -/
def lruRelease1 (l : Lru) (f : Nat) : Lru :=
  match l.find? (fun e => e.file == f) with
  | some e => { e with ref := e.ref - 1 } :: l.filter (fun x => x.file != f)
  | none => l

/-- `storeCache.ReleaseReaders(readers)`: the loop over the readers, in order, in one critical section -/
def lruRelease (l : Lru) (fs : List Nat) : Lru := fs.foldl lruRelease1 l

/-- the LRU order: file names, most recently used first -/
def lruOrder (l : Lru) : List Nat := l.map (·.file)

end LinVerif.TableCache
