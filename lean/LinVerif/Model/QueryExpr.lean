/-
C11 — the function / expression layer of a query (what the root computes from the per-field,
per-agg-type arrays of one group).  Core Lean only (linked into `lvmodel_C11`).

Values are exact rationals (`Rat`, core Lean): the implementation computes in float64, which is the
same value as long as every intermediate result is exactly representable (sums, differences and
products of small integers) and at most the LAST operation rounds (one division at the root).

Go anchors
  aggregation/expression.go        Eval / prepare / eval / funcCall / binaryEval
  aggregation/binary.go            binaryEval / eval
  aggregation/fields/field.go      dynamicField.SetValue / GetValues / GetDefaultValues / getFieldValues
  aggregation/function/functions.go FuncCall;  rate.go RateCall;  avg.go AvgCall
  pkg/collections/array_list.go    FloatArray (HasValue / GetValue = 0 without value / IsEmpty / IsSingle)
  series/field/type.go             GetFuncFieldParams / GetDefaultFuncFieldParams
  query/operator/metadata_lookup.go field / planField (which function every field of an item gets)
-/
import LinVerif.Util.Map
import LinVerif.Model.NaiveQuery
import LinVerif.Model.MemDB

namespace LinVerif.QueryExpr
open LinVerif LinVerif.NaiveQuery LinVerif.MemDB

/-- `Type.GetDefaultFuncFieldParams()` (one element for every field type). -/
def defaultParam : FieldType → AggType
  | .sum => .sum | .min => .min | .last => .last | .first => .first | .max => .max | .histogram => .sum

/-- the agg type whose array a field expression reads: `GetValues(parentFunc)` under a function,
`GetDefaultValues()` without. -/
def paramOf (ty : FieldType) : Option FuncType → AggType
  | none => defaultParam ty
  | some fn => ty.funcParam fn

/-- sql/stmt `BinaryOP` (the four arithmetic operators `expression.binaryEval` accepts). -/
inductive BinOp where
  | add | sub | mul | div
  deriving DecidableEq, Repr, Inhabited

/-- a select item (`stmt.Expr`): field, function call with one parameter, integer literal,
parentheses, binary arithmetic. (`quantile` and calls with several parameters are not modelled.) -/
inductive Expr where
  | field (f : Nat)
  | call (fn : FuncType) (p : Expr)
  | num (v : Int)
  | paren (e : Expr)
  | bin (op : BinOp) (l r : Expr)
  deriving Repr, Inhabited

/-- a `collections.FloatArray` of the query's `n` points: value per point and the `isSingle` mark
(set on the array of a number literal). -/
structure FArr where
  get : Nat → Option Rat
  single : Bool

/-- `FloatArray.IsEmpty()` (capacity `n`). -/
def FArr.isEmpty (n : Nat) (a : FArr) : Bool := (List.range n).all (fun i => (a.get i).isNone)

/-- what `expression.eval` returns: the empty slice, a slice holding one nil array
(`binaryEval` of two empty arrays), a slice holding one array; `crash`: `RateCall` dereferences the
nil array. -/
inductive EVal where
  | empty
  | nilArr
  | arr (a : FArr)
  | crash

/-- the values of one field of the group as `expression.prepare` stores them
(`dynamicField`: field type + one array per agg type the leaf sent). -/
structure FieldVals where
  ftype : FieldType
  arrs : Arrays

/-- `expression.fieldStore`. -/
abbrev Store := List (Nat × FieldVals)

/-- `aggregation/binary.go eval`: division by zero gives 0. -/
def evalOp : BinOp → Rat → Rat → Rat
  | .add, a, b => a + b
  | .sub, a, b => a - b
  | .mul, a, b => a * b
  | .div, a, b => if b = 0 then 0 else a / b

/-- one point of `aggregation/binary.go binaryEval`: nothing when the left side has no value and
the right side is a literal, nothing when the left side is a literal and the right side has no
value, otherwise — when either side has a value — the operator on the two values, a missing
value read as 0 (`FloatArray.GetValue`). -/
def binPoint (op : BinOp) (lSingle rSingle : Bool) (a b : Option Rat) : Option Rat :=
  if a.isNone ∧ rSingle = true then none
  else if lSingle = true ∧ b.isNone then none
  else if a.isSome ∨ b.isSome then some (evalOp op (a.getD 0) (b.getD 0))
  else none

/-- `aggregation/binary.go binaryEval`. -/
def binaryEval (n : Nat) (op : BinOp) (l r : FArr) : EVal :=
  if l.isEmpty n && r.isEmpty n then .nilArr
  else .arr ⟨fun i => if i < n then binPoint op l.single r.single (l.get i) (r.get i) else none, false⟩

/-- `expression.funcCall` on the evaluated parameter. `guard`: `RateCall` returns nil for a nil
array (regenerated fact `fixRateNilGuard`; the source without the guard dereferences it). -/
def applyFunc (guard : Bool) (n : Nat) (fn : FuncType) (intervalSec : Nat) : EVal → EVal
  | .empty => .empty
  | .crash => .crash
  | .nilArr =>
    match fn with
    | .rate => if guard then .empty else .crash   -- RateCall: params[0].Capacity() on the nil array
    | _ => .empty          -- FuncCall returns the nil parameter / nil: `result == nil`
  | .arr a =>
    match fn with
    | .sum | .min | .max | .count | .last | .first => .arr a
    | .rate => .arr ⟨fun i => if i < n then (a.get i).map (fun v => v / (intervalSec : Rat)) else none, false⟩
    | _ => .empty          -- avg needs two arrays, stddev is not a FuncCall case (quantile: not modelled)

/-- `expression.eval(parentFunc, expr)`. -/
def eval (guard : Bool) (n : Nat) (intervalSec : Nat) (st : Store) : Option FuncType → Expr → EVal
  | parent, .field f =>
    match Map.lookup st f with
    | none => .empty
    | some fv =>
      match Map.lookup fv.arrs (paramOf fv.ftype parent) with
      | none => .empty
      | some m => .arr ⟨fun i => if i < n then (Map.lookup m i).map (fun (v : Int) => (v : Rat)) else none, false⟩
  | _, .call fn p => applyFunc guard n fn intervalSec (eval guard n intervalSec st (some fn) p)
  | _, .num v => .arr ⟨fun i => if i < n then some (v : Rat) else none, true⟩
  | _, .paren e => eval guard n intervalSec st none e
  | _, .bin op l r =>
    match eval guard n intervalSec st none l with
    | .crash => .crash
    | .empty => .empty
    | lv =>
      match eval guard n intervalSec st none r with
      | .crash => .crash
      | .empty => .empty
      | rv =>
        match lv, rv with
        | .arr a, .arr b => binaryEval n op a b
        | _, _ => .nilArr    -- binaryEval: `left == nil || right == nil`

/-- `expression.Eval` for one select item: the item has a result array or not (`crash`: the
evaluation panics). -/
def evalItem (guard : Bool) (n : Nat) (intervalSec : Nat) (st : Store) (e : Expr) : EVal :=
  if st.isEmpty then .empty else eval guard n intervalSec st none e

/-- the (field, function) pairs `metadataLookup.field` plans for an item: a field directly under a
call gets the call's function, any other field its type's down-sampling function. -/
def plan (ftype : Nat → Option FieldType) : Option FuncType → Expr → List (Nat × FuncType)
  | parent, .field f =>
    match ftype f with
    | none => []
    | some ty => [(f, match parent with | none => ty.downSamplingFunc | some fn => fn)]
  | _, .call fn p => plan ftype (some fn) p
  | _, .num _ => []
  | _, .paren e => plan ftype none e
  | _, .bin _ l r => plan ftype none l ++ plan ftype none r

/-- the (field, agg type) arrays an item reads from the field store. -/
def reads (st : Store) : Option FuncType → Expr → List (Nat × AggType)
  | parent, .field f =>
    match Map.lookup st f with
    | none => []
    | some fv => [(f, paramOf fv.ftype parent)]
  | _, .call fn p => reads st (some fn) p
  | _, .num _ => []
  | _, .paren e => reads st none e
  | _, .bin _ l r => reads st none l ++ reads st none r

/-! ## the reference: the item point by point over the abstract per-field, per-agg-type values -/

/-- the array of the item is the array of a number literal (`IsSingle`): a literal, in
parentheses or under sum/min/max/count/last/first. -/
def isLit : Expr → Bool
  | .num _ => true
  | .paren e => isLit e
  | .call fn p =>
    (match fn with
      | .sum | .min | .max | .count | .last | .first => true
      | _ => false) && isLit p
  | _ => false

/-- value of the item at point `i` over abstract values `V field aggType i` (field types `ty`). -/
def pointValue (intervalSec : Nat) (ty : Nat → Option FieldType) (V : Nat → AggType → Nat → Option Int) (i : Nat) :
    Option FuncType → Expr → Option Rat
  | parent, .field f =>
    match ty f with
    | none => none
    | some t =>
      (V f (paramOf t parent) i).map (fun (v : Int) => (v : Rat))
  | _, .call fn p =>
    match fn with
    | .sum | .min | .max | .count | .last | .first => pointValue intervalSec ty V i (some fn) p
    | .rate => (pointValue intervalSec ty V i (some fn) p).map (fun v => v / (intervalSec : Rat))
    | _ => none
  | _, .num v => some (v : Rat)
  | _, .paren e => pointValue intervalSec ty V i none e
  | _, .bin op l r =>
    binPoint op (isLit l) (isLit r) (pointValue intervalSec ty V i none l) (pointValue intervalSec ty V i none r)

end LinVerif.QueryExpr
