/-
Model of lindb's page factory (pkg/queue/page/factory.go) and of the glue between the WAL
queue and its callers in replica/partition.go (core Lean only).

The factory owns a map page id → mapped page, a closed flag and a size counter. The queue
model (Model/Queue.lean) abstracts a factory to the list of live page ids (`Mem.dataLive`,
`Mem.indexLive`) with `acquireData` / `truncateData`; here the factory itself is modelled
branch for branch, and Lemmas/C05Fct.lean proves that the abstraction is faithful (page id
bookkeeping: a page is removed by TruncatePages iff its ID — the map key — is below the
bound; AcquirePage is idempotent; the size counter is pageSize × number of pages; a closed
factory is inert).

Not modelled: `removeFileFunc` failing inside TruncatePages (the page is closed but stays in
the map; outside the fault model), mmap/open errors of NewMappedPage.
-/
import LinVerif.Model.Queue

namespace LinVerif.Queue

/-! ### page.factory -/

/-- `page.factory`: `pages` = keys of `f.pages`, `size` = `f.size`, `closed` = `f.closed` -/
structure Fct where
  pages : List Nat
  closed : Bool
  size : Nat
  pageSize : Nat
  deriving Repr

inductive AcqRes
  | loaded      -- the page was in the map
  | created     -- NewMappedPage: file created / mapped, entered into the map, size += pageSize
  | closedErr   -- errFactoryClosed
  deriving DecidableEq, Repr

/-- `factory.AcquirePage(index)`: closed check first, then the map lookup, then creation -/
def Fct.acquire (f : Fct) (i : Nat) : Fct × AcqRes :=
  if f.closed then (f, .closedErr)
  else if i ∈ f.pages then (f, .loaded)
  else ({ f with pages := i :: f.pages, size := f.size + f.pageSize }, .created)

/-- `factory.GetPage(index)`: the map lookup only (no closed check in the code) -/
def Fct.getPage (f : Fct) (i : Nat) : Bool := decide (i ∈ f.pages)

/-- the body of the loop of `TruncatePages` for map key `k`: `if pageID < index { if page, ok :=
f.pages[pageID]; ok { Close; remove file; delete(f.pages, pageID); f.size.Sub(pageSize) } }` -/
def Fct.truncOne (bound : Nat) (f : Fct) (k : Nat) : Fct :=
  if k < bound then
    if k ∈ f.pages then { f with pages := f.pages.erase k, size := f.size - f.pageSize } else f
  else f

/-- `factory.TruncatePages(index)`: nothing on a closed factory; otherwise one pass over the
keys of the page map (Go visits every key that is not deleted before it is reached exactly
once; the result does not depend on the order — `Lemmas/C05Fct.truncate_mem`). -/
def Fct.truncate (f : Fct) (bound : Nat) : Fct :=
  if f.closed then f else f.pages.foldl (Fct.truncOne bound) f

/-- `factory.Close()`: CompareAndSwap(false, true); the pages are unmapped but stay in the map -/
def Fct.close (f : Fct) : Fct := if f.closed then f else { f with closed := true }

/-- `NewFactory(path, pageSize)`: empty map, then `loadPages` = AcquirePage for every page file
found in the directory -/
def Fct.new (files : List Nat) (pageSize : Nat) : Fct :=
  files.foldl (fun f i => (f.acquire i).1) { pages := [], closed := false, size := 0, pageSize := pageSize }

/-- factory operations as driven by the correspondence stream -/
inductive FOp
  | acquire (i : Nat)
  | truncate (bound : Nat)
  | close
  | reopen          -- Close, then NewFactory on the directory (the files that are left)
  deriving Repr

def Fct.step (f : Fct) : FOp → Fct
  | .acquire i => (f.acquire i).1
  | .truncate b => f.truncate b
  | .close => f.close
  | .reopen => Fct.new f.pages f.pageSize

def Fct.run (f : Fct) (ops : List FOp) : Fct := ops.foldl Fct.step f

/-! ### symbolic page geometry

`alloc` and the index-slot arithmetic with the page sizes as parameters; the concrete model is
the instance at the constants of pkg/queue/constants.go (`alloc_eq_allocS`, by `rfl`). -/

/-- `queue.alloc` for a data page of `S` bytes -/
def allocS (S : Nat) (mem : Mem) (q : Q) (len : Nat) : Alloc :=
  if q.messageOffset + len > S then
    let pg := q.dataPageIndex + 1
    { mem := acquireData mem pg, q := { q with dataPageIndex := pg, messageOffset := len },
      pg := pg, off := 0 }
  else
    { mem := mem, q := { q with messageOffset := q.messageOffset + len },
      pg := q.dataPageIndex, off := q.messageOffset }

/-- index page of sequence `n` with `P` items per page -/
def slotPage (P n : Nat) : Nat := n / P

/-- byte offset of the index item of sequence `n` inside its page (`P` items of `L` bytes) -/
def slotOff (P L n : Nat) : Nat := (n % P) * L

/-! ### replica/partition.go: the callers of Put / SetAppendedSeq -/

inductive WlRes
  | closed                -- constants.ErrPartitionClosed
  | noop                  -- `len(msg) == 0`: returns nil, nothing is appended
  | put (r : PutRes)
  deriving DecidableEq, Repr

/-- `partition.WriteLog(msg)`: closed check, empty-message early return, then `Queue().Put` -/
def writeLog (closed : Bool) (st : St) (m : Msg) : St × WlRes :=
  if closed then (st, .closed)
  else if m.len = 0 then (st, .noop)
  else
    let r := put st m
    (r.1, .put r.2)

inductive RlRes
  | closed
  | skip (next : Int)     -- `replicaIdx != appendIdx`: returns the index the follower expects, no append
  | ok (idx : Int)        -- appended under `idx`
  | failed                -- Put returned an error: (-1, err)
  deriving DecidableEq, Repr

/-- `partition.ReplicaLog(replicaIdx, msg)` -/
def replicaLog (closed : Bool) (st : St) (idx : Int) (m : Msg) : St × RlRes :=
  if closed then (st, .closed)
  else
    let appendIdx := st.q.appended + 1
    if idx ≠ appendIdx then (st, .skip appendIdx)
    else
      match put st m with
      | (st', .ok _) => (st', .ok appendIdx)
      | (st', _) => (st', .failed)

/-- `partition.ReplicaAckIndex()` = `Queue().AppendedSeq()` -/
def replicaAckIndex (st : St) : Int := st.q.appended

/-- `partition.ResetReplicaIndex(idx)` = `SetAppendedSeq(idx - 1)` -/
def resetReplicaIndex (st : St) (idx : Int) : St := setAppended st (idx - 1)

end LinVerif.Queue
