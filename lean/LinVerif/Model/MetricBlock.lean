/-
Model of one metric block of a metric-data table file (core Lean only).

Go anchors: tsdb/tblstore/metricsdata/flusher.go (what a block stores), reader.go
(`NewReader`/`initReader`, `dataScanner.scan`), field_reader.go (`GetFieldData`),
series/field/type.go (`Type`, `AggType`, `AggType.Aggregate`).

A block is the *decoded* content: field metas in stored order, the slot range of the footer,
and per series (ascending ids in a real block) one data entry per field. The byte layout
(offsets, bitmaps, TSD/XOR streams) is the subject of C14/C15; this model starts where the
reader has produced `(series, field, slot) ↦ value`.

Values are abstract (`V`), combined by `agg : FieldType → V → V → V`; the executable driver and
the arithmetic lemmas instantiate `V := Int` (exact arithmetic, DESIGN section 6).
-/
import LinVerif.Util.Map

namespace LinVerif.MetricBlock
open LinVerif.Map

/-! Series ids, field ids and slots are natural numbers (`Nat` is written directly, so that `omega`
sees plain arithmetic): in the signatures below `s` is a series id, `f` a field id, `t` a slot. -/

/-- `field.Type` without `Unknown` (codes 1..6). -/
inductive FieldType
  | sum | min | max | last | histogram | first
  deriving DecidableEq, Repr, Inhabited

/-- numeric value of the Go constant (`SumField = 1 … FirstField = 6`) -/
def FieldType.code : FieldType → Nat
  | .sum => 1 | .min => 2 | .max => 3 | .last => 4 | .histogram => 5 | .first => 6

def FieldType.ofCode? : Nat → Option FieldType
  | 1 => some .sum | 2 => some .min | 3 => some .max | 4 => some .last
  | 5 => some .histogram | 6 => some .first | _ => none

def FieldType.all : List FieldType := [.sum, .min, .max, .last, .histogram, .first]

/-- `field.AggType` as far as `Type.AggType()` produces it (`Count` is never produced). -/
inductive AggKind
  | sum | min | max | last | first
  deriving DecidableEq, Repr

/-- numeric value of the Go constant (`Sum = 1, Count = 2, Min = 3, Max = 4, Last = 5, First = 6`) -/
def AggKind.code : AggKind → Nat
  | .sum => 1 | .min => 3 | .max => 4 | .last => 5 | .first => 6

/-- `func (t Type) AggType() AggType` -/
def FieldType.aggKind : FieldType → AggKind
  | .sum => .sum | .histogram => .sum | .min => .min | .max => .max
  | .last => .last | .first => .first

/-- `func (t AggType) Aggregate(a, b float64) float64` on exact integers: `a` is the value
already accumulated, `b` the newly arriving one. `Last` keeps the arriving value, `First` the
accumulated one. -/
def AggKind.aggregate : AggKind → Int → Int → Int
  | .sum, a, b => a + b
  | .min, a, b => Min.min a b
  | .max, a, b => Max.max a b
  | .last, _, b => b
  | .first, a, _ => a

/-- `fieldType.AggType().Aggregate(a, b)` as used by `DownSamplingMultiSeriesInto`. -/
def aggInt (ty : FieldType) (a b : Int) : Int := ty.aggKind.aggregate a b

/-- field types whose aggregate does not depend on the order of the inputs -/
def FieldType.orderFree : FieldType → Bool
  | .last => false | .first => false | _ => true

structure Block (V : Type) where
  /-- field metas `(id, type)` in stored order -/
  fields : List (Nat × FieldType)
  /-- slot range of the footer (inclusive) -/
  start : Nat
  stop : Nat
  /-- series id ↦ field id ↦ slot ↦ value. A field id without entry = `FlushField(nil)`. -/
  series : List (Nat × List (Nat × List (Nat × V)))

namespace Block
variable {V : Type}

/-- `reader.GetFields()` looked up by id (`field.Metas.GetFromID`, `fieldIndexes()`) -/
def fieldType? (b : Block V) (f : Nat) : Option FieldType := lookup b.fields f

/-- `reader.GetSeriesIDs()` -/
def seriesIds (b : Block V) : List Nat := keys b.series

/-- `dataScanner.scan(highKey, lowSeriesID)` followed by `fieldReader.GetFieldData(fieldID)`:
the field's data of one series, `none` if the series is not in the block, the field id is not
one of the block's fields, or the field was flushed without data. -/
def fieldData (b : Block V) (s : Nat) (f : Nat) : Option (List (Nat × V)) :=
  match lookup b.series s with
  | none => none
  | some e =>
    match lookup b.fields f with
    | none => none
    | some _ => lookup e f

/-- the value a decoder positioned on the block's slot range yields for slot `t`
(`TSDDecoder.ResetWithTimeRange(data, start, end)` + `HasValueWithSlot`/`Value`). -/
def get (b : Block V) (s : Nat) (f : Nat) (t : Nat) : Option V :=
  match b.fieldData s f with
  | none => none
  | some vals => if b.start ≤ t ∧ t ≤ b.stop then lookup vals t else none

end Block

/-- `none` for the empty list, otherwise the left fold of `op` (accumulated, arriving). -/
def foldAgg {V : Type} (op : V → V → V) : List V → Option V
  | [] => none
  | v :: vs => some (vs.foldl op v)

end LinVerif.MetricBlock
