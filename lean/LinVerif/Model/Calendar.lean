/-
Proleptic Gregorian calendar on `Int` (core Lean only).

This is the function that Go's `time.Unix(sec, 0).Date()` and `time.Date(y, m, d, 0,0,0,0, UTC)`
compute in UTC (days since 1970-01-01 <-> civil date), written in the closed form of
H. Hinnant's `civil_from_days` / `days_from_civil`. Go's own implementation walks 400/100/4/1-year
cycles; the two are the same function, which the correspondence area `time` checks on every UTC
day 1970-01-01 .. 2100-12-31 (thorough tier) against the real `time` package through lindb's
calculators.

`/` and `%` on `Int` are Lean's Euclidean division; every divisor below is a positive literal,
so they are floor division / non-negative remainder.
-/
namespace LinVerif.Calendar

/-- days in one 400-year era -/
def eraDays : Int := 146097

/-- shift from 1970-01-01 to 0000-03-01 -/
def epochShift : Int := 719468

/-- first day (0-based, within the era) of March-based year `y` of the era, without the
`y/400` term: valid for `0 ≤ y ≤ 399` -/
def yearStart (y : Int) : Int := 365 * y + y / 4 - y / 100

/-- year-of-era of day-of-era `doe` (`0 ≤ doe < 146097`) -/
def yoeOf (doe : Int) : Int := (doe - doe / 1460 + doe / 36524 - doe / 146096) / 365

/-- `(year, month 1..12, day 1..31)` of the day `z` (days since 1970-01-01); `time.Unix(..).Date()` -/
def civilFromDays (z : Int) : Int × Int × Int :=
  let z := z + epochShift
  let era := z / eraDays
  let doe := z % eraDays
  let yoe := yoeOf doe
  let doy := doe - yearStart yoe
  let mp := (5 * doy + 2) / 153
  let d := doy - (153 * mp + 2) / 5 + 1
  let m := if mp < 10 then mp + 3 else mp - 9
  let y := yoe + era * 400
  (if m ≤ 2 then y + 1 else y, m, d)

/-- days since 1970-01-01 of the civil date `y-m-d`, `1 ≤ m ≤ 12`; linear in `d`, so a day
outside the month rolls over exactly as `time.Date` does -/
def daysFromCivil (y m d : Int) : Int :=
  let y := if m ≤ 2 then y - 1 else y
  let era := y / 400
  let yoe := y % 400
  let mp := if m > 2 then m - 3 else m + 9
  let doy := (153 * mp + 2) / 5 + d - 1
  let doe := yoe * 365 + yoe / 4 - yoe / 100 + doy
  era * eraDays + doe - epochShift

/-- `time.Date`'s month normalisation (`norm(year, month-1, 12)`): any integer month is brought
into 1..12 carrying into the year -/
def normMonth (y m : Int) : Int × Int :=
  let m0 := m - 1
  (y + m0 / 12, m0 % 12 + 1)

/-- `time.Date(y, m, d, 0,0,0,0, UTC)` as days since the epoch -/
def dateDays (y m d : Int) : Int :=
  let ym := normMonth y m
  daysFromCivil ym.1 ym.2 d

/-- the month after `(y, m)` -/
def nextMonth (y m : Int) : Int × Int := normMonth y (m + 1)

end LinVerif.Calendar
