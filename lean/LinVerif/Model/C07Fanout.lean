/-
C07, round 13: the fan-out layer of one write-ahead log (pkg/queue/fanout_queue.go, queue.go,
consumer_group.go). One log, SEVERAL consumer groups (the local replicator's and one per remote
follower). Core Lean only (linked into lvmodel_C07).

  fanOutQueue.Sync            -> `sync`        (run by every WAL GC tick: partition.IsExpire)
  queue.SetAcknowledgedSeq    -> `setQueueAck`
  NewConsumerGroup            -> `reopenGroup` (meta page exists) / `newGroup` (no meta page)
  consumerGroup.Ack           -> `groupAck`    (guard `ts <= ack <= consumed`, consumed <= appended)

Sequences are `Int`, -1 = nothing (the code's initial value AND `SeqNoNewMessageAvailable`).
-/
namespace LinVerif.C07Fanout

/-- the loop of `fanOutQueue.Sync`: `for _, fo := range groups { ts := fo.AcknowledgedSeq(); if ts < ackSeq { ackSeq = ts } }`
started from `init`; the list is the (arbitrary: Go map) iteration order -/
def syncMin (init : Int) (acks : List Int) : Int :=
  acks.foldl (fun m ts => if ts < m then ts else m) init

/-- `queue.SetAcknowledgedSeq`: `if seq > acknowledged && seq <= appended { store + sync meta page }` -/
def setQueueAck (appended old seq : Int) : Int :=
  if seq > old ∧ seq ≤ appended then seq else old

/-- `fanOutQueue.Sync`: no group -> return; `ackSeq := queue.AppendedSeq()`; the loop; `if ackSeq >= 0 { SetAcknowledgedSeq }` -/
def sync (appended old : Int) (acks : List Int) : Int :=
  if acks.isEmpty then old
  else
    let m := syncMin appended acks
    if m ≥ 0 then setQueueAck appended old m else old

/-- `NewConsumerGroup` on a directory WITH a meta page: (ack, consumed) lifted to the queue's acknowledged sequence -/
def reopenGroup (qAck ack consumed : Int) : Int × Int :=
  let a := if ack < qAck then qAck else ack
  let c := if consumed < a then a else consumed
  (a, c)

/-- the "unset sentinel" shape of the minimum (`ackSeq := -1; if ackSeq == -1 || ts < ackSeq { ackSeq = ts }`):
NOT the code's shape; kept for the proved negation (-1 is also a real acknowledged sequence) -/
def syncMinSentinel (acks : List Int) : Int :=
  acks.foldl (fun m ts => if m = -1 ∨ ts < m then ts else m) (-1)

/-- one log: appended sequence, the log's acknowledged sequence, the consumer groups' acknowledged sequences -/
structure FQ where
  appended : Int
  qAck : Int
  acks : List Int
deriving Repr, DecidableEq

def FQ.init : FQ := { appended := -1, qAck := -1, acks := [] }

inductive FEv
  | put                          -- queue.Put
  | newGroup                     -- GetOrCreateConsumerGroup of a new name: starts at the queue's acknowledged sequence
  | groupAck (i : Nat) (v : Int) -- consumerGroup.Ack of group i
  | sync (order : List Nat)      -- fanOutQueue.Sync visiting the groups in this order (Go map order; indices out of range are skipped)
  | reopen                       -- the process restarts: every group is re-created from its meta page
deriving Repr, DecidableEq

def setAt (l : List Int) (i : Nat) (v : Int) : List Int :=
  match l, i with
  | [], _ => []
  | _ :: t, 0 => v :: t
  | x :: t, i + 1 => x :: setAt t i v

/-- the acks in visiting order -/
def visit (acks : List Int) (order : List Nat) : List Int :=
  order.filterMap (fun i => acks[i]?)

/-- `range` over the group map visits every group (in any order) -/
def covers (order : List Nat) (n : Nat) : Bool := (List.range n).all (fun i => order.contains i)

def fstep (q : FQ) : FEv → FQ
  | .put => { q with appended := q.appended + 1 }
  | .newGroup => { q with acks := q.acks ++ [q.qAck] }
  | .groupAck i v =>
    match q.acks[i]? with
    | some a => if a ≤ v ∧ v ≤ q.appended then { q with acks := setAt q.acks i v } else q
    | none => q
  | .sync order =>
    if covers order q.acks.length then { q with qAck := sync q.appended q.qAck (visit q.acks order) } else q
  | .reopen => { q with acks := q.acks.map (fun a => (reopenGroup q.qAck a a).1) }

def frun (q : FQ) (evs : List FEv) : FQ := evs.foldl fstep q

end LinVerif.C07Fanout
