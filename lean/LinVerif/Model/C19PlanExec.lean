/-
Model of `baseStage.execute` (query/stage/base_stage.go): the plan-node tree of one stage is executed
depth first; the FIRST error ends the stage — except a not-found error of a node that was built with
`NewPlanNodeWithIgnore`, which ends only that node's subtree, silently (property C19, round 9: the
error-tolerance decision on the leaf). Core Lean only.

  func (stage *baseStage) execute(node PlanNode) (err error) {
      if node == nil { return nil }
      stats, err = node.ExecuteWithStats()
      …
      if err != nil {
          if node.IgnoreNotFound() && errors.Is(err, constants.ErrNotFound) { return nil }
          return err
      }
      for idx := range children { if err := stage.execute(children[idx]); err != nil { return err } }
      return nil
  }
-/
namespace LinVerif.C19PlanExec

/-- what the node's operator does -/
inductive OpRes where
  | ok          -- returns nil
  | notFound    -- returns an error that `errors.Is(err, constants.ErrNotFound)`
  | err         -- returns any other error
  deriving DecidableEq, Repr, Inhabited

inductive PNode where
  | mk (id : Nat) (ignore : Bool) (res : OpRes) (children : List PNode)
  deriving Repr, Inhabited

namespace PNode
def id : PNode → Nat | mk i _ _ _ => i
def ignore : PNode → Bool | mk _ g _ _ => g
def res : PNode → OpRes | mk _ _ r _ => r
def children : PNode → List PNode | mk _ _ _ c => c
end PNode

/-- the two regenerated switches of the tolerance condition: it asks the node (`IgnoreNotFound()`)
and it asks the error (`errors.Is(err, constants.ErrNotFound)`); `⟨true, true⟩` = the source as it is -/
structure Tol where
  asksNode : Bool
  asksNotFound : Bool
  deriving DecidableEq, Repr

/-- `if node.IgnoreNotFound() && errors.Is(err, constants.ErrNotFound)` for a failed node -/
def tolerated (t : Tol) (n : PNode) : Bool :=
  (!t.asksNode || n.ignore) && (!t.asksNotFound || n.res == .notFound)

mutual
/-- `baseStage.execute(node)`: the nodes whose operator ran (in order) and the node whose error is
returned (`none` = nil) -/
def exec (t : Tol) : PNode → List PNode × Option PNode
  | .mk i g r cs =>
    match r with
    | .ok => let (ran, e) := execL t cs; (PNode.mk i g r cs :: ran, e)
    | _ => if tolerated t (.mk i g r cs) then ([PNode.mk i g r cs], none)
           else ([PNode.mk i g r cs], some (PNode.mk i g r cs))
def execL (t : Tol) : List PNode → List PNode × Option PNode
  | [] => ([], none)
  | c :: cs =>
    match exec t c with
    | (ran, some e) => (ran, some e)
    | (ran, none) => let (ran', e) := execL t cs; (ran ++ ran', e)
end

/-- the source as it is -/
def asIs : Tol := ⟨true, true⟩

/-- `baseStage.execute` as rendered by the fact extractor -/
def baseStageExecuteTreeOrder : Tol → List String
  | t => ["if node == nil", "then:return nil", "node.ExecuteWithStats()", "if stats != nil",
   "then:append(stage.operators, stats)", "then:stage.operators = append(stage.operators, stats)", "if err != nil"] ++
   (match t.asksNode, t.asksNotFound with
    | true, true => ["then:if node.IgnoreNotFound() && errors.Is(err, constants.ErrNotFound)"]
    | true, false => ["then:if node.IgnoreNotFound()"]
    | false, true => ["then:if errors.Is(err, constants.ErrNotFound)"]
    | false, false => ["then:if true"]) ++
   ["then:then:return nil", "then:return err", "node.Children()", "loop:stage.execute(children[idx])",
    "loop:if err != nil", "loop:then:return err", "return nil"]

end LinVerif.C19PlanExec
