/-
C12 — the leaf's "grouping collect" completion protocol (core Lean only).

Mirrors, branch for branch,
  query/context/leaf_grouping_context.go   NewLeafGroupingContext, ForkGroupingTask, CompleteGroupingTask,
                                           collectGroupByTagValues, reduceTagValues, getTagValues
  flow/context.go                          collectGroupingTagValueIDs, HasGroupingTagValueIDs
  query/context/leaf_execute_context.go    waitCollectGroupingTagsCompleted, SendResponse

Why it belongs to C12: "a shard or node that holds no matching data never turns a non-empty answer
into an error". A leaf answers only after `waitCollectGroupingTagsCompleted`; if that waits for a
channel nobody closes (no grouping task was ever forked on this node, or the countdown never reaches
zero) the leaf answers `context deadline exceeded` and the root fails the whole query.

Tag value ids are `Nat`; a bitmap is a duplicate-free list (printed sorted by the driver). The
metadata database is a parameter: `known key id` = the dictionary has a value for the id
(`CollectTagValues` fills the output map only for those), `failAt` on a completion = the key index
whose dictionary lookup returns an error.
-/
namespace LinVerif.LeafCollect

/-- what the leaf has told its receivers -/
inductive Ans where
  | ok          -- result set
  | collectErr  -- SendResponse(err) from collectGroupByTagValues
  | deadline    -- waitCollectGroupingTagsCompleted ended with ctx.Done()
  deriving DecidableEq, Repr

/-- the condition that guards the `select` in waitCollectGroupingTagsCompleted -/
inductive WaitOn where
  | hasIDs      -- `ctx.StorageExecuteCtx.HasGroupingTagValueIDs()` (the code)
  | hasGroupBy  -- `ctx.StorageExecuteCtx.Query.HasGroupBy()` (a plausible rewrite)
  deriving DecidableEq, Repr

structure G where
  nkeys : Nat                          -- len(Query.GroupBy)
  pending : Int                        -- groupingRelatedTasks
  ids : List (List Nat)                -- StorageExecuteContext.GroupingTagValueIDs (nil = [])
  remaining : Int                      -- collectRelatedTasks
  closes : Nat                         -- how often close(collectGroupingTagsCompleted) ran (2 = panic)
  maps : List (Option (List Nat))      -- tagValuesMap[idx]: none = nil map, some l = ids with a value
  memo : List (List Nat × List (Option Nat))  -- tagsMap: key -> rendered tags
  answer : Option Ans                  -- what SendResponse sent (completed = answer.isSome)
  deriving DecidableEq, Repr

/-- NewLeafGroupingContext (+ metadataLookup.groupBy: GroupingTagValueIDs = make(k)) -/
def G.new (k : Nat) : G :=
  { nkeys := k, pending := 0, ids := List.replicate k [], remaining := k, closes := 0,
    maps := List.replicate k none, memo := [], answer := none }

/-- ForkGroupingTask -/
def G.fork (g : G) : G := { g with pending := g.pending + 1 }

def insertId (l : List Nat) (v : Nat) : List Nat := if v ∈ l then l else l ++ [v]

/-- collectGroupingTagValueIDs: `for idx, id := range tagValueIDs { ids[idx].Add(id) }` -/
def addIds : List (List Nat) → List Nat → List (List Nat)
  | l :: ls, v :: vs => insertId l v :: addIds ls vs
  | ls, [] => ls
  | [], _ :: _ => []      -- index out of range in Go; the driver refuses such lines

def G.addIDs (g : G) (vs : List Nat) : G := { g with ids := addIds g.ids vs }

/-- HasGroupingTagValueIDs -/
def G.anyIds (g : G) : Bool := g.ids.any (fun l => !l.isEmpty)

/-- the loop of collectGroupByTagValues over the group-by keys, from key index `idx` on:
`reduceTagValues(idx, nil)` for a key without ids, otherwise the dictionary lookup and
`reduceTagValues(idx, values)`; a failing lookup stops the loop (SendResponse(err); return).
Returns the new tagValuesMap entries, the countdown, the close count and whether it failed. -/
def reduceAll (known : Nat → Nat → Bool) (failAt : Option Nat) :
    Nat → List (List Nat) → List (Option (List Nat)) → Int → Nat →
    List (Option (List Nat)) × Int × Nat × Bool
  | _, [], _, r, c => ([], r, c, false)
  | idx, l :: rest, old, r, c =>
    if !l.isEmpty && failAt == some idx then (old, r, c, true)
    else
      let m : Option (List Nat) := if l.isEmpty then none else some (l.filter (known idx))
      let r' := r - 1
      let c' := if r' == 0 then c + 1 else c
      let res := reduceAll known failAt (idx + 1) rest old.tail r' c'
      (m :: res.1, res.2.1, res.2.2.1, res.2.2.2)

/-- the function collectGroupByTagValues runs under StorageExecuteContext.CollectTagValues (its mutex) -/
def G.collectBody (known : Nat → Nat → Bool) (failAt : Option Nat) (g : G) : G :=
  let res := reduceAll known failAt 0 g.ids g.maps g.remaining g.closes
  { g with maps := res.1, remaining := res.2.1, closes := res.2.2.1,
           answer := if res.2.2.2 && g.answer.isNone then some .collectErr else g.answer }

/-- collectGroupByTagValues: the early return, else the body -/
def G.collect (known : Nat → Nat → Bool) (failAt : Option Nat) (g : G) : G :=
  if g.pending != 0 || g.nkeys == 0 then g else g.collectBody known failAt

/-- CompleteGroupingTask -/
def G.complete (known : Nat → Nat → Bool) (failAt : Option Nat) (g : G) : G :=
  G.collect known failAt { g with pending := g.pending - 1 }

def G.waits (w : WaitOn) (g : G) : Bool :=
  match w with
  | .hasIDs => g.anyIds
  | .hasGroupBy => g.nkeys != 0

/-- SendResponse(nil) would sit in the `select` until the task deadline -/
def G.blocks (w : WaitOn) (g : G) : Bool := g.waits w && g.closes == 0

/-- SendResponse(nil): CAS on completed, wait, answer -/
def G.send (w : WaitOn) (g : G) : G :=
  if g.answer.isSome then g
  else { g with answer := some (if g.blocks w then .deadline else .ok) }

/-- getTagValues's loop body for one key: the tag value of the id or `tag_value_not_found` -/
def lookupOne (m : Option (List Nat)) (v : Nat) : Option Nat :=
  match m with
  | some l => if v ∈ l then some v else none
  | none => none

def lookupAll : List (Option (List Nat)) → List Nat → List (Option Nat)
  | m :: ms, v :: vs => lookupOne m v :: lookupAll ms vs
  | _, _ => []

/-- getTagValues: memo first, else one lookup per key, memoised -/
def G.translate (g : G) (key : List Nat) : G × List (Option Nat) :=
  match g.memo.find? (fun p => p.1 == key) with
  | some p => (g, p.2)
  | none =>
    let out := lookupAll g.maps key
    ({ g with memo := (key, out) :: g.memo }, out)

/-- the events of one leaf execution -/
inductive Ev where
  | fork
  | ids (vs : List Nat)
  | complete (failAt : Option Nat)
  | send
  deriving DecidableEq, Repr

def G.step (known : Nat → Nat → Bool) (w : WaitOn) (g : G) : Ev → G
  | .fork => g.fork
  | .ids vs => g.addIDs vs
  | .complete f => g.complete known f
  | .send => g.send w

def G.run (known : Nat → Nat → Bool) (w : WaitOn) (g : G) (evs : List Ev) : G :=
  evs.foldl (G.step known w) g

/-- The discipline of the leaf pipeline (query/pipeline.go executeStage, pipeline_state_matchine.go):
a stage forks its grouping task when it is created, tag value ids are collected only by a stage that
is executing (between its fork and its completion), a completion belongs to an earlier fork, and
the pipeline's completion callback (SendResponse) runs when no stage is pending. -/
def Ev.allowed (g : G) : Ev → Bool
  | .fork => true
  | .ids vs => decide (0 < g.pending) && vs.length == g.nkeys
  | .complete _ => decide (0 < g.pending)
  | .send => g.pending == 0

def validB (known : Nat → Nat → Bool) (w : WaitOn) : G → List Ev → Bool
  | _, [] => true
  | g, e :: es => e.allowed g && validB known w (g.step known w e) es

def Valid (known : Nat → Nat → Bool) (w : WaitOn) (g : G) (evs : List Ev) : Prop :=
  validB known w g evs = true

instance (known : Nat → Nat → Bool) (w : WaitOn) (g : G) (evs : List Ev) : Decidable (Valid known w g evs) := by
  unfold Valid; infer_instance

/-! ### the same protocol at the granularity of its atomic steps

`CompleteGroupingTask` is not atomic: `groupingRelatedTasks.Dec()`, then (in collectGroupByTagValues)
`groupingRelatedTasks.Load()`, then — if that read 0 — the body under the mutex. Stages run on pool
goroutines, so other stages' forks, id collections, decrements, loads and bodies may fall between
these steps. `GI` adds the threads' program counters as two counts: `ndec` = stages that have
decremented and not yet loaded, `nload0` = stages that loaded 0 and have not yet run the body. -/

structure GI where
  g : G
  ndec : Nat
  nload0 : Nat

inductive EvI where
  | spawn                         -- ForkGroupingTask: Inc
  | ids (vs : List Nat)           -- collectGroupingTagValueIDs by an executing stage
  | dec                           -- CompleteGroupingTask: Dec
  | load                          -- collectGroupByTagValues: the guard's Load (and HasGroupBy)
  | body (failAt : Option Nat)    -- the function under CollectTagValues
  | send                          -- the pipeline's completion callback
  deriving DecidableEq, Repr

def GI.new (k : Nat) : GI := { g := G.new k, ndec := 0, nload0 := 0 }

def GI.step (known : Nat → Nat → Bool) (w : WaitOn) (s : GI) : EvI → GI
  | .spawn => { s with g := s.g.fork }
  | .ids vs => { s with g := s.g.addIDs vs }
  | .dec => { s with g := { s.g with pending := s.g.pending - 1 }, ndec := s.ndec + 1 }
  | .load =>
    if s.g.pending != 0 || s.g.nkeys == 0 then { s with ndec := s.ndec - 1 }
    else { s with ndec := s.ndec - 1, nload0 := s.nload0 + 1 }
  | .body f => { s with g := s.g.collectBody known f, nload0 := s.nload0 - 1 }
  | .send => { s with g := s.g.send w }

def GI.run (known : Nat → Nat → Bool) (w : WaitOn) (s : GI) (evs : List EvI) : GI :=
  evs.foldl (GI.step known w) s

/-- which step a thread can take: ids / dec by a stage that is executing (forked, not yet
decremented: `pending` counts exactly those), load by a stage that has decremented, body by one
that loaded 0, the callback when every stage is through (Complete() returns before the pipeline
counts the stage as completed) -/
def EvI.allowed (s : GI) : EvI → Bool
  | .spawn => true
  | .ids vs => decide (0 < s.g.pending) && vs.length == s.g.nkeys
  | .dec => decide (0 < s.g.pending)
  | .load => decide (0 < s.ndec)
  | .body _ => decide (0 < s.nload0)
  | .send => s.g.pending == 0 && s.ndec == 0 && s.nload0 == 0

def validI (known : Nat → Nat → Bool) (w : WaitOn) : GI → List EvI → Bool
  | _, [] => true
  | s, e :: es => e.allowed s && validI known w (s.step known w e) es

def ValidI (known : Nat → Nat → Bool) (w : WaitOn) (s : GI) (evs : List EvI) : Prop :=
  validI known w s evs = true

instance (known : Nat → Nat → Bool) (w : WaitOn) (s : GI) (evs : List EvI) : Decidable (ValidI known w s evs) := by
  unfold ValidI; infer_instance

end LinVerif.LeafCollect
