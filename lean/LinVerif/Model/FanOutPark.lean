/-
Two-step `Consume` on top of Model/FanOut.lean (core Lean only).

`consumerGroup.Consume` is not one atomic step:

    headSeq := f.consumedSeq.Load() + 1                      -- (A) unlocked read
    if !f.Queue().Queue().NotEmpty(headSeq, f.isPause) {     -- (B) parks until headSeq <= appended,
        return SeqNoNewMessageAvailable                      --     or the group is paused / closed
    }
    return f.consume()                                       -- (C) write lock: RE-READS consumedSeq,
                                                             --     re-checks it against appended

Between (A) and (C) any other goroutine may run any operation (SetConsumedSeq, SetSeq,
FanOutQueue.SetAppendedSeq, Put, Ack, Sync ...). The model keeps, per group, the head a parked
`Consume` call computed at (A); `cbegin g` is (A) + parking, `cend g` is the return from (B) + (C).
`cend` is enabled only when `NotEmpty` can return: head ≤ appended, or the group is paused, or its
handle was closed; otherwise the call stays parked (`blocked`).

The head remembered at (A) is used for the wake-up condition only — what is handed out is what
(C) computes from the state at that moment.
-/
import LinVerif.Model.FanOut

namespace LinVerif.FanOut
open LinVerif.Map

structure PState where
  s : State
  parked : List (Nat × Int)     -- group ↦ headSeq of its parked Consume call
  deriving DecidableEq, Repr

def PState.init : PState := { s := State.init, parked := [] }

inductive POp
  | op (o : Op)          -- any operation of the sequential alphabet, by any other goroutine
  | cbegin (g : Nat)     -- Consume: (A) and parking in NotEmpty
  | cend (g : Nat)       -- Consume: NotEmpty returns, (C), the call returns
  deriving DecidableEq, Repr

inductive PRes
  | res (r : Res)
  | parkedNow            -- cbegin: the call is parked
  | blocked              -- cend while NotEmpty cannot return
  | notParked            -- cend / cbegin addressed to a group with no / already a parked call
  deriving DecidableEq, Repr

/-- can `NotEmpty(head, isPause)` return for group `g`? (`closed` of a stopped handle counts as paused) -/
def PState.canWake (ps : PState) (g : Nat) (head : Int) : Bool :=
  match lookup ps.s.live g with
  | none => true
  | some grp => grp.paused || decide (head ≤ ps.s.q.appended)

def pstep (v : Variant) (ps : PState) : POp → PState × PRes
  | .op o => ({ ps with s := (step v ps.s o).1 }, .res (step v ps.s o).2)
  | .cbegin g =>
    match lookup ps.s.live g, lookup ps.parked g with
    | some grp, none => ({ ps with parked := upsert ps.parked g (grp.consumed + 1) }, .parkedNow)
    | _, _ => (ps, .notParked)
  | .cend g =>
    match lookup ps.parked g with
    | none => (ps, .notParked)
    | some head =>
      if ps.canWake g head then
        match lookup ps.s.live g with
        -- the handle was closed while parked: NotEmpty answers false
        | none => ({ ps with parked := erase ps.parked g }, .res (.val noSeq))
        -- paused: NotEmpty answers false (State.consume's first branch); otherwise consume()
        | some _ => ({ s := (ps.s.consume g).1, parked := erase ps.parked g }, .res (ps.s.consume g).2)
      else (ps, .blocked)

def prun (v : Variant) : PState → List POp → PState
  | ps, [] => ps
  | ps, o :: os => prun v (pstep v ps o).1 os

end LinVerif.FanOut
