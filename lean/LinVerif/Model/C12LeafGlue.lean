/-
C12, round 12: glue of the leaf pipeline between series filtering and the per-container stages, and
the "ignore not found" rule of a stage's plan nodes.  Core only.

* query/stage/shard_scan_stage.go `shardScanStage.NextStages`: one grouping / data-load stage per
  roaring container of `SeriesIDsAfterFiltering`; the stage gets the container
  (`GetContainerAtIndex(idx)`) and the container's high key (`GetHighKeys()[idx]`).
  `flow.DataLoadContext` users (`GroupingScanner.GetSeriesAndTagValue(highKey)`, the memory database and
  file loaders) look series `highKey * 65536 + low` up under that high key.
* query/stage/base_stage.go `baseStage.execute`: `node.IgnoreNotFound() && errors.Is(err, ErrNotFound)`
  swallows a plan node's error; anything else fails the stage, the pipeline, and so the NODE's answer
  (`LeafExecuteContext.SendResponse(err)`), whose text the root classifies with
  `strings.Contains(errMsg, "not found")` (`MetricContext.checkError`).
-/
namespace LinVerif.LeafGlue

/-- a roaring bitmap: containers in ascending high-key order, each with its low 16-bit values -/
abbrev Bitmap := List (Nat × List Nat)

/-- `GetHighKeys()` -/
def highKeys (bm : Bitmap) : List Nat := bm.map Prod.fst

/-- `GetContainerAtIndex(idx)` (nil container = no values when idx is out of range) -/
def containerAt (bm : Bitmap) (idx : Nat) : List Nat :=
  match bm[idx]? with
  | some p => p.2
  | none => []

/-- the series ids of a bitmap -/
def members (bm : Bitmap) : List Nat := bm.flatMap (fun p => p.2.map (fun low => p.1 * 65536 + low))

/-- `flow.DataLoadContext` as far as the series ids go -/
structure DataLoad where
  highKey : Nat
  lows : List Nat
  deriving DecidableEq, Repr

/-- which expression `NextStages` stores as `SeriesIDHighKey` -/
inductive HighKeyOf where
  | keyAtIndex   -- `seriesIDsHighKeys[idx]` (the code)
  | index        -- `uint16(idx)`: the range index itself
  deriving DecidableEq, Repr

/-- the loop of `NextStages`: `for idx := range highKeys` with the running index -/
def nextStagesLoop (v : HighKeyOf) (bm : Bitmap) : Nat → List Nat → List DataLoad
  | _, [] => []
  | idx, hk :: hks =>
    { highKey := (match v with | .keyAtIndex => hk | .index => idx), lows := containerAt bm idx }
      :: nextStagesLoop v bm (idx + 1) hks

/-- `shardScanStage.NextStages` -/
def nextStages (v : HighKeyOf) (bm : Bitmap) : List DataLoad := nextStagesLoop v bm 0 (highKeys bm)

/-- the series a stage looks up: `highKey * 65536 + low` -/
def DataLoad.ids (d : DataLoad) : List Nat := d.lows.map (fun low => d.highKey * 65536 + low)

/-- what the stages of a shard load from the shard's data (`data id` = the series' result, if the
shard holds data for it) -/
def loaded {α : Type} (stages : List DataLoad) (data : Nat → Option α) : List α :=
  stages.flatMap (fun d => d.ids.filterMap data)

/-! ## errors through a stage's plan nodes -/

/-- Go error values as far as `errors.Is(err, constants.ErrNotFound)` and the error TEXT go -/
inductive Err where
  | notFound                 -- constants.ErrNotFound ("not found")
  | other                    -- any error unrelated to ErrNotFound whose text has no "not found"
  | wrapW (e : Err)          -- fmt.Errorf("…%w…", e): chain kept, text kept
  | wrapS (e : Err)          -- fmt.Errorf("…%s…", e) / %v / errors.New(e.Error()): chain CUT, text kept
  deriving DecidableEq, Repr

/-- `errors.Is(err, constants.ErrNotFound)` -/
def Err.isNotFound : Err → Bool
  | .notFound => true
  | .other => false
  | .wrapW e => e.isNotFound
  | .wrapS _ => false

/-- `strings.Contains(err.Error(), "not found")` -/
def Err.mentionsNotFound : Err → Bool
  | .notFound => true
  | .other => false
  | .wrapW e => e.mentionsNotFound
  | .wrapS e => e.mentionsNotFound

/-- a plan node: created by `NewPlanNodeWithIgnore`?, and what its operator's Execute returned -/
structure PlanNode where
  ignore : Bool
  result : Option Err
  deriving DecidableEq, Repr

/-- `baseStage.execute` over the plan's nodes in order: the first error that is not swallowed -/
def execPlan : List PlanNode → Option Err
  | [] => none
  | n :: ns =>
    match n.result with
    | none => execPlan ns
    | some e => if n.ignore && e.isNotFound then execPlan ns else some e

/-- a shard of a node: its scan plan and the data it contributes when the plan goes through -/
structure Shard (α : Type) where
  plan : List PlanNode
  data : List α

/-- what the node answers -/
inductive NodeAnswer (α : Type) where
  | data (xs : List α)
  | notFound          -- error whose text contains "not found": the root tolerates it as "node without data"
  | failure           -- any other error: the query fails
  deriving Repr

/-- the leaf pipeline of a node: every shard's scan stage; the first failing stage fails the pipeline
and the node answers with that error, otherwise the node answers the data of all its shards -/
def nodeAnswer {α : Type} : List (Shard α) → NodeAnswer α
  | [] => .data []
  | s :: ss =>
    match execPlan s.plan with
    | some e => if e.mentionsNotFound then .notFound else .failure
    | none =>
      match nodeAnswer ss with
      | .data xs => .data (s.data ++ xs)
      | a => a

end LinVerif.LeafGlue
