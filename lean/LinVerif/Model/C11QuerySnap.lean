/-
C11, round 12 — a query CONCURRENT with flushes, at the level of WHICH points it reads (core Lean only).

`dataFamily.Filter` (shard-scan stage) picks the family's mutable and immutable memory database
(as OBJECTS) and the readers of a kv snapshot (the files of that moment). The data are read later
(data-load stages: `memFilterResultSet.Load` → `timeSeriesIndex.Load` → `getCompressBuf` / `getPage`,
`metricLoader.Load`). Everything may happen in between: writes into the picked mutable memory
database, the write window being left (pages compacted into the compress buffers), the memory-database
switch of a flush, and its completion — file committed, `memoryDatabase.Close()` (= `Release()` of
the write buffers: `dirty = true`, the pages stay), `immutableMemDB = nil`.

Variant flag `keep`: does `dataPointBuffer.GetPage` still hand out the pages of a released buffer
(the code: it never looks at `dirty`) or not (seeded change c11-24).
Points are opaque ids. `flushCommit` is atomic here: the window between the file commit and
`immutableMemDB = nil` is the recorded finding flush-commit-window-double-count.
-/
namespace LinVerif.C11QuerySnap

structure Mem where
  id : Nat
  compressed : List Nat := []
  pages : List Nat := []
deriving DecidableEq, Repr

def Mem.pts (m : Mem) : List Nat := m.compressed ++ m.pages

structure Fam where
  mu : Option Mem := none
  imm : Option Mem := none
  closed : List Mem := []
  files : List (List Nat) := []
  nextId : Nat := 0
deriving DecidableEq, Repr

inductive Op where
  | write (p : Nat)
  | roll
  | flushBegin
  | flushCommit
deriving DecidableEq, Repr

def step (f : Fam) : Op → Fam
  | .write p =>
    match f.mu with
    | some m => { f with mu := some { m with pages := m.pages ++ [p] } }
    | none => { f with mu := some { id := f.nextId, pages := [p] }, nextId := f.nextId + 1 }
  | .roll =>
    match f.mu with
    | some m => { f with mu := some { m with compressed := m.compressed ++ m.pages, pages := [] } }
    | none => f
  | .flushBegin =>
    match f.imm, f.mu with
    | none, some m => { f with imm := some m, mu := none }
    | _, _ => f
  | .flushCommit =>
    match f.imm with
    | some m => { f with files := f.files ++ [m.pts], closed := m :: f.closed, imm := none }
    | none => f

def run (f : Fam) (ops : List Op) : Fam := ops.foldl step f

/-- the memory databases `memoryFilter` can pick. -/
def live (f : Fam) : List Mem := f.mu.toList ++ f.imm.toList

/-- what a query holds after its shard-scan stage. -/
structure Snap where
  files : List (List Nat)
  memIds : List Nat
deriving DecidableEq, Repr

def filter (f : Fam) : Snap := ⟨f.files, (live f).map (·.id)⟩

/-- what its data-load stages read, in the family state `f` of THAT moment: the snapshot's files, the
picked memory databases that are still live (everything they hold now), and the picked ones that
were closed meanwhile (compress buffers; the pages only if a released buffer still hands them out). -/
def load (keep : Bool) (f : Fam) (s : Snap) : List Nat :=
  s.files.flatten
    ++ ((live f).filter (fun m => s.memIds.contains m.id)).flatMap Mem.pts
    ++ (f.closed.filter (fun m => s.memIds.contains m.id)).flatMap
        (fun m => m.compressed ++ (if keep then m.pages else []))

def written : List Op → List Nat
  | [] => []
  | .write p :: ops => p :: written ops
  | _ :: ops => written ops

end LinVerif.C11QuerySnap
