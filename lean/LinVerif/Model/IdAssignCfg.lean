/-
Which variant of the name → id code does /repo have right now? Decided from the regenerated
call orders (LinVerif/Generated/C09.lean, written by `lvh extract` from the current source).
Core Lean only (linked into `lvmodel`).
-/
import LinVerif.Generated.C09
import LinVerif.Model.IdAssign

namespace LinVerif.IdAssign
open LinVerif.Generated

/-- the calls made before the first call of `x` -/
def callsBefore (calls : List String) (x : String) : List String := calls.takeWhile (· ≠ x)

/-- the calls made after the first call of `x` -/
def callsAfter (calls : List String) (x : String) : List String := (calls.dropWhile (· ≠ x)).drop 1

/-- `createValue`: what happens between `s.lock.Lock()` and `createFn()`?
    * a lookup in the memory maps (`s.getValueFromMem`)                         → `recheckMem`
    * … and a test whether a flush completed (`s.flushedSince`)                → `recheckFull`
    * … and a lookup in the bucket of the current snapshot (`bucket.GetValue`) → `recheckLocked`
    * … but the bucket comes from the LRU cache (`bucketCache.Get`)             → `recheckLockedCached`
    * neither                                                                   → `noRecheck` -/
def kvVariantOf (createValueCalls : List String) : KvVariant :=
  let locked := callsBefore (callsAfter createValueCalls "lock.Lock") "createFn"
  if createValueCalls.contains "lock.Lock" ∧ createValueCalls.contains "createFn" ∧ locked.contains "s.getValueFromMem" then
    if locked.contains "s.flushedSince" then .recheckFull
    else if locked.contains "bucketCache.Get" then .recheckLockedCached
    else if locked.contains "reader.GetBucket" ∧ locked.contains "bucket.GetValue" then .recheckLocked
    else .recheckMem
  else .noRecheck

/-- `genFieldID` / `genTagKeyID`: is the schema read (`s.GetSchema`) before the lock is taken,
or looked up after it (`s.getSchemaLocked`)? Both generators must agree to count as repaired. -/
def schemaVariantOf (genFieldCalls genTagKeyCalls : List String) : SchemaVariant :=
  let ok (calls : List String) : Bool :=
    !(callsBefore calls "lock.Lock").contains "s.GetSchema" &&
    (callsAfter calls "lock.Lock").contains "s.getSchemaLocked"
  if ok genFieldCalls ∧ ok genTagKeyCalls then .lookupLocked else .snapshotOutside

/-- does a `Gen*Seq` function store into the mmap page (directly or through a helper method)? -/
def writesThrough (helpers : List (String × List String)) (calls : List String) : Bool :=
  calls.contains "stream.PutUint32" ||
  calls.any (fun c => helpers.any (fun h => h.1 = c ∧ h.2.contains "stream.PutUint32"))

def seqWriteThroughOf (helpers : List (String × List String)) (gens : List (List String)) : Bool :=
  gens.all (writesThrough helpers)

/-- `GenSeriesID`: is the series limit looked up before `series.GetOrCreateValue` is called
(i.e. available to createFn), or only after the entry was stored? -/
def seriesLimitFirstOf (genSeriesCalls : List String) : Bool :=
  (callsBefore genSeriesCalls "series.GetOrCreateValue").contains "limits.GetSeriesLimit"

/-- `getOrCreateValue`: is the lookup in the memory maps made before the persisted bucket is searched? -/
def kvMemFirstOf (getOrCreateCalls : List String) : Bool :=
  (callsBefore getOrCreateCalls "bucket.GetValue").any (fun c => c = "s.GetValueFromMem" || c = "s.getValueFromMemWithSeq")

/-- the number `Shard.flushStep` gives a step of `metricIndexDatabase.Flush` -/
def indexStepId (call : String) : Option Nat :=
  if call = "metricInverted.flush" then some 0
  else if call = "forward.flush" then some 1
  else if call = "inverted.flush" then some 2
  else if call = "series.Flush" then some 3
  else none

/-- the steps of `metricIndexDatabase.Flush` in the order the source evaluates them -/
def indexFlushStepsOf (guards : List (String × Bool)) : List Nat := guards.filterMap (fun g => indexStepId g.1)

/-- is every step's error returned at once (`if err := step(); err != nil { return err }`)? -/
def flushAbortsOf (guards : List (String × Bool)) : Bool :=
  (guards.filter (fun g => (indexStepId g.1).isSome)).all (·.2)

/-- the step list of the index flush as /repo has it now -/
def currentIndexFlushSteps : List Nat := indexFlushStepsOf C09.indexFlushStepGuards

/-- the variant of the code in /repo now -/
def currentCfg : Cfg :=
  { kv := kvVariantOf C09.kvCreateValueCalls
    schema := schemaVariantOf C09.schemaGenFieldCalls C09.schemaGenTagKeyCalls
    seqWriteThrough := seqWriteThroughOf C09.seqHelperCalls
      [C09.seqGenNamespaceSeqCalls, C09.seqGenMetricNameSeqCalls, C09.seqGenTagKeySeqCalls, C09.seqGenTagValueSeqCalls]
    seriesLimitFirst := seriesLimitFirstOf C09.indexGenSeriesCalls
    schemaMarkWritten := C09.schemaFlushCalls.contains "λ:value.MarkPersistedPrefix" &&
      !C09.schemaFlushCalls.contains "λ:value.MarkPersisted"
    memdbPrepareInline := (callsBefore C09.memdbHandleCalls "idb.handleFlush").contains "indexDB.PrepareFlush" &&
      !C09.memdbHandleFlushCalls.contains "indexDB.PrepareFlush"
    memdbExclusive := C09.memdbGetOrCreateTSICalls.contains "lock.Lock" && !C09.memdbGetOrCreateTSICalls.contains "lock.RLock"
    kvMemFirst := kvMemFirstOf C09.kvGetOrCreateCalls
    kvCacheAddGuarded := C09.kvGetOrCreateCalls.contains "s.addBucketCache" && !C09.kvGetOrCreateCalls.contains "bucketCache.Add" &&
      C09.kvAddBucketCacheCalls = ["lock.RLock", "defer:lock.RUnlock", "bucketCache.Add"]
    schemaLockedUsesCache := C09.schemaGetSchemaLockedCalls.contains "cache.Get"
    indexFlushAborts := flushAbortsOf C09.indexFlushStepGuards
    kvCacheReleasesOnEvict := C09.kvNewStoreEvictCalls.contains "value.Release"
    prepareSwapsEmpty := [C09.kvPrepareFlushCalls, C09.schemaPrepareFlushCalls, C09.invertedPrepareFlushCalls,
      C09.forwardPrepareFlushCalls].all (·.contains "immutable.IsEmpty") }

/-- do the three places that KEEP a name copy it? `createValue` stores the dictionary entry under
`string(key)`, `genTagKeyID` appends `tag.Meta{Key: string(tagKey)}`, and the write path hands field names
over as `field.Name(itr.f.Name())` — three copying conversions of a byte slice. (The zero-copy helper
`strutil.ByteSlice2String` keeps a reference into the caller's buffer.) -/
def currentNamesCopied : Bool :=
  C09.kvStoredKeyExprs == ["string(key)"] &&
  C09.schemaStoredTagKeyExprs == ["string(tagKey)"] &&
  C09.rowFieldNextNameExprs == ["field.Name(itr.f.Name())"]

/-- default limits as the source has them now -/
def currentLimits : Limits :=
  { maxFields := C09.defaultMaxFieldsPerMetric, maxTags := C09.defaultMaxTagsPerMetric,
    maxSeries := C09.defaultMaxSeriesPerMetric }

end LinVerif.IdAssign
