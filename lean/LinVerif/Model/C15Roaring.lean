/-
C15 — the container structure of the key bitmap (github.com/lindb/roaring v1.2.1), core Lean only.

Go anchors (module cache, not /repo; lindb's reader calls them through `r.keys.Contains/Rank`)
  roaring.go          Bitmap.Rank (the loop over highlowcontainer, transcribed statement for statement),
                      Bitmap.Contains (getContainer(highbits) then container.contains(lowbits)),
                      Bitmap.GetCardinality (sum of the containers' cardinalities)
  arraycontainer.go   rank / contains / getCardinality (binarySearch over the sorted `content`; here a
                      scan that stops at the first larger element — equal on sorted content only)
  bitmapcontainer.go  rank / contains (popcount below a position; here the set bits as an ascending list,
                      the same stand-in as the array)
  runcontainer.go     rank / contains / getCardinality over `iv []interval16{start, length}`
                      (`last = start + length`, `runlen = length + 1`)

A bitmap is the list of its (high key, container) pairs in the order of `highlowcontainer.keys`.
-/
namespace LinVerif.C15Roaring

/-- a container of low 16-bit values, by kind -/
inductive Cont where
  | array (content : List Nat)
  | bitmap (bits : List Nat)
  | run (iv : List (Nat × Nat))
deriving Repr, DecidableEq

/-- values of a run list in iteration order: `for i := p.start; i <= p.last(); i++` -/
def runMembers : List (Nat × Nat) → List Nat
  | [] => []
  | (s, l) :: t => List.range' s (l + 1) ++ runMembers t

/-- `runContainer16.getCardinality`: `n += p.runlen()` -/
def runCard : List (Nat × Nat) → Nat
  | [] => 0
  | (_, l) :: t => (l + 1) + runCard t

/-- `runContainer16.rank(x)`: the whole runs before the one `search` points at, plus `x - start + 1`
when x lies inside it; runs that start above x contribute nothing -/
def runRank : List (Nat × Nat) → Nat → Nat
  | [], _ => 0
  | (s, l) :: t, x =>
    if x < s then 0
    else if x ≤ s + l then x - s + 1
    else (l + 1) + runRank t x

/-- `runContainer16.contains(x)` -/
def runContains : List (Nat × Nat) → Nat → Bool
  | [], _ => false
  | (s, l) :: t, x =>
    if x < s then false
    else if x ≤ s + l then true
    else runContains t x

/-- `arrayContainer.rank(x)`: `binarySearch` answers the index of x (`answer + 1`) or minus its
insertion point minus one (`-answer - 1`); both are the number of leading elements ≤ x of a sorted
array. The scan stops at the first element above x, as the search's second loop does (`break`). -/
def arrRank : List Nat → Nat → Nat
  | [], _ => 0
  | a :: t, x => if a ≤ x then 1 + arrRank t x else 0

/-- `arrayContainer.contains(x)`: `binarySearch(content, x) >= 0` -/
def arrContains : List Nat → Nat → Bool
  | [], _ => false
  | a :: t, x => if a < x then arrContains t x else decide (a = x)

def Cont.members : Cont → List Nat
  | .array c => c
  | .bitmap c => c
  | .run iv => runMembers iv

def Cont.card : Cont → Nat
  | .array c => c.length
  | .bitmap c => c.length
  | .run iv => runCard iv

def Cont.rank : Cont → Nat → Nat
  | .array c, x => arrRank c x
  | .bitmap c, x => arrRank c x
  | .run iv, x => runRank iv x

def Cont.contains : Cont → Nat → Bool
  | .array c, x => arrContains c x
  | .bitmap c, x => arrContains c x
  | .run iv, x => runContains iv x

/-- `roaringArray`: parallel `keys` / `containers` -/
abbrev Layout := List (Nat × Cont)

/-- `highbits(x)` / `lowbits(x)` -/
def highbits (x : Nat) : Nat := x / 65536
def lowbits (x : Nat) : Nat := x % 65536

/-- loop of `Bitmap.Rank(x)`:
```
for i := 0; i < size(); i++ {
  key := getKeyAtIndex(i)
  if key > highbits(x) { return size }
  if key < highbits(x) { size += getContainerAtIndex(i).getCardinality() }
  else { return size + getContainerAtIndex(i).rank(lowbits(x)) }
}
return size
``` -/
def rankLoop : Layout → Nat → Nat → Nat
  | [], _, size => size
  | (key, c) :: rest, x, size =>
    if key > highbits x then size
    else if key < highbits x then rankLoop rest x (size + c.card)
    else size + c.rank (lowbits x)

/-- `Bitmap.Rank` -/
def rank (L : Layout) (x : Nat) : Nat := rankLoop L x 0

/-- `highlowcontainer.getContainer(hb)` (a binary search over the ascending keys; `none` = nil) -/
def getContainer : Layout → Nat → Option Cont
  | [], _ => none
  | (key, c) :: rest, hb => if key = hb then some c else if key > hb then none else getContainer rest hb

/-- `Bitmap.Contains`: `c != nil && c.contains(lowbits(x))` -/
def contains (L : Layout) (x : Nat) : Bool :=
  match getContainer L (highbits x) with
  | some c => c.contains (lowbits x)
  | none => false

/-- `Bitmap.GetCardinality` -/
def card (L : Layout) : Nat := (L.map (fun p => p.2.card)).sum

/-- what `Bitmap.Iterator()` yields: container after container, `key<<16 | low` -/
def members (L : Layout) : List Nat :=
  L.flatMap (fun p => p.2.members.map (fun low => p.1 * 65536 + low))

/-! ### the per-container base, cached (the shortcut a reader may take: one prefix sum per
container, then only the container's own `rank`) -/

/-- cardinalities of all containers before index i -/
def baseAt (L : Layout) (i : Nat) : Nat := ((L.take i).map (fun p => p.2.card)).sum

/-- index of the container with high key `hb` (`GetContainerIndex`; `none` = -1) -/
def indexOfKey : Layout → Nat → Option Nat
  | [], _ => none
  | (key, _) :: rest, hb =>
    if key = hb then some 0 else if key > hb then none else (indexOfKey rest hb).map (· + 1)

/-- rank through the cached bases: `base[idx] + container.rank(lowbits(x))` for a key whose container
exists -/
def rankCached (L : Layout) (x : Nat) : Option Nat :=
  match indexOfKey L (highbits x) with
  | none => none
  | some i =>
    match L[i]? with
    | some (_, c) => some (baseAt L i + c.rank (lowbits x))
    | none => none

/-- the same with the base taken as the inclusive `Rank` of the container's first possible key — the
mistake of seeded change c15-19 -/
def rankCachedInclusive (L : Layout) (x : Nat) : Option Nat :=
  match getContainer L (highbits x) with
  | none => none
  | some c => some (rank L (highbits x * 65536) + c.rank (lowbits x))

/-! ### well-formedness of a layout (what roaring maintains) -/

def runsOK : List (Nat × Nat) → Nat → Prop
  | [], _ => True
  | (s, l) :: t, lo => lo ≤ s ∧ s + l < 65536 ∧ runsOK t (s + l + 1)

def Cont.WF : Cont → Prop
  | .array c => c.Pairwise (· < ·) ∧ ∀ x ∈ c, x < 65536
  | .bitmap c => c.Pairwise (· < ·) ∧ ∀ x ∈ c, x < 65536
  | .run iv => runsOK iv 0

structure WF (L : Layout) : Prop where
  keysAsc : (L.map (·.1)).Pairwise (· < ·)
  conts : ∀ p ∈ L, p.2.WF

/-- decidable version of `runsOK` for the driver -/
def runsOKb : List (Nat × Nat) → Nat → Bool
  | [], _ => true
  | (s, l) :: t, lo => decide (lo ≤ s) && decide (s + l < 65536) && runsOKb t (s + l + 1)

end LinVerif.C15Roaring
