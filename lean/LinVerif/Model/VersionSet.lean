/-
Interleaving model of one kv family's version set, snapshots, pending outputs, table directory and
reader cache (property C02).  Core Lean only.

Go anchors
  kv/version/family_version.go   GetSnapshot / appendVersion / removeVersion / GetAllActiveFiles
  kv/version/version.go          Retain / Release / Clone / PickL0Compaction / FindFiles
  kv/version/snapshot.go         newSnapshot / GetReader / FindReaders / Load / Close
  kv/version/version_set.go      CommitFamilyEditLog / NextFileNumber
  kv/family.go                   newTableBuilder / backgroundCompactionJob / deleteObsoleteFiles
  kv/flusher.go                  storeFlusher.Commit
  kv/compact_job.go              Run / moveCompaction / mergeCompaction / cleanupCompaction
  kv/table/cache.go              (Model/TableCache.lean)

Shared state = `St`.  One *atomic step* of the model is exactly one critical section / one atomic
operation of the code (the comment of every step function names it).  Threads:
  * readers: a snapshot (`Snap`) driven by the actions `acquire / getReader / loadFile / sDec /
    sRemove / sRel` (`Snapshot.Close` = `version.Release` (= `ref.Dec`, then `removeVersion`) and
    then `cache.ReleaseReaders`: three steps);
  * jobs (`Job`) with a program counter: flush, level-0 compaction (followed by
    deleteObsoleteFiles, as `backgroundCompactionJob` does), rollup-done commit, stand-alone
    deleteObsoleteFiles;
  * `cleanup`: `storeCache.Cleanup`.
`Cfg.recheck` selects what `familyVersion.removeVersion` does under the family lock:
  false: `if v != fv.current { delete }`                      (the code as it is)
  true : `if v != fv.current && v.NumOfRef() == 0 { delete }` (the repaired variant)
The value for the current source is the regenerated fact `Generated.C02.removeVersionRechecksRef`.
-/
import LinVerif.Model.TableCache

namespace LinVerif.VersionSet
open LinVerif.TableCache

/-! ### immutable data -/

/-- `version.FileMeta` + the level the version lists it in -/
structure FileMeta where
  no : Nat
  level : Nat
  minKey : Nat
  maxKey : Nat
deriving DecidableEq, Repr, Inhabited

/-- the part of `version.EditLog` this model needs (NewFile / DeleteFile / NewRollupFile /
DeleteRollupFile); `NextFileNumber` is applied by `jSnap` -/
structure Edit where
  dels : List (Nat × Nat) := []     -- (level, file number)
  adds : List FileMeta := []
  rollAdd : List (Nat × Nat) := []   -- NewRollupFile(file, target interval)
  rollDel : List (Nat × Nat) := []   -- DeleteRollupFile(file, target interval)
deriving Repr, Inhabited

def Edit.isEmpty (e : Edit) : Bool :=
  e.dels.isEmpty && e.adds.isEmpty && e.rollAdd.isEmpty && e.rollDel.isEmpty

/-- `version`: level files + rollup marks (immutable once installed). A mark is a pair
(file, target interval): `version.rollupFiles : map[FileNumber][]Interval` — one pending rollup of
that file into that target interval. -/
structure VData where
  files : List FileMeta := []
  rollup : List (Nat × Nat) := []
deriving Repr, Inhabited

def VData.nos (v : VData) : List Nat := v.files.map (·.no)

/-- keys of `version.GetRollupFiles()`: the files that carry a mark for at least one interval -/
def VData.rollupFiles (v : VData) : List Nat := v.rollup.map (·.1)

/-- `version.Clone()` followed by `editLog.apply(newVersion)` (deletes are logged first) -/
def applyEdit (v : VData) (e : Edit) : VData :=
  { files := v.files.filter (fun m => !(e.dels.contains (m.level, m.no))) ++ e.adds
    rollup := v.rollup.filter (fun p => !(e.rollDel.contains p)) ++ e.rollAdd }

/-- table content: ascending keys, each with the (sorted) list of value tokens -/
abbrev Content := List (Nat × List Nat)

def insTok (t : Nat) : List Nat → List Nat
  | [] => [t]
  | x :: xs => if t ≤ x then t :: x :: xs else x :: insTok t xs

/-- ascending sort (directory listings are sorted by file name = number) -/
def sortNat (l : List Nat) : List Nat := l.foldr insTok []

/-- remove duplicates (keeps the last occurrence) -/
def dedupNat (l : List Nat) : List Nat :=
  l.foldr (fun x acc => if acc.contains x then acc else x :: acc) []

def lookupKey (c : Content) (k : Nat) : Option (List Nat) :=
  match c.find? (fun kv => kv.1 == k) with
  | some kv => some kv.2
  | none => none

/-- what the harness' merger writes for the inputs of a compaction: the merged iterator visits
the keys of all inputs in ascending order; for each key the value tokens of all inputs are
concatenated and sorted (so the result does not depend on iterator order) -/
def mergeContent (cs : List Content) : Content :=
  (sortNat (dedupNat (cs.flatMap (fun c => c.map (·.1))))).map
    (fun k => (k, sortNat (cs.flatMap (fun c => (lookupKey c k).getD []))))

def contentMin (c : Content) : Nat := match c with | [] => 0 | kv :: _ => kv.1
def contentMax : Content → Nat
  | [] => 0
  | [kv] => kv.1
  | _ :: rest => contentMax rest

/-- `version.PickL0Compaction(threshold)`: all level-0 files + the overlapping level-1 files -/
def overlaps (lo up : FileMeta) : Bool := !(up.maxKey < lo.minKey || up.minKey > lo.maxKey)

def pickL0 (v : VData) (threshold : Nat) : Option (List FileMeta × List FileMeta) :=
  let l0 := v.files.filter (fun m => m.level == 0)
  if l0.length < threshold then none
  else some (l0, v.files.filter (fun m => m.level == 1 && l0.any (fun lo => overlaps lo m)))

/-- `version.FindFiles(key)` -/
def findFiles (v : VData) (k : Nat) : List FileMeta :=
  v.files.filter (fun m => m.minKey ≤ k && k ≤ m.maxKey)

/-! ### threads -/

inductive SnapSt
  | opened                -- between newSnapshot and Close
  | decd (zero : Bool)    -- Close: `ref.Dec()` done, it returned 0 iff `zero`
  | removed               -- `version.Release()` returned
  | closed                -- `cache.ReleaseReaders` done
deriving DecidableEq, Repr, Inhabited

/-- `version.snapshot` -/
structure Snap where
  ver : Nat := 0
  held : List Nat := []          -- s.readers (file numbers, with multiplicity)
  st : SnapSt := .closed
  owner : Option Nat := none     -- job that took it (none: a reader thread)
deriving Repr, Inhabited

inductive JKind | flush | compact | rollupDone | delObs | rollupJob
deriving DecidableEq, Repr, Inhabited

inductive Pc
  | start | picked | reading | merging | allocd | ready
  | cCloned | cLocked | cSnapped | cSwapped | cChecked | cPrevDone | cDecd | cRemoved | cReleased | cUnlocked
  | closeOwn | oDecd | oRemoved
  | doStart | doListed | doPended | doActived | doRolled | doEvicted | doRemoved
  | done
  | createdU  -- variant `pendFirst = false` only: table file created, pending mark not yet set
  | doLiveL   -- variant `listFirst = false` only: live set collected, directory not yet listed
deriving DecidableEq, Repr, Inhabited

structure Job where
  kind : JKind := .delObs
  pc : Pc := .done
  payload : Content := []         -- flush: what is written; rollupDone: (file, intervals) whose DeleteRollupFile
                                  --   records are committed; rollupJob: keys = target intervals that succeed
  snap : Nat := 0                 -- compaction: its own snapshot
  inputs : List FileMeta := []    -- compaction inputs (level 0 then level 1)
  trivial : Bool := false
  todoIn : List Nat := []         -- inputs whose reader is still to be opened
  out : Option FileMeta := none   -- output table (number allocated)
  edit : Edit := {}
  csnap : Nat := 0                -- the snapshot CommitFamilyEditLog takes
  newVer : Nat := 0
  prev : Nat := 0
  prevZero : Bool := false
  nfRead : Nat := 0               -- commit: `nextFileNumber.Load()` logged as NextFileNumber(n)
  dlist : List Nat := []          -- deleteObsoleteFiles: directory listing
  live : List Nat := []           --   liveFiles
  todoDel : List Nat := []        --   files still to evict + remove
deriving Repr, Inhabited

structure Cfg where
  recheck : Bool          -- removeVersion re-checks `ref == 0` under the family lock
  cloneLocked : Bool := true -- CommitFamilyEditLog takes its snapshot and clones INSIDE the version-set mutex
  allocLocked : Bool := true -- storeVersionSet.NextFileNumber takes the version-set mutex
  findErrReleases : Bool := false -- snapshot.FindReaders' error path calls ReleaseReaders on readers it leaves in s.readers
  pendFirst : Bool := true   -- family.newTableBuilder marks the number pending BEFORE it creates the table file
  closeCAS : Bool := true    -- snapshot.Close is guarded by closed.CompareAndSwap(false, true)
  getReaderAtomic : Bool := true -- storeCache.GetReader looks up, opens and retains in ONE critical section
  listFirst : Bool := true   -- family.deleteObsoleteFiles lists the directory BEFORE it collects the live set
  threshold : Nat := 2    -- FamilyOption.CompactThreshold
  targets : List Nat := [] -- StoreOption.Rollup: a flush marks its output for rollup into each of these intervals
  rollDelPerInterval : Bool := true -- family.rollup adds DeleteRollupFile(file, targetInterval) inside the per-target
                                    --   loop, after that target's doRollupWork succeeded, with THAT interval
  /-- the family's merger (kv.Merger): what a compaction writes for the contents of its inputs.
  Abstract: theorems about content across a compaction assume only the contract `MergerOk`
  (Lemmas/C02Tokens.lean); the harness' merger is `mergeContent`. -/
  merge : List Content → Content := mergeContent

structure St where
  ver : Nat → VData
  ref : Nat → Int              -- version.ref
  nextVer : Nat                -- storeVersionSet.versionID
  cur : Nat                    -- familyVersion.current
  active : List Nat            -- keys of familyVersion.activeVersions
  nextFile : Nat               -- storeVersionSet.nextFileNumber
  disk : List Nat              -- table files in the family directory
  content : Nat → Content      -- what table file n holds (fixed when its number is handed out)
  pending : List Nat           -- family.pendingOutputs
  cref : Cache                 -- store reader cache
  snap : Nat → Snap
  nSnap : Nat
  job : Nat → Job
  nJob : Nat
  lock : Option Nat            -- storeVersionSet.mutex holder
  compacting : Bool            -- family.compacting
  hist : List Edit             -- ghost: edit logs installed so far, newest first
  flushed : List Nat           -- ghost: tables written by flushes whose version swap is done

def St.init (v0 f0 : Nat) : St :=
  { ver := fun _ => {}, ref := fun _ => 0, nextVer := v0 + 1, cur := v0, active := [v0],
    nextFile := f0, disk := [], content := fun _ => [], pending := [], cref := fun _ => none,
    snap := fun _ => {}, nSnap := 0, job := fun _ => {}, nJob := 0, lock := none,
    compacting := false, hist := [], flushed := [] }

def St.setJob (s : St) (j : Nat) (b : Job) : St := { s with job := upd s.job j b }
def St.setSnap (s : St) (i : Nat) (b : Snap) : St := { s with snap := upd s.snap i b }

/-! ### snapshot steps (shared by readers and jobs) -/

/-- `familyVersion.GetSnapshot`: RLock; `newSnapshot(current)` = `current.Retain()`. One step. -/
def snapAcquire (s : St) (owner : Option Nat) : St :=
  { s with snap := upd s.snap s.nSnap { ver := s.cur, held := [], st := .opened, owner := owner }
           nSnap := s.nSnap + 1
           ref := upd s.ref s.cur (s.ref s.cur + 1) }

/-- `cache.GetReader` for file `f` through snapshot `i`; `keep` = the reader is appended to
`s.readers` (GetReader / FindReaders) or not (Load). A failed open changes nothing. -/
def snapGetReader (s : St) (i f : Nat) (keep : Bool) : St :=
  match getReader s.cref s.disk f with
  | some c =>
    let s1 := { s with cref := c }
    if keep then s1.setSnap i { s.snap i with held := f :: (s.snap i).held } else s1
  | none => s

def getReaderOk (s : St) (f : Nat) : Bool := (getReader s.cref s.disk f).isSome

/-- `familyVersion.removeVersion(v)` (one critical section under the family write lock) -/
def removeVersion (cfg : Cfg) (s : St) (v : Nat) : St :=
  if v ≠ s.cur ∧ (cfg.recheck = true → s.ref v = 0) then { s with active := s.active.filter (· ≠ v) } else s

/-- first half of `version.Release`: `newVal := v.ref.Dec()` (atomic) -/
def snapDec (s : St) (i : Nat) : St :=
  let v := (s.snap i).ver
  let r := s.ref v - 1
  { s with ref := upd s.ref v r, snap := upd s.snap i { s.snap i with st := .decd (r == 0) } }

/-- second half of `version.Release`: `if newVal == 0 { fv.removeVersion(v) }` -/
def snapRemove (cfg : Cfg) (s : St) (i : Nat) (zero : Bool) : St :=
  let s1 := if zero then removeVersion cfg s (s.snap i).ver else s
  s1.setSnap i { s.snap i with st := .removed }

/-- `cache.ReleaseReaders(s.readers)` -/
def snapRel (s : St) (i : Nat) : St :=
  { s with cref := releaseAll s.cref (s.snap i).held
           snap := upd s.snap i { s.snap i with st := .closed, held := [] } }

/-! ### job steps

Every job step is a shared-state primitive composed with the update of the job's own record
(`setJob`); the two touch different fields, so their order is immaterial. -/

def setPc (s : St) (j : Nat) (pc : Pc) : St := s.setJob j { s.job j with pc := pc }

def outNo (b : Job) : List Nat := match b.out with | some m => [m.no] | none => []

/-- `store.nextFileNumber()` (under the version-set mutex) + `addPendingOutput`; the future
content of the file is fixed here -/
def allocFile (s : St) (c : Content) : St :=
  { s with nextFile := s.nextFile + 1, pending := s.nextFile :: s.pending
           content := upd s.content s.nextFile c }

/-- `family.newTableBuilder`: the number is invisible to every other thread until it is marked
pending, so allocation and marking are one step. -/
def jAlloc (s : St) (j : Nat) (c : Content) (level : Nat) : St :=
  (allocFile s c).setJob j
    { s.job j with out := some { no := s.nextFile, level := level, minKey := contentMin c, maxKey := contentMax c }
                   pc := .allocd }

/-- variant `pendFirst = false`: the number is handed out, nothing is marked yet -/
def jAllocU (s : St) (j : Nat) (c : Content) (level : Nat) : St :=
  { s with nextFile := s.nextFile + 1, content := upd s.content s.nextFile c
           job := upd s.job j { s.job j with out := some { no := s.nextFile, level := level, minKey := contentMin c, maxKey := contentMax c }
                                             pc := .allocd } }

def createFiles (s : St) (fs : List Nat) : St := { s with disk := fs ++ s.disk }

/-- `storeFlusher.Commit`: `NewRollupFile(output, interval)` for every interval of `StoreOption.Rollup` -/
def flushMarks (cfg : Cfg) (b : Job) : List (Nat × Nat) := (outNo b).flatMap (fun f => cfg.targets.map (fun iv => (f, iv)))

/-- `table.NewStoreBuilder`: the table file appears in the directory. For a compaction the edit
log (`MarkInputDeletes` + `AddFile(level+1, output)`) is local data. -/
def jCreate (cfg : Cfg) (s : St) (j : Nat) : St :=
  let b := s.job j
  let e : Edit := match b.kind with
    | .flush => { adds := b.out.toList, rollAdd := flushMarks cfg b }
    | _ => { dels := b.inputs.map (fun m => (m.level, m.no)), adds := b.out.toList }
  (createFiles s (outNo b)).setJob j { b with edit := e, pc := .ready }

/-- variant `pendFirst = false`: `table.NewStoreBuilder` first … -/
def jCreateU (s : St) (j : Nat) : St :=
  (createFiles s (outNo (s.job j))).setJob j { s.job j with pc := .createdU }

/-- … `addPendingOutput` afterwards (the edit log is built as in `jCreate`) -/
def jPendU (cfg : Cfg) (s : St) (j : Nat) : St :=
  let b := s.job j
  let e : Edit := match b.kind with
    | .flush => { adds := b.out.toList, rollAdd := flushMarks cfg b }
    | _ => { dels := b.inputs.map (fun m => (m.level, m.no)), adds := b.out.toList }
  { s with pending := outNo b ++ s.pending, job := upd s.job j { b with edit := e, pc := .ready } }

/-- `family.rollup`: the DeleteRollupFile records of the rollup-done edit log.
`marks` = `GetLiveRollupFiles()` (file ↦ intervals, here as pairs); `rollupMap[interval]` = the files
marked for that interval; the loop runs over the target intervals; a target that is skipped (store
not open) or fails (`CreateFamily` / `doRollupWork` error) `continue`s and contributes nothing.
`perInterval = true` (the source): inside the loop, `CreateDeleteRollupFile(file, targetInterval)` for the
files of THAT target. `false` (variant): after the loop, for every file that reached some target,
`CreateDeleteRollupFile(file, interval)` for ALL `rollupFiles[file]`. -/
def rollupIntervals (marks : List (Nat × Nat)) : List Nat := dedupNat (marks.map (·.2))

def rollupDels (perInterval : Bool) (marks : List (Nat × Nat)) (ok : List Nat) : List (Nat × Nat) :=
  (rollupIntervals marks).flatMap fun iv =>
    if ok.contains iv then
      let files := (marks.filter (fun p => p.2 == iv)).map (·.1)
      if perInterval then files.map (fun f => (f, iv))
      else files.flatMap (fun f => marks.filter (fun p => p.1 == f))
    else []

/-- `rollupDone` job: the explicit (file, intervals) records of its payload -/
def payloadPairs (p : Content) : List (Nat × Nat) := p.flatMap (fun kv => kv.2.map (fun iv => (kv.1, iv)))

/-- `family.rollup`, first part: `GetLiveRollupFiles()` (one RLock section: the current version's
marks), the loop over the targets (work in the TARGET stores; its reads of this family go through
an ordinary snapshot, i.e. reader actions of this model) and the edit log it builds. -/
def jRollupStart (cfg : Cfg) (s : St) (j : Nat) : St :=
  let b := s.job j
  s.setJob j { b with edit := { rollDel := rollupDels cfg.rollDelPerInterval (s.ver s.cur).rollup (b.payload.map (·.1)) }
                      pc := .ready }

def setLock (s : St) (l : Option Nat) : St := { s with lock := l }

/-- `CommitFamilyEditLog`: `vs.mutex.Lock()`, `NewNextFileNumber(nextFileNumber.Load())` is added
to the edit log (the park point after it is the manifest write + sync: C01's model) -/
def jLock (s : St) (j : Nat) : St :=
  setLock (s.setJob j { s.job j with nfRead := s.nextFile, pc := .cLocked }) (some j)

/-- `Clone()` (`newVersionID`) + `editLog.apply` (its `NextFileNumber` record bumps
`nextFileNumber`): thread-local data and two counters -/
def buildVersion (s : St) (e : Edit) : St :=
  { s with ver := upd s.ver s.nextVer (applyEdit (s.ver s.cur) e)
           nextVer := s.nextVer + 1
           nextFile := s.nextFile + 1 }

/-- `buildVersion` with the blind store `setNextFileNumberWithoutLock(n)`: the counter becomes
n + 1 for the n the commit read when it took the mutex -/
def buildVersionAt (s : St) (e : Edit) (n : Nat) : St :=
  { s with ver := upd s.ver s.nextVer (applyEdit (s.ver s.cur) e)
           nextVer := s.nextVer + 1
           nextFile := n + 1 }

/-- `familyVersion.GetSnapshot()` (retain current), then clone + apply. -/
def jSnap (s : St) (j : Nat) : St :=
  (buildVersionAt (snapAcquire s (some j)) (s.job j).edit (s.job j).nfRead).setJob j
    { s.job j with csnap := s.nSnap, newVer := s.nextVer, prev := s.cur, pc := .cSnapped }

/-- variant `cloneLocked = false` (snapshot + Clone before `vs.mutex.Lock()`): the clone alone -/
def cloneVersion (s : St) (e : Edit) : St :=
  { s with ver := upd s.ver s.nextVer (applyEdit (s.ver s.cur) e), nextVer := s.nextVer + 1 }

/-- …: `GetSnapshot()` + `Clone()` without the mutex (the edit is applied to the clone later, under
the mutex; applying it to thread-local data earlier is the same) -/
def jSnapU (s : St) (j : Nat) : St :=
  (cloneVersion (snapAcquire s (some j)) (s.job j).edit).setJob j
    { s.job j with csnap := s.nSnap, newVer := s.nextVer, pc := .cCloned }

/-- …: `vs.mutex.Lock()`, persist, apply (`NextFileNumber` bump), enter `appendVersion` -/
def jLockU (s : St) (j : Nat) : St :=
  ({ setLock s (some j) with nextFile := s.nextFile + 1 }).setJob j { s.job j with prev := s.cur, pc := .cSnapped }

def swapVersion (s : St) (v : Nat) (e : Edit) : St :=
  { s with active := v :: s.active, cur := v, hist := e :: s.hist }

/-- ghost bookkeeping: the tables a flush commit made visible -/
def noteFlush (s : St) (fs : List Nat) : St := { s with flushed := fs ++ s.flushed }

/-- `appendVersion`: `Lock; activeVersions[v.ID()] = v; current = v; Unlock` -/
def jSwap (s : St) (j : Nat) : St :=
  noteFlush (swapVersion (setPc s j .cSwapped) (s.job j).newVer (s.job j).edit)
    (if (s.job j).kind = .flush then outNo (s.job j) else [])

/-- `appendVersion`: `previous.NumOfRef() == 0` (atomic load) -/
def jCheck (s : St) (j : Nat) : St :=
  s.setJob j { s.job j with prevZero := (s.ref (s.job j).prev == 0), pc := .cChecked }

/-- `appendVersion`: `removeVersion(previous)` if the load saw 0 -/
def jPrevRm (cfg : Cfg) (s : St) (j : Nat) : St :=
  let s1 := setPc s j .cPrevDone
  if (s.job j).prevZero then removeVersion cfg s1 (s.job j).prev else s1

/-- `vs.mutex.Unlock()` -/
def jUnlock (s : St) (j : Nat) : St := setLock (setPc s j .cUnlocked) none

def unpend (s : St) (fs : List Nat) : St := { s with pending := s.pending.filter (fun f => !(fs.contains f)) }

/-- `removePendingOutput` (flush: Commit's defer; compaction: cleanupCompaction) -/
def jUnpend (s : St) (j : Nat) (pc : Pc) : St := unpend (setPc s j pc) (outNo (s.job j))

def setCompacting (s : St) (c : Bool) : St := { s with compacting := c }

/-- compaction: `compacting.CAS(false,true)`, `GetSnapshot()`, `PickL0Compaction` (reads the
immutable version only) -/
def jStartCompact (cfg : Cfg) (s : St) (j : Nat) : St :=
  let b := s.job j
  let b' : Job := match pickL0 (s.ver s.cur) cfg.threshold with
    | none => { b with snap := s.nSnap, pc := .closeOwn }
    | some (l0, l1) =>
      { b with snap := s.nSnap, inputs := l0 ++ l1, trivial := (l0.length == 1 && l1.isEmpty), pc := .picked }
  (setCompacting (snapAcquire s (some j)) true).setJob j b'

/-- `compactJob.Run`: trivial move builds its edit log, a merge starts opening its inputs (local) -/
def jPicked (s : St) (j : Nat) : St :=
  let b := s.job j
  if b.trivial then
    s.setJob j { b with edit := { dels := b.inputs.map (fun m => (m.level, m.no)),
                                    adds := b.inputs.map (fun m => { m with level := m.level + 1 }) }
                        pc := .ready }
  else s.setJob j { b with todoIn := b.inputs.map (·.no), pc := .reading }

/-- `makeInputIterator`: one `snapshot.GetReader(file)`; a failed open aborts the job -/
def jRead (s : St) (j : Nat) : St :=
  let b := s.job j
  match b.todoIn with
  | [] => setPc s j .merging
  | f :: rest =>
    if getReaderOk s f then snapGetReader (s.setJob j { b with todoIn := rest }) b.snap f true
    else setPc s j .closeOwn

/-- `listDirFunc(familyPath)` -/
def doList (s : St) (j : Nat) : St := s.setJob j { s.job j with dlist := sortNat s.disk, live := [], pc := .doListed }
/-- `pendingOutputs.Range` -/
def doPend (s : St) (j : Nat) : St := s.setJob j { s.job j with live := s.pending, pc := .doPended }
/-- `familyVersion.GetAllActiveFiles()` (one RLock section) -/
def doActive (s : St) (j : Nat) : St :=
  s.setJob j { s.job j with live := (s.job j).live ++ s.active.flatMap (fun v => (s.ver v).nos), pc := .doActived }
/-- `familyVersion.GetLiveRollupFiles()` (RLock: `current.GetRollupFiles()`) -/
def doRollup (s : St) (j : Nat) : St :=
  let b := s.job j
  let live := b.live ++ (s.ver s.cur).rollupFiles
  s.setJob j { b with live := live, todoDel := b.dlist.filter (fun f => !(live.contains f)), pc := .doRolled }

/-- variant `listFirst = false`: `pendingOutputs.Range` is the first thing deleteObsoleteFiles does -/
def doPendL (s : St) (j : Nat) : St := s.setJob j { s.job j with dlist := [], live := s.pending, pc := .doPended }
/-- …: `GetLiveRollupFiles()` completes the live set; nothing is listed yet -/
def doRollupL (s : St) (j : Nat) : St :=
  s.setJob j { s.job j with live := (s.job j).live ++ (s.ver s.cur).rollupFiles, pc := .doLiveL }
/-- …: `listDirFunc(familyPath)` AFTER the live set: whatever entered the directory since the
collections is listed and not live -/
def doListL (s : St) (j : Nat) : St :=
  let b := s.job j
  let dl := sortNat s.disk
  s.setJob j { b with dlist := dl, todoDel := dl.filter (fun f => !(b.live.contains f)), pc := .doRolled }

def evictFile (s : St) (f : Nat) : St := { s with cref := evict s.cref f }
/-- `store.evictFamilyFile(n)` = `cache.Evict` -/
def doEvict (s : St) (j : Nat) (f : Nat) : St := evictFile (setPc s j .doEvicted) f

def removeFile (s : St) (f : Nat) : St := { s with disk := s.disk.filter (· ≠ f) }
/-- `deleteSST(n)` = `removeDirFunc(path)` -/
def doRemove (s : St) (j : Nat) (f : Nat) (rest : List Nat) : St :=
  removeFile (s.setJob j { s.job j with todoDel := rest, pc := .doRemoved }) f
/-- end of the job; a compaction clears `family.compacting` -/
def jFinish (s : St) (j : Nat) : St :=
  setCompacting (setPc s j .done) (if (s.job j).kind = .compact then false else s.compacting)

/-- one atomic step of job `j` -/
def jstep (cfg : Cfg) (s : St) (j : Nat) : Option St :=
  if j < s.nJob then
    let b := s.job j
    match b.pc with
    | .start =>
      match b.kind with
      | .flush =>
        if cfg.allocLocked = true → s.lock = none then
          some (if cfg.pendFirst then jAlloc s j b.payload 0 else jAllocU s j b.payload 0)
        else none
      | .compact => if s.compacting then none else some (jStartCompact cfg s j)
      | .rollupDone => some (s.setJob j { b with edit := { rollDel := payloadPairs b.payload }, pc := .ready })
      | .delObs => some (setPc s j .doStart)
      | .rollupJob => some (jRollupStart cfg s j)
    | .picked => some (jPicked s j)
    | .reading => some (jRead s j)
    | .merging =>
      if cfg.allocLocked = true → s.lock = none then
        some (if cfg.pendFirst then jAlloc s j (cfg.merge (b.inputs.map (fun m => s.content m.no))) 1
              else jAllocU s j (cfg.merge (b.inputs.map (fun m => s.content m.no))) 1)
      else none
    | .allocd => some (if cfg.pendFirst then jCreate cfg s j else jCreateU s j)
    | .ready =>
      if b.edit.isEmpty then some (setPc s j .cUnlocked)
      else if cfg.cloneLocked then (if s.lock = none then some (jLock s j) else none)
      else some (jSnapU s j)
    | .cCloned => if s.lock = none then some (jLockU s j) else none
    | .cLocked => some (jSnap s j)
    | .cSnapped => some (jSwap s j)
    | .cSwapped => some (jCheck s j)
    | .cChecked => some (jPrevRm cfg s j)
    | .cPrevDone => if (s.snap b.csnap).st = .opened then some (snapDec (setPc s j .cDecd) b.csnap) else none
    | .cDecd =>
      match (s.snap b.csnap).st with
      | .decd z => some (snapRemove cfg (setPc s j .cRemoved) b.csnap z)
      | _ => none
    | .cRemoved => if (s.snap b.csnap).st = .removed then some (snapRel (setPc s j .cReleased) b.csnap) else none
    | .cReleased => some (jUnlock s j)
    | .cUnlocked =>
      match b.kind with
      | .compact => some (jUnpend s j .closeOwn)
      | .rollupJob => some (jUnpend s j .doStart)   -- family.rollup's deferred deleteObsoleteFiles
      | _ => some (jUnpend s j .done)
    | .closeOwn => if (s.snap b.snap).st = .opened then some (snapDec (setPc s j .oDecd) b.snap) else none
    | .oDecd =>
      match (s.snap b.snap).st with
      | .decd z => some (snapRemove cfg (setPc s j .oRemoved) b.snap z)
      | _ => none
    | .oRemoved => if (s.snap b.snap).st = .removed then some (snapRel (setPc s j .doStart) b.snap) else none
    | .doStart => some (if cfg.listFirst then doList s j else doPendL s j)
    | .doListed => some (doPend s j)
    | .doPended => some (doActive s j)
    | .doActived => some (if cfg.listFirst then doRollup s j else doRollupL s j)
    | .doRolled | .doRemoved =>
      match b.todoDel with
      | [] => some (jFinish s j)
      | f :: _ => some (doEvict s j f)
    | .doEvicted =>
      match b.todoDel with
      | [] => none
      | f :: rest => some (doRemove s j f rest)
    | .done => none
    | .createdU => some (jPendU cfg s j)
    | .doLiveL => some (doListL s j)
  else none

/-! ### actions and runs -/

inductive Act
  | acquire                      -- reader: GetSnapshot
  | getReader (i f : Nat)        -- reader: snapshot.GetReader / one file of FindReaders
  | loadFile (i f : Nat)         -- reader: one file of snapshot.Load (retains, never releases)
  | sDec (i : Nat)               -- reader: Close → version.Release → ref.Dec
  | sRemove (i : Nat)            -- reader: … → removeVersion (if Dec returned 0)
  | sRel (i : Nat)               -- reader: Close → cache.ReleaseReaders
  | spawn (k : JKind) (p : Content)
  | jstep (j : Nat)
  | cleanup (fs : List Nat)      -- storeCache.Cleanup closing the entries fs
  | findErrRelease (i : Nat) (fs : List Nat)  -- variant only: FindReaders' error path releases fs, s.readers keeps them
  | sDec2 (i : Nat)              -- variant `closeCAS = false` only: a second Close() on a snapshot whose first Close has
                                 --   not stored the closed flag yet runs `version.Release` again
  | getReaderNoRetain (i f : Nat) -- variant `getReaderAtomic = false` only: GetReader lost the open race and returns the
                                 --   cached reader without `retain()`
  | env (df dv : Nat)            -- OTHER families of the same store: between two acquisitions of the version-set mutex
                                 --   by this family they took `df` file numbers and `dv` version ids
deriving Repr

/-- what the other families of the store do to the state they share with this family: the store's
`nextFileNumber` and `versionID` counters move on (`NextFileNumber()` / a commit's NextFileNumber
record / `newVersionID()`), all under the version-set mutex. Their versions, directories, pending
outputs are their own; their reader-cache entries are keyed by their own (store-unique) table
numbers. -/
def envBump (s : St) (df dv : Nat) : St := { s with nextFile := s.nextFile + df, nextVer := s.nextVer + dv }

def cleanFiles (s : St) (fs : List Nat) : St := { s with cref := cleanup s.cref fs }

def spawnJob (s : St) (k : JKind) (p : Content) : St :=
  { s with job := upd s.job s.nJob { kind := k, pc := .start, payload := p }, nJob := s.nJob + 1 }

/-- a Close() of the snapshot is in progress and has not finished -/
def SnapSt.closing : SnapSt → Bool
  | .decd _ => true
  | .removed => true
  | _ => false

/-- a reader may touch snapshot `i` (it is its own and in the right state) -/
def readerSnap (s : St) (i : Nat) : Bool := i < s.nSnap && (s.snap i).owner.isNone

def step (cfg : Cfg) (s : St) : Act → Option St
  | .acquire => some (snapAcquire s none)
  | .getReader i f =>
    if readerSnap s i && (s.snap i).st = .opened && ((s.ver (s.snap i).ver).nos.contains f) then
      some (snapGetReader s i f true) else none
  | .loadFile i f =>
    if readerSnap s i && (s.snap i).st = .opened && ((s.ver (s.snap i).ver).nos.contains f) then
      some (snapGetReader s i f false) else none
  | .sDec i => if readerSnap s i && (s.snap i).st = .opened then some (snapDec s i) else none
  | .sRemove i =>
    if readerSnap s i then
      match (s.snap i).st with
      | .decd z => some (snapRemove cfg s i z)
      | _ => none
    else none
  | .sRel i => if readerSnap s i && (s.snap i).st = .removed then some (snapRel s i) else none
  | .spawn k p => some (spawnJob s k p)
  | .jstep j => jstep cfg s j
  | .cleanup fs => if fs.all (canClean s.cref) then some (cleanFiles s fs) else none
  | .findErrRelease i fs =>
    -- In the code as it is the error path of FindReaders does nothing: the readers opened before
    -- the failing table stay retained and recorded (they were `getReader` steps) and are released
    -- once, by Close. The variant releases them here as well.
    if cfg.findErrReleases && readerSnap s i && (s.snap i).st = .opened && fs.all (fun f => (s.snap i).held.contains f) then
      some { s with cref := releaseAll s.cref fs }
    else none
  | .sDec2 i =>
    -- With the CAS guard a second Close() is a no-op (no step at all).
    if !cfg.closeCAS && readerSnap s i && (s.snap i).st.closing then
      some { s with ref := upd s.ref (s.snap i).ver (s.ref (s.snap i).ver - 1) }
    else none
  | .getReaderNoRetain i f =>
    if !cfg.getReaderAtomic && readerSnap s i && (s.snap i).st = .opened && (s.cref f).isSome
        && ((s.ver (s.snap i).ver).nos.contains f) then
      some (s.setSnap i { s.snap i with held := f :: (s.snap i).held })
    else none
  | .env df dv =>
    -- every counter update of another family happens while it holds the version-set mutex, i.e.
    -- while no job of this family is between `jLock` and `jUnlock`; steps of this family that do
    -- not take the mutex read neither counter, so the other family's critical sections commute
    -- with them and are collected into one step here.
    if s.lock = none then some (envBump s df dv) else none

def run (cfg : Cfg) (s : St) : List Act → Option St
  | [] => some s
  | a :: rest => match step cfg s a with
    | some s' => run cfg s' rest
    | none => none

/-- states reachable from an initial family (first version id `v0`, next file number `f0`) -/
inductive Reachable (cfg : Cfg) (v0 f0 : Nat) : St → Prop
  | init : Reachable cfg v0 f0 (St.init v0 f0)
  | step {s s' : St} (a : Act) : Reachable cfg v0 f0 s → step cfg s a = some s' → Reachable cfg v0 f0 s'

/-! ### observations -/

/-- can a read through the cache reach table `f` (mapped, or still in the directory)? -/
def readable (s : St) (f : Nat) : Bool := (s.cref f).isSome || s.disk.contains f

/-- `snapshot.Load(key)` / `FindReaders(key)`+`Get`: the value tokens of every table of the
snapshot's version whose range covers `k` (sorted by table number), `none` if a table cannot be
opened -/
def readKey (s : St) (i k : Nat) : Option (List (Nat × List Nat)) :=
  let fs := findFiles (s.ver (s.snap i).ver) k
  if fs.all (fun m => readable s m.no) then
    some (fs.filterMap (fun m => (lookupKey (s.content m.no) k).map (fun ts => (m.no, ts))))
  else none

/-- does the schedule park after this pc? (yield points / seams of the instrumented code;
used only by the driver's `run` command, not by any theorem) -/
def isPark (k : JKind) : Pc → Bool
  | .picked | .merging | .allocd | .cLocked | .cSnapped | .cSwapped | .cDecd | .cRemoved | .oDecd | .oRemoved
  | .doListed | .doPended | .doActived | .doRolled | .doEvicted | .doRemoved | .done => true
  | .ready => k == .flush
  | _ => false


/-! ### the code steps the model's atomic steps stand for

These lists are what `lvh extract` must regenerate from /repo's source (Generated/C02.lean); the
tie theorems in Props/C02.lean compare them, so a re-ordered or re-locked function breaks a named
obligation. -/
namespace Code

/-- `version.Release`: `snapDec` is the `Dec`, `snapRemove` the guarded `removeVersion` — two steps -/
def release : List String := ["newVal:=ref.Dec", "if(dec-zero)", "fv.removeVersion", "endif"]
def retain : List String := ["ref.Inc"]
/-- `familyVersion.removeVersion` (`removeVersion` of the model; `recheck` = the guard includes ref == 0) -/
def removeVersion (recheck : Bool) : List String :=
  ["mutex.Lock", if recheck then "if(ne-current,ref-zero)" else "if(ne-current)", "delete:fv.activeVersions",
   "endif", "mutex.Unlock"]
/-- `familyVersion.appendVersion`: `jSwap` (the locked section), `jCheck`, `jPrevRm` -/
def appendVersion : List String :=
  ["previous=fv.current", "mutex.Lock", "fv.activeVersions[]=v", "fv.current=v", "mutex.Unlock",
   "if(prev-non-nil,prev-ref-zero)", "v.GetFamilyVersion().removeVersion", "endif"]
/-- `familyVersion.GetSnapshot` + `newSnapshot`: `snapAcquire` (one RLock section) -/
def getSnapshot : List String := ["mutex.RLock", "defer:mutex.RUnlock", "return:newSnapshot"]
def newSnapshot : List String := ["version.Retain"]
/-- `snapshot.Close`: `snapDec`/`snapRemove`, then `snapRel` -/
def snapshotClose : List String := ["closed.CompareAndSwap", "version.Release", "cache.ReleaseReaders"]
/-- `CommitFamilyEditLog`: `jLock`, `jSnap`, `jSwap`…; the deferred Close and Unlock end it -/
def commit : List String :=
  ["mutex.Lock", "defer:mutex.Unlock", "vs.persistEditLogs", "familyVersion.GetSnapshot", "defer:snapshot.Close",
   "snapshot.GetCurrent().Clone", "editLog.apply", "familyVersion.appendVersion"]
/-- `snapshot.FindReaders`: per covering table `cache.GetReader` then record it in `s.readers`
(one `getReader` step each); the error path does nothing else -/
def findReaders : List String := ["version.FindFiles", "fileMeta.GetFileNumber", "Table", "cache.GetReader", "append", "append"]
def findReadersErrPath : List String := []
/-- `version.FindFiles`: every table of every level is tested against the key, no early exit
(`findFiles` = a filter over all files) -/
def findFilesShape : List String :=
  ["for-range:v.levels", "for-range:level.getFiles()", "if:key>=file.GetMinKey()&&key<=file.GetMaxKey()",
   "files=append", "endif", "endfor", "endfor", "return"]
/-- `snapshot.Close`: the whole release is inside `if s.closed.CompareAndSwap(false, true)` -/
def snapshotCloseShape : List String := ["if(closed-cas)", "version.Release", "cache.ReleaseReaders", "endif"]
def nextFileNumber : List String := ["mutex.Lock", "defer:mutex.Unlock", "nextFileNumber.Inc"]
/-- `family.rollup` (source side): the `DeleteRollupFile` records of a target are created only after
that target's `doRollupWork` succeeded; the commit follows the loop; deleteObsoleteFiles is
deferred: the model's `rollupJob` (`jRollupStart`, the commit steps, then `doStart`…). A job whose
targets are all absent / failing commits nothing (empty edit log) and reduces to its deferred
deleteObsoleteFiles. -/
def rollupJob : List String :=
  ["rolluping.CompareAndSwap", "defer{", "f.deleteObsoleteFiles", "}", "familyVersion.GetLiveRollupFiles",
   "GetStoreManager().GetStoreByName", "targetStore.CreateFamily", "targetFamily.doRollupWork",
   "version.CreateDeleteRollupFile", "f.commitEditLog", "targetFamily.cleanReferenceFiles"]
/-- `family.rollup`, the loop over the target intervals (what `rollupDels true` mirrors): the records
`CreateDeleteRollupFile(file, targetInterval)` are created inside the loop, after `doRollupWork` of
that target (skipped / failing targets `continue` before it), for `file ∈ files = rollupMap[targetInterval]` -/
def rollupDelShape : List String :=
  ["for:targetInterval,files=range:rollupMap", "targetFamily.doRollupWork", "for:file=range:files",
   "CreateDeleteRollupFile(file,targetInterval)", "endfor", "endfor"]
/-- `family.newTableBuilder`: `jAlloc` (number + pending mark) before `jCreate` (file) -/
def newTableBuilder : List String := ["store.nextFileNumber", "f.addPendingOutput", "table.NewStoreBuilder"]
/-- `family.deleteObsoleteFiles`: `doList`, `doPend`, `doActive`, `doRollup`, then `doEvict` before `doRemove` -/
def deleteObsolete : List String :=
  ["listDirFunc", "pendingOutputs.Range", "familyVersion.GetAllActiveFiles", "familyVersion.GetLiveRollupFiles",
   "store.evictFamilyFile", "f.deleteSST"]
def getAllActiveFiles : List String := ["mutex.RLock", "defer:mutex.RUnlock", "version.GetAllFiles"]
def getLiveRollupFiles : List String := ["mutex.RLock", "defer:mutex.RUnlock", "return:current.GetRollupFiles"]
/-- `backgroundCompactionJob`: snapshot first; Close then deleteObsoleteFiles are deferred -/
def backgroundCompaction : List String :=
  ["f.GetSnapshot", "defer{", "snapshot.Close", "f.deleteObsoleteFiles", "}", "snapshot.GetCurrent().PickL0Compaction",
   "compactJob.Run"]
/-- `storeFlusher.Commit`: the pending mark is removed (deferred) after `commitEditLog` -/
def flushCommit : List String := ["defer{", "family.removePendingOutput", "}", "builder.Close", "family.commitEditLog"]
/-- `mergeCompaction`: `cleanupCompaction` (pending marks) is deferred past `installCompactionResults` -/
def mergeCompaction : List String := ["defer{", "c.cleanupCompaction", "}", "c.doMerge", "c.installCompactionResults"]
def cacheEvict : List String := ["mutex.Lock", "defer:mutex.Unlock", "cache.Get", "c.evict", "cache.Remove"]
def cacheRelease : List String := ["mutex.Lock", "defer:mutex.Unlock", "cache.Get", "entry.release"]
def cacheGetReader : List String :=
  ["mutex.Lock", "defer:mutex.Unlock", "cache.Get", "entry.retain", "newMMapStoreReaderFunc", "entry.retain", "cache.Add"]
/-- `storeCache.Cleanup` closes only entries with `ref == 0` (and expired) -/
def cacheCleanupGuard : List String := ["ref-zero", "expired"]
/-- `LRUCache.Walk` (what `lruWalk` of Model/TableCache.lean mirrors): inspect the BACK of the list,
remove while the callback accepts, stop (`break`) at the first entry it rejects -/
def lruWalkShape : List String := ["for", "evictList.Back", "fn", "c.removeElement", "break"]
/-- the counters `Act.env` moves are the store's, not the family's -/
def sharedCounters : List String := ["storeVersionSet.nextFileNumber", "storeVersionSet.versionID"]
def newVersionID : List String := ["versionID.Add"]
/-- the cache is keyed by the file name alone: entries of different families never alias because
table numbers are store-unique (`cref` of this model = the entries with this family's numbers) -/
def cacheKeys : List String :=
  ["GetReader:Get(fileName)", "GetReader:Add(fileName)", "ReleaseReaders:Get(r.FileName())", "Evict:Get(fileName)",
   "Evict:Remove(fileName)"]

end Code

end LinVerif.VersionSet
