/-
C15 — the table reader cache (kv/table/cache.go) as a sequential state machine (core Lean only).

Every lookup of a version (`snapshot.Load`, `FindReaders`) and every compaction input reaches its
table through `storeCache.GetReader`; this model is about WHICH reader object a lookup gets and in
what order the cache closes readers. (Interleavings of snapshots, obsolete-file deletion and the
ref-count balance across goroutines are C02's model `Model/TableCache.lean`; here all calls happen
under the cache mutex, one after the other, and the LRU list is modelled exactly.)

Go anchors
  storeCache.GetReader / ReleaseReaders / Evict / Cleanup / Close, closeReader, evict
  cacheEntry.retain / release
  LRUCache.Add / Get (MoveToFront) / Remove / Walk / Purge / removeElement

A table file is named by its number; a reader object is identified by the ordinal of the open that
created it (`rid`); `opened[rid]` = the file that open read. Time: `entry.last` is only compared
with the ttl in `Cleanup`; the harness runs the two deterministic regimes ttl < 0 (every entry has
expired) and ttl = 1 h (none has), so `cleanup` takes that as a flag.
-/
namespace LinVerif.TableLRU

/-- `cacheEntry` -/
structure Entry where
  file : Nat          -- key / fileName
  family : Nat
  ref : Int           -- atomic.Int32 (no wrap-around modelled)
  rid : Nat           -- which reader object
deriving Repr, DecidableEq

/-- `storeCache` -/
structure Cache where
  lru : List Entry := []                 -- evictList, front first; `items` = the same entries by file
  families : List (Nat × Nat) := []      -- families[family][file] as a set of pairs
  opened : List Nat := []                -- file of the i-th successful open
  closed : List Nat := []                -- rids whose `reader.Close()` ran, newest first
deriving Repr

/-- `c.cache.items[file]` -/
def find (l : List Entry) (file : Nat) : Option Entry := l.find? (fun e => e.file == file)

/-- the list without the element keyed `file` -/
def without (l : List Entry) (file : Nat) : List Entry := l.filter (fun e => e.file != file)

/-- `families[family][file] = struct{}{}` -/
def addFam (fs : List (Nat × Nat)) (family file : Nat) : List (Nat × Nat) :=
  if fs.contains (family, file) then fs else (family, file) :: fs

/-- `delete(families[family], file)` (+ dropping an empty inner map: invisible in the set view) -/
def delFam (fs : List (Nat × Nat)) (family file : Nat) : List (Nat × Nat) :=
  fs.filter (fun p => p != (family, file))

/-- `GetReader(family, fileName)`: a hit (`LRUCache.Get` moves the entry to the front, `retain`)
returns the cached reader — the family argument is not looked at; a miss opens the file
(`canOpen = false`: `newMMapStoreReaderFunc` fails → the error, nothing cached), retains the new
entry, `Add`s it at the front, registers the family. Second component: the reader handed out. -/
def Cache.getReader (c : Cache) (family file : Nat) (canOpen : Bool) : Cache × Option Nat :=
  match find c.lru file with
  | some e => ({ c with lru := { e with ref := e.ref + 1 } :: without c.lru file }, some e.rid)
  | none =>
    if !canOpen then (c, none)
    else
      let rid := c.opened.length
      ({ c with
          lru := { file := file, family := family, ref := 1, rid := rid } :: c.lru
          families := addFam c.families family file
          opened := c.opened ++ [file] }, some rid)

/-- one round of the loop of `ReleaseReaders`: `Get(r.FileName())` (moves to the front!) and `release` -/
def Cache.release1 (c : Cache) (file : Nat) : Cache :=
  match find c.lru file with
  | some e => { c with lru := { e with ref := e.ref - 1 } :: without c.lru file }
  | none => c

/-- `ReleaseReaders(readers)`, readers given by their file names -/
def Cache.release (c : Cache) (files : List Nat) : Cache := files.foldl Cache.release1 c

/-- `storeCache.evict(entry)` = `closeReader` + family bookkeeping, and the removal from the LRU -/
def Cache.dropEntry (c : Cache) (e : Entry) : Cache :=
  { c with lru := without c.lru e.file
           families := delFam c.families e.family e.file
           closed := e.rid :: c.closed }

/-- `Evict(fileName)`: closes the reader whatever its ref count is -/
def Cache.evict (c : Cache) (file : Nat) : Cache :=
  match find c.lru file with
  | some e => c.dropEntry e
  | none => c

/-- `LRUCache.Walk` with the callback of `Cleanup`: at most `len(items)` rounds, each looks at the
BACK of the list; an entry with `ref == 0` that has expired is evicted and removed, anything else
ends the walk (`break`) -/
def walk (expired : Bool) : Nat → Cache → Cache
  | 0, c => c
  | n + 1, c =>
    match c.lru.getLast? with
    | none => walk expired n c
    | some e => if e.ref == 0 && expired then walk expired n (c.dropEntry e) else c

/-- `Cleanup()` -/
def Cache.cleanup (c : Cache) (expired : Bool) : Cache := walk expired c.lru.length c

/-- `Close()`: `Purge` closes every reader and empties the list; `families` is left as it is -/
def Cache.closeAll (c : Cache) : Cache :=
  { c with lru := [], closed := (c.lru.map (·.rid)).reverse ++ c.closed }

/-- the calls -/
inductive Op where
  | get (family file : Nat) (canOpen : Bool)
  | release (files : List Nat)
  | evict (file : Nat)
  | cleanup (expired : Bool)
deriving Repr

def Cache.step (c : Cache) : Op → Cache
  | .get fam f ok => (c.getReader fam f ok).1
  | .release fs => c.release fs
  | .evict f => c.evict f
  | .cleanup x => c.cleanup x

def Cache.run (c : Cache) (ops : List Op) : Cache := ops.foldl Cache.step c

end LinVerif.TableLRU
