/-
Interleaving semantics of `indexKVStore.getOrCreateValue` (index/kv_store.go) over the code's
atomic steps: any number of callers (each a `KThread` running `kstep`), new calls starting at any
time, `PrepareFlush` at any time, and one flusher whose `Flush` is two steps: the kv family commit
(`flusher.Close()`, no lock held) and the locked tail (new snapshot, `immutable = nil`).
Core Lean only.

Threads that are done stay in the list: the list is the history of all calls and their answers.
-/
import LinVerif.Model.IdAssign

namespace LinVerif.IdAssign

structure KSys where
  store : KvStore
  ctr : Nat
  threads : List KThread := []
  /-- the flusher has committed the kv family and not yet run the locked tail of `Flush` -/
  committed : Bool := false

/-- the content of the immutable map (empty when nil) -/
def KvStore.immDict (s : KvStore) : Dict :=
  match s.immutable with
  | some (d, _) => d
  | none => Dict.empty

/-- the step function of one caller -/
abbrev KFun := KvStore → Nat → KThread → KvStore × Nat × KThread

inductive KStepG (f : KFun) : KSys → KSys → Prop
  /-- a new call of GetOrCreateValue(bucket, name) begins -/
  | call (s : KSys) (b n : Nat) :
      KStepG f s { s with threads := s.threads ++ [{ bucket := b, name := n }] }
  /-- caller `i` takes its next atomic step -/
  | thread (s : KSys) (i : Nat) (t : KThread) (h : s.threads[i]? = some t) :
      KStepG f s { s with store := (f s.store s.ctr t).1, ctr := (f s.store s.ctr t).2.1,
                          threads := s.threads.set i (f s.store s.ctr t).2.2 }
  /-- PrepareFlush (on the worker goroutine), in either shape of its test -/
  | prepare (s : KSys) (se : Bool) : KStepG f s { s with store := s.store.prepareFlushE se }
  /-- Flush: needFlush() was true, the kv family commit is done -/
  | commit (s : KSys) (h1 : s.committed = false) (h2 : s.store.needFlush = true) :
      KStepG f s { s with store := s.store.commit, committed := true }
  /-- Flush: the locked tail -/
  | finish (s : KSys) (h : s.committed = true) :
      KStepG f s { s with store := s.store.finish, committed := false }

inductive KReachG (f : KFun) (s0 : KSys) : KSys → Prop
  | init : KReachG f s0 s0
  | step {s s' : KSys} : KReachG f s0 s → KStepG f s s' → KReachG f s0 s'

/-- lindb's order of the two lookups (memory maps first) -/
abbrev KStep (v : KvVariant) := KStepG (kstep v)
abbrev KReach (v : KvVariant) := KReachG (kstep v)

/-- C09 "one and the same ID to all callers": two completed calls for one name got one id -/
def KStable (s : KSys) : Prop :=
  ∀ t1 ∈ s.threads, ∀ t2 ∈ s.threads, ∀ a b, t1.pc = .done a → t2.pc = .done b →
    t1.bucket = t2.bucket → t1.name = t2.name → a = b

/-- C09 "two different names of the same kind and scope never share an ID" -/
def KInjective (s : KSys) : Prop :=
  ∀ t1 ∈ s.threads, ∀ t2 ∈ s.threads, ∀ a, t1.pc = .done a → t2.pc = .done a →
    t1.bucket = t2.bucket → t1.name = t2.name

/-- a start state: a freshly opened (recovered) store whose counter lies above every stored id -/
structure KStart (s : KSys) : Prop where
  noThreads : s.threads = []
  idle : s.committed = false
  mutEmpty : ∀ b n, s.store.mutable b n = none
  immNil : s.store.immutable = none
  snapDisk : s.store.snap = s.store.disk
  bound : ∀ b n i, s.store.disk b n = some i → i < s.ctr
  inj : ∀ b n b' n' i, s.store.disk b n = some i → s.store.disk b' n' = some i → b = b' ∧ n = n'

/-! ### the LRU bucket cache of the lock-free lookup path

`getOrCreateValue` reads the persisted bucket through `bucketCache`; a lookup that sits between
`getSnapshot()` and `bucketCache.Add` while a `Flush` installs a new snapshot and purges the cache puts
a bucket of the OLD snapshot into the cache after the purge. Every entry of an old snapshot is an entry of
the new one, so a stale bucket can only MISS a name, never answer a wrong id: the cache is modelled by
its effect — a lock-free persisted lookup may miss (`staleMiss`) whatever the snapshot holds. -/

inductive KStepStale (f : KFun) : KSys → KSys → Prop
  | base {s s' : KSys} : KStepG f s s' → KStepStale f s s'
  /-- the persisted lookup of caller `i` goes through a stale cached bucket that lacks the name -/
  | staleMiss (s : KSys) (i : Nat) (t : KThread) (q : Nat) (h : s.threads[i]? = some t) (hpc : t.pc = .afterMem q) :
      KStepStale f s { s with threads := s.threads.set i { t with pc := .afterDisk q } }

inductive KReachStale (f : KFun) (s0 : KSys) : KSys → Prop
  | init : KReachStale f s0 s0
  | step {s s' : KSys} : KReachStale f s0 s → KStepStale f s s' → KReachStale f s0 s'

/-! ### executable schedules (used for the concrete counterexamples) -/

inductive KAct
  | call (b n : Nat)
  | thread (i : Nat)
  | prepare
  | prepareSwapEmpty
  | commit
  | finish
  deriving Repr

/-- one scheduled action; an action that is not enabled leaves the state as it is -/
def kactG (f : KFun) (s : KSys) : KAct → KSys
  | .call b n => { s with threads := s.threads ++ [{ bucket := b, name := n }] }
  | .thread i =>
    match s.threads[i]? with
    | some t => { s with store := (f s.store s.ctr t).1, ctr := (f s.store s.ctr t).2.1,
                         threads := s.threads.set i (f s.store s.ctr t).2.2 }
    | none => s
  | .prepare => { s with store := s.store.prepareFlushE false }
  | .prepareSwapEmpty => { s with store := s.store.prepareFlushE true }
  | .commit =>
    if s.committed = false ∧ s.store.needFlush = true then { s with store := s.store.commit, committed := true } else s
  | .finish => if s.committed = true then { s with store := s.store.finish, committed := false } else s

def kexecG (f : KFun) (s : KSys) (acts : List KAct) : KSys := acts.foldl (kactG f) s

abbrev kact (v : KvVariant) := kactG (kstep v)
abbrev kexec (v : KvVariant) := kexecG (kstep v)

theorem kactG_reach {f : KFun} {s0 s : KSys} (r : KReachG f s0 s) (a : KAct) : KReachG f s0 (kactG f s a) := by
  cases a with
  | call b n => exact .step r (.call s b n)
  | thread i =>
    simp only [kactG]
    cases h : s.threads[i]? with
    | none => exact r
    | some t => exact .step r (.thread s i t h)
  | prepare => exact .step r (.prepare s false)
  | prepareSwapEmpty => exact .step r (.prepare s true)
  | commit =>
    simp only [kactG]
    by_cases h : s.committed = false ∧ s.store.needFlush = true
    · rw [if_pos h]; exact .step r (.commit s h.1 h.2)
    · rw [if_neg h]; exact r
  | finish =>
    simp only [kactG]
    by_cases h : s.committed = true
    · rw [if_pos h]; exact .step r (.finish s h)
    · rw [if_neg h]; exact r

theorem kexecG_reach (f : KFun) (s0 : KSys) (acts : List KAct) : KReachG f s0 (kexecG f s0 acts) := by
  unfold kexecG
  suffices h : ∀ s, KReachG f s0 s → KReachG f s0 (acts.foldl (kactG f) s) from h s0 .init
  induction acts with
  | nil => intro s r; exact r
  | cons a rest ih => intro s r; exact ih _ (kactG_reach r a)

/-- schedules with stale misses: `inr i` = caller i's persisted lookup misses through a stale bucket -/
def kactStale (f : KFun) (s : KSys) : KAct ⊕ Nat → KSys
  | .inl a => kactG f s a
  | .inr i =>
    match s.threads[i]? with
    | some t =>
      match t.pc with
      | .afterMem q => { s with threads := s.threads.set i { t with pc := .afterDisk q } }
      | _ => s
    | none => s

def kexecStale (f : KFun) (s : KSys) (acts : List (KAct ⊕ Nat)) : KSys := acts.foldl (kactStale f) s

theorem kreachG_stale {f : KFun} {s0 s : KSys} (r : KReachG f s0 s) : KReachStale f s0 s := by
  induction r with
  | init => exact .init
  | step _ st ih => exact .step ih (.base st)

theorem kstepG_of_kact {f : KFun} (s : KSys) (a : KAct) : kactG f s a = s ∨ KStepG f s (kactG f s a) := by
  cases a with
  | call b n => exact Or.inr (.call s b n)
  | thread i =>
    simp only [kactG]
    cases h : s.threads[i]? with
    | none => exact Or.inl rfl
    | some t => exact Or.inr (.thread s i t h)
  | prepare => exact Or.inr (.prepare s false)
  | prepareSwapEmpty => exact Or.inr (.prepare s true)
  | commit =>
    simp only [kactG]
    by_cases h : s.committed = false ∧ s.store.needFlush = true
    · rw [if_pos h]; exact Or.inr (.commit s h.1 h.2)
    · rw [if_neg h]; exact Or.inl rfl
  | finish =>
    simp only [kactG]
    by_cases h : s.committed = true
    · rw [if_pos h]; exact Or.inr (.finish s h)
    · rw [if_neg h]; exact Or.inl rfl

theorem kexecStale_reach (f : KFun) (s0 : KSys) (acts : List (KAct ⊕ Nat)) : KReachStale f s0 (kexecStale f s0 acts) := by
  unfold kexecStale
  suffices h : ∀ s, KReachStale f s0 s → KReachStale f s0 (acts.foldl (kactStale f) s) from h s0 .init
  induction acts with
  | nil => intro s r; exact r
  | cons a rest ih =>
    intro s r
    apply ih
    cases a with
    | inl a =>
      rcases kstepG_of_kact (f := f) s a with e | st
      · simp only [kactStale]; rw [e]; exact r
      · show KReachStale f s0 (kactG f s a); exact .step r (.base st)
    | inr i =>
      simp only [kactStale]
      cases h : s.threads[i]? with
      | none => exact r
      | some t =>
        simp only []
        cases hpc : t.pc with
        | afterMem q => exact .step r (.staleMiss s i t q h hpc)
        | start => exact r
        | afterDisk q => exact r
        | done j => exact r

theorem kexec_reach (v : KvVariant) (s0 : KSys) (acts : List KAct) : KReach v s0 (kexec v s0 acts) :=
  kexecG_reach (kstep v) s0 acts

end LinVerif.IdAssign
