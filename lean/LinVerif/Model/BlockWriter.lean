/-
Model of the metric block WRITER's layout bookkeeping and of the reader's way back (core Lean only).

Go anchors: tsdb/tblstore/metricsdata/flusher.go (`PrepareMetric`, `FlushField`, `FlushSeries`,
`flushField`, `writeLevel4OffsetsFooter`, `flushLevel2SeriesBucket`, `CommitMetric`, `reset`),
reader.go (`Load`/`nextContainer`: high-key offsets → series bucket → low-key offsets → series
entry; `readSeriesData`/`fieldReader`: field offsets → field data).

The stream the writer produces for one metric is modelled as a list of UNITS (`Tok`): one unit per
piece written — a field's compressed data, a field-offsets block, its length, a low-key-offsets
block, its position. `FlushField(nil)` writes nothing. All offsets the writer keeps
(`Level2.highKeyOffsets` absolute, `Level3.lowKeyOffsets` relative to `Level3.startAt`,
`Level4.fieldDataOffsets` relative to `Level4.startAt`) count units; byte widths (varint, 4-byte
position, `FixedOffsetEncoder` packing) are the subject of C14. What is modelled is exactly the
bookkeeping: which start positions are re-based when, what is written when a roaring container of
series ids ends, single-field entries (bare data) versus multi-field entries (data + offsets +
length), and how the reader slices the stream with those offsets.
-/
import LinVerif.Model.Merge

namespace LinVerif.BlockWriter
open LinVerif.Map LinVerif.MetricBlock LinVerif.Merge

variable {V : Type}

inductive Tok (V : Type)
  | data (vals : List (Nat × V))     -- compressed data of one field of one series
  | fieldOffsets (l : List Nat)        -- `Level4.fieldDataOffsets.Write`
  | lenOfOffsets (n : Nat)             -- length of the field-offsets block (reversed uvarint)
  | lowOffsets (l : List Nat)          -- `Level3.lowKeyOffsets.Write`
  | posOfLow (n : Nat)                 -- position of the low-key offsets inside the bucket (4 bytes)

/-- the writer's bookkeeping for the metric being written -/
structure WS (V : Type) where
  out : List (Tok V)        -- what `kvWriter` received since `Prepare` (`kvWriter.Size()` = its length)
  ids : List Nat            -- `Level2.seriesIDs`
  highOffs : List Nat       -- `Level2.highKeyOffsets`
  l3start : Nat             -- `Level3.startAt`
  highKey : Option Nat      -- `Level3.highKey`, `none` while `!isHighKeySetEver`
  lowOffs : List Nat        -- `Level3.lowKeyOffsets`
  l4start : Nat             -- `Level4.startAt`

/-- after `reset()` + `PrepareMetric` (`highKeyOffsets.Add(0)`) -/
def WS.init : WS V :=
  { out := [], ids := [], highOffs := [0], l3start := 0, highKey := none, lowOffs := [], l4start := 0 }

/-- `flushLevel2SeriesBucket`: nothing is written for a bucket without bytes -/
def flushBucket (st : WS V) : WS V :=
  -- `posOfLowKeyOffsets := int(w.kvWriter.Size()) - w.Level3.startAt; if posOfLowKeyOffsets <= 0 { return nil }`
  if st.out.length - st.l3start = 0 then st
  else { st with out := st.out ++ [Tok.lowOffsets st.lowOffs, Tok.posOfLow (st.out.length - st.l3start)] }

/-- the loop of `flushField` over the buffered field data: `fieldDataAt = Size() - Level4.startAt`,
write the data, remember the offset (multi-field only) -/
def writeFields (multi : Bool) (l4start : Nat) :
    List (Option (List (Nat × V))) → List (Tok V) → List Nat → List (Tok V) × List Nat
  | [], out, offs => (out, offs)
  | d :: r, out, offs =>
    let pos := out.length - l4start
    let out' := match d with
      | none => out
      | some vals => out ++ [Tok.data vals]
    writeFields multi l4start r out' (if multi then offs ++ [pos] else offs)

/-- `if !w.Level3.isHighKeySetEver { isHighKeySetEver = true; highKey = highKey }` -/
def setHighKey (st : WS V) (hk : Nat) : WS V :=
  match st.highKey with
  | none => { st with highKey := some hk }
  | some _ => st

/-- `if highKey != w.Level3.highKey { flushLevel2SeriesBucket(); highKey = …; lowKeyOffsets.Reset();
Level3.startAt = Size(); highKeyOffsets.Add(Size()); Level4.startAt = Size() }` -/
def switchBucket (st : WS V) (hk : Nat) : WS V :=
  if st.highKey ≠ some hk then
    { out := (flushBucket st).out, ids := (flushBucket st).ids,
      highOffs := (flushBucket st).highOffs ++ [(flushBucket st).out.length],
      l3start := (flushBucket st).out.length, highKey := some hk, lowOffs := [],
      l4start := (flushBucket st).out.length }
  else st

/-- `lowKeyOffsets.Add(Size() - Level3.startAt)`, `flushField()` (+ `writeLevel4OffsetsFooter` for a
multi-field metric), `seriesIDs.Add`, and the deferred `Level4.startAt = Size()` -/
def entryOut (multi : Bool) (st : WS V) (datas : List (Option (List (Nat × V)))) : List (Tok V) :=
  if multi then (writeFields multi st.l4start datas st.out []).1 ++
      [Tok.fieldOffsets (writeFields multi st.l4start datas st.out []).2, Tok.lenOfOffsets 1]
  else (writeFields multi st.l4start datas st.out []).1

def writeEntry (multi : Bool) (st : WS V) (sid : Nat) (datas : List (Option (List (Nat × V)))) : WS V :=
  { out := entryOut multi st datas, ids := st.ids ++ [sid], highOffs := st.highOffs,
    l3start := st.l3start, highKey := st.highKey,
    lowOffs := st.lowOffs ++ [st.out.length - st.l3start],
    l4start := (entryOut multi st datas).length }

/-- `FlushField` × (number of fields) followed by `FlushSeries(sid)`; `datas` is the field buffer in
field-meta order (`none` = `FlushField(nil)`) -/
def flushSeries (multi : Bool) (st : WS V) (sid : Nat) (datas : List (Option (List (Nat × V)))) : WS V :=
  if datas.isEmpty then { st with l4start := st.out.length }   -- `!seriesHasData`: dropped
  else writeEntry multi (switchBucket (setHighKey st (hkOf sid)) (hkOf sid)) sid datas

/-- a written block: the series-bucket region with its indexes, as `CommitMetric` leaves it -/
structure EncBlock (V : Type) where
  fields : List (Nat × FieldType)
  start : Nat
  stop : Nat
  ids : List Nat
  highOffs : List Nat
  stream : List (Tok V)

/-- the field buffer of one series: one slot per field meta, in order -/
def datasOf (fields : List (Nat × FieldType)) (e : Entry V) : List (Option (List (Nat × V))) :=
  fields.map (fun fm => lookup e fm.1)

def writeAll (b : Block V) : WS V :=
  b.series.foldl (fun st p => flushSeries (decide (b.fields.length > 1)) st p.1 (datasOf b.fields p.2)) WS.init

/-- `PrepareMetric`, the series loop, `CommitMetric` (nothing is committed without series) -/
def writeBlock (b : Block V) : Option (EncBlock V) :=
  let st := writeAll b
  if st.ids.isEmpty then none
  else
    let st' := flushBucket st
    some { fields := b.fields, start := b.start, stop := b.stop, ids := st'.ids,
           highOffs := st'.highOffs, stream := st'.out }

/-! ### the reader -/

/-- `FixedOffsetDecoder.GetBlock(index, dataBlock)`: from the offset at `index` to the next offset,
or to the end of the data block for the last one -/
def getBlock {α : Type} (offs : List Nat) (i : Nat) (data : List α) : Option (List α) :=
  match offs[i]? with
  | none => none
  | some a =>
    let e := match offs[i + 1]? with
      | some e => e
      | none => data.length
    if a ≤ e ∧ e ≤ data.length then some ((data.drop a).take (e - a)) else none

def indexOf? : List Nat → Nat → Option Nat
  | [], _ => none
  | x :: r, s => if x = s then some 0 else (indexOf? r s).map (· + 1)

/-- `seriesIDs.GetHighKeys()` of an ascending id list: the distinct high keys in order -/
def highKeysOf : List Nat → List Nat
  | [] => []
  | x :: r =>
    match highKeysOf r with
    | [] => [hkOf x]
    | k :: ks => if hkOf x = k then k :: ks else hkOf x :: k :: ks

/-- the series entry of `s`: container index → series bucket → low-key offsets → entry by rank -/
def readEntry (e : EncBlock V) (s : Nat) : Option (List (Tok V)) :=
  match indexOf? (highKeysOf e.ids) (hkOf s) with
  | none => none
  | some ci =>
    match getBlock e.highOffs ci e.stream with
    | none => none
    | some bucket =>
      if bucket.length ≤ 1 then none                     -- `len(level3Block) <= 4`
      else
        match bucket.getLast? with
        | some (Tok.posOfLow p) =>
          if p + 1 ≥ bucket.length then none            -- `lowKeyOffsetsAt+4 >= len(level3Block)`
          else
            match bucket[p]? with
            | some (Tok.lowOffsets lo) =>
              match indexOf? (e.ids.filter (fun x => hkOf x == hkOf s)) s with
              | none => none
              | some r => getBlock lo r (bucket.take p)
            | _ => none
        | _ => none

/-- a field block is either empty (`FlushField(nil)`) or one data unit -/
def pickData : List (Tok V) → Option (List (Nat × V))
  | [Tok.data vals] => some vals
  | _ => none

/-- `readSeriesData` / `fieldReader.GetFieldData`: the data of field `f` of series `s` -/
def readField (e : EncBlock V) (s f : Nat) : Option (List (Nat × V)) :=
  match readEntry e s with
  | none => none
  | some entry =>
    match indexOf? (e.fields.map Prod.fst) f with
    | none => none
    | some k =>
      if e.fields.length = 1 then pickData entry
      else
        match entry.getLast? with
        | some (Tok.lenOfOffsets n) =>
          let fat := entry.length - n - 1
          if fat = 0 ∨ fat ≥ entry.length then none       -- `fieldOffsetsAt <= 0 || fieldOffsetsAt >= len`
          else
            match entry[fat]? with
            | some (Tok.fieldOffsets fo) =>
              match getBlock fo k (entry.take fat) with
              | some blk => pickData blk
              | none => none
            | _ => none
        | _ => none

end LinVerif.BlockWriter
