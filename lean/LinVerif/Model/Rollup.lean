/-
Model of lindb's rollup (C04), core Lean only.

Part A  slot arithmetic            kv/family_rollup.go `rollup` type (GetTimestamp, IntervalRatio,
                                   CalcSlot, BaseSlot), pkg/timeutil/interval_calculator.go (the three
                                   calculators, UTC, timestamps ≥ 0), the body of `family.rollup()` that
                                   locates the target segment / family (`locate`).
Part B  down-sampling merge        aggregation.DownSamplingMultiSeriesInto, metricsdata merger.prepare
                                   (source range, target range, ratio, base slot), seriesMerger.merge.
Part C  bookkeeping state machine  kv/version/rollup.go (rollupFiles / referenceFiles), kv/flusher.go Commit,
                                   family.rollup / doRollupWork / cleanReferenceFiles as a sequence of
                                   committed edit-log records; a crash is a prefix of that sequence.

Integers are unbounded `Int` with Go's truncating `/` and `%` (`Int.tdiv`, `Int.tmod`); the three
places where the Go code converts to `uint16` (`IntervalRatio`, `CalcSlot`, the length of the target
range) are modelled by `u16`.

The calendar (civil date of a day number) enters only through `Cal`: five functions on day numbers
(days since 1970-01-01, UTC). The theorems assume `Cal.OkAt` for the day of the source family;
`stdCal` is the proleptic Gregorian instance built from C13's Model/Calendar.lean and used by the
driver; `Cal.OkAt stdCal d` is proved for every day in Lemmas/C04Calendar.lean from C13's theorems
(the driver still evaluates `Cal.okAtB` on every configuration line).
-/
import LinVerif.Model.Calendar
import LinVerif.Generated.C04

namespace LinVerif.Rollup

/-! ## A. slot arithmetic -/

def oneSecond : Int := 1000
def oneMinute : Int := 60000
def oneHour : Int := 3600000
def oneDay : Int := 86400000

inductive IType where
  | day | month | year
  deriving DecidableEq, Repr

/-- `timeutil.Interval.Type()` -/
def itype (i : Int) : IType :=
  if i ≥ oneHour then .year else if i ≥ 5 * oneMinute then .month else .day

def IType.name : IType → String
  | .day => "day" | .month => "month" | .year => "year"

/-- Go conversion `uint16(x)` of an `int`/`int64` -/
def u16 (x : Int) : Int := x % 65536

/-- the two shapes of `(*month).CalcSlot`: `quot = false`: `((ts - base) % OneDay) / interval` (lindb
before 46bbfe1), `quot = true`: `(ts - base) / interval`. Which one the code has is the regenerated
fact `Generated.C04.monthSlotIsQuotient`; for `0 ≤ ts - base < 1d` (every timestamp of a month-type
family in UTC) the two agree (`monthSlot_eq`, Lemmas/C04Arith.lean). -/
def monthSlot (quot : Bool) (ts base iv : Int) : Int :=
  if quot then Int.tdiv (ts - base) iv else Int.tdiv (Int.tmod (ts - base) oneDay) iv

/-- `IntervalCalculator.CalcSlot(timestamp, baseTime, interval)` of the day / month / year calculator -/
def calcSlotOf : IType → Int → Int → Int → Int
  | .day, ts, base, iv => Int.tdiv (Int.tmod (ts - base) oneHour) iv
  | .month, ts, base, iv => monthSlot Generated.C04.monthSlotIsQuotient ts base iv
  | .year, ts, base, iv => Int.tdiv (ts - base) iv

/-- the `rollup` struct of kv/family_rollup.go -/
structure R where
  source : Int
  target : Int
  sourceFTime : Int
  targetFTime : Int
  deriving Repr

/-- `rollup.GetTimestamp(slot)` -/
def R.getTimestamp (r : R) (slot : Int) : Int := r.sourceFTime + slot * r.source
/-- `rollup.IntervalRatio()` = `uint16(r.target / r.source)` -/
def R.intervalRatio (r : R) : Int := u16 (Int.tdiv r.target r.source)
/-- `rollup.CalcSlot(timestamp)` = `uint16(r.target.Calculator().CalcSlot(timestamp, r.targetFTime, r.target))` -/
def R.calcSlot (r : R) (ts : Int) : Int := u16 (calcSlotOf (itype r.target) ts r.targetFTime r.target)
/-- `rollup.BaseSlot()` -/
def R.baseSlot (r : R) : Int := r.calcSlot r.sourceFTime

/-- calendar facts the calculators take from Go's `time` package (UTC), as functions of the day
number: first day of the month of `d`, first day of the next month, first day of the year of `d`,
month number of `d`, and `time.Date(year of d, month f, 1)` as a day number. -/
structure Cal where
  monthStart : Int → Int
  monthNext : Int → Int
  yearStart : Int → Int
  monthNo : Int → Int
  monthStartIn : Int → Int → Int

/-- the calendar facts used by the proofs, at one day `d` -/
structure Cal.OkAt (c : Cal) (d : Int) : Prop where
  le : c.monthStart d ≤ d
  span : d < c.monthStart d + 32
  idem : c.monthStart (c.monthStart d) = c.monthStart d
  inYear : c.monthStartIn (c.yearStart d) (c.monthNo d) = c.monthStart d
  next : d < c.monthNext (c.monthStart d)

def Cal.okAtB (c : Cal) (d : Int) : Bool :=
  decide (c.monthStart d ≤ d) && decide (d < c.monthStart d + 32)
    && decide (c.monthStart (c.monthStart d) = c.monthStart d)
    && decide (c.monthStartIn (c.yearStart d) (c.monthNo d) = c.monthStart d)
    && decide (d < c.monthNext (c.monthStart d))

theorem Cal.okAt_of_okAtB (c : Cal) (d : Int) (h : c.okAtB d = true) : c.OkAt d := by
  simp only [Cal.okAtB, Bool.and_eq_true, decide_eq_true_eq] at h
  exact ⟨h.1.1.1.1, h.1.1.1.2, h.1.1.2, h.1.2, h.2⟩

/-- day number of a millisecond timestamp (`t ≥ 0`) -/
def dayNo (t : Int) : Int := t / oneDay

/-- `CalcSegmentTime(timestamp)` -/
def calcSegmentTime (c : Cal) : IType → Int → Int
  | .day, t => dayNo t * oneDay
  | .month, t => c.monthStart (dayNo t) * oneDay
  | .year, t => c.yearStart (dayNo t) * oneDay

/-- `CalcFamily(timestamp, segmentTime)` -/
def calcFamily (c : Cal) : IType → Int → Int → Int
  | .day, t, seg => Int.tdiv (t - seg) oneHour
  | .month, t, _ => dayNo t - c.monthStart (dayNo t) + 1
  | .year, t, _ => c.monthNo (dayNo t)

/-- `CalcFamilyStartTime(segmentTime, familyTime)` -/
def calcFamilyStartTime (c : Cal) : IType → Int → Int → Int
  | .day, seg, f => seg + f * oneHour
  | .month, seg, f => (c.monthStart (dayNo seg) + (f - 1)) * oneDay
  | .year, seg, f => c.monthStartIn (dayNo seg) f * oneDay

/-- `CalcFamilyEndTime(familyStartTime)` -/
def calcFamilyEndTime (c : Cal) : IType → Int → Int
  | .day, fs => fs + oneHour - 1
  | .month, fs => (dayNo fs + 1) * oneDay - 1
  | .year, fs => c.monthNext (dayNo fs) * oneDay - 1

/-- what `family.rollup()` computes for one target interval -/
structure Loc where
  srcFamStart : Int   -- familyStartTime
  tSegTime : Int      -- tSegmentTime (names the target store)
  tFamily : Int       -- tFamilyTime (names the target family)
  tFamStart : Int     -- fSTime
  deriving Repr, DecidableEq

/-- the locating part of the loop body of `family.rollup()`;
`srcSegTime` = `ParseSegmentTime(segmentName)`, `fTime` = `Atoi(f.Name())` -/
def locate (c : Cal) (src tgt srcSegTime fTime : Int) : Loc :=
  let fst := calcFamilyStartTime c (itype src) srcSegTime fTime
  let tSeg := calcSegmentTime c (itype tgt) fst
  let tFam := calcFamily c (itype tgt) fst tSeg
  let fS := calcFamilyStartTime c (itype tgt) tSeg tFam
  { srcFamStart := fst, tSegTime := tSeg, tFamily := tFam, tFamStart := fS }

/-- `newRollup(sourceInterval, targetInterval, familyStartTime, fSTime)` -/
def mkR (c : Cal) (src tgt srcSegTime fTime : Int) : R :=
  let l := locate c src tgt srcSegTime fTime
  { source := src, target := tgt, sourceFTime := l.srcFamStart, targetFTime := l.tFamStart }

/-! ### the proleptic Gregorian calendar of Model/Calendar.lean (C13) as a `Cal` -/

open LinVerif.Calendar in
/-- `stdCal`: the calendar functions in terms of C13's `civilFromDays` / `daysFromCivil` /
`dateDays` (`time.Unix(..).Date()`, `time.Date(..)` in UTC). `Cal.OkAt stdCal d` holds for every
day (Lemmas/C04Calendar.lean, from C13's round-trip theorems). -/
def stdCal : Cal where
  monthStart := fun d => daysFromCivil (civilFromDays d).1 (civilFromDays d).2.1 1
  monthNext := fun d =>
    let n := nextMonth (civilFromDays d).1 (civilFromDays d).2.1
    daysFromCivil n.1 n.2 1
  yearStart := fun d => daysFromCivil (civilFromDays d).1 1 1
  monthNo := fun d => (civilFromDays d).2.1
  monthStartIn := fun d f => dateDays (civilFromDays d).1 f 1

/-! ## B. down-sampling merge -/

/-- `field.Type.AggType().Aggregate(a, b)`; field types: 1 sum, 2 min, 3 max, 4 last, 5 histogram, 6 first -/
def agg (ft : Nat) (a b : Int) : Int :=
  match ft with
  | 2 => if b < a then b else a
  | 3 => if a < b then b else a
  | 4 => b
  | 6 => a
  | _ => a + b

/-- one step of the second loop of `DownSamplingMultiSeriesInto`: Inf marker = `none` -/
def aggInto (ft : Nat) (acc : Option Int) (v : Int) : Option Int :=
  match acc with
  | none => some v
  | some a => some (agg ft a v)

/-- target array as a function of the position -/
abbrev TV := Nat → Option Int

def TV.upd (tv : TV) (p : Nat) (x : Option Int) : TV := fun q => if q = p then x else tv q

/-- `targetPos := bs + int(movingSourceSlot/ratio) - int(target.Start)` (`ratio ≠ 0`) -/
def targetPos (ratio bs tstart : Int) (s : Nat) : Int := bs + (s : Int) / ratio - tstart

/-- placement by the slot of the source slot's timestamp (`DownSamplingMultiSeriesIntoBy` with the
`targetSlotOf` that `merger.prepare` builds — only present in a tree with fixes/C04-…patch applied;
which of the two placements the code uses is a regenerated fact) -/
def targetPosTs (r : R) (tstart : Int) (s : Nat) : Int := r.calcSlot (r.getTimestamp s) - tstart

/-- the inner loop over one decoder: `dec` lists the slots that have a value, ascending; `posOf` is
the target position of a source slot. `targetPos < 0` → continue, `targetPos ≥ length` → break. -/
def placeDec (ft : Nat) (posOf : Nat → Int) (length : Nat) : TV → List (Nat × Int) → TV
  | tv, [] => tv
  | tv, (s, v) :: rest =>
    let pos := posOf s
    if pos < 0 then placeDec ft posOf length tv rest
    else if pos ≥ length then tv
    else placeDec ft posOf length (tv.upd pos.toNat (aggInto ft (tv pos.toNat) v)) rest

/-- the loop over the decoders of `DownSamplingMultiSeriesInto` -/
def downSample (ft : Nat) (posOf : Nat → Int) (length : Nat) (decs : List (List (Nat × Int))) : TV :=
  decs.foldl (placeDec ft posOf length) (fun _ => none)

/-- one stored value -/
structure Cell where
  series : Nat
  field : Nat
  ftype : Nat
  slot : Nat
  val : Int
  deriving Repr, DecidableEq

/-- one metric block of one file: slot range of the block and its values -/
structure MBlock where
  metric : Nat
  start : Nat
  stop : Nat
  cells : List Cell
  deriving Repr

abbrev FileData := List MBlock

def insertSorted (x : Nat) : List Nat → List Nat
  | [] => [x]
  | y :: t => if x < y then x :: y :: t else if x = y then y :: t else y :: insertSorted x t

def sortDedup (l : List Nat) : List Nat := l.foldr insertSorted []

def insertBy {α : Type} (lt : α → α → Bool) (x : α) : List α → List α
  | [] => [x]
  | y :: t => if lt x y then x :: y :: t else y :: insertBy lt x t

def sortBy {α : Type} (lt : α → α → Bool) (l : List α) : List α := l.foldr (insertBy lt) []

/-- result of `merger.prepare` for a rollup job -/
structure Prep where
  srcStart : Nat
  srcEnd : Nat
  tStart : Int
  tEnd : Int
  ratio : Int
  baseSlot : Int
  deriving Repr

/-- `merger.prepare` (rollup branch): union of the blocks' slot ranges, target range from the two ends -/
def prepare (r : R) (blocks : List MBlock) : Option Prep :=
  match blocks with
  | [] => none
  | b :: rest =>
    let s := rest.foldl (fun acc x => if x.start < acc then x.start else acc) b.start
    let e := rest.foldl (fun acc x => if acc < x.stop then x.stop else acc) b.stop
    some { srcStart := s, srcEnd := e,
           tStart := r.calcSlot (r.getTimestamp s), tEnd := r.calcSlot (r.getTimestamp e),
           ratio := r.intervalRatio, baseSlot := r.baseSlot }

/-- `int(target.End-target.Start) + 1` with the `uint16` subtraction -/
def Prep.length (p : Prep) : Nat := (u16 (p.tEnd - p.tStart) + 1).toNat

/-- decoder of one block for one (series, field): present slots ascending -/
def decoderOf (b : MBlock) (series field : Nat) : List (Nat × Int) :=
  sortBy (fun a b => a.1 < b.1)
    ((b.cells.filter (fun c => c.series = series ∧ c.field = field)).map (fun c => (c.slot, c.val)))

/-- (series, field, type) triples of the blocks, ascending, each once -/
def seriesFields (blocks : List MBlock) : List (Nat × Nat × Nat) :=
  let all := blocks.flatMap (fun b => b.cells.map (fun c => (c.series, c.field, c.ftype)))
  let lt := fun (a b : Nat × Nat × Nat) => a.1 < b.1 || (a.1 = b.1 && a.2.1 < b.2.1)
  (sortBy lt all).foldr (fun x acc => match acc with
    | [] => [x]
    | y :: _ => if x.1 = y.1 ∧ x.2.1 = y.2.1 then acc else x :: acc) []

/-- rollup merge of the blocks of one metric (`merger.Merge` + `seriesMerger.merge`); `byTs` selects
the placement (see `targetPosTs`). `none` = the Go code divides by a zero ratio. -/
def mergeMetric (byTs : Bool) (r : R) (metric : Nat) (blocks : List MBlock) : Option MBlock :=
  match prepare r blocks with
  | none => some { metric := metric, start := 0, stop := 0, cells := [] }
  | some p =>
    if !byTs && p.ratio = 0 then none else
    let len := p.length
    let posOf : Nat → Int := if byTs then targetPosTs r p.tStart else targetPos p.ratio p.baseSlot p.tStart
    let cells := (seriesFields blocks).flatMap (fun (sid, fid, ft) =>
      let tv := downSample ft posOf len (blocks.map (fun b => decoderOf b sid fid))
      (List.range len).filterMap (fun pos => (tv pos).map (fun v =>
        { series := sid, field := fid, ftype := ft, slot := (p.tStart + pos).toNat, val := v })))
    some { metric := metric, start := p.tStart.toNat, stop := p.tEnd.toNat, cells := cells }

/-- rollup merge of the input files (`compactJob.doMerge`: values of one key are merged together) -/
def mergeFiles (byTs : Bool) (r : R) (inputs : List FileData) : Option FileData :=
  let metrics := sortDedup (inputs.flatMap (fun f => f.map (·.metric)))
  metrics.mapM (fun m => mergeMetric byTs r m (inputs.filterMap (fun f => f.find? (·.metric = m))))

/-! ## C. bookkeeping -/

/-- a source file: (source family, file number) -/
abbrev Key := Nat × Nat
/-- a target interval in milliseconds (identifies the target family of a source family) -/
abbrev Iv := Nat

def dedup {α : Type} [DecidableEq α] : List α → List α
  | [] => []
  | a :: l => if a ∈ l then dedup l else a :: dedup l

structure St where
  /-- source families' `rollupFiles` (file → target intervals), flattened -/
  pending : List (Key × Iv)
  /-- target families' `referenceFiles`, keyed by the target interval -/
  refs : List (Iv × Key)
  /-- level-0 files of the source families -/
  l0 : List Key
  /-- ghost: contributions merged into a target family, one entry per (file, interval) per merge -/
  merged : List (Key × Iv)
  /-- ghost: every (file, interval) ever registered by a flush -/
  registered : List (Key × Iv)
  /-- lower bound of the file numbers not handed out yet (source store) -/
  next : Nat
  deriving Repr

def St.init : St := { pending := [], refs := [], l0 := [], merged := [], registered := [], next := 0 }

/-- one committed edit-log record (one `commitEditLog` call) -/
inductive Rec where
  /-- `storeFlusher.Commit`: NewFile (if the builder is not empty) + NewRollupFile per rollup interval -/
  | flush (k : Key) (nonEmpty : Bool) (ivs : List Iv)
  /-- target family, `installCompactionResults` of the rollup job: output files + NewReferenceFile logs -/
  | merge (i : Iv) (inputs : List Key)
  /-- source family: the DeleteRollupFile logs collected by `rollup()` -/
  | delRollup (ds : List (Key × Iv))
  /-- target family, `cleanReferenceFiles`: DeleteReferenceFile logs -/
  | delRef (i : Iv) (ks : List Key)
  /-- (outside C04's operations) compaction of the source family: level-0 files leave level 0 -/
  | compact (ks : List Key)
  deriving Repr, DecidableEq

/-- applying a record to the versions (`Log.apply` of each log of the record) -/
def St.apply (σ : St) : Rec → St
  | .flush k ne ivs =>
    { σ with pending := σ.pending ++ ivs.map (fun i => (k, i)),
             registered := σ.registered ++ ivs.map (fun i => (k, i)),
             l0 := if ne then σ.l0 ++ [k] else σ.l0,
             next := max σ.next (k.2 + 1) }
  | .merge i inputs =>
    { σ with merged := σ.merged ++ inputs.map (fun k => (k, i)),
             refs := σ.refs ++ (inputs.filter (fun k => (i, k) ∉ σ.refs)).map (fun k => (i, k)) }
  | .delRollup ds => { σ with pending := σ.pending.filter (fun p => p ∉ ds) }
  | .delRef i ks => { σ with refs := σ.refs.filter (fun q => ¬ (q.1 = i ∧ q.2 ∈ ks)) }
  | .compact ks => { σ with l0 := σ.l0.filter (fun k => k ∉ ks) }

def St.applyAll (σ : St) (rs : List Rec) : St := rs.foldl St.apply σ

/-- a run's records when the manifest commit of record number `k` fails and the code goes on: nothing of
that record is persisted or applied (`CommitFamilyEditLog` returns before touching the version), every
other record is committed. This is what `family.rollup()` / `installCompactionResults` /
`cleanReferenceFiles` do as long as they discard the result of `commitEditLog` (regenerated facts
`rollupSourceCommitResult`, `installCommitResult`, `cleanReferenceCommitResult`). -/
def St.applyDropping (σ : St) (rs : List Rec) (k : Nat) : St := σ.applyAll (rs.eraseIdx k)


/-- `rollupMap[interval]` of `rollup()` for source family `fam` (the `targetFiles` map of
`doRollupWork` removes duplicates) -/
def filesOf (pending : List (Key × Iv)) (fam : Nat) (i : Iv) : List Key :=
  dedup ((pending.filter (fun p => p.1.1 = fam ∧ p.2 = i)).map (·.1))

/-- `doRollupWork`: skip the files the target already references, keep those found in level 0 of
the source version; `none` when nothing is committed (no file left, or an empty edit log) -/
def mergeRec (σ : St) (files : List Key) (i : Iv) : Option Rec :=
  let todo := files.filter (fun k => (i, k) ∉ σ.refs)
  let inputs := todo.filter (fun k => k ∈ σ.l0)
  if inputs = [] then none else some (.merge i inputs)

/-- first loop of `rollup()`: for each target interval (in the order `ivs`, Go's map order) that
is available (`avail`: target store found, family created, merge succeeded) one target record,
and the DeleteRollupFile logs are collected. Returns the records and the collected deletes. -/
def tPhase (pending0 : List (Key × Iv)) (fam : Nat) (avail : Iv → Bool) :
    St → List Iv → List Rec × List (Key × Iv)
  | _, [] => ([], [])
  | σ, i :: rest =>
    if avail i then
      let files := filesOf pending0 fam i
      match mergeRec σ files i with
      | some r =>
        let (rs, ds) := tPhase pending0 fam avail (σ.apply r) rest
        (r :: rs, files.map (fun k => (k, i)) ++ ds)
      | none =>
        let (rs, ds) := tPhase pending0 fam avail σ rest
        (rs, files.map (fun k => (k, i)) ++ ds)
    else tPhase pending0 fam avail σ rest

/-- records of `cleanReferenceFiles` for the successfully processed intervals in the order `dvs` -/
def dPhase (pending0 : List (Key × Iv)) (fam : Nat) (ok : Iv → Bool) : List Iv → List Rec
  | [] => []
  | i :: rest =>
    let files := filesOf pending0 fam i
    if ok i ∧ files ≠ [] then .delRef i files :: dPhase pending0 fam ok rest
    else dPhase pending0 fam ok rest

/-- all records one run of `family.rollup()` commits, in commit order: target records (merge +
references) per interval, then ONE source record deleting the rollup entries, then the target
records deleting the references. Empty edit logs are not committed. -/
def rollupRecs (σ : St) (fam : Nat) (ivs : List Iv) (avail : Iv → Bool) (dvs : List Iv) : List Rec :=
  let (ts, ds) := tPhase σ.pending fam avail σ ivs
  let s := if ds = [] then [] else [Rec.delRollup ds]
  ts ++ s ++ dPhase σ.pending fam (fun i => avail i && decide (i ∈ ivs)) dvs

/-- the committed records of a complete rollup run of family `fam` whose `k`-th manifest commit fails, as
a function of what the code does with the result of `commitEditLog`:
* `tChecked` (`installCompactionResults` gives the failure back, `doRollupWork` fails, `rollup()`
  `continue`s): a failed MERGE record makes its interval "not available in this attempt";
* `sChecked` (`rollup()` returns when the source commit failed): a failed DELETE-ROLLUP record ends the run;
* otherwise the run goes on without the record. -/
def rollupRecsFailing (tChecked sChecked : Bool) (σ : St) (fam : Nat) (ivs : List Iv) (avail : Iv → Bool)
    (dvs : List Iv) (k : Nat) : List Rec :=
  let all := rollupRecs σ fam ivs avail dvs
  match all[k]? with
  | some (.merge i _) =>
    if tChecked then rollupRecs σ fam ivs (fun j => avail j && decide (j ≠ i)) dvs else all.eraseIdx k
  | some (.delRollup _) => if sChecked then all.take k else all.eraseIdx k
  | _ => all.eraseIdx k

/-- the operations of C04's histories -/
inductive Op where
  /-- flush of source family `fam` producing file number `file`: any (family, number) that no earlier
  flush registered (a store hands out each file number once — C01; families of different source
  stores are different `fam`s) -/
  | flush (fam file : Nat) (nonEmpty : Bool) (ivs : List Iv)
  /-- one run of `rollup()` of source family `fam`; `cut = some n`: the process dies after `n`
  committed records and is restarted -/
  | rollup (fam : Nat) (ivs : List Iv) (avail : List Iv) (dvs : List Iv) (cut : Option Nat)
  /-- close and reopen: the versions are re-encoded as a manifest snapshot (`createFamilySnapshot`);
  `p`, `r` are the re-encoded lists (any order, any multiplicity) -/
  | reopen (p : List (Key × Iv)) (r : List (Iv × Key))
  deriving Repr

def sameMem {α : Type} [DecidableEq α] (a b : List α) : Bool :=
  a.all (fun x => x ∈ b) && b.all (fun x => x ∈ a)

def St.step (σ : St) : Op → St
  | .flush fam file ne ivs =>
    if σ.registered.all (fun p => decide (p.1 ≠ (fam, file))) then σ.apply (.flush (fam, file) ne ivs) else σ
  | .rollup fam ivs avail dvs cut =>
    let rs := rollupRecs σ fam ivs (fun i => decide (i ∈ avail)) dvs
    σ.applyAll (match cut with | none => rs | some n => rs.take n)
  | .reopen p r =>
    if sameMem p σ.pending && sameMem r σ.refs then { σ with pending := p, refs := r } else σ

def St.run (σ : St) (ops : List Op) : St := ops.foldl St.step σ

/-! ## D. the guard of `family.rollup()`: at most one job per source family

`rollup()` starts its goroutine only `if f.rolluping.CompareAndSwap(false, true)`; the job resets the
flag when it is done. Triggers (scheduler tick, ForceRollup, the harness) may come at any time. The
model has the two shapes: the atomic compare-and-swap, and "Load, then Store inside the goroutine"
(not atomic: two triggers can both read `false`). Which one the code has is a regenerated fact. -/

/-- steps of trigger `t` -/
inductive GStep where
  /-- `CompareAndSwap(false, true)` and, on success, the start of the job -/
  | cas (t : Nat)
  /-- `!rolluping.Load()` -/
  | load (t : Nat)
  /-- the goroutine of a trigger that saw `false`: `rolluping.Store(true)`, job running -/
  | store (t : Nat)
  /-- end of the job of `t`: `rolluping.Store(false)` -/
  | finish (t : Nat)
  deriving Repr, DecidableEq

structure JobGuard where
  flag : Bool := false
  /-- triggers whose job is running -/
  running : List Nat := []
  /-- triggers that read `false` and have not stored yet -/
  sawFalse : List Nat := []
  deriving Repr

def JobGuard.step (g : JobGuard) : GStep → JobGuard
  | .cas t => if g.flag then g else { g with flag := true, running := t :: g.running }
  | .load t => if g.flag then g else { g with sawFalse := t :: g.sawFalse }
  | .store t => if t ∈ g.sawFalse then
      { flag := true, running := t :: g.running, sawFalse := g.sawFalse.filter (· ≠ t) } else g
  | .finish t => if t ∈ g.running then
      { g with flag := false, running := g.running.filter (· ≠ t) } else g

def JobGuard.run (g : JobGuard) (l : List GStep) : JobGuard := l.foldl JobGuard.step g

/-! ## E. manifest snapshot / restore of the rollup bookkeeping (restart)

Every open of a store (`storeVersionSet.recover` → `initJournal`) replays the manifest into fresh
versions and then writes a NEW manifest that starts with a snapshot of every family
(`createFamilySnapshot`): one `NewReferenceFile(store, family, file)` log per entry of
`referenceFiles` (three nested `range` loops over Go maps: any order) and one
`NewRollupFile(file, interval)` log per entry of `rollupFiles`. The next open replays those logs with
`Log.apply`: `AddRollupFile` appends, `AddReferenceFile` skips a file that is already listed.
In the flattened state `St` a reference of target family `i` is `(i, (source family, file))`. -/

/-- one log of a family snapshot, with the family whose edit log holds it -/
inductive SLog where
  /-- `CreateNewReferenceFile(store, familyID, file)` in the edit log of target family `i` -/
  | newRef (i : Iv) (k : Key)
  /-- `CreateNewRollupFile(file, interval)` in the edit log of source family `k.1` -/
  | newRollup (k : Key) (i : Iv)
  deriving Repr, DecidableEq

/-- `createFamilySnapshot` of all families (rollup bookkeeping only). `byLoopVar = true`: the family id
written into a reference log is the key of the inner `range families` loop (the code: the loop
variable shadows the function's parameter); `false`: it is the parameter, i.e. the id of the family
being snapshotted (`own i`, as a source-family code). Which one the code has is a regenerated fact. -/
def snapshotLogs (byLoopVar : Bool) (own : Iv → Nat) (σ : St) : List SLog :=
  σ.refs.map (fun q => SLog.newRef q.1 (if byLoopVar then q.2 else (own q.1, q.2.2))) ++
  σ.pending.map (fun p => SLog.newRollup p.1 p.2)

/-- `Log.apply` of one snapshot log during `recover()` -/
def restoreLog (acc : List (Key × Iv) × List (Iv × Key)) : SLog → List (Key × Iv) × List (Iv × Key)
  | .newRef i k => if (i, k) ∈ acc.2 then acc else (acc.1, acc.2 ++ [(i, k)])
  | .newRollup k i => (acc.1 ++ [(k, i)], acc.2)

/-- replay of the snapshot logs into empty versions -/
def restore (logs : List SLog) : List (Key × Iv) × List (Iv × Key) := logs.foldl restoreLog ([], [])

/-- the versions after a restart that replays `logs` -/
def St.restartWith (σ : St) (logs : List SLog) : St :=
  { σ with pending := (restore logs).1, refs := (restore logs).2 }

/-- one restart; `perm` is the order in which the map iterations emitted the logs -/
def St.restart (byLoopVar : Bool) (own : Iv → Nat) (perm : List SLog → List SLog) (σ : St) : St :=
  σ.restartWith (perm (snapshotLogs byLoopVar own σ))

/-- any number of restarts in a row -/
def St.restarts (byLoopVar : Bool) (own : Iv → Nat) (σ : St) (perms : List (List SLog → List SLog)) : St :=
  perms.foldl (fun s f => s.restart byLoopVar own f) σ

/-- histories with explicit restarts: an operation of `Op`, or a restart whose snapshot logs were
emitted in the order `perm` -/
inductive HOp where
  | op (o : Op)
  | restart (perm : List SLog → List SLog)

def St.stepH (byLoopVar : Bool) (own : Iv → Nat) (σ : St) : HOp → St
  | .op o => σ.step o
  | .restart perm => σ.restart byLoopVar own perm

def St.runH (byLoopVar : Bool) (own : Iv → Nat) (σ : St) (hs : List HOp) : St :=
  hs.foldl (St.stepH byLoopVar own) σ

/-! ## F. the target range of `merger.prepare`, second shape; the aggregate by decision table -/

/-- `ctx.targetRange.End` of the rollup branch of `merger.prepare`. `mapped = true` (the code): the slot
of the timestamp of the source end slot; `false`: `Start + (sourceEnd - sourceStart)/ratio` (a
"simplification" that is one slot short whenever the source range starts inside a target slot). -/
def prepEnd (mapped : Bool) (r : R) (s e : Nat) : Int :=
  if mapped then r.calcSlot (r.getTimestamp e)
  else r.calcSlot (r.getTimestamp s) + ((e : Int) - (s : Int)) / r.intervalRatio

/-- `field.Type.AggType().Aggregate(a, b)` evaluated from the two regenerated decision tables:
`fieldAgg` = (field type, aggregate kind) rows of `Type.AggType()`, `aggExpr` = (aggregate kind, returned
Go expression) rows of `AggType.Aggregate`. `none` = the `panic` default of either switch. -/
def aggByTable (fieldAgg : List (Nat × Nat)) (aggExpr : List (Nat × String)) (ft : Nat) (a b : Int) : Option Int :=
  match fieldAgg.find? (fun e => e.1 = ft) with
  | none => none
  | some (_, kind) =>
    match aggExpr.find? (fun e => e.1 = kind) with
    | none => none
    | some (_, e) =>
      if e = "a + b" then some (a + b)
      else if e = "b" then some b
      else if e = "a" then some a
      else if e = "math.Min(a, b)" then some (if b < a then b else a)
      else if e = "math.Max(a, b)" then some (if a < b then b else a)
      else none

end LinVerif.Rollup
