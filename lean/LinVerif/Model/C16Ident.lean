/-
C16 — the stored IDENTITY of a metric (namespace, name, NameHash, tags hash) and where the protobuf
converter sanitises the two strings it is built from (core Lean only).

Mirrors series/metric/row_proto_converter.go:
  * validateMetric     `m.Name = commonseries.SanitizeMetricName(m.Name)`,
                       `m.Namespace = commonseries.SanitizeNamespace(m.Namespace)`   (in place)
  * MarshalProtoMetricV1, label Serialize
                       `metricName := rc.flatBuilder.CreateString(<name>)`,
                       `namespace := rc.flatBuilder.CreateString(<namespace>)`,
                       `flatMetricsV1.MetricAddNameHash(rc.flatBuilder, rc.hashOfName(m))`
  * hashOfName         `WriteString(<namespace>)`, `WriteString(<name>)`, xxhash of the buffer

Each of the two strings has three places where '|' ↦ '_' can be applied: in place by validateMetric
(every later reader sees the sanitised string), in the argument of CreateString (only the stored string
is sanitised), in the argument hashOfName hashes (only the hashed string is). `NameFlow` says which of
them the source applies; it is regenerated from /repo on every run (`Generated.C16.protoNameFlow`,
`protoNsFlow`) and the driver runs the flow it is given. `Row.convert` is the flow of the code as it
stands, (true, false, false) for both strings (`Lemmas.C16Ident.convertF_current`).
-/
import LinVerif.Model.Row

namespace LinVerif.C16Ident
open LinVerif.Row

/-- where one of the two strings is sanitised -/
structure NameFlow where
  inValidate : Bool   -- validateMetric assigns the sanitised string back (in place)
  atStore : Bool      -- CreateString(Sanitize…(s))
  atHash : Bool       -- hashOfName hashes Sanitize…(s)
  deriving DecidableEq, Repr

/-- the flow of a regenerated triple -/
def NameFlow.ofTriple (t : Bool × Bool × Bool) : NameFlow := ⟨t.1, t.2.1, t.2.2⟩

/-- the code as it stands: validateMetric canonicalises in place, every later reader sees that -/
def NameFlow.current : NameFlow := ⟨true, false, false⟩

/-- apply the sanitiser or not -/
def san (b : Bool) (s : String) : String := if b then sanitizeName s else s

/-- the string the row is stored under -/
def NameFlow.stored (fl : NameFlow) (raw : String) : String := san fl.atStore (san fl.inValidate raw)

/-- the string hashOfName hashes -/
def NameFlow.hashed (fl : NameFlow) (raw : String) : String := san fl.atHash (san fl.inValidate raw)

/-- the flows under which the row is stored under the sanitised spelling AND hashOfName hashes that very
spelling, whatever the string is: sanitised in place, or sanitised at both uses -/
def NameFlow.sound (fl : NameFlow) : Bool := fl.inValidate || (fl.atStore && fl.atHash)

/-- the namespace validateMetric works on: the request's when there is one, else the metric's -/
def rawNs (c : Cfg) (m : PMetric) : String := if c.reqNs ≠ "" then c.reqNs else m.ns

/-- BrokerRowProtoConverter.ConvertTo with the sanitising places explicit. Acceptance does not depend on
them (the name-length rule reads the string before it is sanitised; nothing reads the namespace). -/
def convertF (fn fs : NameFlow) (tb : Bool) (sort : List Tag → List Tag) (H : String → Nat) (c : Cfg) :
    Option PMetric → Except Err Stored
  | none => .error .nilMetric
  | some m =>
    match validate c (some m) with
    | .error e => .error e
    | .ok v =>
      let s := build tb sort H v
      .ok { s with name := fn.stored m.name, ns := fs.stored (rawNs c m),
                   nameHash := H (fs.hashed (rawNs c m) ++ fn.hashed m.name) }

end LinVerif.C16Ident
