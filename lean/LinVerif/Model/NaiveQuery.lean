/-
C11 — the naive reference ("store every accepted point; bucket by (family, slot); combine the
points of one slot by the field type's aggregate; down-sample to the query interval; apply the
field function; group by tags").  Core Lean only (linked into `lvmodel`).

Values are `Int` (DESIGN section 6: floats are modelled on exactly representable values).

Go anchors: series/field/type.go (AggType.Aggregate, Type.AggType, Type.DownSamplingFunc,
Type.IsFuncSupported, Type.GetFuncFieldParams), aggregation/function/type.go (FuncType).
-/
namespace LinVerif.NaiveQuery

/-- series/field/type.go `AggType` (iota + 1: Sum, Count, Min, Max, Last, First). -/
inductive AggType where
  | sum | count | min | max | last | first
  deriving DecidableEq, Repr, Inhabited

def AggType.code : AggType → Nat
  | .sum => 1 | .count => 2 | .min => 3 | .max => 4 | .last => 5 | .first => 6

def AggType.ofCode? : Nat → Option AggType
  | 1 => some .sum | 2 => some .count | 3 => some .min | 4 => some .max
  | 5 => some .last | 6 => some .first | _ => none

def AggType.all : List AggType := [.sum, .count, .min, .max, .last, .first]

/-- `AggType.Aggregate(a, b)`. -/
def AggType.agg : AggType → Int → Int → Int
  | .sum, a, b => a + b
  | .count, a, b => a + b
  | .last, _, b => b
  | .first, a, _ => a
  | .min, a, b => if a ≤ b then a else b
  | .max, a, b => if a ≤ b then b else a

/-- series/field/type.go `Type` (Unknown = 0 is not a value of this type). -/
inductive FieldType where
  | sum | min | max | last | histogram | first
  deriving DecidableEq, Repr, Inhabited

def FieldType.code : FieldType → Nat
  | .sum => 1 | .min => 2 | .max => 3 | .last => 4 | .histogram => 5 | .first => 6

def FieldType.ofCode? : Nat → Option FieldType
  | 1 => some .sum | 2 => some .min | 3 => some .max | 4 => some .last
  | 5 => some .histogram | 6 => some .first | _ => none

def FieldType.all : List FieldType := [.sum, .min, .max, .last, .histogram, .first]

/-- `Type.AggType()`. -/
def FieldType.aggType : FieldType → AggType
  | .sum => .sum | .histogram => .sum | .min => .min | .max => .max | .last => .last | .first => .first

/-- aggregation/function/type.go `FuncType` (Unknown = 0 excluded). -/
inductive FuncType where
  | sum | min | max | count | avg | last | first | quantile | stddev | rate
  deriving DecidableEq, Repr, Inhabited

def FuncType.code : FuncType → Nat
  | .sum => 1 | .min => 2 | .max => 3 | .count => 4 | .avg => 5 | .last => 6 | .first => 7
  | .quantile => 8 | .stddev => 9 | .rate => 10

def FuncType.ofCode? : Nat → Option FuncType
  | 1 => some .sum | 2 => some .min | 3 => some .max | 4 => some .count | 5 => some .avg
  | 6 => some .last | 7 => some .first | 8 => some .quantile | 9 => some .stddev | 10 => some .rate
  | _ => none

def FuncType.all : List FuncType :=
  [.sum, .min, .max, .count, .avg, .last, .first, .quantile, .stddev, .rate]

/-- `Type.DownSamplingFunc()`. -/
def FieldType.downSamplingFunc : FieldType → FuncType
  | .sum => .sum | .min => .min | .max => .max | .last => .last | .first => .first | .histogram => .sum

/-- `Type.IsFuncSupported(funcType)`. -/
def FieldType.isFuncSupported : FieldType → FuncType → Bool
  | .sum, f => f == .sum || f == .min || f == .max || f == .rate
  | .min, f => f == .min
  | .max, f => f == .max
  | .last, f => f == .sum || f == .min || f == .max || f == .last
  | .first, f => f == .sum || f == .min || f == .max || f == .first
  | .histogram, f => f == .sum

/-- `Type.GetFuncFieldParams(funcType)` (every branch returns a one-element slice). -/
def FieldType.funcParam : FieldType → FuncType → AggType
  | .sum, .max => .max
  | .sum, .min => .min
  | .sum, _ => .sum
  | .last, .max => .max
  | .last, .min => .min
  | .last, .sum => .sum
  | .last, _ => .last
  | .first, .max => .max
  | .first, .min => .min
  | .first, .sum => .sum
  | .first, _ => .first
  | .min, .max => .max
  | .min, _ => .min
  | .max, .min => .min
  | .max, _ => .max
  | .histogram, _ => .sum

/-- combination of two optional slot values (absent = neutral). -/
def ocomb (A : AggType) : Option Int → Option Int → Option Int
  | none, y => y
  | some a, none => some a
  | some a, some b => some (A.agg a b)

/-- One accepted point of one field of one series (a row with k fields is k points). -/
structure Point where
  family : Nat   -- index of the data family (hour number for a Day-type interval)
  series : Nat   -- series key (tags identity)
  field  : Nat   -- field key
  slot   : Nat   -- slot inside the family
  value  : Int
  deriving Repr, DecidableEq

/-- the points of one (family, series, field) stream as (slot, value) pairs, arrival order kept. -/
def streamOf (ps : List Point) (fam ser fld : Nat) : List (Nat × Int) :=
  (ps.filter (fun p => p.family = fam ∧ p.series = ser ∧ p.field = fld)).map (fun p => (p.slot, p.value))

/-- reference slot map of one stream: combine, in arrival order, all values written to `slot`. -/
def refSlots (A : AggType) (ws : List (Nat × Int)) (slot : Nat) : Option Int :=
  ws.foldl (fun acc w => if w.1 = slot then ocomb A acc (some w.2) else acc) none

/-- reference cell of the whole store. -/
def refCell (A : AggType) (ps : List Point) (fam ser fld slot : Nat) : Option Int :=
  refSlots A (streamOf ps fam ser fld) slot

/-- A leaf query on one field in *global storage-slot coordinates*:
`g = family * spf + slot` (`spf` = slots per family), the (storage-interval aligned) query range is
`[qs, qe]` in these coordinates and the query interval is `ratio` storage slots. -/
structure Query where
  field : Nat
  fieldAgg : AggType   -- the field type's aggregate (slot combining)
  funcAgg : AggType    -- agg type of the selected function (`GetFuncFieldParams`)
  spf : Nat
  qs : Nat
  qe : Nat
  ratio : Nat
  deriving Repr

/-- is the cell (fam, slot) inside the query range, and if so which query bucket does it fall in -/
def bucketOf (q : Query) (fam slot : Nat) : Option Nat :=
  let g := fam * q.spf + slot
  if q.qs ≤ g ∧ g ≤ q.qe then some ((g - q.qs) / q.ratio) else none

/-- fold of `funcAgg` over the cells of one (family, series) that fall into bucket `t`,
slots ascending. -/
def naiveSeriesFamily (q : Query) (ps : List Point) (ser fam t : Nat) (acc : Option Int) : Option Int :=
  (List.range q.spf).foldl (fun acc slot =>
    if bucketOf q fam slot = some t then ocomb q.funcAgg acc (refCell q.fieldAgg ps fam ser q.field slot)
    else acc) acc

/-- the reference value of bucket `t` for a group of series over the given families
(series-major, then family, then slot). -/
def naiveBucket (q : Query) (ps : List Point) (group fams : List Nat) (t : Nat) : Option Int :=
  group.foldl (fun acc ser => fams.foldl (fun acc fam => naiveSeriesFamily q ps ser fam t acc) acc) none

/-- number of query buckets. -/
def Query.buckets (q : Query) : Nat := (q.qe - q.qs) / q.ratio + 1

/-- reference result of one group: the non-empty buckets. -/
def naiveGroup (q : Query) (ps : List Point) (group fams : List Nat) : List (Nat × Int) :=
  (List.range q.buckets).filterMap (fun t => (naiveBucket q ps group fams t).map (fun v => (t, v)))

/-! ### tags, condition, group by -/

/-- a series' tags as (key id, value id) pairs. -/
abbrev Tags := List (Nat × Nat)

def tagValue? (ts : Tags) (k : Nat) : Option Nat :=
  match ts with
  | [] => none
  | (k', v) :: t => if k' = k then some v else tagValue? t k

/-- tag condition (the simple shapes the harness generates). -/
inductive Cond where
  | all
  | eq (k v : Nat)
  | isIn (k : Nat) (vs : List Nat)
  | and (a b : Cond)
  | or (a b : Cond)
  deriving Repr, Inhabited

def Cond.eval : Cond → Tags → Bool
  | .all, _ => true
  | .eq k v, ts => tagValue? ts k == some v
  | .isIn k vs, ts => match tagValue? ts k with
      | some v => vs.contains v
      | none => false
  | .and a b, ts => a.eval ts && b.eval ts
  | .or a b, ts => a.eval ts || b.eval ts

/-- group key of a series: the values of the group-by keys (none when a key is missing). -/
def groupKey? (by_ : List Nat) (ts : Tags) : Option (List Nat) := by_.mapM (tagValue? ts)

def insertGroup (gs : List (List Nat × List Nat)) (k : List Nat) (ser : Nat) : List (List Nat × List Nat) :=
  match gs with
  | [] => [(k, [ser])]
  | (k', ss) :: t => if k' = k then (k', ss ++ [ser]) :: t else (k', ss) :: insertGroup t k ser

/-- the groups (group key ↦ series, in the order given) of the series that satisfy the condition. -/
def groupsOf (series : List (Nat × Tags)) (c : Cond) (by_ : List Nat) : List (List Nat × List Nat) :=
  series.foldl (fun gs (s : Nat × Tags) =>
    if c.eval s.2 then
      match groupKey? by_ s.2 with
      | some k => insertGroup gs k s.1
      | none => gs
    else gs) []

/-- the complete reference answer: per group the non-empty buckets. -/
def naiveQuery (q : Query) (ps : List Point) (series : List (Nat × Tags)) (c : Cond) (by_ : List Nat)
    (fams : List Nat) : List (List Nat × List (Nat × Int)) :=
  (groupsOf series c by_).map (fun g => (g.1, naiveGroup q ps g.2 fams))

/-! ### field functions on the per-agg-type arrays (aggregation/expression.go funcCall,
aggregation/function/functions.go FuncCall, rate.go RateCall) -/

/-- result value of a function call: `num / den` (only `rate` has `den ≠ 1`). -/
structure FVal where
  num : Int
  den : Nat
  deriving Repr, DecidableEq

/-- `FuncCall` returns its first parameter for Sum/Min/Max/Count/Last/First; `RateCall` divides by
`interval / OneSecond`; everything else (`avg` needs two params, quantile/stddev) is not modelled. -/
def funcCall (f : FuncType) (intervalSec : Nat) (v : Int) : Option FVal :=
  match f with
  | .sum | .min | .max | .count | .last | .first => some ⟨v, 1⟩
  | .rate => some ⟨v, intervalSec⟩
  | _ => none

end LinVerif.NaiveQuery
