/-
C03 — the pooled `TSDDecoder`s of `seriesMerger.merge` with their read positions (core Lean only).

Go anchors: pkg/encoding/tsd.go `TSDDecoder` (`ResetWithTimeRange`: idx = 0; `HasValueWithSlot(slot)`:
outside [start,end] ⇒ false; `slot == idx+start` ⇒ `idx++`, the has-value bit; otherwise false — the decoder
only moves forward), tsdb/tblstore/metricsdata/series_merger.go `merge` (per target field: for every input
block whose reader returns field data the block's decoder `streams[idx]` is reset; a block WITHOUT data for
this field keeps the decoder of an earlier field / an earlier series in whatever position it was left),
aggregation/down_sampling_agg.go `DownSamplingMultiSeriesInto` (second loop: every non-nil decoder is
iterated from its `StartTime()` to its `EndTime()`; `continue`/`break` as in `Merge.feed`),
merger.go `Merge` (`streams` is allocated once per `Merge` call and shared by all series).
-/
import LinVerif.Model.Merge

namespace LinVerif.C03Decoder
open LinVerif.Map LinVerif.Merge

variable {V : Type}

/-- a `TSDDecoder`: the (slot ↦ value) content of the data it was last reset with, its range, its position -/
structure Dec (V : Type) where
  vals : List (Nat × V)
  start : Nat
  stop : Nat
  idx : Nat

/-- `ResetWithTimeRange(fieldData, start, end)` -/
def Dec.reset (vals : List (Nat × V)) (start stop : Nat) : Dec V := { vals := vals, start := start, stop := stop, idx := 0 }

/-- `HasValueWithSlot(slot)` followed, when true, by `Value()` -/
def Dec.read (d : Dec V) (slot : Nat) : Dec V × Option V :=
  if slot < d.start ∨ slot > d.stop then (d, none)
  else if slot = d.idx + d.start then ({ d with idx := d.idx + 1 }, lookup d.vals slot)
  else (d, none)

/-- the decoder has been read to its end (every later `HasValueWithSlot` answers false) -/
def Dec.Exhausted (d : Dec V) : Prop := d.idx + d.start > d.stop

/-- the slot loop of `DownSamplingMultiSeriesInto` over one decoder OBJECT: `t` the moving source slot, `n` the
slots still to visit; same `continue`/`break` structure as `Merge.feed`, but the values come from the
positional reads and the decoder is returned in the position the loop left it -/
def decLoop (op : V → V → V) (cfg : Cfg) (tStart len : Nat) :
    Dec V → List (Nat × V) → Nat → Nat → Dec V × List (Nat × V)
  | d, acc, _, 0 => (d, acc)
  | d, acc, t, n + 1 =>
    match d.read t with
    | (d', none) => decLoop op cfg tStart len d' acc (t + 1) n
    | (d', some v) =>
      let p : Int := (cfg.baseSlot : Int) + ((t / cfg.ratio : Nat) : Int) - (tStart : Int)
      if p < 0 then decLoop op cfg tStart len d' acc (t + 1) n
      else if p ≥ (len : Int) then (d', acc)
      else decLoop op cfg tStart len d' (put op acc p.toNat v) (t + 1) n

/-- what one input block's field reader answers for the current target field: `some (vals, start, stop)` when
`len(fieldData) > 0` (`reader.SlotRange()` = the block's range), `none` for a nil reader / no data -/
abbrev FD (V : Type) := Option (List (Nat × V) × Nat × Nat)

/-- the reader loop of `seriesMerger.merge` for one target field: reset where there is data, otherwise the
slot keeps what it held (a nil decoder stays nil) -/
def resetStreams : List (Option (Dec V)) → List (FD V) → List (Option (Dec V))
  | _ :: ss, some (v, a, b) :: ds => some (Dec.reset v a b) :: resetStreams ss ds
  | s :: ss, none :: ds => s :: resetStreams ss ds
  | ss, [] => ss
  | [], _ :: _ => []

/-- the second loop of `DownSamplingMultiSeriesInto`: every non-nil decoder, in input order -/
def downAll (op : V → V → V) (cfg : Cfg) (tStart len : Nat) :
    List (Option (Dec V)) → List (Nat × V) → List (Option (Dec V)) × List (Nat × V)
  | [], acc => ([], acc)
  | none :: ss, acc => let r := downAll op cfg tStart len ss acc; (none :: r.1, r.2)
  | some d :: ss, acc =>
    let r1 := decLoop op cfg tStart len d acc d.start (d.stop + 1 - d.start)
    let r2 := downAll op cfg tStart len ss r1.2
    (some r1.1 :: r2.1, r2.2)

/-- specification: only the blocks WITH data for the field contribute, each decoded from the start of its data -/
def specAll (op : V → V → V) (cfg : Cfg) (tStart len : Nat) : List (FD V) → List (Nat × V) → List (Nat × V)
  | [], acc => acc
  | none :: ds, acc => specAll op cfg tStart len ds acc
  | some (v, a, b) :: ds, acc => specAll op cfg tStart len ds (feed op cfg tStart len v acc a (b + 1 - a))

/-- one field step (`op` = the field type's aggregate): streams in, streams out, the target accumulator -/
def fieldStep (cfg : Cfg) (tStart len : Nat) (ss : List (Option (Dec V))) (step : (V → V → V) × List (FD V)) :
    List (Option (Dec V)) × List (Nat × V) :=
  downAll step.1 cfg tStart len (resetStreams ss step.2) []

/-- all field steps of a `Merge` call in sequence (the fields of the first series, of the second series, …):
`streams` is threaded through, one accumulator per step comes out -/
def stepsLoop (cfg : Cfg) (tStart len : Nat) :
    List (Option (Dec V)) → List ((V → V → V) × List (FD V)) → List (Option (Dec V)) × List (List (Nat × V))
  | ss, [] => (ss, [])
  | ss, st :: rest =>
    let r := fieldStep cfg tStart len ss st
    let r2 := stepsLoop cfg tStart len r.1 rest
    (r2.1, r.2 :: r2.2)

end LinVerif.C03Decoder
