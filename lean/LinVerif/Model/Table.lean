/-
C15 — executable model of lindb's table files (core Lean only).

Go anchors
  kv/table/builder.go      storeBuilder (Add, afterWrite, ensureIncreasingKey, Close), streamWriter
  kv/table/reader.go       storeMMapReader (newMMapStoreReader, initialize, Get, getBlock), storeMMapIterator
  kv/table/constants.go    footer layout (tied to LinVerif.Generated.C15 in Props/C15.lean)
  pkg/encoding/fixed_offset.go   = Model/FixedOffset.lean (C14's byte-exact model, used as is:
                                 `Enc.add/marshal`, `Dec.unmarshal/sizeOf/get/getBlock`; its round trip is
                                 `Props.C14.fixedoffset_roundtrip` / `fixedoffset_getBlock_correct`)
  encoding/binary                LittleEndian PutUint32/PutUint64/Uint32/Uint64 for the footer
  kv/version/version.go    FindFiles;  kv/version/snapshot.go  Load / FindReaders

A byte is a `Nat` (the driver only ever feeds values < 256; nothing in the model depends on
that bound except that `leVal (leBytes w v) = v % 256^w`, which is proved).  The roaring
bitmap is external: it is the parameter `KeySetOps` (operations) with the contract
`KeySetOps.Lawful` (LinVerif/Lemmas/C15Table.lean); `listKeySet` is the executable stand-in used
by the driver, proved lawful.
-/
import LinVerif.Model.FixedOffset

namespace LinVerif.Table

abbrev Bytes := List Nat

/-! ## constants of kv/table/constants.go -/

/-- `magicNumberOffsetFile` -/
def magicNumberOffsetFile : Nat := 0x69632d656d656c65
/-- `version0` -/
def version0 : Nat := 0
/-- `sstFileFooterSize` = posOfOffset(4) + posOfKeys(4) + version(1) + magicNumber(8) -/
def sstFileFooterSize : Nat := 4 + 4 + 1 + 8
/-- `magicNumberAtFooter` -/
def magicNumberAtFooter : Nat := 9

/-! ## encoding/binary -/

/-- `binary.LittleEndian.PutUintNN` restricted to the first `w` bytes: byte i = (v >> 8i) & 0xff. -/
def leBytes : Nat → Nat → Bytes
  | 0, _ => []
  | w + 1, v => (v % 256) :: leBytes w (v / 256)

/-- `binary.LittleEndian.UintNN` of a byte slice: Σ bᵢ·256ⁱ. -/
def leVal : Bytes → Nat
  | [] => 0
  | b :: t => b + 256 * leVal t

/-! ## the roaring bitmap as a parameter -/

/-- The operations lindb uses on `*roaring.Bitmap` (`New`, `Add`, `Contains`, `Rank`,
`GetCardinality`, `IsEmpty`, `Iterator`, `RunOptimize`+`BitmapMarshal`, `BitmapUnmarshal`). -/
structure KeySetOps (B : Type) where
  empty : B
  add : B → Nat → B
  contains : B → Nat → Bool
  rank : B → Nat → Nat
  card : B → Nat
  isEmpty : B → Bool
  toList : B → List Nat
  marshal : B → Bytes
  unmarshal : Bytes → Option B

/-! ## kv/table/builder.go -/

/-- `streamWriter`; `crcRev` = the chunks fed to the `hash.Hash32` since the last `Reset()`
(newest first); the checksum function itself is a parameter, see `Builder.swChecksum` -/
structure SW where
  size : Nat := 0
  key : Nat := 0
  offset : Nat := 0
  badKey : Bool := true
  crcRev : List Bytes := []
deriving Repr

/-- `storeBuilder`. `chunksRev`/`size` = the bufio writer (chunks newest first, running size);
`offset` = the `FixedOffsetEncoder` created by `NewFixedOffsetEncoder(true)`. -/
structure Builder (B : Type) where
  chunksRev : List Bytes := []
  size : Nat := 0
  offset : FixedOffset.Enc := FixedOffset.Enc.fresh true
  keys : B
  minKey : Nat := 0
  maxKey : Nat := 0
  first : Bool := true
  sw : SW := {}

variable {B : Type}

/-- `NewStoreBuilder` -/
def Builder.init (K : KeySetOps B) : Builder B := { keys := K.empty }

/-- bytes written so far (`writer`'s content) -/
def Builder.written (b : Builder B) : Bytes := b.chunksRev.reverse.flatten

/-- `FixedOffsetEncoder.values` -/
def Builder.offsets (b : Builder B) : List Int := b.offset.values

/-- `storeBuilder.ensureIncreasingKey` -/
def Builder.ensureIncreasingKey (b : Builder B) (key : Nat) : Bool :=
  if b.first then true
  else if key ≤ b.maxKey then false
  else true

/-- `writer.Write(data)` -/
def Builder.write (b : Builder B) (data : Bytes) : Builder B :=
  { b with chunksRev := data :: b.chunksRev, size := b.size + data.length }

/-- `storeBuilder.afterWrite`: `b.offset.Add(offset)` first — its panic ("value added to
FixedOffsetEncoder must be increasing") is `none`, raised before anything is changed — then
`keys.Add`, min/max/first. -/
def Builder.afterWrite (K : KeySetOps B) (b : Builder B) (key offset : Nat) : Option (Builder B) :=
  match b.offset.add (offset : Int) with
  | .error _ => none
  | .ok enc =>
    some { b with
      offset := enc
      keys := K.add b.keys key
      minKey := if b.first then key else b.minKey
      maxKey := key
      first := false }

/-- `storeBuilder.Add` (always returns nil apart from I/O errors, which are not modelled) -/
def Builder.add (K : KeySetOps B) (b : Builder B) (key : Nat) (value : Bytes) : Option (Builder B) :=
  if !b.ensureIncreasingKey key then some b
  else
    let offset := b.size
    (b.write value).afterWrite K key offset

/-- `storeBuilder.StreamWriter` → `newStreamWriter` -/
def Builder.newSW (b : Builder B) : Builder B := { b with sw := {} }

/-- `streamWriter.Prepare` -/
def Builder.prepare (b : Builder B) (key : Nat) : Builder B :=
  { b with sw := { badKey := !b.ensureIncreasingKey key, offset := b.size, key := key, size := 0,
                   crcRev := [] } }    -- sw.crc32.Reset()

/-- `streamWriter.Write`; second component = the returned n -/
def Builder.swWrite (b : Builder B) (data : Bytes) : Builder B × Nat :=
  if b.sw.badKey then (b, 0)
  else
    let b' := b.write data
    -- _, _ = sw.crc32.Write(data); sw.size += uint32(n)
    ({ b' with sw := { b'.sw with size := b'.sw.size + data.length, crcRev := data :: b'.sw.crcRev } },
     data.length)

/-- `streamWriter.CRC32CheckSum()`: the checksum (`crc` = IEEE crc32, a parameter) of everything
written since `Prepare` -/
def Builder.swChecksum (crc : Bytes → Nat) (b : Builder B) : Nat := crc b.sw.crcRev.reverse.flatten

/-- `streamWriter.Commit` -/
def Builder.commit (K : KeySetOps B) (b : Builder B) : Option (Builder B) :=
  if b.sw.badKey then some b
  else
    match b.afterWrite K b.sw.key b.sw.offset with
    | none => none
    | some b' => some { b' with sw := { b'.sw with badKey := true } }

/-- `Count()` -/
def Builder.count (K : KeySetOps B) (b : Builder B) : Nat := K.card b.keys

/-- footer written by `Close`: `PutUint32(posOfOffset) PutUint32(posOfKeys) version0 PutUint64(magic)` -/
def footer (posOfOffset posOfKeys : Nat) : Bytes :=
  leBytes 4 posOfOffset ++ leBytes 4 posOfKeys ++ [version0] ++ leBytes 8 magicNumberOffsetFile

/-- `storeBuilder.Close`: `none` = `ErrEmptyKeys`; otherwise the bytes of the finished file. -/
def Builder.close (K : KeySetOps B) (b : Builder B) : Option Bytes :=
  if K.isEmpty b.keys then none
  else
    let posOfOffset := b.size
    let offset := b.offset.marshal     -- b.offset.MarshalBinary()
    let keys := K.marshal b.keys
    let posOfKeys := posOfOffset + offset.length
    some (b.written ++ offset ++ keys ++ footer posOfOffset posOfKeys)

/-- `Close` whose n-th write (0 = offsets, 1 = keys, 2 = footer) fails: the error is returned and
the deferred `writer.Close()` leaves on disk what was written before (the failing write itself is
taken to write nothing). The caller (`storeFlusher.Commit`, `finishCompactionOutputFile`) returns
the error without adding the file to an edit log. -/
def Builder.closePartial (K : KeySetOps B) (b : Builder B) (n : Nat) : Bytes :=
  let offset := b.offset.marshal
  let keys := K.marshal b.keys
  match n with
  | 0 => b.written
  | 1 => b.written ++ offset
  | _ => b.written ++ offset ++ keys

/-- builder operations as the harness issues them -/
inductive Op where
  | add (key : Nat) (value : Bytes)
  | newSW
  | prepare (key : Nat)
  | write (data : Bytes)
  | commit
deriving Repr

/-- one operation; `none` = panic -/
def Builder.step (K : KeySetOps B) (b : Builder B) : Op → Option (Builder B)
  | .add k v => b.add K k v
  | .newSW => some b.newSW
  | .prepare k => some (b.prepare k)
  | .write d => some (b.swWrite d).1
  | .commit => b.commit K

def Builder.run (K : KeySetOps B) (b : Builder B) : List Op → Option (Builder B)
  | [] => some b
  | op :: ops =>
    match b.step K op with
    | none => none
    | some b' => Builder.run K b' ops

/-! ## kv/table/reader.go -/

/-- `storeMMapReader` after `initialize` -/
structure Reader (B : Type) where
  keys : B
  offsets : FixedOffset.Dec
  entries : Bytes

/-- `newMMapStoreReader` + `initialize` on the mapped bytes; `none` = any of its errors.
(The version byte is not looked at by the code.) -/
def Reader.open (K : KeySetOps B) (full : Bytes) : Option (Reader B) :=
  if full.length < sstFileFooterSize then none
  else
    let footerStart := full.length - sstFileFooterSize
    if leVal ((full.drop (footerStart + magicNumberAtFooter)).take 8) ≠ magicNumberOffsetFile then none
    else
      let posOfOffset := leVal ((full.drop footerStart).take 4)
      let posOfKeys := leVal ((full.drop (footerStart + 4)).take 4)
      -- sort.IntsAreSorted([0, posOfOffset, posOfKeys, footerStart])
      if ¬ (posOfOffset ≤ posOfKeys ∧ posOfKeys ≤ footerStart) then none
      else
        -- r.offsets = encoding.NewFixedOffsetDecoder(); r.offsets.Unmarshal(offsetsBlock)
        match FixedOffset.Dec.fresh.unmarshal ((full.take posOfKeys).drop posOfOffset) with
        | (.error _, _) => none
        | (.ok _, dec) =>
          match K.unmarshal (full.drop posOfKeys) with
          | none => none
          | some keys =>
            if dec.sizeOf ≠ (K.card keys : Int) then none
            else some { keys := keys, offsets := dec, entries := full.take posOfOffset }

/-- the error returns of `newMMapStoreReader` / `initialize`, one per `return … err` of the source, in
source order (an empty file maps to `nil, nil`, so it takes the `tooShort` branch as well) -/
inductive OpenErr where
  | tooShort        -- len(data) < sstFileFooterSize
  | badMagic        -- "verify magic-number of sstfile"
  | badFooter       -- !sort.IntsAreSorted([0, posOfOffset, posOfKeys, footerStart])
  | badOffsets      -- unmarshalFixedOffset error
  | badKeys         -- encoding.BitmapUnmarshal error
  | countMismatch   -- r.offsets.Size() != int(r.keys.GetCardinality())
deriving Repr, DecidableEq

/-- `posOfOffset`, `posOfKeys` as `initialize` reads them from the footer -/
def footerPos (full : Bytes) : Nat × Nat :=
  let footerStart := full.length - sstFileFooterSize
  (leVal ((full.drop footerStart).take 4), leVal ((full.drop (footerStart + 4)).take 4))

/-- `newMMapStoreReader` + `initialize` with the error branch named (`Reader.open` = this with the
error forgotten: `open_eq_openE`). Every slice expression of the source is in bounds once the
sorted check has passed (`open_sound`), so `take`/`drop` never totalise anything here. -/
def Reader.openE (K : KeySetOps B) (full : Bytes) : Except OpenErr (Reader B) :=
  if full.length < sstFileFooterSize then .error .tooShort
  else
    let footerStart := full.length - sstFileFooterSize
    if leVal ((full.drop (footerStart + magicNumberAtFooter)).take 8) ≠ magicNumberOffsetFile then
      .error .badMagic
    else
      let posOfOffset := (footerPos full).1
      let posOfKeys := (footerPos full).2
      if ¬ (posOfOffset ≤ posOfKeys ∧ posOfKeys ≤ footerStart) then .error .badFooter
      else
        match FixedOffset.Dec.fresh.unmarshal ((full.take posOfKeys).drop posOfOffset) with
        | (.error _, _) => .error .badOffsets
        | (.ok _, dec) =>
          match K.unmarshal (full.drop posOfKeys) with
          | none => .error .badKeys
          | some keys =>
            if dec.sizeOf ≠ (K.card keys : Int) then .error .countMismatch
            else .ok { keys := keys, offsets := dec, entries := full.take posOfOffset }

inductive GetRes where
  | ok (value : Bytes)
  | absent          -- ErrKeyNotExist
  | corrupt         -- the GetBlock errors
deriving Repr, DecidableEq

/-- `storeMMapReader.Get`: `idx := Rank(key)`, `getBlock(int(idx) - 1)` -/
def Reader.get (K : KeySetOps B) (r : Reader B) (key : Nat) : GetRes :=
  if !K.contains r.keys key then .absent
  else
    match r.offsets.getBlock ((K.rank r.keys key : Int) - 1) r.entries with
    | .ok v => .ok v
    | .error _ => .corrupt

/-- `storeMMapIterator.Value()` at block index i: `block, _ := it.reader.getBlock(it.idx)` -/
def Reader.valueAt (r : Reader B) (i : Nat) : Bytes :=
  match r.offsets.getBlock (i : Int) r.entries with
  | .ok v => v
  | .error _ => []

/-- `storeMMapIterator` run to exhaustion: the i-th `Key()` is the i-th key of the bitmap
iterator, the i-th `Value()` is `getBlock(i)` with the error dropped (`block, _ :=` ⇒ nil). -/
def Reader.iterate (K : KeySetOps B) (r : Reader B) : List (Nat × Bytes) :=
  (K.toList r.keys).zipIdx.map (fun (k, i) => (k, r.valueAt i))

/-! ## kv/version: FileMeta, Version.FindFiles, Snapshot.Load -/

structure FileMeta where
  fileNumber : Nat
  minKey : Nat
  maxKey : Nat
  fileSize : Nat
deriving Repr, DecidableEq

/-- `version.FindFiles`: levels in order; inside a level the files in whatever order the map
iteration of `level.getFiles` produced (the list given here). -/
def findFiles (levels : List (List FileMeta)) (key : Nat) : List FileMeta :=
  levels.flatMap (fun lvl => lvl.filter (fun f => decide (key ≥ f.minKey ∧ key ≤ f.maxKey)))

/-- loop body of `snapshot.Load` over the files found; `fs` = file number → file bytes (through
the table cache); `none` = an error return (reader cannot be opened / corrupt block). -/
def loadFiles (K : KeySetOps B) (fs : Nat → Option Bytes) (key : Nat) : List FileMeta → Option (List Bytes)
  | [] => some []
  | f :: rest =>
    match fs f.fileNumber with
    | none => none
    | some bytes =>
      match Reader.open K bytes with
      | none => none
      | some r =>
        match r.get K key with
        | .absent => loadFiles K fs key rest
        | .corrupt => none
        | .ok v =>
          match loadFiles K fs key rest with
          | none => none
          | some vs => some (v :: vs)

/-- `snapshot.Load(key, loader)`: the values handed to `loader`, in call order -/
def load (K : KeySetOps B) (fs : Nat → Option Bytes) (levels : List (List FileMeta)) (key : Nat) : Option (List Bytes) :=
  loadFiles K fs key (findFiles levels key)

/-- `snapshot.FindReaders(key)`: a reader (here: its file number) for every file found, `none` =
the error return when the cache cannot open one of them -/
def findReaders (K : KeySetOps B) (fs : Nat → Option Bytes) (levels : List (List FileMeta)) (key : Nat) :
    Option (List Nat) :=
  (findFiles levels key).mapM (fun f =>
    match fs f.fileNumber with
    | none => none
    | some bytes => (Reader.open K bytes).map (fun _ => f.fileNumber))

/-- the file system / reader cache with some tables unopenable (`cache.GetReader` returns an
error for them: file gone, EMFILE, mmap failure …) -/
def failing (fs : Nat → Option Bytes) (openFails : Nat → Bool) : Nat → Option Bytes :=
  fun f => if openFails f then none else fs f

/-! ## kv/version: edit logs, Clone, and the aliasing of level maps -/

/-- `newFile` / `deleteFile` edit-log entries (the other log kinds do not touch the levels) -/
inductive VLog where
  | newFile (level : Nat) (file : FileMeta)
  | deleteFile (level : Nat) (fileNumber : Nat)
deriving Repr, DecidableEq

/-- `level.addFile`: `l.files[file.GetFileNumber()] = file` -/
def addFileL (m : List FileMeta) (f : FileMeta) : List FileMeta :=
  m.filter (fun g => g.fileNumber ≠ f.fileNumber) ++ [f]

/-- `level.deleteFile`: `delete(l.files, fileNumber)` -/
def delFileL (m : List FileMeta) (fno : Nat) : List FileMeta :=
  m.filter (fun g => g.fileNumber ≠ fno)

/-- what a log does to one level map, and to which level (`version.AddFile/DeleteFile` ignore a
level outside `[0, numOfLevels)`) -/
def VLog.level : VLog → Nat
  | .newFile l _ => l
  | .deleteFile l _ => l

def VLog.onMap : VLog → List FileMeta → List FileMeta
  | .newFile _ f => fun m => addFileL m f
  | .deleteFile _ n => fun m => delFileL m n

/-- `log.apply(version)` on the levels as a value -/
def VLog.apply (levels : List (List FileMeta)) (g : VLog) : List (List FileMeta) :=
  match levels[g.level]? with
  | none => levels
  | some m => levels.set g.level (g.onMap m)

/-- `editLog.apply(version)` -/
def applyLogs (levels : List (List FileMeta)) (logs : List VLog) : List (List FileMeta) :=
  logs.foldl VLog.apply levels

/-- the edit-log entries `storeFlusher.Commit` adds for its builder: a `NewFile` at level 0 with
the builder's MinKey/MaxKey/Size, only when `builder.Size() > 0` and `Close` returned no error
(`ioOk = false`: a write of `Close` failed) -/
def commitLogs (K : KeySetOps B) (b : Builder B) (fileNumber : Nat) (ioOk : Bool) : List VLog :=
  if b.size = 0 then []
  else if !ioOk then []
  else
    match b.close K with
    | none => []
    | some _ => [.newFile 0 { fileNumber := fileNumber, minKey := b.minKey, maxKey := b.maxKey, fileSize := b.size }]

/-- the level maps live in a heap (Go maps are references); a version is the list of the
addresses of its level maps -/
abbrev Heap := List (List FileMeta)
abbrev Ver := List Nat

/-- the map object at an address (an address that does not exist holds nothing) -/
def heapAt (heap : Heap) (a : Nat) : List FileMeta :=
  match heap[a]? with
  | some m => m
  | none => []

def deref (heap : Heap) (v : Ver) : List (List FileMeta) := v.map (heapAt heap)

/-- `log.apply` mutating the map object of the addressed level in place -/
def VLog.applyH (heap : Heap) (v : Ver) (g : VLog) : Heap :=
  match v[g.level]? with
  | none => heap
  | some a =>
    match heap[a]? with
    | none => heap
    | some m => heap.set a (g.onMap m)

def applyLogsH (heap : Heap) (v : Ver) (logs : List VLog) : Heap :=
  logs.foldl (fun h g => g.applyH h v) heap

/-- `version.Clone()`: `newVersion` allocates a fresh map per level and every file is added to it -/
def cloneDeep (heap : Heap) (v : Ver) : Heap × Ver :=
  (heap ++ deref heap v, List.range' heap.length v.length)

/-- a `Clone` that would share the level maps with its source -/
def cloneShared (heap : Heap) (v : Ver) : Heap × Ver := (heap, v)

/-! ## iterators of one reader -/

/-- `storeMMapIterator`: its own position in the key iterator and its own block index; the
reader is only read -/
structure Iter where
  keysLeft : List Nat
  idx : Nat
deriving Repr

/-- `reader.Iterator()` = `newMMapIterator`: a new object -/
def Reader.iterator (K : KeySetOps B) (r : Reader B) : Iter := { keysLeft := K.toList r.keys, idx := 0 }

/-- one `HasNext(); Key(); Value()` round: `none` when exhausted -/
def Iter.next (r : Reader B) (it : Iter) : Option ((Nat × Bytes) × Iter) :=
  match it.keysLeft with
  | [] => none
  | k :: rest =>
    some ((k, r.valueAt it.idx), { keysLeft := rest, idx := it.idx + 1 })

/-- two iterators of the same reader stepped in the order given (`false` = the first one) -/
def stepTwo (r : Reader B) : List Bool → Iter → Iter → List (Bool × Option (Nat × Bytes))
  | [], _, _ => []
  | false :: s, a, b =>
    match a.next r with
    | none => (false, none) :: stepTwo r s a b
    | some (o, a') => (false, some o) :: stepTwo r s a' b
  | true :: s, a, b =>
    match b.next r with
    | none => (true, none) :: stepTwo r s a b
    | some (o, b') => (true, some o) :: stepTwo r s a b'

/-- one iterator stepped n times on its own -/
def stepOne (r : Reader B) : Nat → Iter → List (Option (Nat × Bytes))
  | 0, _ => []
  | n + 1, a =>
    match a.next r with
    | none => none :: stepOne r n a
    | some (o, a') => some o :: stepOne r n a'

/-! ## executable stand-in for the bitmap: keys kept in descending order -/

def insertDesc (k : Nat) : List Nat → List Nat
  | [] => [k]
  | x :: t => if x < k then k :: x :: t else if x = k then x :: t else x :: insertDesc k t

/-- stand-in serialisation: `1 b0 b1 b2 b3` per key (ascending), then `0`; trailing bytes ignored -/
def lksUnmarshal : Bytes → List Nat → Option (List Nat)
  | 0 :: _, acc => some acc
  | 1 :: a :: b :: c :: d :: rest, acc => lksUnmarshal rest (leVal [a, b, c, d] :: acc)
  | _, _ => none

def listKeySet : KeySetOps (List Nat) where
  empty := []
  add b k := insertDesc k b
  contains b k := b.elem k
  rank b k := b.countP (fun x => decide (x ≤ k))
  card b := b.length
  isEmpty b := b.isEmpty
  toList b := b.reverse
  marshal b := b.reverse.flatMap (fun k => 1 :: leBytes 4 k) ++ [0]
  unmarshal bs := lksUnmarshal bs []

end LinVerif.Table
