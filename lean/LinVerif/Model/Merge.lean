/-
Model of the metric-data merger (core Lean only).

Go anchors: tsdb/tblstore/metricsdata/merger.go (`merger.Merge`, `merger.prepare`),
series_merger.go (`seriesMerger.merge`), aggregation/down_sampling_agg.go
(`DownSamplingMultiSeriesInto`), pkg/encoding/tsd.go (`EmitDownSamplingValue`).

`mergeBlocksWith cfg agg bs` is parameterised by the interval ratio, the base slot and the
mapping of the source range ends to the target range, so that the rollup merge (C04) is the same
function with `ratio > 1`; compaction is `compactCfg` (`ratio = 1`, `baseSlot = 0`, identity).
-/
import LinVerif.Model.MetricBlock

namespace LinVerif.Merge
open LinVerif.Map LinVerif.MetricBlock

variable {V : Type}

/-- what `merger.prepare` takes from `m.rollup` (nil for compaction) -/
structure Cfg where
  /-- `rollup.IntervalRatio()`; 1 for compaction -/
  ratio : Nat
  /-- `rollup.BaseSlot()`; 0 for compaction (`ctx.baseSlot` stays zero) -/
  baseSlot : Nat
  /-- `rollup.CalcSlot(rollup.GetTimestamp(·))`; identity for compaction -/
  mapSlot : Nat → Nat

def compactCfg : Cfg := { ratio := 1, baseSlot := 0, mapSlot := id }

/-! ### `merger.prepare` -/

/-- metric-level context accumulated over the input blocks -/
structure Prep where
  fields : List (Nat × FieldType)
  srcStart : Nat
  srcEnd : Nat

/-- `if _, ok := ctx.targetFields.GetFromID(f.ID); !ok { append }` over one block's fields -/
def addFields (acc : List (Nat × FieldType)) (fs : List (Nat × FieldType)) :
    List (Nat × FieldType) :=
  fs.foldl (fun acc fm => match lookup acc fm.1 with
    | some _ => acc
    | none => acc ++ [fm]) acc

/-- one iteration of the loop over `metricBlocks` in `prepare`. The Go code recognises the first
block by `len(ctx.targetFields) == 0`. -/
def prepareStep (p : Prep) (b : Block V) : Prep :=
  let r : Nat × Nat :=
    if p.fields.isEmpty then (b.start, b.stop)
    else (if p.srcStart > b.start then b.start else p.srcStart,
          if p.srcEnd < b.stop then b.stop else p.srcEnd)
  { fields := addFields p.fields b.fields, srcStart := r.1, srcEnd := r.2 }

def prepare (bs : List (Block V)) : Prep :=
  bs.foldl prepareStep { fields := [], srcStart := 0, srcEnd := 0 }

/-- insertion of one field meta into a list ordered by id (`sort.Slice(... ID < ID)`; the ids
are distinct, so the order `sort.Slice` produces is unique) -/
def insertField (x : Nat × FieldType) : List (Nat × FieldType) → List (Nat × FieldType)
  | [] => [x]
  | y :: t => if x.1 < y.1 then x :: y :: t else y :: insertField x t

def sortFields (l : List (Nat × FieldType)) : List (Nat × FieldType) :=
  l.foldr insertField []

/-- insertion into an ascending duplicate-free id list (`roaring.Bitmap.Or` + ascending iteration) -/
def insertId (x : Nat) : List Nat → List Nat
  | [] => [x]
  | y :: t => if x < y then x :: y :: t else if x = y then y :: t else y :: insertId x t

/-- `ctx.seriesIDs.Or(reader.GetSeriesIDs())` over all blocks, iterated ascending -/
def unionIds (bs : List (Block V)) : List Nat :=
  bs.foldl (fun acc b => b.seriesIds.foldl (fun acc s => insertId s acc) acc) []

/-! ### `DownSamplingMultiSeriesInto` -/

/-- `targetValues[targetPos]` update: first value is stored, later ones aggregated
(`math.IsInf(targetValues[targetPos], 1)` ⇔ not set before) -/
def put (op : V → V → V) (acc : List (Nat × V)) (p : Nat) (v : V) : List (Nat × V) :=
  match lookup acc p with
  | none => upsert acc p v
  | some a => upsert acc p (op a v)

/-- the loop `for movingSourceSlot := decoder.StartTime(); movingSourceSlot <= decoder.EndTime(); …`
over one decoder: `t` is the moving source slot, `n` the number of slots still to visit.
`continue` for an empty slot or a negative target position, `break` when the target position
runs past the target range. -/
def feed (op : V → V → V) (cfg : Cfg) (tStart len : Nat) (vals : List (Nat × V)) :
    List (Nat × V) → Nat → Nat → List (Nat × V)
  | acc, _, 0 => acc
  | acc, t, n + 1 =>
    match lookup vals t with
    | none => feed op cfg tStart len vals acc (t + 1) n
    | some v =>
      let p : Int := (cfg.baseSlot : Int) + ((t / cfg.ratio : Nat) : Int) - (tStart : Int)
      if p < 0 then feed op cfg tStart len vals acc (t + 1) n
      else if p ≥ (len : Int) then acc
      else feed op cfg tStart len vals (put op acc p.toNat v) (t + 1) n

/-- third loop + `EmitDownSamplingValue`: positions that were never set (still `+Inf`) emit a
zero bit, the others the value; the result is keyed by absolute target slot. -/
def emit (acc : List (Nat × V)) (tStart len : Nat) : List (Nat × V) :=
  (List.range len).filterMap (fun p => (lookup acc p).map (fun v => (p + tStart, v)))

/-- `seriesMerger.merge` for one target field of one series: every input block that has the
series and data for the field id is decoded over ITS slot range and fed, in input order. -/
def mergeField (agg : FieldType → V → V → V) (cfg : Cfg) (tStart tEnd : Nat) (ty : FieldType)
    (s : Nat) (f : Nat) (bs : List (Block V)) : List (Nat × V) :=
  let len := tEnd + 1 - tStart
  let acc := bs.foldl (fun acc b =>
    match b.fieldData s f with
    | none => acc
    | some vals => feed (agg ty) cfg tStart len vals acc b.start (b.stop + 1 - b.start)) []
  emit acc tStart len

/-- `merger.Merge`: union of the series ids ascending, target fields sorted by id, target range;
every series gets one entry per target field (possibly without any slot). -/
def mergeBlocksWith (cfg : Cfg) (agg : FieldType → V → V → V) (bs : List (Block V)) : Block V :=
  let p := prepare bs
  let fields := sortFields p.fields
  let tS := cfg.mapSlot p.srcStart
  let tE := cfg.mapSlot p.srcEnd
  { fields := fields, start := tS, stop := tE,
    series := (unionIds bs).map (fun s =>
      (s, fields.map (fun fm => (fm.1, mergeField agg cfg tS tE fm.2 s fm.1 bs)))) }

/-- compaction merge (`m.rollup == nil`) -/
def mergeBlocks (agg : FieldType → V → V → V) (bs : List (Block V)) : Block V :=
  mergeBlocksWith compactCfg agg bs

end LinVerif.Merge
