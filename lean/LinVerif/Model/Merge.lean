/-
Model of the metric-data merger (core Lean only).

Go anchors: tsdb/tblstore/metricsdata/merger.go (`merger.Merge`, `merger.prepare`),
series_merger.go (`seriesMerger.merge`), aggregation/down_sampling_agg.go
(`DownSamplingMultiSeriesInto`), pkg/encoding/tsd.go (`EmitDownSamplingValue`).

`mergeBlocksWith cfg agg bs` is parameterised by the interval ratio, the base slot and the
mapping of the source range ends to the target range, so that the rollup merge (C04) is the same
function with `ratio > 1`; compaction is `compactCfg` (`ratio = 1`, `baseSlot = 0`, identity).
-/
import LinVerif.Model.MetricBlock

namespace LinVerif.Merge
open LinVerif.Map LinVerif.MetricBlock

variable {V : Type}

/-- what `merger.prepare` takes from `m.rollup` (nil for compaction) -/
structure Cfg where
  /-- `rollup.IntervalRatio()`; 1 for compaction -/
  ratio : Nat
  /-- `rollup.BaseSlot()`; 0 for compaction (`ctx.baseSlot` stays zero) -/
  baseSlot : Nat
  /-- `rollup.CalcSlot(rollup.GetTimestamp(·))`; identity for compaction -/
  mapSlot : Nat → Nat

def compactCfg : Cfg := { ratio := 1, baseSlot := 0, mapSlot := id }

/-! ### `merger.prepare` -/

/-- metric-level context accumulated over the input blocks -/
structure Prep where
  fields : List (Nat × FieldType)
  srcStart : Nat
  srcEnd : Nat

/-- `if _, ok := ctx.targetFields.GetFromID(f.ID); !ok { append }` over one block's fields -/
def addFields (acc : List (Nat × FieldType)) (fs : List (Nat × FieldType)) :
    List (Nat × FieldType) :=
  fs.foldl (fun acc fm => match lookup acc fm.1 with
    | some _ => acc
    | none => acc ++ [fm]) acc

/-- one iteration of the loop over `metricBlocks` in `prepare`. The Go code recognises the first
block by `len(ctx.targetFields) == 0`. -/
def prepareStep (p : Prep) (b : Block V) : Prep :=
  let r : Nat × Nat :=
    if p.fields.isEmpty then (b.start, b.stop)
    else (if p.srcStart > b.start then b.start else p.srcStart,
          if p.srcEnd < b.stop then b.stop else p.srcEnd)
  { fields := addFields p.fields b.fields, srcStart := r.1, srcEnd := r.2 }

def prepare (bs : List (Block V)) : Prep :=
  bs.foldl prepareStep { fields := [], srcStart := 0, srcEnd := 0 }

/-- insertion of one field meta into a list ordered by id (`sort.Slice(... ID < ID)`; the ids
are distinct, so the order `sort.Slice` produces is unique) -/
def insertField (x : Nat × FieldType) : List (Nat × FieldType) → List (Nat × FieldType)
  | [] => [x]
  | y :: t => if x.1 < y.1 then x :: y :: t else y :: insertField x t

def sortFields (l : List (Nat × FieldType)) : List (Nat × FieldType) :=
  l.foldr insertField []

/-- insertion into an ascending duplicate-free id list (`roaring.Bitmap.Or` + ascending iteration) -/
def insertId (x : Nat) : List Nat → List Nat
  | [] => [x]
  | y :: t => if x < y then x :: y :: t else if x = y then y :: t else y :: insertId x t

/-- `ctx.seriesIDs.Or(reader.GetSeriesIDs())` over all blocks, iterated ascending -/
def unionIds (bs : List (Block V)) : List Nat :=
  bs.foldl (fun acc b => b.seriesIds.foldl (fun acc s => insertId s acc) acc) []

/-! ### `DownSamplingMultiSeriesInto` -/

/-- `targetValues[targetPos]` update: first value is stored, later ones aggregated
(`math.IsInf(targetValues[targetPos], 1)` ⇔ not set before) -/
def put (op : V → V → V) (acc : List (Nat × V)) (p : Nat) (v : V) : List (Nat × V) :=
  match lookup acc p with
  | none => upsert acc p v
  | some a => upsert acc p (op a v)

/-- the loop `for movingSourceSlot := decoder.StartTime(); movingSourceSlot <= decoder.EndTime(); …`
over one decoder: `t` is the moving source slot, `n` the number of slots still to visit.
`continue` for an empty slot or a negative target position, `break` when the target position
runs past the target range. -/
def feed (op : V → V → V) (cfg : Cfg) (tStart len : Nat) (vals : List (Nat × V)) :
    List (Nat × V) → Nat → Nat → List (Nat × V)
  | acc, _, 0 => acc
  | acc, t, n + 1 =>
    match lookup vals t with
    | none => feed op cfg tStart len vals acc (t + 1) n
    | some v =>
      let p : Int := (cfg.baseSlot : Int) + ((t / cfg.ratio : Nat) : Int) - (tStart : Int)
      if p < 0 then feed op cfg tStart len vals acc (t + 1) n
      else if p ≥ (len : Int) then acc
      else feed op cfg tStart len vals (put op acc p.toNat v) (t + 1) n

/-- third loop + `EmitDownSamplingValue`: positions that were never set (still `+Inf`) emit a
zero bit, the others the value; the result is keyed by absolute target slot. -/
def emit (acc : List (Nat × V)) (tStart len : Nat) : List (Nat × V) :=
  (List.range len).filterMap (fun p => (lookup acc p).map (fun v => (p + tStart, v)))

/-! ### `dataScanner` (reader.go): finding a series' entry while the merged ids are visited

A block stores its series in buckets, one per roaring container (high key = `id / 65536`), each
with its own low-key offsets. `Merge` visits the union of the series ids in ascending order and
asks every block's scanner for the entry; the scanner only moves forward, one container per call.
A bucket whose series entries are ALL zero bytes long (single-field metric, every series flushed
with `FlushField(nil)`) is zero bytes long itself — `flushLevel2SeriesBucket` writes no offsets —
and `nextContainer` fails on it ("series entries length too short"). -/

/-- one series entry: field id ↦ slot ↦ value -/
abbrev Entry (V : Type) := List (Nat × List (Nat × V))

def hkOf (s : Nat) : Nat := s / 65536

/-- is the series entry zero bytes long? Only a single-field block writes the field data bare;
`none` = `FlushField(nil)`. (Multi-field entries always carry their field offsets.) -/
def zeroLen (fields : List (Nat × FieldType)) (e : Entry V) : Bool :=
  match fields with
  | [fm] => (lookup e fm.1).isNone
  | _ => false

/-- high keys of the block's bitmap, ascending (`seriesIDs.GetHighKeys()`) -/
def highKeys (b : Block V) : List Nat :=
  b.series.foldl (fun acc p => insertId (hkOf p.1) acc) []

/-- the series bucket of one container, series ascending -/
def bucket (b : Block V) (k : Nat) : List (Nat × Entry V) :=
  b.series.filter (fun p => hkOf p.1 == k)

/-- zero-length bucket -/
def deadBucket (b : Block V) (k : Nat) : Bool := (bucket b k).all (fun p => zeroLen b.fields p.2)

structure Scanner (V : Type) where
  /-- high keys not loaded yet (`highKeys[highContainerIdx:]`) -/
  rest : List Nat
  /-- `s.highKey` -/
  hk : Nat
  /-- series of `s.container` -/
  cont : List Nat
  /-- what `s.lowKeyOffsets`/`s.seriesEntries` index: the entries of the last bucket that was
  loaded SUCCESSFULLY -/
  ents : List (Entry V)

/-- `nextContainer` on high key `k`: `highKey` and `container` are set first; a zero-length bucket
is an error unless the scanner tolerates it (then: no entries, move on); `false` = error, the
container index is not advanced. -/
def Scanner.next (tol : Bool) (b : Block V) (sc : Scanner V) (k : Nat) (r : List Nat) : Scanner V × Bool :=
  let sc1 := { sc with hk := k, cont := (bucket b k).map Prod.fst }
  if deadBucket b k && !tol then (sc1, false)
  else ({ sc1 with ents := (bucket b k).map Prod.snd, rest := r }, true)

/-- `newDataScanner`: `none` = error ("seriesID bitmap is empty" / first `nextContainer` fails) -/
def Scanner.new (tol : Bool) (b : Block V) : Option (Scanner V) :=
  match highKeys b with
  | [] => none
  | k :: r =>
    match Scanner.next tol b { rest := k :: r, hk := 0, cont := [], ents := [] } k r with
    | (sc, true) => some sc
    | (_, false) => none

/-- `container.Contains(low)`, `Rank(low)`, `lowKeyOffsets.GetBlock(idx-1, seriesEntries)`:
the entry at the position of the series in the container, taken from whatever offsets are loaded -/
def pick : List Nat → List (Entry V) → Nat → Option (Entry V)
  | [], _, _ => none
  | c :: cs, [], s => if c = s then none else pick cs [] s
  | c :: cs, e :: es, s => if c = s then some e else pick cs es s

/-- `dataScanner.scan(highKey, lowSeriesID)` for series `s` -/
def Scanner.scan (tol : Bool) (b : Block V) (sc : Scanner V) (s : Nat) : Scanner V × Option (Entry V) :=
  let step : Scanner V × Bool :=
    if sc.hk < hkOf s then
      match sc.rest with
      | [] => (sc, false)
      | k :: r => Scanner.next tol b sc k r
    else (sc, true)
  if !step.2 then (step.1, none)
  else if hkOf s ≠ step.1.hk then (step.1, none)
  else (step.1, pick step.1.cont step.1.ents s)

/-- the entries the scanner of block `b` returns while `ids` are visited in order -/
def scanLoop (tol : Bool) (b : Block V) : Scanner V → List Nat → List (Nat × Option (Entry V))
  | _, [] => []
  | sc, s :: r => let x := Scanner.scan tol b sc s; (s, x.2) :: scanLoop tol b x.1 r

def scanAll (tol : Bool) (b : Block V) (ids : List Nat) : List (Nat × Option (Entry V)) :=
  match Scanner.new tol b with
  | none => []
  | some sc => scanLoop tol b sc ids

/-- `scanner.scan` + `fieldReader.Reset` + `GetFieldData(fieldID)` as the merge loop sees it -/
def scanData (tol : Bool) (ids : List Nat) (b : Block V) (s f : Nat) : Option (List (Nat × V)) :=
  match lookup (scanAll tol b ids) s with
  | some (some e) =>
    match lookup b.fields f with
    | none => none
    | some _ => lookup e f
  | _ => none

/-- does `merger.prepare` fail on this input (`newDataScanner` error)? -/
def mergeFails (tol : Bool) (bs : List (Block V)) : Bool :=
  bs.any (fun b => (Scanner.new tol b).isNone)

/-- `seriesMerger.merge` for one target field of one series: every input block for which the
scanner/field reader delivers data is decoded over ITS slot range and fed, in input order. -/
def mergeFieldBy (agg : FieldType → V → V → V) (cfg : Cfg) (tStart tEnd : Nat) (ty : FieldType)
    (data : Block V → Option (List (Nat × V))) (bs : List (Block V)) : List (Nat × V) :=
  let len := tEnd + 1 - tStart
  let acc := bs.foldl (fun acc b =>
    match data b with
    | none => acc
    | some vals => feed (agg ty) cfg tStart len vals acc b.start (b.stop + 1 - b.start)) []
  emit acc tStart len

/-- with the data a correct scanner finds (`Block.fieldData`) -/
def mergeField (agg : FieldType → V → V → V) (cfg : Cfg) (tStart tEnd : Nat) (ty : FieldType)
    (s : Nat) (f : Nat) (bs : List (Block V)) : List (Nat × V) :=
  mergeFieldBy agg cfg tStart tEnd ty (fun b => b.fieldData s f) bs

/-- `merger.Merge`: union of the series ids ascending, target fields sorted by id, target range;
every series gets one entry per target field (possibly without any slot). `data s f b` is the
field data found for series `s`, field `f` in block `b`. -/
def mergeBlocksBy (data : Nat → Nat → Block V → Option (List (Nat × V))) (cfg : Cfg)
    (agg : FieldType → V → V → V) (bs : List (Block V)) : Block V :=
  let p := prepare bs
  let fields := sortFields p.fields
  let tS := cfg.mapSlot p.srcStart
  let tE := cfg.mapSlot p.srcEnd
  { fields := fields, start := tS, stop := tE,
    series := (unionIds bs).map (fun s =>
      (s, fields.map (fun fm => (fm.1, mergeFieldBy agg cfg tS tE fm.2 (data s fm.1) bs)))) }

/-- the merge with a scanner that finds every entry (specification level) -/
def mergeBlocksIdeal (cfg : Cfg) (agg : FieldType → V → V → V) (bs : List (Block V)) : Block V :=
  mergeBlocksBy (fun s f b => b.fieldData s f) cfg agg bs

/-- the merge as the code performs it: entries come from `dataScanner`s. `tol`: does
`nextContainer` accept a zero-length series bucket? (generated fact) -/
def mergeBlocksWith (tol : Bool) (cfg : Cfg) (agg : FieldType → V → V → V) (bs : List (Block V)) : Block V :=
  mergeBlocksBy (fun s f b => scanData tol (unionIds bs) b s f) cfg agg bs

/-- compaction merge (`m.rollup == nil`) -/
def mergeBlocks (tol : Bool) (agg : FieldType → V → V → V) (bs : List (Block V)) : Block V :=
  mergeBlocksWith tol compactCfg agg bs

/-- compaction merge, specification level -/
def mergeBlocksI (agg : FieldType → V → V → V) (bs : List (Block V)) : Block V :=
  mergeBlocksIdeal compactCfg agg bs

end LinVerif.Merge
