/-
Model of one broker/root request whose context passes its deadline (or is cancelled) while the leaf
tasks are still running (property C19, round 9), core Lean only.

Go anchors
  query/search.go                      exec: AddTask → pipeline.Execute (PhysicalPlan / TaskSend stages,
                                       synchronous; the callback is `ctx.Complete(err)`) → `ctx.WaitResponse()`
                                       → deferred `RemoveTask`
  query/context/metadata_context.go    WaitResponse: `select { case <-doneCh: return results, err
                                                              case <-Deps.Ctx.Done(): return nil, ErrTimeout }`
  query/context/metric_context.go      waitResponse: the same select
  query/task_manager.go                Receive: no task → "request may be evicted" (dropped); else
                                       `workerPool.Submit(taskCtx.Context(), NewTask(HandleResponse, nil))` —
                                       with a done context Submit's select may pick `<-ctx.Done()`: the
                                       response is dropped (the task has no handler)
  query/context/task_context.go        tryClose: the `completed` CAS closes `doneCh` once

The response of the request to its client is the return value of `exec`: it returns once. What the
model adds to `Model/BrokerMeta.lean` is WHEN it may return and with what: through `doneCh` (every
expected response handled, or an error recorded) or through the context (a timeout error), never
with a successful partial answer; responses that arrive later are dropped by `Receive` or — already in
flight — handled on a context nobody waits for, which must not close `doneCh` again.

Both `select`s are outcome SETS: when `doneCh` is closed and the context is done, Go picks either
case (`wake true` / `wake false` are both enabled); when a response arrives after the deadline while
the task is still registered, `Submit` may accept or drop it (`resp r true` / `resp r false`).
-/
import LinVerif.Model.BrokerMeta

namespace LinVerif.C19Deadline
open LinVerif.BrokerMeta

/-- what `exec` hands back to its caller (the one response of the request) -/
inductive Ret where
  | ok (vals : List String)   -- doneCh closed, ctx.err == nil: the merged values
  | err                       -- doneCh closed, ctx.err != nil
  | timeout                   -- `<-ctx.Done()`: constants.ErrTimeout
  deriving DecidableEq, Repr

def Ret.isErr : Ret → Bool
  | .ok _ => false
  | _ => true

structure Req where
  ctx : Ctx
  /-- the task context is in the TaskManager (`AddTask` … deferred `RemoveTask`) -/
  registered : Bool
  /-- the request's context is done (deadline passed / cancelled by the client) -/
  ctxDone : Bool
  /-- ghost: every return of `exec`, oldest first -/
  returned : List Ret
  /-- ghost: the responses that reached `HandleResponse`, in order -/
  handled : List Resp
  /-- ghost: `handled.length` when `exec` returned -/
  handledAtReturn : Nat
  /-- ghost: responses dropped by `Receive` (no task any more / `Submit` took the `ctx.Done()` case) -/
  dropped : Nat
  deriving DecidableEq, Repr

inductive Ev where
  /-- a leaf's response arrives at `TaskManager.Receive`; `accept`: which case `Submit`'s select takes
  (only relevant, and only a choice, when the context is done) -/
  | resp (r : Resp) (accept : Bool)
  /-- a response whose task `Receive` had accepted earlier reaches `HandleResponse` now — possibly
  after `exec` has returned and removed its task (the pool's worker was slow) -/
  | inflight (r : Resp)
  /-- the deadline passes / the client cancels -/
  | deadline
  /-- `WaitResponse`'s select fires: through `doneCh` (`true`) or through the context (`false`) -/
  | wake (viaDone : Bool)
  /-- `exec`'s deferred `RemoveTask` -/
  | unregister
  deriving DecidableEq, Repr

/-- `HandleResponse` on the real context, whoever still waits: `handleResponse` then `tryClose`
(`BrokerMeta.deliver` is the shortcut "a completed query's task is gone"; here that is explicit) -/
def handleRaw (tol : Bool) (c : Ctx) (r : Resp) : Ctx := tryClose (handle tol c r)

/-- after `AddTask` and the synchronous `pipeline.Execute`: `n` targets planned, `sendFailed` = the
plan / send stages failed and the callback completed the context with that error -/
def init (n : Nat) (sendFailed : Bool) : Req :=
  ⟨complete (BrokerMeta.init n) sendFailed, true, false, [], [], 0, 0⟩

/-- one atomic step; `none`: not enabled -/
def step (tol : Bool) (q : Req) : Ev → Option Req
  | .resp r accept =>
    if !q.registered then some { q with dropped := q.dropped + 1 }          -- "request may be evicted"
    else if accept then some { q with ctx := handleRaw tol q.ctx r, handled := q.handled ++ [r] }
    else if q.ctxDone then some { q with dropped := q.dropped + 1 }         -- Submit: `case <-ctx.Done()`
    else none                                                                -- only the send case is ready
  | .inflight r => some { q with ctx := handleRaw tol q.ctx r, handled := q.handled ++ [r] }
  | .deadline => some { q with ctxDone := true }
  | .wake viaDone =>
    if q.returned.isEmpty && q.registered && (if viaDone then q.ctx.completed else q.ctxDone) then
      let ret := if viaDone then (if q.ctx.err then Ret.err else Ret.ok q.ctx.results) else Ret.timeout
      some { q with returned := [ret], handledAtReturn := q.handled.length }
    else none
  | .unregister =>
    if !q.returned.isEmpty && q.registered then some { q with registered := false } else none

def run (tol : Bool) : Req → List Ev → Option Req
  | q, [] => some q
  | q, e :: es => match step tol q e with
    | some q' => run tol q' es
    | none => none

/-- run an event list, skipping events that are not enabled (the driver's reading of a harness script) -/
def runSkip (tol : Bool) : Req → List Ev → Req
  | q, [] => q
  | q, e :: es => match step tol q e with
    | some q' => runSkip tol q' es
    | none => runSkip tol q es

/-- `MetadataContext.WaitResponse` as rendered by the fact extractor -/
def metadataWaitResponseOrder : List String :=
  ["case <-ctx.doneCh:", "case:return ctx.results, ctx.err", "case <-ctx.Deps.Ctx.Done():",
   "case:return nil, constants.ErrTimeout"]

/-- `MetricContext.waitResponse` -/
def metricWaitResponseOrder : List String :=
  ["case <-ctx.doneCh:", "case:if ctx.err != nil", "case:then:return ctx.err", "case:return nil",
   "case <-ctx.ctx.Done():", "case:return constants.ErrTimeout"]

/-- `taskManager.Receive` -/
def receiveOrder : List String :=
  ["mgr.get(resp.RequestID)", "if taskCtx == nil", "then:return fmt.Errorf(\"request may be evicted\")",
   "concurrent.NewTask((func() literal), nil)",
   "mgr.workerPool.Submit(taskCtx.Context(), concurrent.NewTask((func() literal), nil))",
   "λ1:taskCtx.HandleResponse(resp, fromNode)", "return nil"]

/-- `exec` (query/search.go): registration before the pipeline runs, removal deferred, the wait last -/
def execOrder : List String :=
  ["mgr.TaskMgr.AddTask(req.RequestID, ctx)", "defer:λ1:mgr.TaskMgr.RemoveTask(req.RequestID)",
   "λ1:ctx.Complete(err)", "pipeline.Execute(stage.NewPhysicalPlanStage(ctx))", "ctx.WaitResponse()",
   "return ctx.WaitResponse()"]

end LinVerif.C19Deadline
