/-
Model of lindb's WAL queue: pkg/queue/queue.go on top of pkg/queue/page (core Lean only).

Memory is what survives the process: three page families
  * meta  page 0      : word at byte offset 0 = appended sequence, at 8 = acknowledged sequence
  * index pages       : one 16-byte item per sequence: data page id (u64 @+0), message
                        offset (u32 @+8), message length (u32 @+12)
  * data pages        : message bytes
plus which page files exist (`indexLive`, `dataLive`; a page factory loads every existing
file on open). Index and meta are word-granular (a word is read back only at the offset it
was stored at — the code never does anything else), data is byte-granular.

The in-memory queue object (`Q`) is volatile: appended/acknowledged sequence, the write
cursor (`dataPageIndex`, `messageOffset`) and `indexPageIndex`.

`Put` is modelled as the steps the code has:
  alloc   (queue.alloc, under rwMutex)       cursor arithmetic, page roll-over
  write   (MappedPage.WriteBytes, UNLOCKED)  copy of the message into the data page
  persist (persistMetaOfMessage, under rwMutex) 3 index stores, 1 meta store, publish
`allocF`/`putF` add the error branch of alloc (the roll-over's AcquirePage fails: the Put
returns the error and nothing was assigned). `queue.GC` holds no lock across its steps, so in
the interleaving model it is four events (gcSnap, gcRead, gcTruncData, gcTruncIndex).
Two semantics are built from these: sequential histories (`Op`, `step`, with a crash after
any prefix of the store trace of an in-flight Put) and an interleaving model (`Ev`,
`cstep`) over appender threads, parameterised by `Shape` — whether Put is one critical
section (`atomic`) or the three steps above (`threeStep`). The shape in force is computed
from the regenerated lock/step structure of `Put` (LinVerif.Generated.C05, see `shapeOf`).
-/
namespace LinVerif.Queue

/-! ### constants — pkg/queue/constants.go (tied to the regenerated values in Props/C05) -/

abbrev indexItemLength : Nat := 16
abbrev indexItemsPerPage : Nat := 262144
abbrev dataPageSize : Nat := 134217728
abbrev queueDataPageIndexOffset : Nat := 0
abbrev messageOffsetOffset : Nat := 8
abbrev messageLengthOffset : Nat := 12
abbrev queueAppendedSeqOffset : Nat := 0
abbrev queueAcknowledgedSeqOffset : Nat := 8
/-- 2^32: `uint32(messageOffset)`, `uint32(dataLen)` in persistMetaOfMessage -/
abbrev u32 : Nat := 4294967296

/-! ### messages -/

/-- A message: its length and its bytes (as a function, so that messages of tens of
megabytes cost nothing in the executable model). -/
structure Msg where
  len : Nat
  byte : Nat → Nat

def Msg.bytes (m : Msg) : List Nat := (List.range m.len).map m.byte

def Msg.ofList (l : List Nat) : Msg := ⟨l.length, fun i => l.getD i 0⟩

/-- byte `j` of the harness's shared pattern buffer (big messages are slices of it) -/
def patByte (j : Nat) : Nat := (j * 131 + (j / 251) * 17 + (j / 65521) * 7 + 3) % 256

def Msg.gen (start len : Nat) : Msg := ⟨len, fun i => patByte (start + i)⟩

/-! ### durable memory -/

structure Mem where
  hasMeta : Bool                -- meta/0.bat exists
  metaW : Nat → Int             -- meta page: byte offset → int64 word
  index : Nat → Nat → Nat       -- index page id → byte offset of the field → word
  data : Nat → Nat → Nat        -- data page id → byte offset → byte
  indexLive : List Nat          -- existing index page files
  dataLive : List Nat           -- existing data page files

/-- an empty directory -/
def Mem.empty : Mem :=
  { hasMeta := false, metaW := fun _ => 0, index := fun _ _ => 0, data := fun _ _ => 0,
    indexLive := [], dataLive := [] }

/-- MappedPage.PutUint64 / PutUint32 on an index page -/
def setIndex (mem : Mem) (pg off v : Nat) : Mem :=
  { mem with index := fun p o => if p = pg ∧ o = off then v else mem.index p o }

/-- MappedPage.PutUint64 on the meta page -/
def setMeta (mem : Mem) (off : Nat) (v : Int) : Mem :=
  { mem with metaW := fun o => if o = off then v else mem.metaW o }

/-- Factory.AcquirePage on the data factory: returns the loaded page or creates the file -/
def acquireData (mem : Mem) (pg : Nat) : Mem :=
  if pg ∈ mem.dataLive then mem else { mem with dataLive := pg :: mem.dataLive }

/-- Factory.AcquirePage on the index factory -/
def acquireIndex (mem : Mem) (pg : Nat) : Mem :=
  if pg ∈ mem.indexLive then mem else { mem with indexLive := pg :: mem.indexLive }

/-- MappedPage.WriteBytes = `copy(mappedBytes[off:], data)`; `k` = how many bytes of the copy
have been done (`k = m.len`: the whole copy; smaller `k`: a crash inside the copy). -/
def writeData (mem : Mem) (pg off : Nat) (m : Msg) (k : Nat) : Mem :=
  { mem with data := fun p o =>
      if p = pg ∧ off ≤ o ∧ o < off + min k m.len then m.byte (o - off) else mem.data p o }

/-- one index item as read by Get / initDataPageIndex / GC -/
structure Entry where
  pg : Nat
  off : Nat
  len : Nat
  deriving DecidableEq, Repr

/-- the index item of sequence `n` -/
def entry (mem : Mem) (n : Nat) : Entry :=
  let ipg := n / indexItemsPerPage
  let io := (n % indexItemsPerPage) * indexItemLength
  { pg := mem.index ipg (io + queueDataPageIndexOffset),
    off := mem.index ipg (io + messageOffsetOffset),
    len := mem.index ipg (io + messageLengthOffset) }

/-! ### the volatile queue object -/

structure Q where
  appended : Int
  acked : Int
  dataPageIndex : Nat
  indexPageIndex : Nat
  messageOffset : Nat

structure St where
  mem : Mem
  q : Q

/-- result of `queue.alloc` -/
structure Alloc where
  mem : Mem
  q : Q
  pg : Nat
  off : Nat

/-- `queue.alloc` (under the lock): roll to the next data page when the message does not fit
(the check uses the constant `dataPageSize`), hand out the cursor, advance it. -/
def alloc (mem : Mem) (q : Q) (len : Nat) : Alloc :=
  if q.messageOffset + len > dataPageSize then
    let pg := q.dataPageIndex + 1
    { mem := acquireData mem pg, q := { q with dataPageIndex := pg, messageOffset := len },
      pg := pg, off := 0 }
  else
    { mem := mem, q := { q with messageOffset := q.messageOffset + len },
      pg := q.dataPageIndex, off := q.messageOffset }

/-- sequence the next `persistMetaOfMessage` assigns: `appendedSeq + 1` -/
def nextSeq (q : Q) : Nat := (q.appended + 1).toNat

/-- `persistMetaOfMessage` (under the lock), the first `j` of its four stores in program
order: index item page id, offset, length; meta appended sequence. The index page is
switched (AcquirePage) before the first store. -/
def persistStores (mem : Mem) (q : Q) (pg off len : Nat) (j : Nat) : Mem :=
  let n := nextSeq q
  let ipg := n / indexItemsPerPage
  let io := (n % indexItemsPerPage) * indexItemLength
  let mem := if ipg ≠ q.indexPageIndex then acquireIndex mem ipg else mem
  let mem := if 1 ≤ j then setIndex mem ipg (io + queueDataPageIndexOffset) pg else mem
  let mem := if 2 ≤ j then setIndex mem ipg (io + messageOffsetOffset) (off % u32) else mem
  let mem := if 3 ≤ j then setIndex mem ipg (io + messageLengthOffset) (len % u32) else mem
  if 4 ≤ j then setMeta mem queueAppendedSeqOffset (q.appended + 1) else mem

/-- the volatile part of `persistMetaOfMessage`: `appendedSeq.Store(seq)`, index page switch -/
def publish (q : Q) : Q :=
  { q with appended := q.appended + 1, indexPageIndex := nextSeq q / indexItemsPerPage }

/-- `initDataPageIndex`: empty queue starts at (0,0); otherwise the cursor is restored from
the index item of the LAST appended sequence. -/
def initDataPageIndex (mem : Mem) (appended acked : Int) : St :=
  if appended = -1 then
    { mem := acquireIndex (acquireData mem 0) 0,
      q := { appended := appended, acked := acked, dataPageIndex := 0, indexPageIndex := 0,
             messageOffset := 0 } }
  else
    let n := appended.toNat
    let ipg := n / indexItemsPerPage
    let mem := acquireIndex mem ipg
    let e := entry mem n
    { mem := acquireData mem e.pg,
      q := { appended := appended, acked := acked, dataPageIndex := e.pg, indexPageIndex := ipg,
             messageOffset := (e.off + e.len) % u32 } }

/-- `NewQueue` on a directory: `initSequence` when the meta file exists, else a fresh
queue with both sequences -1 persisted; then `initDataPageIndex`. -/
def openQ (mem : Mem) : St :=
  if mem.hasMeta then
    initDataPageIndex mem (mem.metaW queueAppendedSeqOffset) (mem.metaW queueAcknowledgedSeqOffset)
  else
    let mem := setMeta (setMeta { mem with hasMeta := true } queueAppendedSeqOffset (-1))
      queueAcknowledgedSeqOffset (-1)
    initDataPageIndex mem (-1) (-1)

/-- the state after `NewQueue` on an empty directory -/
def St.init : St := openQ Mem.empty

/-! ### Get -/

inductive LocRes
  | loc (e : Entry)
  | outOfRange
  | notFound
  deriving DecidableEq, Repr

inductive GetRes
  | ok (bytes : List Nat)
  | outOfRange
  | notFound
  deriving DecidableEq, Repr

/-- `Get` up to the final ReadBytes: validateSequence, index page lookup, item, data page lookup -/
def getLoc (st : St) (s : Int) : LocRes :=
  if s > st.q.appended ∨ s ≤ st.q.acked then .outOfRange
  else
    let n := s.toNat
    if n / indexItemsPerPage ∉ st.mem.indexLive then .notFound
    else
      let e := entry st.mem n
      if e.pg ∉ st.mem.dataLive then .notFound else .loc e

def readBytes (mem : Mem) (e : Entry) : List Nat :=
  (List.range e.len).map (fun i => mem.data e.pg (e.off + i))

/-- `queue.Get` -/
def get (st : St) (s : Int) : GetRes :=
  match getLoc st s with
  | .loc e => .ok (readBytes st.mem e)
  | .outOfRange => .outOfRange
  | .notFound => .notFound

/-! ### acknowledge and GC -/

/-- `SetAcknowledgedSeq` -/
def ack (st : St) (s : Int) : St :=
  if s > st.q.acked ∧ s ≤ st.q.appended then
    { mem := setMeta st.mem queueAcknowledgedSeqOffset s, q := { st.q with acked := s } }
  else st

/-- `SetAppendedSeq` (the reset used by replication resync): both sequences become `s`, both meta
words are stored; the write cursor and `indexPageIndex` are NOT touched (the next
persistMetaOfMessage switches the index page itself, with AcquirePage). -/
def setAppended (st : St) (s : Int) : St :=
  { mem := setMeta (setMeta st.mem queueAppendedSeqOffset s) queueAcknowledgedSeqOffset s,
    q := { st.q with appended := s, acked := s } }

/-- `Factory.TruncatePages(bound)` on the data factory: every page below `bound` is unmapped
and its file removed (its content is gone). -/
def truncateData (mem : Mem) (bound : Nat) : Mem :=
  { mem with dataLive := mem.dataLive.filter (fun p => decide (bound ≤ p)),
             data := fun p o => if p < bound then 0 else mem.data p o }

def truncateIndex (mem : Mem) (bound : Nat) : Mem :=
  { mem with indexLive := mem.indexLive.filter (fun p => decide (bound ≤ p)),
             index := fun p o => if p < bound then 0 else mem.index p o }

/-- `queue.GC` -/
def gc (st : St) : St :=
  if st.q.acked < 0 then st
  else
    let n := st.q.acked.toNat
    let ipg := n / indexItemsPerPage
    if ipg ∉ st.mem.indexLive then st
    else
      let bound := (entry st.mem n).pg
      { st with mem := truncateIndex (truncateData st.mem bound) ipg }

/-! ### sequential semantics -/

inductive PutRes
  | ok (seq : Int)
  | tooLarge
  | acquireFailed
  deriving DecidableEq, Repr

/-- memory after the first `k` stores of the store trace of a Put that was allocated as `a`:
the copy contributes `m.len` byte stores, then the four stores of persistMetaOfMessage. -/
def putStores (a : Alloc) (m : Msg) (k : Nat) : Mem :=
  if k ≤ m.len then writeData a.mem a.pg a.off m k
  else persistStores (writeData a.mem a.pg a.off m m.len) a.q a.pg a.off m.len (k - m.len)

/-- `queue.Put` run to completion by one caller -/
def put (st : St) (m : Msg) : St × PutRes :=
  if m.len > dataPageSize then (st, .tooLarge)
  else
    let a := alloc st.mem st.q m.len
    ({ mem := putStores a m (m.len + 4), q := publish a.q }, .ok (a.q.appended + 1))

/-- `queue.alloc` with the outcome of the roll-over `dataPageFct.AcquirePage` as a parameter:
on an error alloc returns before it assigns any field of the queue (the page id is computed
into a local, `nextDataPageIndex`). -/
def allocF (mem : Mem) (q : Q) (len : Nat) (acquireFails : Bool) : Option Alloc :=
  if q.messageOffset + len > dataPageSize ∧ acquireFails = true then none
  else some (alloc mem q len)

/-- `queue.Put` during which AcquirePage on the data factory fails (one-shot fault): the
Put returns the error iff it needed a roll-over; the queue is left as it was. -/
def putF (st : St) (m : Msg) : St × PutRes :=
  if m.len > dataPageSize then (st, .tooLarge)
  else
    match allocF st.mem st.q m.len true with
    | none => (st, .acquireFailed)
    | some _ => put st m

/-- `queue.Put` during which AcquirePage on the INDEX factory fails (one-shot fault): it is
only called when the new sequence starts another index page; by then alloc has advanced the
cursor and the copy is done; persistMetaOfMessage returns the error before any index or meta
store — the Put fails, the sequence is not consumed, the allocated space is simply skipped. -/
def putFI (st : St) (m : Msg) : St × PutRes :=
  if m.len > dataPageSize then (st, .tooLarge)
  else
    let a := alloc st.mem st.q m.len
    if nextSeq a.q / indexItemsPerPage ≠ a.q.indexPageIndex then
      ({ mem := writeData a.mem a.pg a.off m m.len, q := a.q }, .acquireFailed)
    else put st m

/-- Close, then NewQueue on the same directory (Close only syncs and unmaps) -/
def reopen (st : St) : St := openQ st.mem

/-- the process dies after exactly `k` stores of an in-flight `Put m` (every completed store
stays in the shared pages); then NewQueue on what is on disk -/
def crashPut (st : St) (m : Msg) (k : Nat) : St :=
  if m.len > dataPageSize then openQ st.mem
  else openQ (putStores (alloc st.mem st.q m.len) m k)

inductive Op
  | put (m : Msg)
  | get (s : Int)
  | ack (s : Int)
  | gc
  | reopen
  | crashPut (m : Msg) (k : Nat)
  | putFail (m : Msg)             -- a Put during which the data factory's AcquirePage fails
  | setAppended (s : Int)         -- SetAppendedSeq(s)
  | putFailIdx (m : Msg)          -- a Put during which the index factory's AcquirePage fails

def step (st : St) : Op → St
  | .put m => (put st m).1
  | .putFail m => (putF st m).1
  | .setAppended s => setAppended st s
  | .putFailIdx m => (putFI st m).1
  | .get _ => st
  | .ack s => ack st s
  | .gc => gc st
  | .reopen => reopen st
  | .crashPut m k => crashPut st m k

def run (st : St) (ops : List Op) : St := ops.foldl step st

/-! ### interleaving semantics -/

/-- How `Put` is built from its steps: one critical section, or alloc ‖ write ‖ persist
with the copy outside the lock. -/
inductive Shape
  | atomic
  | threeStep
  deriving DecidableEq, Repr

/-- Decodes the regenerated structure of `queue.Put`: for each of the calls it makes, in
source order, (callee, Put holds rwMutex at the call, the callee locks rwMutex itself).
Anything but the two known structures is `none` (the model does not apply). -/
def shapeOf (calls : List (String × Bool × Bool)) : Option Shape :=
  if calls = [("alloc", false, true), ("WriteBytes", false, false),
              ("persistMetaOfMessage", false, true)] then some .threeStep
  else if calls = [("alloc", true, false), ("WriteBytes", true, false),
                   ("persistMetaOfMessage", true, false)] then some .atomic
  else none

/-- an appender thread: idle, allocated (space handed out, nothing copied yet), written -/
inductive Th
  | idle
  | allocated (m : Msg) (pg off : Nat)
  | written (m : Msg) (pg off : Nat)

/-- the GC caller between the atomic steps of `queue.GC` (none of which holds rwMutex across
the next): acknowledged sequence read (`AcknowledgedSeq()`); index item of that sequence read
(`indexPageFct.GetPage` + `ReadUint64` → data page bound); data pages truncated; index pages
truncated. -/
inductive GcSt
  | idle
  | snapped (a : Int)
  | bounded (a : Int) (b : Nat)
  | truncated (a : Int)

structure CSt where
  mem : Mem
  q : Q
  ths : Nat → Th
  busy : Nat            -- number of Puts in flight
  gc : GcSt := .idle

def CSt.st (σ : CSt) : St := ⟨σ.mem, σ.q⟩

def CSt.init : CSt :=
  { mem := St.init.mem, q := St.init.q, ths := fun _ => .idle, busy := 0, gc := .idle }

def setTh (ths : Nat → Th) (t : Nat) (x : Th) : Nat → Th := fun t' => if t' = t then x else ths t'

inductive Ev
  | alloc (t : Nat) (m : Msg)     -- thread t calls Put m (3-step: runs queue.alloc; atomic: whole Put)
  | write (t : Nat)               -- thread t does its WriteBytes
  | persist (t : Nat)             -- thread t runs persistMetaOfMessage and returns
  | get (s : Int)
  | ack (s : Int)
  | gc
  | reopen                        -- Close + NewQueue; only with no Put in flight
  | crash                         -- process dies between two atomic steps; NewQueue
  | crashPut (t : Nat) (m : Msg) (k : Nat)  -- idle thread starts Put m, process dies after k stores of it
  | allocFail (t : Nat) (m : Msg) -- like alloc, but AcquirePage on the data factory fails if it is called
  | gcSnap                        -- GC: ackSeq := AcknowledgedSeq()
  | gcRead                        -- GC: index page lookup + read of the acknowledged item's data page id
  | gcTruncData                   -- GC: dataPageFct.TruncatePages(dataPageID)
  | gcTruncIndex                  -- GC: indexPageFct.TruncatePages(indexPageID)

inductive Out
  | none
  | ret (s : Int) (m : Msg)       -- a Put of message m returned success; its sequence is s
  | tooLarge
  | failed                        -- a Put returned the AcquirePage error
  | got (r : GetRes)

/-- thread `t` calls `Put m` -/
def cstepAlloc (shape : Shape) (σ : CSt) (t : Nat) (m : Msg) : Option (CSt × Out) :=
  match σ.ths t with
  | .idle =>
    if m.len > dataPageSize then some (σ, .tooLarge)
    else match shape with
      | .threeStep =>
        let a := alloc σ.mem σ.q m.len
        some ({ σ with mem := a.mem, q := a.q, ths := setTh σ.ths t (.allocated m a.pg a.off),
                       busy := σ.busy + 1 }, .none)
      | .atomic =>
        match put σ.st m with
        | (st', .ok s) => some ({ σ with mem := st'.mem, q := st'.q }, .ret s m)
        | (_, .tooLarge) => some (σ, .tooLarge)
        | (_, .acquireFailed) => some (σ, .failed)
  | _ => none

/-- one atomic step of the interleaving model; `none` = the event is not enabled -/
def cstep (shape : Shape) (σ : CSt) : Ev → Option (CSt × Out)
  | .alloc t m => cstepAlloc shape σ t m
  | .allocFail t m =>
    if m.len ≤ dataPageSize ∧ σ.q.messageOffset + m.len > dataPageSize then
      match σ.ths t with
      | .idle => some (σ, .failed)       -- alloc returned the error before touching the queue
      | _ => none
    else cstepAlloc shape σ t m
  | .write t =>
    match shape, σ.ths t with
    | .threeStep, .allocated m pg off =>
      some ({ σ with mem := writeData σ.mem pg off m m.len,
                     ths := setTh σ.ths t (.written m pg off) }, .none)
    | _, _ => none
  | .persist t =>
    match shape, σ.ths t with
    | .threeStep, .written m pg off =>
      some ({ σ with mem := persistStores σ.mem σ.q pg off m.len 4, q := publish σ.q,
                     ths := setTh σ.ths t .idle, busy := σ.busy - 1 }, .ret (σ.q.appended + 1) m)
    | _, _ => none
  | .get s => some (σ, .got (get σ.st s))
  | .ack s => let st := ack σ.st s; some ({ σ with mem := st.mem, q := st.q }, .none)
  | .gc =>
    match σ.gc with
    | .idle =>
      if σ.busy = 0 then let st := gc σ.st; some ({ σ with mem := st.mem, q := st.q }, .none)
      else none
    | _ => none
  | .reopen =>
    match σ.gc with
    | .idle =>
      if σ.busy = 0 then let st := reopen σ.st; some ({ σ with mem := st.mem, q := st.q }, .none)
      else none
    | _ => none
  | .crash =>
    let st := openQ σ.mem
    some ({ mem := st.mem, q := st.q, ths := fun _ => .idle, busy := 0, gc := .idle }, .none)
  | .crashPut t m k =>
    match σ.ths t with
    | .idle =>
      let st := crashPut σ.st m k
      some ({ mem := st.mem, q := st.q, ths := fun _ => .idle, busy := 0, gc := .idle }, .none)
    | _ => none
  | .gcSnap =>
    match σ.gc with
    | .idle =>
      if σ.q.acked < 0 then some (σ, .none)                  -- `if ackSeq < 0 { return }`
      else some ({ σ with gc := .snapped σ.q.acked }, .none)
    | _ => none
  | .gcRead =>
    match σ.gc with
    | .snapped a =>
      if a.toNat / indexItemsPerPage ∉ σ.mem.indexLive then some ({ σ with gc := .idle }, .none)  -- `if !ok { return }`
      else some ({ σ with gc := .bounded a (entry σ.mem a.toNat).pg }, .none)
    | _ => none
  | .gcTruncData =>
    match σ.gc with
    | .bounded a b => some ({ σ with mem := truncateData σ.mem b, gc := .truncated a }, .none)
    | _ => none
  | .gcTruncIndex =>
    match σ.gc with
    | .truncated a =>
      some ({ σ with mem := truncateIndex σ.mem (a.toNat / indexItemsPerPage), gc := .idle }, .none)
    | _ => none

/-- run a schedule; `none` if some event was not enabled -/
def crun (shape : Shape) (σ : CSt) : List Ev → Option CSt
  | [] => some σ
  | e :: es =>
    match cstep shape σ e with
    | some (σ', _) => crun shape σ' es
    | none => none

end LinVerif.Queue
