/-
C01 — the switch of the live manifest (kv/version/version_set.go setCurrent), core Lean only.

CURRENT names the live manifest. setCurrent writes CURRENT.tmp and renames it over CURRENT; the rename
is the ONE file-system operation that moves the store from the old manifest to the new one. This
small model runs the list of setCurrent's file-system calls AS REGENERATED FROM THE SOURCE
(`Generated.C01.setCurrentCalls` minus the calls known to be pure) on the two files: any call that is
not the tmp write or the rename is taken to destroy CURRENT (a remove, a truncating rewrite, …) — the
model cannot know better, and the atomic-switch theorem then fails by name.
-/
namespace LinVerif.C01Switch

/-- CURRENT and CURRENT.tmp: the manifest number each names -/
structure Cur where
  current : Option Int
  tmp : Option Int
  deriving DecidableEq, Repr

/-- calls of setCurrent that do not touch the file system (path / string / error construction) -/
def pureCalls : List String := ["vs.getCurrentPath", "fmt.Sprintf", "?", "fmt.Errorf"]

/-- the file-system calls among a regenerated call list: everything not known to be pure -/
def ioCalls (calls : List String) : List String := calls.filter (fun c => !(pureCalls.contains c))

def stepCur (n : Int) (c : Cur) (call : String) : Cur :=
  if call = "writeFileFunc" then { c with tmp := some n }
  else if call = "renameFunc" then (match c.tmp with | some m => ⟨some m, none⟩ | none => c)
  else ⟨none, c.tmp⟩

def runCur (n : Int) (c : Cur) (calls : List String) : Cur := calls.foldl (stepCur n) c

end LinVerif.C01Switch
