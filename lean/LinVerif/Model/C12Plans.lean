/-
C12, round 12: `RootMetricContext.MakePlan` with SEVERAL physical plans.

query/context/root_metric_context.go MakePlan: `for _, physicalPlan := range physicalPlans { …
ctx.addRequests(req, physicalPlan) }` — one `addRequests` call per plan returned by
`NodeChoose.Choose` (root / federated deployment: one plan per broker cluster).
query/context/task_context.go addRequests: `for _, target := range physicalPlan.Targets {
ctx.expectResults++; ctx.tolerantNotFounds++; … }`.  Core only.
-/
import LinVerif.Model.RootMerge

namespace LinVerif.RootMerge

/-- `newMetricContext`: nothing expected yet -/
def Ctx.empty : Ctx :=
  { expect := 0, tolerant := 0, err := none, done := false, agg := none, hdrCap := 0, allSpecs := [] }

/-- how `addRequests` counts: per target (the code) or per plan with an ASSIGNED tolerance
(`expectResults += len(targets); tolerantNotFounds = len(targets)`) -/
inductive PlanCount where
  | perTarget
  | assignTolerance
  deriving DecidableEq, Repr

/-- one iteration of the loop of `addRequests`: `ctx.expectResults++; ctx.tolerantNotFounds++` -/
def Ctx.addTarget (c : Ctx) : Ctx := { c with expect := c.expect + 1, tolerant := c.tolerant + 1 }

/-- the loop over `physicalPlan.Targets` (`k` targets) -/
def Ctx.addTargets (c : Ctx) : Nat → Ctx
  | 0 => c
  | k + 1 => (c.addTarget).addTargets k

/-- `addRequests(req, physicalPlan)` for a plan with `k` targets -/
def Ctx.addRequests (pc : PlanCount) (c : Ctx) (k : Nat) : Ctx :=
  match pc with
  | .perTarget => c.addTargets k
  | .assignTolerance => { c with expect := c.expect + k, tolerant := k }

/-- `MakePlan`: one `addRequests` per physical plan, in the order `Choose` returned them -/
def Ctx.newPlans (pc : PlanCount) (ks : List Nat) : Ctx := ks.foldl (Ctx.addRequests pc) Ctx.empty

end LinVerif.RootMerge
