/-
Model of one `workerPool.Submit(ctx, task)` call racing `Pool.Stop()`, a cancellation of the
context and the consumers of the queue (internal/concurrent/pool.go), core Lean only.

  Submit:   `if … p.Stopped() { p.reject(task, errPoolStopped); return }`           (submitCheck)
            `select { case <-ctx.Done(): p.reject(task, ctx.Err()); return           (submitCtx)
                      case p.tasks <- task: }`                                        (submitSend)
            variant `recheck` (NOT the source as it is): after the send
            `if p.Stopped() { p.reject(task, errPoolStopped) }`                       (submitRecheck)
  Stop:     `p.stopped.Swap(true)` …                                                  (stop)
  consumers (the dispatcher handing the task to a worker, or Stop's consumedRemainingTasks):
            take the task from the queue and execute it                               (consume)

`submitSend` may happen at any later time (a send blocked on the full queue), so every interleaving
of a blocked Submit with Stop and the drain is a run of this model. `reject` calls the task's
handler (`panicHandle` = the stage's `errHandle` → `completeStage`); executing the task completes the
stage as well: a task that is both rejected and executed completes its stage twice.
-/
namespace LinVerif.PoolSubmit

inductive Pc where
  | check | select | recheck | done
  deriving DecidableEq, Repr

structure St where
  pc : Pc
  stopped : Bool
  ctxDone : Bool
  /-- the task is in the tasks channel -/
  queued : Bool
  /-- how often the task's handle ran -/
  executed : Nat
  /-- how often `reject` called the task's handler -/
  rejected : Nat
  deriving DecidableEq, Repr

def init : St := ⟨.check, false, false, false, 0, 0⟩

inductive Ev where
  | submitCheck | submitSend | submitCtx | submitRecheck | stop | cancel | consume
  deriving DecidableEq, Repr

/-- one atomic step; `none`: the event is not enabled -/
def step (recheck : Bool) (s : St) : Ev → Option St
  | .submitCheck =>
    if s.pc = .check then
      if s.stopped then some { s with pc := .done, rejected := s.rejected + 1 }
      else some { s with pc := .select }
    else none
  | .submitSend =>
    if s.pc = .select then some { s with queued := true, pc := if recheck then .recheck else .done } else none
  | .submitCtx =>
    if s.pc = .select && s.ctxDone then some { s with pc := .done, rejected := s.rejected + 1 } else none
  | .submitRecheck =>
    if s.pc = .recheck then
      if s.stopped then some { s with pc := .done, rejected := s.rejected + 1 } else some { s with pc := .done }
    else none
  | .stop => some { s with stopped := true }
  | .cancel => some { s with ctxDone := true }
  | .consume => if s.queued then some { s with queued := false, executed := s.executed + 1 } else none

def run (recheck : Bool) : St → List Ev → Option St
  | s, [] => some s
  | s, e :: es => match step recheck s e with
    | some s' => run recheck s' es
    | none => none

/-- rejections + the queued task + executions -/
def count (s : St) : Nat := s.rejected + (if s.queued then 1 else 0) + s.executed

end LinVerif.PoolSubmit
