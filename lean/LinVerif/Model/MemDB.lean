/-
C11 — executable model of lindb's in-memory write buffer, memory-database flush, data family
(mutable ∪ immutable ∪ files) and the leaf query path (down-sampling → series aggregator →
leaf reduce).  Core Lean only.  The model mirrors the code that exists, including the places
where it violates the property (see Props/C11.lean `namespace Neg`).

Go anchors
  tsdb/memdb/field_writer.go        write / compact / writeFirstPoint / merge / getCurrentValue /
                                    slotRange / resetBuf / flushFieldTo / getOldFloatValue
  tsdb/memdb/database.go            WriteRow / writeLinField / FlushFamilyTo / Filter
  tsdb/memdb/time_series_index.go   StoreTimeRange / GetTimeRange / ClearTimeRange / Load
  tsdb/memdb/index_database.go      Cleanup
  tsdb/data_family.go               WriteRows / Flush / Filter (memoryFilter, fileFilter)
  tsdb/tblstore/metricsdata         filter.go Filter (ErrNotFound), reader.go readSeriesData
  aggregation/down_sampling_agg.go  DownSampling
  aggregation/series_agg.go         GetAggregator
  aggregation/field_agg.go          AggregateBySlot / Aggregate
  query/context/leaf_reduce_context.go Reduce
-/
import LinVerif.Util.Map
import LinVerif.Model.NaiveQuery

namespace LinVerif.MemDB
open LinVerif LinVerif.NaiveQuery

/-- which variant of the statements repaired by the `fix:` commits of this property the source
has (regenerated from /repo on every run, see `Generated/C11.lean` `fix*` and the tie theorem
`Props.C11.cfg_tie`). `Cfg.fixed` is the repaired code, `Cfg.old` the code before the fixes (kept
for the proved negations, which document what each fix repaired). -/
structure Cfg where
  endGuard : Bool           -- write(): `end` only grows inside a window            (02a0667)
  mergeOldFirst : Bool      -- merge(): Aggregate(oldValue, newValue)               (73bdfe1)
  uniqueCreated : Bool      -- memory databases get process-unique created times    (4be15ce)
  notFoundIgnored : Bool    -- a source without data does not hide the other ones   (636394b)
  singleFieldByIndex : Bool -- a one-field block is read into its own query field   (c783635)
  aggregateByType : Bool    -- Aggregate merges a primitive series by its agg type  (eb2ea99)
  monthFamilyTime : Bool    -- GetDataFamilies truncates in the timestamps' segments (8adefd6)
  deriving Repr, DecidableEq

def Cfg.fixed : Cfg := ⟨true, true, true, true, true, true, true⟩
def Cfg.old : Cfg := ⟨false, false, false, false, false, false, false⟩

/-! ## 1. the field write buffer (one page of one series in one field's DataPointBuffer) -/

/-- mark bit + 8-byte value of the buffer body, abstracted to `Option Int`
(a value is only ever read when its mark bit is set). -/
abbrev Cells := List (Option Int)

def cellAt (cs : Cells) (i : Nat) : Option Int :=
  match cs[i]? with
  | some c => c
  | none => none

/-- TSD-encoded compress buffer *with* time range: start slot and one optional value per slot
(`encoder.Bytes()`: start, start + count - 1, bit stream). The codec itself is C14's. -/
structure Compress where
  start : Nat
  cells : Cells
  deriving Repr, DecidableEq

/-- header + body of the page, plus the series' entry in the field's CompressStore. -/
structure Buf where
  hasData : Bool            -- last flag bit of the mark container (`buf[markOffset+1] & 1`)
  start : Nat               -- `getStart(buf)` (uint16)
  endd : Nat                -- `buf[endOffset]`: delta of start
  cells : Cells             -- one cell per slot of the time window
  compress : Option Compress
  deriving Repr, DecidableEq

/-- a fresh (zero-filled) page of window `w`. -/
def Buf.fresh (w : Nat) : Buf := ⟨false, 0, 0, List.replicate w none, none⟩

/-- `getCurrentValue(buf, startTime, timeSlot)`. -/
def curValue (b : Buf) (slot : Nat) : Option Int :=
  if slot < b.start ∨ slot > b.start + b.endd then none
  else cellAt b.cells (slot - b.start)

/-- `getOldFloatValue(decoder, timeSlot)` on a decoder reset to the compress buffer
(`HasValueWithSlot` is a forward cursor; every caller asks for the slots of a range that starts at
or before the decoder's start, in order, so the cursor equals random access — assumption A1). -/
def oldValue (c : Option Compress) (slot : Nat) : Option Int :=
  match c with
  | none => none
  | some c => if slot < c.start then none else cellAt c.cells (slot - c.start)

/-- one iteration of the `merge` loop: `Aggregate(oldValue, newValue)` (repaired order: the
compressed, older value first, as `write` does for a slot inside the window). -/
def mergeCell (A : AggType) (new old : Option Int) : Option Int :=
  match new, old with
  | some n, none => some n
  | some n, some o => some (A.agg o n)
  | none, some o => some o
  | none, none => none

/-- the `merge` loop before fix 73bdfe1: `Aggregate(newValue, oldValue)`. -/
def mergeCellOld (A : AggType) (new old : Option Int) : Option Int :=
  match new, old with
  | some n, none => some n
  | some n, some o => some (A.agg n o)
  | none, some o => some o
  | none, none => none

/-- `merge` over the slot range `[lo, hi]` with merge step `mc`. -/
def mergeRangeG (mc : Option Int → Option Int → Option Int) (b : Buf) (lo hi : Nat) : Cells :=
  (List.range (hi + 1 - lo)).map (fun i => mc (curValue b (lo + i)) (oldValue b.compress (lo + i)))

/-- `merge` over the slot range `[lo, hi]`: the emitted time bits/values as cells. -/
def mergeRange (A : AggType) (b : Buf) (lo hi : Nat) : Cells := mergeRangeG (mergeCell A) b lo hi

/-- `slotRange(currentStart, buf, compress)` (with `getTimeSlotRange`). -/
def slotRange (b : Buf) : Nat × Nat :=
  let s := b.start
  let e := b.start + b.endd
  match b.compress with
  | none => (s, e)
  | some c =>
    let cs := c.start
    let ce := c.start + c.cells.length - 1
    (if cs > s then s else cs, if ce < e then e else ce)

/-- `compact` with merge step `mc`: merge the window into the compress buffer, then `resetBuf`. -/
def compactG (mc : Option Int → Option Int → Option Int) (b : Buf) : Buf :=
  let r := slotRange b
  { b with compress := some ⟨r.1, mergeRangeG mc b r.1 r.2⟩,
           hasData := false,
           cells := b.cells.map (fun _ => none) }

/-- `compact`. -/
def compact (A : AggType) (b : Buf) : Buf := compactG (mergeCell A) b

/-- `writeFirstPoint`. -/
def writeFirst (b : Buf) (slot : Nat) (v : Int) : Buf :=
  { b with hasData := true, start := slot, endd := 0, cells := b.cells.set 0 (some v) }

/-- `write` (window `w = timeWindow(buf)`), generic in the two repaired statements: `guard` =
the assignment of `end` is guarded by `delta > end`; `cmp` = the compaction. -/
def writeG (guard : Bool) (cmp : Buf → Buf) (w : Nat) (A : AggType) (b : Buf) (slot : Nat) (v : Int) : Buf :=
  if !b.hasData then writeFirst b slot v
  else if slot < b.start ∨ slot > b.start + w - 1 then writeFirst (cmp b) slot v
  else
    let d := slot - b.start
    match cellAt b.cells d with
    | some old => { b with cells := b.cells.set d (some (A.agg old v)) }
    | none => { b with endd := if guard then (if d > b.endd then d else b.endd) else d,
                       cells := b.cells.set d (some v) }

/-- `write` as it is now: `if byte(delta) > buf[endOffset] { buf[endOffset] = byte(delta) }`. -/
def write (w : Nat) (A : AggType) (b : Buf) (slot : Nat) (v : Int) : Buf :=
  writeG true (compact A) w A b slot v

/-- the variant of `write` selected by the regenerated facts. -/
def writeV (cfg : Cfg) (w : Nat) (A : AggType) (b : Buf) (slot : Nat) (v : Int) : Buf :=
  writeG cfg.endGuard (compactG (if cfg.mergeOldFirst then mergeCell A else mergeCellOld A)) w A b slot v

/-- run a write sequence on one page. -/
def runWrites (w : Nat) (A : AggType) (b : Buf) (ws : List (Nat × Int)) : Buf :=
  ws.foldl (fun b x => write w A b x.1 x.2) b

def runWritesV (cfg : Cfg) (w : Nat) (A : AggType) (b : Buf) (ws : List (Nat × Int)) : Buf :=
  ws.foldl (fun b x => writeV cfg w A b x.1 x.2) b

/-- what a memory query sees of one page for a function of agg type `F`
(`timeSeriesIndex.Load`: the compress buffer is down-sampled first, then the write buffer). -/
def memView (F : AggType) (b : Buf) (slot : Nat) : Option Int :=
  ocomb F (oldValue b.compress slot) (if b.hasData then curValue b slot else none)

/-- `flushFieldTo`: `merge` over the metric-level slot range, without time range. -/
def flushCells (A : AggType) (b : Buf) (lo hi : Nat) : Cells := mergeRange A b lo hi

def flushCellsV (cfg : Cfg) (A : AggType) (b : Buf) (lo hi : Nat) : Cells :=
  mergeRangeG (if cfg.mergeOldFirst then mergeCell A else mergeCellOld A) b lo hi

/-! ## 2. memory database, shard-level time-series index, data family -/

/-- key of a page: (series, field). -/
abbrev PageKey := Nat × Nat

/-- `memoryDatabase` (one metric): pages by (series, field); `created` is `md.createdTime`
(a 5 ms `fasttime` tick). -/
structure MemDB where
  created : Nat
  pages : List (PageKey × Buf)
  deriving Repr

/-- a flushed metric block of one file: metric-level slot range, the fields that were flushed
(`needFlushFields`) and the cells of every page that existed. -/
structure Block where
  lo : Nat
  hi : Nat
  fields : List Nat               -- `needFlushFields`: the fields that have a write store in the memory database
  series : List Nat               -- every series of the shard-level index at flush time (even without a page)
  pages : List (PageKey × Cells)
  deriving Repr

/-- `dataFamily`. -/
structure Family where
  mutable_ : Option MemDB
  files : List Block          -- level-0 files, in flush order
  base : Option Block         -- the level-1 file left by the last compaction
  deriving Repr

def Family.empty : Family := ⟨none, [], none⟩

/-- the files a snapshot finds for the metric: level 0, then level 1 (`version.FindFiles`;
inside a level the order is a Go map iteration order — irrelevant for commutative aggregates). -/
def Family.readers (f : Family) : List Block :=
  f.files ++ (match f.base with | some b => [b] | none => [])

/-- the files in the order in which their contents were written: the compacted file, then the
level-0 files in flush order. -/
def Family.chron (f : Family) : List Block :=
  (match f.base with | some b => [b] | none => []) ++ f.files

/-- shard state: families by index, and the metric's `timeSeriesIndex.families`
(created time ↦ metric-level slot range), which is shared by all families of the shard. -/
structure Shard where
  cfg : Cfg
  window : Nat
  families : List (Nat × Family)
  ranges : List (Nat × (Nat × Nat))
  fieldTypes : List (Nat × FieldType)     -- schema: field key ↦ type (first write wins)
  known : List Nat                        -- series of the in-memory index (`timeSeriesIndex.ids`), lost on reopen
  nextTick : Nat                          -- `lastCreatedTime`: the next process-unique created time
  deriving Repr

/-- the empty shard of the repaired code. -/
def Shard.init (w : Nat) : Shard := ⟨Cfg.fixed, w, [], [], [], [], 0⟩

/-- the empty shard of a given code variant. -/
def Shard.initV (cfg : Cfg) (w : Nat) : Shard := ⟨cfg, w, [], [], [], [], 0⟩

def Shard.family (s : Shard) (fam : Nat) : Family :=
  (Map.lookup s.families fam).getD Family.empty

/-- `timeSeriesIndex.StoreTimeRange`. -/
def storeTimeRange (rs : List (Nat × (Nat × Nat))) (created slot : Nat) : List (Nat × (Nat × Nat)) :=
  match Map.lookup rs created with
  | none => Map.upsert rs created (slot, slot)
  | some (lo, hi) => Map.upsert rs created (if slot < lo then slot else lo, if slot > hi then slot else hi)

/-- the created time of a memory database created now: `nextCreatedTime()` hands out
process-unique values (model: a counter); before fix 4be15ce it was the 5 ms `fasttime` tick
observed by the harness (`tick`). -/
def Shard.newCreated (s : Shard) (tick : Nat) : Nat :=
  if s.cfg.uniqueCreated then s.nextTick else tick

/-- `dataFamily.WriteRows` → `memoryDatabase.WriteRow` → `writeLinField` → `write` for one field value.
`tick` identifies the `fasttime` tick in which a new mutable memory database would be created. -/
def Shard.write (s : Shard) (tick fam ser fld : Nat) (ft : FieldType) (slot : Nat) (v : Int) : Shard :=
  let f := s.family fam
  let md : MemDB := match f.mutable_ with
    | some md => md
    | none => ⟨s.newCreated tick, []⟩
  let b := (Map.lookup md.pages (ser, fld)).getD (Buf.fresh s.window)
  let b' := MemDB.writeV s.cfg s.window ft.aggType b slot v
  let md' : MemDB := { md with pages := Map.upsert md.pages (ser, fld) b' }
  { s with families := Map.upsert s.families fam { f with mutable_ := some md' },
           ranges := storeTimeRange s.ranges md.created slot,
           fieldTypes := match Map.lookup s.fieldTypes fld with
             | some _ => s.fieldTypes
             | none => Map.upsert s.fieldTypes fld ft,
           known := if s.known.contains ser then s.known else s.known ++ [ser],
           nextTick := match f.mutable_ with
             | some _ => s.nextTick
             | none => s.nextTick + 1 }

def Shard.fieldAgg (s : Shard) (fld : Nat) : AggType :=
  match Map.lookup s.fieldTypes fld with
  | some ft => ft.aggType
  | none => .sum

/-- `FlushFamilyTo` for the metric: skipped when the metric has no time range for this memory
database; otherwise one block with every existing page merged over the metric-level range. -/
def flushMemDB (s : Shard) (md : MemDB) : Option Block :=
  match Map.lookup s.ranges md.created with
  | none => none
  | some (lo, hi) =>
    some ⟨lo, hi, (md.pages.map (fun (p : PageKey × Buf) => p.1.2)).eraseDups, s.known,
      md.pages.map (fun (p : PageKey × Buf) => (p.1, flushCellsV s.cfg (s.fieldAgg p.1.2) p.2 lo hi))⟩

/-- `dataFamily.Flush` (the memory database becomes immutable, is flushed to a new file, closed;
`Close` → `indexDatabase.Cleanup` → `ClearTimeRange(createdTime)`). -/
def Shard.flush (s : Shard) (fam : Nat) : Shard :=
  let f := s.family fam
  match f.mutable_ with
  | none => s
  | some md =>
    let files := match flushMemDB s md with
      | some blk => f.files ++ [blk]
      | none => f.files
    { s with families := Map.upsert s.families fam { f with mutable_ := none, files := files },
             ranges := Map.erase s.ranges md.created }

/-- cell of a block at a slot of the family. -/
def Block.cell (blk : Block) (k : PageKey) (slot : Nat) : Option Int :=
  match Map.lookup blk.pages k with
  | none => none
  | some cells => if slot < blk.lo ∨ slot > blk.hi then none else cellAt cells (slot - blk.lo)

/-- kv compaction of the family with the metric-data merger (C03 owns its proof; here it is the
abstract effect): one block over the union range, fields and series united, every cell the
field-aggregate of the cells of the inputs (combined in the order in which they were written;
the real merger's order only matters for first/last fields whose slot lives in several files,
which the correspondence stream does not generate: files are read in a map iteration order). -/
def mergeBlocks (fieldAgg : Nat → AggType) (bs : List Block) : Option Block :=
  match bs with
  | [] => none
  | b0 :: rest =>
    let lo := rest.foldl (fun m b => if b.lo < m then b.lo else m) b0.lo
    let hi := rest.foldl (fun m b => if b.hi > m then b.hi else m) b0.hi
    let keys := (bs.flatMap (fun b => b.pages.map Prod.fst)).eraseDups
    some ⟨lo, hi, (bs.flatMap (fun b => b.fields)).eraseDups, (bs.flatMap (fun b => b.series)).eraseDups,
      keys.map (fun k => (k, (List.range (hi + 1 - lo)).map (fun i =>
        bs.foldl (fun acc b => ocomb (fieldAgg k.2) acc (b.cell k (lo + i))) none)))⟩

/-- `Family.Compact()` run to completion: only when more than one level-0 file exists. -/
def Shard.compact (s : Shard) (fam : Nat) : Shard :=
  let f := s.family fam
  if f.files.length ≤ 1 then s
  else
    match mergeBlocks s.fieldAgg f.chron with
    | none => s
    | some blk => { s with families := Map.upsert s.families fam { f with files := [], base := some blk } }

/-- close + reopen of the engine: every family flushes its memory database. -/
def Shard.reopen (s : Shard) : Shard :=
  let s' := (s.families.map Prod.fst).foldl (fun s fam => s.flush fam) s
  { s' with known := [] }

/-! ## 3. the leaf query path -/

/-- per-agg-type result arrays of a field aggregator (target slot ↦ value). -/
abbrev Arrays := List (AggType × List (Nat × Int))

def arrGet (a : Arrays) (A : AggType) (t : Nat) : Option Int :=
  match Map.lookup a A with
  | some m => Map.lookup m t
  | none => none

def Arrays.init (L : List AggType) : Arrays := L.map (fun A => (A, []))

/-- `fieldAggregator.AggregateBySlot(slot, value)`: the value goes into *every* agg type's array. -/
def aggregateBySlot (a : Arrays) (t : Nat) (v : Int) : Arrays :=
  a.map (fun (p : AggType × List (Nat × Int)) =>
    (p.1, match Map.lookup p.2 t with
      | some old => Map.upsert p.2 t (p.1.agg old v)
      | none => Map.upsert p.2 t v))

/-- `aggregation.DownSampling` over the source slots `slots` (ascending), query slot range
`[tLo, tHi]` of the family, `baseSlot` (`g0 = family * spf`, query start `qs`: base = g0 - qs). -/
def dsLoop (get : Nat → Option Int) (tLo tHi : Nat) (g0 qs ratio : Nat) :
    List Nat → Arrays → Arrays
  | [], a => a
  | s :: rest, a =>
    match get s with
    | none => dsLoop get tLo tHi g0 qs ratio rest a
    | some v =>
      if s < tLo then dsLoop get tLo tHi g0 qs ratio rest a
      else if s > tHi then a
      else dsLoop get tLo tHi g0 qs ratio rest (aggregateBySlot a ((g0 + s - qs) / ratio) v)

def slotsOf (lo hi : Nat) : List Nat := (List.range (hi + 1 - lo)).map (fun i => lo + i)

/-- one `DownSampling` call = one fresh `FieldAggregator` (`seriesAggregator.GetAggregator`). -/
def dsCall (L : List AggType) (get : Nat → Option Int) (srcLo srcHi tLo tHi g0 qs ratio : Nat) : Arrays :=
  dsLoop get tLo tHi g0 qs ratio (slotsOf srcLo srcHi) (Arrays.init L)

/-- `fieldAggregator.aggregateBySlotOfType`: the value goes into the array of one agg type. -/
def aggregateBySlotOfType (a : Arrays) (A : AggType) (t : Nat) (v : Int) : Arrays :=
  a.map (fun (p : AggType × List (Nat × Int)) =>
    if p.1 = A then
      (p.1, match Map.lookup p.2 t with
        | some old => Map.upsert p.2 t (p.1.agg old v)
        | none => Map.upsert p.2 t v)
    else p)

/-- `fieldAggregator.Aggregate(it)` at leaf reduce: every (slot, value) of a primitive iterator of
the incoming field aggregator goes into the array of the iterator's own agg type (into all arrays
only when the aggregator has no array of that type). -/
def reduceInto (acc : Arrays) (incoming : Arrays) : Arrays :=
  incoming.foldl (fun acc (p : AggType × List (Nat × Int)) =>
    if acc.any (fun (x : AggType × List (Nat × Int)) => x.1 = p.1) then
      p.2.foldl (fun acc (tv : Nat × Int) => aggregateBySlotOfType acc p.1 tv.1 tv.2) acc
    else
      p.2.foldl (fun acc (tv : Nat × Int) => aggregateBySlot acc tv.1 tv.2) acc) acc

/-- `fieldAggregator.Aggregate(it)` before fix eb2ea99: every (slot, value) of every primitive
iterator is fed to `AggregateBySlot`, i.e. into every agg type's array. -/
def reduceIntoOld (acc : Arrays) (incoming : Arrays) : Arrays :=
  incoming.foldl (fun acc (p : AggType × List (Nat × Int)) =>
    p.2.foldl (fun acc (tv : Nat × Int) => aggregateBySlot acc tv.1 tv.2) acc) acc

/-- `groupingAggregator.Aggregate(it)` (aggregation/group_agg.go): the reducing side holds one field
aggregator per selected field; every incoming field series is merged into the first aggregator
with the same field name (`reduceInto`), and skipped when there is none. -/
def groupReduce (acc : List (Nat × Arrays)) (incoming : List (Nat × Arrays)) : List (Nat × Arrays) :=
  incoming.foldl (fun acc (p : Nat × Arrays) =>
    match Map.lookup acc p.1 with
    | some a => Map.upsert acc p.1 (reduceInto a p.2)
    | none => acc) acc

def fieldGet (fa : List (Nat × Arrays)) (f : Nat) (A : AggType) (t : Nat) : Option Int :=
  match Map.lookup fa f with
  | some a => arrGet a A t
  | none => none

/-- query slot range of a family: `Interval.CalcSlotRange(familyTime, timeRange)` in global
coordinates (`none` when the family does not overlap the query). -/
def familyTarget (q : Query) (fam : Nat) : Option (Nat × Nat) :=
  let g0 := fam * q.spf
  let g1 := g0 + q.spf - 1
  if q.qe < g0 ∨ g1 < q.qs then none
  else some ((if q.qs > g0 then q.qs else g0) - g0, (if q.qe < g1 then q.qe else g1) - g0)

def overlap (a b c d : Nat) : Bool := (decide (c ≥ a) && decide (c ≤ b)) || (decide (a ≥ c) && decide (a ≤ d))

/-- the `DownSampling` calls of one page, in `timeSeriesIndex.Load` order: the compress buffer
(if any) first, then the write buffer; `[lo, hi]` is the metric-level slot range of the memory
database, `[tLo, tHi]` the query slot range of the family. -/
def pageCalls (L : List AggType) (b : Buf) (lo hi tLo tHi g0 qs ratio : Nat) : List Arrays :=
  (match b.compress with
    | some _ => [dsCall L (oldValue b.compress) lo hi tLo tHi g0 qs ratio]
    | none => []) ++
  [dsCall L (fun slot => if b.hasData then curValue b slot else none) lo hi tLo tHi g0 qs ratio]

/-- the `DownSampling` calls of the pages of one memory database (metric-level slot range `rng`)
for the series of a group. `memoryDatabase.Filter` answers nothing when the metric has no time
range for this memory database or it does not overlap the query range. -/
def memCallsR (q : Query) (L : List AggType) (pages : List (PageKey × Buf)) (rng : Option (Nat × Nat))
    (fam : Nat) (group : List Nat) : List Arrays :=
  match familyTarget q fam, rng with
  | some (tLo, tHi), some (lo, hi) =>
    if overlap lo hi tLo tHi then
      group.flatMap (fun ser =>
        match Map.lookup pages (ser, q.field) with
        | none => []
        | some b => pageCalls L b lo hi tLo tHi (fam * q.spf) q.qs q.ratio)
    else []
  | _, _ => []

def memCalls (s : Shard) (q : Query) (L : List AggType) (md : MemDB) (fam : Nat) (group : List Nat) : List Arrays :=
  memCallsR q L md.pages (Map.lookup s.ranges md.created) fam group

/-- the parts of a leaf query that decide which sources answer: all selected fields and all
series that satisfy the tag condition (`SeriesIDsAfterFiltering`). -/
structure Scope where
  fields : List Nat
  series : List Nat
  deriving Repr

/-- the selected field with the smallest field id (= query field index 0; ids are assigned in
the order in which fields are first written). -/
def firstQueryField (s : Shard) (sc : Scope) : Option Nat :=
  ((s.fieldTypes.map Prod.fst).filter (fun f => sc.fields.contains f)).head?

/-- which field of the block feeds query field `q.field` (`metricReader.readSeriesData`): fields
map by field id; before fix c783635 a file with exactly ONE field was down-sampled into query
field index 0, whichever field it held. -/
def blockSourceField (s : Shard) (q : Query) (sc : Scope) (blk : Block) : Option Nat :=
  if s.cfg.singleFieldByIndex then
    (if blk.fields.contains q.field then some q.field else none)
  else
    match blk.fields with
    | [f] => if firstQueryField s sc = some q.field then some f else none
    | fs => if fs.contains q.field then some q.field else none

/-- the calls of one file block (`readSeriesData`). -/
def fileCalls (s : Shard) (q : Query) (sc : Scope) (L : List AggType) (blk : Block) (fam : Nat) (group : List Nat) : List Arrays :=
  match familyTarget q fam, blockSourceField s q sc blk with
  | some (tLo, tHi), some src =>
    if overlap blk.lo blk.hi tLo tHi then
      group.flatMap (fun ser =>
        match Map.lookup blk.pages (ser, src) with
        | none => []
        | some cells =>
          [dsCall L (fun slot => if slot < blk.lo ∨ slot > blk.hi then none else cellAt cells (slot - blk.lo))
            blk.lo blk.hi tLo tHi (fam * q.spf) q.qs q.ratio])
    else []
  | _, _ => []

/-- does a block hold one of the fields and one of the series (`metricsDataFilter.Filter`) -/
def blockMatches (sc : Scope) (blk : Block) : Bool :=
  sc.fields.any (fun f => blk.fields.contains f) && sc.series.any (fun ser => blk.series.contains ser)

/-- `memoryDatabase.Filter` + `filter`: `none` = error (field / series not found),
`some false` = no result set, `some true` = a result set. -/
def memFilterR (known : List Nat) (q : Query) (sc : Scope) (pages : List (PageKey × Buf))
    (rng : Option (Nat × Nat)) (fam : Nat) : Option Bool :=
  match familyTarget q fam, rng with
  | some (tLo, tHi), some (lo, hi) =>
    if overlap lo hi tLo tHi then
      if !(sc.fields.any (fun f => pages.any (fun (p : PageKey × Buf) => p.1.2 = f))) then none
      else if !(sc.series.any (fun ser => known.contains ser)) then none
      else some true
    else some false
  | _, _ => some false

def memFilter (s : Shard) (q : Query) (sc : Scope) (md : MemDB) (fam : Nat) : Option Bool :=
  memFilterR s.known q sc md.pages (Map.lookup s.ranges md.created) fam

/-- the memory part of `dataFamily.Filter`. A not-found error of the memory database means "no
result set from this source"; before fix 636394b it failed the whole family (`none`). -/
def memResult (s : Shard) (q : Query) (sc : Scope) (L : List AggType) (fam : Nat) (group : List Nat) :
    Option (List Arrays) :=
  match (s.family fam).mutable_ with
  | some md =>
    match memFilter s q sc md fam with
    | none => if s.cfg.notFoundIgnored then some [] else none
    | some true => some (memCalls s q L md fam group)
    | some false => some []
  | none => some []

/-- the readers of the family whose slot range overlaps the query range (`fileFilter`). -/
def familyReaders (s : Shard) (q : Query) (fam : Nat) : List Block :=
  match familyTarget q fam with
  | some (tLo, tHi) => (s.family fam).readers.filter (fun (blk : Block) => overlap blk.lo blk.hi tLo tHi)
  | none => []

/-- memory result sets first, then the files that hold a queried field and series. Before fix
636394b: if files overlapped the query range but none of them matched, `metricsDataFilter.Filter`'s
`ErrNotFound` failed the whole family (`ignore = false`). -/
def combineCalls (ignore : Bool) (sc : Scope) (mem : List Arrays) (readers : List Block)
    (callsOf : Block → List Arrays) : List Arrays :=
  if readers.isEmpty then mem
  else if (readers.filter (blockMatches sc)).isEmpty then (if ignore then mem else [])
  else mem ++ (readers.filter (blockMatches sc)).flatMap callsOf

/-- `dataFamily.Filter` + the data-load stage of the family. -/
def familyCalls (s : Shard) (q : Query) (sc : Scope) (L : List AggType) (fam : Nat) (group : List Nat) : List Arrays :=
  match memResult s q sc L fam group with
  | none => []
  | some mem =>
    combineCalls s.cfg.notFoundIgnored sc mem (familyReaders s q fam) (fun blk => fileCalls s q sc L blk fam group)

/-! ### a flush in progress

`dataFamily.Flush` switches the mutable memory database to `immutableMemDB` (under the family
mutex), writes it to a new file outside the mutex, and only then drops it. Writes that complete
in between create a new mutable memory database; a query in between reads the new mutable one, the
immutable one and the files (`memoryFilter`: mutable, then immutable). The window state is
represented by the shard as it will be once the file is committed (`s`, whose family `fam` has the
new block as its LAST level-0 file) together with the memory database that is still being written
(`imm`) and its metric-level slot range: the query reads `imm` INSTEAD of that last file. -/

structure Window where
  fam : Nat
  imm : MemDB
  rng : Option (Nat × Nat)
  deriving Repr

/-- the immutable memory database's result sets (same rules as `memResult`). -/
def immResult (s : Shard) (q : Query) (sc : Scope) (L : List AggType) (W : Window) (group : List Nat) :
    Option (List Arrays) :=
  match memFilterR s.known q sc W.imm.pages W.rng W.fam with
  | none => if s.cfg.notFoundIgnored then some [] else none
  | some true => some (memCallsR q L W.imm.pages W.rng W.fam group)
  | some false => some []

/-- the committed files of the family while the flush is in progress: all readers except the
file being written. -/
def windowReaders (s : Shard) (q : Query) (fam : Nat) : List Block :=
  let f := s.family fam
  match familyTarget q fam with
  | some (tLo, tHi) =>
    ({ f with files := f.files.dropLast } : Family).readers.filter (fun (blk : Block) => overlap blk.lo blk.hi tLo tHi)
  | none => []

def familyCallsW (s : Shard) (q : Query) (sc : Scope) (L : List AggType) (W : Window) (group : List Nat) : List Arrays :=
  match memResult s q sc L W.fam group, immResult s q sc L W group with
  | some mem, some imm =>
    combineCalls s.cfg.notFoundIgnored sc (mem ++ imm) (windowReaders s q W.fam)
      (fun blk => fileCalls s q sc L blk W.fam group)
  | _, _ => []

/-- leaf result arrays of one group while family `W.fam` is being flushed. -/
def leafGroupW (s : Shard) (q : Query) (sc : Scope) (L : List AggType) (W : Window) (fams group : List Nat) : Arrays :=
  (fams.flatMap (fun fam => if fam = W.fam then familyCallsW s q sc L W group else familyCalls s q sc L fam group)).foldl
    (if s.cfg.aggregateByType then reduceInto else reduceIntoOld) (Arrays.init L)

/-- leaf result arrays of one group: all calls of all families (ascending), reduced. -/
def leafGroup (s : Shard) (q : Query) (sc : Scope) (L : List AggType) (fams group : List Nat) : Arrays :=
  (fams.flatMap (fun fam => familyCalls s q sc L fam group)).foldl
    (if s.cfg.aggregateByType then reduceInto else reduceIntoOld) (Arrays.init L)

/-- the non-empty buckets of agg type `A`, ascending. -/
def bucketsOf (q : Query) (a : Arrays) (A : AggType) : List (Nat × Int) :=
  (List.range q.buckets).filterMap (fun t => (arrGet a A t).map (fun v => (t, v)))

/-- the families of the shard that overlap the query (Day-type interval: `shard.GetDataFamilies`
selects exactly the families whose hour overlaps the range), ascending. -/
def queryFamilies (s : Shard) (q : Query) : List Nat :=
  let fs := (s.families.map Prod.fst).filter (fun fam => (familyTarget q fam).isSome)
  (fs.toArray.qsort (· < ·)).toList

/-- agg types of the functions selected on one field (`NewFieldAggregator`: `GetFuncFieldParams`
of every function, sorted, duplicates removed). -/
def aggTypesOf (ft : FieldType) (funcs : List FuncType) : List AggType :=
  AggType.all.filter (fun A => funcs.any (fun f => ft.funcParam f == A))

/-! ## 4. month-type family selection (`intervalSegment.GetDataFamilies` → `segment.GetDataFamilies`
with the month calculator), at day granularity: a timestamp is an absolute day number, a segment
is a month, a family is a day.  `lens` = lengths of the months from the epoch month. -/

/-- first absolute day of month `m`. -/
def monthStart : List Nat → Nat → Nat
  | _, 0 => 0
  | [], _ + 1 => 0
  | l :: ls, m + 1 => l + monthStart ls m

/-- (month index, day of month 1-based) of an absolute day. -/
def monthOfDay : List Nat → Nat → Nat × Nat
  | [], d => (0, d + 1)
  | l :: ls, d => if d < l then (0, d + 1) else ((monthOfDay ls (d - l)).1 + 1, (monthOfDay ls (d - l)).2)

/-- is the family of absolute day `f` selected for the query `[qs, qe]` (absolute days), BEFORE
fix 8adefd6: its segment (month) is walked iff `CalcSegmentTime(start) ≤ segmentTime ≤ end`; inside
the segment the family query range was `CalcFamilyStartTime(base, CalcFamily(start))` ..
`CalcFamilyStartTime(base, CalcFamily(end))` where `CalcFamily` is the *day of month* of the
timestamp (the segment's own month is not consulted) and `time.Date` normalises day overflow;
`TimeRange.Overlap` = `r.Contains(o.Start) || o.Contains(r.Start)`. -/
def monthFamilySelectedOld (lens : List Nat) (qs qe f : Nat) : Bool :=
  let m := (monthOfDay lens f).1
  let segTime := monthStart lens m
  let qsSeg := monthStart lens (monthOfDay lens qs).1
  if segTime < qsSeg ∨ segTime > qe then false
  else
    let S := segTime + (monthOfDay lens qs).2 - 1
    let E := segTime + (monthOfDay lens qe).2 - 1
    (decide (f ≥ S) && decide (f ≤ E)) || decide (f = S)

/-- the repaired selection: the family query range is `CalcFamilyTime(start)` ..
`CalcFamilyTime(end)` (the start of the day of `start` / `end`, each in its own segment). -/
def monthFamilySelected (lens : List Nat) (qs qe f : Nat) : Bool :=
  let segTime := monthStart lens (monthOfDay lens f).1
  let qsSeg := monthStart lens (monthOfDay lens qs).1
  if segTime < qsSeg ∨ segTime > qe then false
  else (decide (f ≥ qs) && decide (f ≤ qe)) || decide (f = qs)

def monthFamilySelectedV (cfg : Cfg) (lens : List Nat) (qs qe f : Nat) : Bool :=
  if cfg.monthFamilyTime then monthFamilySelected lens qs qe f else monthFamilySelectedOld lens qs qe f

def monthSelectV (cfg : Cfg) (lens : List Nat) (fams : List Nat) (qs qe : Nat) : List Nat :=
  fams.filter (monthFamilySelectedV cfg lens qs qe)

def monthSelect (lens : List Nat) (fams : List Nat) (qs qe : Nat) : List Nat :=
  fams.filter (monthFamilySelected lens qs qe)

/-- what the property needs: the families whose day lies in the query range. -/
def monthSelectSpec (fams : List Nat) (qs qe : Nat) : List Nat :=
  fams.filter (fun f => decide (qs ≤ f) && decide (f ≤ qe))

end LinVerif.MemDB
