/-
Byte-exact model of pkg/encoding/utils.go (slice reinterpretation through `unsafe.Slice`, little-endian targets) and of
the 16/16 split of a uint32 in encoding.go (`HighBits`, `LowBits`, `ValueWithHighLowBits`). Core Lean only.
Values are `Nat`s below the width of their Go type; bytes are `Nat`s below 256.
-/
namespace LinVerif.EncUtils

/-- `HighBits(x uint32) uint16 = uint16(x >> 16)` -/
def highBits (x : Nat) : Nat := (x >>> 16) % 65536

/-- `LowBits(x uint32) uint16 = uint16(x & maxLowBit)` -/
def lowBits (x : Nat) : Nat := (x &&& 65535) % 65536

/-- `ValueWithHighLowBits(high uint32, low uint16) uint32 = uint32(low&maxLowBit) | high` -/
def valueWithHighLowBits (high low : Nat) : Nat := (low &&& 65535) ||| high

/-- the 4 bytes of a `uint32` in memory order (little endian) -/
def le4 (v : Nat) : List Nat := [v % 256, (v / 256) % 256, (v / 65536) % 256, (v / 16777216) % 256]

/-- the 8 bytes of a `uint64` in memory order (little endian) -/
def le8 (v : Nat) : List Nat := le4 (v % 4294967296) ++ le4 (v / 4294967296)

/-- the integer a run of bytes holds in memory order (little endian) -/
def fromLE : List Nat → Nat
  | [] => 0
  | b :: bs => b + 256 * fromLE bs

/-- `U32SliceToBytes(u)`: nil for the empty slice, else the same memory seen as `len(u)*4` bytes -/
def u32SliceToBytes (u : List Nat) : List Nat := u.flatMap le4

/-- `U64SliceToBytes(u)` -/
def u64SliceToBytes (u : List Nat) : List Nat := u.flatMap le8

/-- `k` words of `w` bytes from the front of `b` -/
def words (w : Nat) : Nat → List Nat → List Nat
  | 0, _ => []
  | k + 1, b => fromLE (b.take w) :: words w k (b.drop w)

/-- `BytesToU32Slice(b)`: `len(b)/4` words (a tail of 1-3 bytes is not part of the result) -/
def bytesToU32Slice (b : List Nat) : List Nat := words 4 (b.length / 4) b

/-- `BytesToU64Slice(b)`: `len(b)/8` words -/
def bytesToU64Slice (b : List Nat) : List Nat := words 8 (b.length / 8) b

/-- `Float64ToBytes(f)`, `f` given by its bit pattern -/
def float64ToBytes (bits : Nat) : List Nat := le8 bits

/-- `BytesToFloat64(b)`: the first 8 bytes as a bit pattern; fewer than 8 bytes read past the slice in Go
(undefined) — `none` here, never asked of the implementation -/
def bytesToFloat64 (b : List Nat) : Option Nat := if b.length < 8 then none else some (fromLE (b.take 8))

end LinVerif.EncUtils
