/-
C16 — executable model of batch routing (core Lean only).

Mirrors
  * series/metric/row_broker.go   BrokerBatchRows.TryAppend / EvictOutOfTimeRange /
                                  NewShardGroupIterator, BrokerBatchShardIterator,
                                  BrokerBatchShardFamilyIterator, BrokerRow.Size/WriteTo
  * replica/channel_database.go   databaseChannel.Write (evict, shard groups, family groups, write)
  * pkg/timeutil/interval_calculator.go  day calculator (and the month calculator under UTC)

Parameters: jump consistent hash (`jump : Nat → Nat → Nat`), Go's `sort.Sort` on the batch (by shard)
and on a shard group (by timestamp), the interval calculator (`Calc`).
-/
import LinVerif.Model.Row

namespace LinVerif.Route
open LinVerif.Row

/-- metric.BrokerRow: the flat row, the shard index assigned by NewShardGroupIterator and the
IsOutOfTimeRange mark. `id` is the position the row was appended at (not in Go; it lets the
harness and the theorems speak about "this row"). -/
structure BRow where
  id : Nat
  row : Stored
  shard : Nat
  oor : Bool
  deriving DecidableEq, Repr

/-- timeutil.TimeRange.Contains -/
def contains (r : Int × Int) (t : Int) : Bool := decide (r.1 ≤ t) && decide (t ≤ r.2)

/-- The part of timeutil.IntervalCalculator the family iterator uses:
`famTime` = CalcFamilyTime, `range` = timeRangeOfTimestamp. -/
structure Calc where
  famTime : Int → Int
  range : Int → Int × Int

def oneHour : Int := 3600000
def oneDay : Int := 86400000

/-- day calculator under TZ=UTC (timestamps ≥ 0): segment = midnight, family = hour of the day. -/
def dayCalc : Calc where
  famTime t :=
    let seg := t - t % oneDay
    seg + ((t - seg) / oneHour) * oneHour
  range t :=
    let seg := t - t % oneDay
    let start := seg + ((t - seg) / oneHour) * oneHour
    (start, start + oneHour - 1)

/-- month calculator under TZ=UTC (timestamps ≥ 0): segment = first of the month, family = day of
the month; the family range is the civil day, whose start needs no calendar. -/
def monthCalc : Calc where
  famTime t := t - t % oneDay
  range t := (t - t % oneDay, t - t % oneDay + oneDay - 1)

/-! ### append with pooled slots -/

/-- BrokerBatchRows.TryAppend over a batch taken from the pool: slot `i` of a reused batch keeps
the IsOutOfTimeRange mark its previous occupant had (`stale`); FromBlock does not clear it.
A batch that was never used has no slots: every mark starts false. `clears` is the regenerated fact
`Generated.C16.appendClearsMark` (does the append path assign `IsOutOfTimeRange = false`?). -/
def appendAll (clears : Bool) (stale : List Bool) (rows : List Stored) : List BRow :=
  go (if clears then [] else stale) 0 rows
where
  go : List Bool → Nat → List Stored → List BRow
    | _, _, [] => []
    | [], i, r :: rs => ⟨i, r, 0, false⟩ :: go [] (i + 1) rs
    | s :: ss, i, r :: rs => ⟨i, r, 0, s⟩ :: go ss (i + 1) rs

/-! ### the pooled batch object -/

/-- metric.BrokerBatchRows as it comes out of brokerBatchRowsPool, split at `rowCount`:
`cur` = slots below rowCount (what `Rows()`, `Len()` and the iterators see), `stale` = the slots at and
beyond rowCount: rows of earlier requests — arbitrary contents, shard indexes and marks. -/
structure PBatch where
  cur : List BRow
  stale : List BRow
  deriving Repr

/-- BrokerBatchRows.reset (NewBrokerBatchRows on a pooled object): `rowCount = 0`, nothing else -/
def PBatch.reset (b : PBatch) : PBatch := ⟨[], b.cur ++ b.stale⟩

/-- BrokerBatchRows.TryAppend with the outcome of the append function (conversion / decode of one row):
a slot is appended when none is left; the slot's mark is cleared; on success FromBlock overwrites the
slot's row (its stale shard index stays until NewShardGroupIterator reassigns it) and rowCount moves on;
on failure rowCount stays, the slot remains beyond it. -/
def PBatch.tryAppend (b : PBatch) : Except Err Stored → PBatch
  | .ok s =>
    ⟨b.cur ++ [⟨b.cur.length, s, (match b.stale with | [] => 0 | h :: _ => h.shard), false⟩], b.stale.drop 1⟩
  | .error _ =>
    ⟨b.cur, match b.stale with
      | [] => [⟨0, default, 0, false⟩]
      | h :: t => { h with oor := false } :: t⟩

/-- BrokerBatchRows.Rows / Len -/
def PBatch.rows (b : PBatch) : List BRow := b.cur

def PBatch.appendMany (b : PBatch) (rs : List (Except Err Stored)) : PBatch := rs.foldl PBatch.tryAppend b

/-! ### write window -/

/-- the condition of EvictOutOfTimeRange -/
def outside (behind ahead now ts : Int) : Bool :=
  (decide (behind > 0) && decide (ts < now - behind)) || (decide (ahead > 0) && decide (ts > now + ahead))

/-- BrokerBatchRows.EvictOutOfTimeRange: marks, never clears. -/
def evict (behind ahead now : Int) (rows : List BRow) : List BRow :=
  rows.map (fun r => if outside behind ahead now r.row.ts then { r with oor := true } else r)

/-- its return value -/
def evictedCount (behind ahead now : Int) (rows : List BRow) : Nat :=
  (rows.filter (fun r => outside behind ahead now r.row.ts)).length

/-! ### grouping -/

/-- Forward scan shared by HasRowsForNextShard and HasNextFamily: the group is the first element
plus the longest following prefix related to it by `p`; continue after the group. -/
def runs {α : Type} (p : α → α → Bool) : List α → List (α × List α)
  | [] => []
  | a :: rest => (a, rest.takeWhile (p a)) :: runs p (rest.dropWhile (p a))
termination_by l => l.length
decreasing_by
  simp only [List.length_cons]
  have := (List.dropWhile_sublist (l := rest) (p a)).length_le
  omega

/-- NewShardGroupIterator, first loop -/
def assignShards (jump : Nat → Nat → Nat) (n : Nat) (rows : List BRow) : List BRow :=
  rows.map (fun r => { r with shard := jump r.row.hash n })

def sameShard (a b : BRow) : Bool := b.shard == a.shard

/-- `timeRange.Contains(rows[i].Timestamp())` with the range of the group's first row -/
def inFamilyOf (C : Calc) (a b : BRow) : Bool := contains (C.range a.row.ts) b.row.ts

/-- BrokerBatchShardFamilyIterator over one shard group: fast path when every row lies in the
family range of the first one, otherwise sort by timestamp and scan. Result: (familyTime, rows). -/
def familyGroups (C : Calc) (sortTs : List BRow → List BRow) : List BRow → List (Int × List BRow)
  | [] => []
  | a :: rest =>
    if rest.all (inFamilyOf C a) then [(C.famTime a.row.ts, a :: rest)]
    else (runs (inFamilyOf C) (sortTs (a :: rest))).map (fun g => (C.famTime g.1.row.ts, g.1 :: g.2))

/-- the slow path of the family iterator alone: always `sort.Sort(itr.rows)`, always the scan of
HasNextFamily — what `familyGroups` is compared with (`Props.C16.family_fast_path_equiv_slow_path`) -/
def familyGroupsSlow (C : Calc) (sortTs : List BRow → List BRow) (l : List BRow) : List (Int × List BRow) :=
  match l with
  | [] => []
  | _ => (runs (inFamilyOf C) (sortTs l)).map (fun g => (C.famTime g.1.row.ts, g.1 :: g.2))

/-- HasNextFamily's scan exactly as the code does it, also for a calculator whose range of a timestamp
does NOT contain that timestamp: the scan starts at the group's first row, `groupEnd` advances while
`timeRange.Contains`; when even the first row is outside (`groupStart == groupEnd`) HasNextFamily
returns false and nothing of the remaining rows is ever handed out. Fuel = number of rows left. -/
def familyScanF (C : Calc) : Nat → List BRow → List (Int × List BRow)
  | 0, _ => []
  | _ + 1, [] => []
  | n + 1, a :: rest =>
    if inFamilyOf C a a then
      (C.famTime a.row.ts, a :: rest.takeWhile (inFamilyOf C a)) :: familyScanF C n (rest.dropWhile (inFamilyOf C a))
    else []

def familyScan (C : Calc) (l : List BRow) : List (Int × List BRow) := familyScanF C l.length l

/-- the family iterator as the code runs it for ANY calculator (fast path: rows 1.. inside the first
row's range — the first row itself is not tested; slow path: sort, then `familyScan`) -/
def familyGroupsCode (C : Calc) (sortTs : List BRow → List BRow) : List BRow → List (Int × List BRow)
  | [] => []
  | a :: rest =>
    if rest.all (inFamilyOf C a) then [(C.famTime a.row.ts, a :: rest)]
    else familyScan C (sortTs (a :: rest))

structure Group where
  shard : Nat
  famTime : Int
  rows : List BRow
  deriving Repr

/-- databaseChannel.Write after eviction: shard groups in the order of the sorted batch, family
groups inside. -/
def route (jump : Nat → Nat → Nat) (C : Calc) (sortShard sortTs : List BRow → List BRow)
    (n : Nat) (rows : List BRow) : List Group :=
  (runs sameShard (sortShard (assignShards jump n rows))).flatMap (fun g =>
    (familyGroups C sortTs (g.1 :: g.2)).map (fun fg => ⟨g.1.shard, fg.1, fg.2⟩))

/-- databaseChannel.Write, the `getChannelByShardID` branch: the groups are formed with the CONFIGURED
shard count; a group whose shard has no channel (channels are created one at a time) is skipped
(`err = errChannelNotFound; continue`); the other groups are handed to their channels unchanged, and
each successful `familyChannel.Write` assigns its nil result to the same `err`. So the returned error
is the outcome of the LAST group: channel-not-found is reported iff the last shard group is absent.
Result: (delivered groups, channel-not-found returned). -/
def deliver (present : Nat → Bool) (gs : List Group) : List Group × Bool :=
  (gs.filter (fun g => present g.shard), gs.foldl (fun _ g => !present g.shard) false)

/-- familyChannel.Write: BrokerRow.WriteTo writes nothing for a marked row. -/
def written (g : Group) : List BRow := g.rows.filter (fun r => !r.oor)

def lessShard (a b : BRow) : Bool := decide (a.shard < b.shard)
def lessTs (a b : BRow) : Bool := decide (a.row.ts < b.row.ts)

end LinVerif.Route
