/-
C04 — the locating lines of `family.rollup()` under an arbitrary `time.Local` (core Lean only).

`Model/Rollup.lean`'s `locate` is the UTC instance over day numbers (`Cal`). Here the same four lines
(`CalcFamilyStartTime` of the source calculator, then `CalcSegmentTime`, `CalcFamily`,
`CalcFamilyStartTime` of the target calculator) are written over C13's zone model
(`Model/IntervalZone.lean`: a zone is the two offset lookups Go's `time.Unix(..)` /
`time.Date(.., time.Local)` perform), so that local days of 23 / 24 / 25 hours are inside the model.

`(*month).CalcFamily` has two shapes, selected by the regenerated fact
`Generated.C04.monthFamilyIsCalendarDay`:
  * calendar (lindb): `time.Unix(timestamp/1000, 0).Day()`;
  * arithmetic: `int((timestamp - segmentTime)/OneDay) + 1` (what `day.CalcFamily` does for hours).
They agree in every fixed-offset zone and differ after a clock change (Props/C04Zone.lean).
-/
import LinVerif.Model.Rollup
import LinVerif.Model.IntervalZone

namespace LinVerif.Rollup
open LinVerif.Interval (Zone Calc civilOfMsZ calcSegmentTimeZ calcFamilyZ calcFamilyStartTimeZ calcFamilyEndTimeZ)

/-- the calculator of an interval type -/
def IType.toCalc : IType → Calc
  | .day => .day
  | .month => .month
  | .year => .year

/-- `(*month).CalcFamily(timestamp, segmentTime)` in its two shapes -/
def monthFamilyZ (byCalendar : Bool) (z : Zone) (t seg : Int) : Int :=
  if byCalendar then (civilOfMsZ z t).2.2 else Int.tdiv (t - seg) oneDay + 1

/-- `CalcFamily(timestamp, segmentTime)` of the calculator of type `ty` in zone `z` -/
def familyZ (byCalendar : Bool) (z : Zone) : IType → Int → Int → Int
  | .day, t, seg => calcFamilyZ z .day t seg
  | .month, t, seg => monthFamilyZ byCalendar z t seg
  | .year, t, seg => calcFamilyZ z .year t seg

/-- the locating part of the loop body of `family.rollup()` with `time.Local = z`;
`srcSegTime` = `ParseSegmentTime(segmentName)`, `fTime` = `Atoi(f.Name())` -/
def locateZ (byCalendar : Bool) (z : Zone) (src tgt srcSegTime fTime : Int) : Loc :=
  let fst := calcFamilyStartTimeZ z (itype src).toCalc srcSegTime fTime
  let tSeg := calcSegmentTimeZ z (itype tgt).toCalc fst
  let tFam := familyZ byCalendar z (itype tgt) fst tSeg
  let fS := calcFamilyStartTimeZ z (itype tgt).toCalc tSeg tFam
  { srcFamStart := fst, tSegTime := tSeg, tFamily := tFam, tFamStart := fS }

/-- `newRollup(sourceInterval, targetInterval, familyStartTime, fSTime)` with `time.Local = z` -/
def mkRZ (byCalendar : Bool) (z : Zone) (src tgt srcSegTime fTime : Int) : R :=
  let l := locateZ byCalendar z src tgt srcSegTime fTime
  { source := src, target := tgt, sourceFTime := l.srcFamStart, targetFTime := l.tFamStart }

/-- `ParseSegmentTime("yyyymmdd")` of the day store of wall-clock day number `n`: the instant of that
local midnight (`time.ParseInLocation` resolves it as `time.Date` does) -/
def segOfDayZ (z : Zone) (n : Int) : Int := (n * 86400 - z.offLocal (n * 86400)) * 1000

/-- what the timestamp itself says (the reading of C04's "the target family and segment that contain
those timestamps"): segment, family and family start the TARGET calculator gives for `ts`, and the end of
that family -/
def placeOfTsZ (byCalendar : Bool) (z : Zone) (tgt ts : Int) : Int × Int × Int × Int :=
  let seg := calcSegmentTimeZ z (itype tgt).toCalc ts
  let fam := familyZ byCalendar z (itype tgt) ts seg
  let st := calcFamilyStartTimeZ z (itype tgt).toCalc seg fam
  (seg, fam, st, calcFamilyEndTimeZ z (itype tgt).toCalc st)

end LinVerif.Rollup
