/-
Model of the broker side of a metadata (suggest) query: query/context/metadata_context.go
MetadataContext.handleResponse + query/context/task_context.go baseTaskContext (addRequests,
Complete, tryClose), core Lean only.

A query over `n` target nodes expects `n` responses. A leaf answers (processMetadataSuggest's
callback) either with a payload (JSON SuggestResult; "not found" = no values) or, for a real error,
with `ErrMsg` and NO payload. `handleResponse` as it is does not look at `ErrMsg`: it decodes the
payload and records the decode error — an absent (or broken) payload does not decode, so every real
error makes the query fail. `tryClose` completes the query (closes `doneCh`, once: CAS) when all
responses are in or an error is recorded; responses for a completed query find no task any more.
-/
namespace LinVerif.BrokerMeta

/-- a leaf's answer -/
inductive Resp where
  | ok (vals : List String)   -- payload decodes; not found / empty = `ok []`
  | err                       -- real error: ErrMsg set, no payload
  | bad                       -- undecodable payload
  deriving DecidableEq, Repr

def Resp.isErr : Resp → Bool
  | .ok _ => false
  | _ => true

def Resp.vals : Resp → List String
  | .ok vs => vs
  | _ => []

structure Ctx where
  expect : Int        -- expectResults
  tolerant : Int      -- tolerantNotFounds (not used by the metadata context as it is)
  err : Bool          -- ctx.err != nil
  results : List String
  completed : Bool    -- the `completed` CAS
  closes : Nat        -- how often doneCh was closed (ghost)
  deriving DecidableEq, Repr

/-- after MakePlan/addRequests for `n` targets -/
def init (n : Nat) : Ctx := ⟨n, n, false, [], false, 0⟩

/-- `tryClose` -/
def tryClose (c : Ctx) : Ctx :=
  if (c.expect ≤ 0 || c.err) && !c.completed then { c with completed := true, closes := c.closes + 1 } else c

/-- `Complete(err)`: the pipeline's completion callback (after the PhysicalPlan / TaskSend stages);
`sendFailed`: some request could not be sent, the pipeline carries that error -/
def complete (c : Ctx) (sendFailed : Bool) : Ctx :=
  tryClose { c with err := c.err || sendFailed }

/-- `handleResponse`. `toleratesErrMsg` is NOT the source as it is: an `ErrMsg` branch that
decrements `tolerantNotFounds` and ignores the error while that counter stays positive. -/
def handle (toleratesErrMsg : Bool) (c : Ctx) (r : Resp) : Ctx :=
  let c := { c with expect := c.expect - 1 }
  match r with
  | .ok vs => { c with results := c.results ++ vs }
  | .bad => { c with err := true }
  | .err =>
    if toleratesErrMsg then
      let c := { c with tolerant := c.tolerant - 1 }
      if c.tolerant > 0 then c else { c with err := true }
    else { c with err := true }   -- JSONUnmarshal of the absent payload fails

/-- TaskManager.Receive → HandleResponse = handleResponse; tryClose. A completed query's task is gone. -/
def deliver (toleratesErrMsg : Bool) (c : Ctx) (r : Resp) : Ctx :=
  if c.completed then c else tryClose (handle toleratesErrMsg c r)

/-- the whole query: plan + sends, then the responses in their arrival order -/
def run (toleratesErrMsg : Bool) (n : Nat) (sendFailed : Bool) (rs : List Resp) : Ctx :=
  rs.foldl (deliver toleratesErrMsg) (complete (init n) sendFailed)

/-- `MetadataContext.handleResponse` as rendered by the fact extractor -/
def handleResponseOrder : List String :=
  ["ctx.expectResults--", "encoding.JSONUnmarshal(resp.Payload, result)", "if err != nil", "then:ctx.err = err",
   "ctx.results = append(ctx.results, result.Values...)"]

/-- `baseTaskContext.tryClose` -/
def tryCloseOrder : List String :=
  ["if ctx.expectResults <= 0 || ctx.err != nil", "then:if ctx.completed.CompareAndSwap(false, true)",
   "then:then:close(ctx.doneCh)"]

end LinVerif.BrokerMeta
