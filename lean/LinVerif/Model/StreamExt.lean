/-
The rest of pkg/stream/writer.go and reader.go, plus two small exported helpers of pkg/encoding
(core Lean only): signed fixed-width puts/reads (`PutInt16/32/64`, `ReadInt16/32/64`), `Len`,
`BufferWriter.SwitchBuffer`, `SliceWriter` (`NewSliceWriter`, `Error`, `Bytes`), `Reader.SeekStart`,
`encoding.DecodeTSDTime`, `encoding.ByteSlice2Uint32`; and the typed put list used to state the
"any sequence of puts reads back" theorem.
-/
import LinVerif.Model.Stream
import LinVerif.Model.FixedOffset

namespace LinVerif.Stream
open LinVerif.Varint

/-- `uint16(x)` for a signed Go integer -/
def toU16 (x : Int) : Nat := (x % 65536).toNat
/-- `int16(u)` -/
def toI16 (x : Int) : Int := (x + 32768) % 65536 - 32768

/-- `PutInt16(v)` = `PutUInt16(uint16(v))` -/
def Writer.putInt16 (w : Writer) (v : Int) : Writer := w.putUint16 (toU16 v)
/-- `PutInt32(v)` = `PutUint32(uint32(v))` -/
def Writer.putInt32 (w : Writer) (v : Int) : Writer := w.putUint32 (toU32 v)
/-- `PutInt64(v)` = `PutUint64(uint64(v))` -/
def Writer.putInt64 (w : Writer) (v : Int) : Writer := w.putUint64 (toU64 v)
/-- `Len()` -/
def Writer.len (w : Writer) : Nat := w.buf.length
/-- `SwitchBuffer(newBuffer)`: later puts go to (and `Bytes()` shows) the new buffer, whatever it holds -/
def Writer.switchBuffer (_w : Writer) (newBuf : List Nat) : Writer := ⟨newBuf⟩

/-- `ReadInt16()` = `int16(ReadUint16())` -/
def Reader.readInt16 (r : Reader) : Int × Reader := let (v, r1) := r.readUintN 2; (toI16 v, r1)
/-- `ReadInt32()` = `int32(ReadUint32())` -/
def Reader.readInt32 (r : Reader) : Int × Reader := let (v, r1) := r.readUintN 4; (toI32 v, r1)
/-- `ReadInt64()` = `int64(ReadUint64())` -/
def Reader.readInt64 (r : Reader) : Int × Reader := let (v, r1) := r.readUintN 8; (toI64 v, r1)
/-- `SeekStart()` = `ReadAt(0)` -/
def Reader.seekStart (r : Reader) : Reader := r.readAt 0

/-- `SliceWriter`: a writer over the caller's `buffer[:0]`; `maxLen = len(buffer)` -/
structure SliceWriter where
  w : Writer
  maxLen : Nat
  deriving DecidableEq, Repr

/-- `NewSliceWriter(buffer)` -/
def SliceWriter.new (maxLen : Nat) : SliceWriter := ⟨Writer.fresh, maxLen⟩
/-- `Error()`: "write longer than fixed size" (the inner `err` of `bytes.Buffer.Write` is always nil) -/
def SliceWriter.error (s : SliceWriter) : Bool := decide (s.w.buf.length > s.maxLen)
/-- the caller's array (`len = cap = maxLen`, content `init` before) as long as nothing overflowed: the puts
landed in it; after an overflow `bytes.Buffer` has moved to an array of its own (`none`: not observed) -/
def SliceWriter.backing (s : SliceWriter) (init : List Nat) : Option (List Nat) :=
  if s.error then none else some (s.w.buf ++ init.drop s.w.buf.length)

/-- one put of the writer, with the value it carries -/
inductive Put
  | byte (b : Nat) | bytes (bs : List Nat)
  | u16 (v : Nat) | u32 (v : Nat) | u64 (v : Nat)
  | i16 (i : Int) | i32 (i : Int) | i64 (i : Int)
  | uv (v : Nat) | sv (i : Int)
  deriving DecidableEq, Repr

/-- the value is representable in the put's Go type -/
def Put.ok : Put → Prop
  | .byte b => b < 256
  | .bytes _ => True
  | .u16 v => v < 65536
  | .u32 v => v < two32
  | .u64 v => v < two64
  | .i16 i => -32768 ≤ i ∧ i < 32768
  | .i32 i => -(two31 : Int) ≤ i ∧ i < (two31 : Int)
  | .i64 i => -(two63 : Int) ≤ i ∧ i < (two63 : Int)
  | .uv v => v < two64
  | .sv i => -(two63 : Int) ≤ i ∧ i < (two63 : Int)

/-- the bytes a put appends -/
def Put.enc : Put → List Nat
  | .byte b => [b]
  | .bytes bs => bs
  | .u16 v => le16 v
  | .u32 v => le32 v
  | .u64 v => le64 v
  | .i16 i => le16 (toU16 i)
  | .i32 i => le32 (toU32 i)
  | .i64 i => le64 (toU64 i)
  | .uv v => putUvarint v
  | .sv i => putVarint i

def Writer.put (w : Writer) : Put → Writer
  | .byte b => w.putByte b
  | .bytes bs => w.putBytes bs
  | .u16 v => w.putUint16 v
  | .u32 v => w.putUint32 v
  | .u64 v => w.putUint64 v
  | .i16 i => w.putInt16 i
  | .i32 i => w.putInt32 i
  | .i64 i => w.putInt64 i
  | .uv v => w.putUvarint v
  | .sv i => w.putVarint i

/-- the read of the same shape; the result is re-wrapped in the put constructor so that it can be compared -/
def Reader.readLike (r : Reader) : Put → Put × Reader
  | .byte _ => let (b, r1) := r.readByte; (.byte b, r1)
  | .bytes bs => let (x, r1) := r.readSlice bs.length; (.bytes x, r1)
  | .u16 _ => let (v, r1) := r.readUintN 2; (.u16 v, r1)
  | .u32 _ => let (v, r1) := r.readUintN 4; (.u32 v, r1)
  | .u64 _ => let (v, r1) := r.readUintN 8; (.u64 v, r1)
  | .i16 _ => let (v, r1) := r.readInt16; (.i16 v, r1)
  | .i32 _ => let (v, r1) := r.readInt32; (.i32 v, r1)
  | .i64 _ => let (v, r1) := r.readInt64; (.i64 v, r1)
  | .uv _ => let (v, r1) := r.readUvarint64; (.uv v, r1)
  | .sv _ => let (v, r1) := r.readVarint64; (.sv v, r1)

/-- any list of puts through a `SliceWriter` -/
def SliceWriter.puts (s : SliceWriter) (ps : List Put) : SliceWriter := { s with w := ps.foldl Writer.put s.w }

/-- read a whole list of shapes in order -/
def Reader.readAllLike (r : Reader) : List Put → List Put × Reader
  | [] => ([], r)
  | p :: t =>
    let (v, r1) := r.readLike p
    let (vs, r2) := r1.readAllLike t
    (v :: vs, r2)

end LinVerif.Stream

namespace LinVerif.Tsd

/-- `encoding.DecodeTSDTime(data)`: the two little-endian `uint16` in front of a block; `none` = the slice
expressions `data[0:2]` / `data[2:4]` panic -/
def decodeTSDTime (data : List Nat) : Option (Nat × Nat) :=
  if data.length < 4 then none else some (rd16 data 0, rd16 data 2)

end LinVerif.Tsd

namespace LinVerif.FixedOffset
open LinVerif.Varint

/-- `encoding.ByteSlice2Uint32(slice)`: `copy` into a zeroed 4-byte buffer, little endian -/
def byteSlice2Uint32 (bs : List Nat) : Nat :=
  bs.getD 0 0 + 256 * bs.getD 1 0 + 65536 * bs.getD 2 0 + 16777216 * bs.getD 3 0

/-- `FixedOffsetEncoder.Write(writer)`: the `writer.Write` calls in order — width flag, size, one cell per value -/
def Enc.chunks (e : Enc) : List (List Nat) :=
  if e.values = [] then []
  else [[e.width], putUvarint e.values.length] ++ e.values.map (fun v => leBytes e.width (toU32 v))

/-- `Write(writer)` against a writer that accepts `accept` calls and fails the next one: the chunks it took and
whether `Write` returns an error (it returns at the FIRST failing call) -/
def Enc.writeTo (e : Enc) (accept : Nat) : List (List Nat) × Bool :=
  (e.chunks.take accept, decide (accept < e.chunks.length))

end LinVerif.FixedOffset
