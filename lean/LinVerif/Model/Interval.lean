/-
Model of lindb's time bucketing (core Lean only):

  pkg/timeutil/interval_calculator.go   day / month / year calculators
  pkg/timeutil/interval.go              Interval.Type, Calculator, CalcSlotRange, CalcQueryInterval
  pkg/timeutil/time.go                  Truncate, CalIntervalRatio
  pkg/timeutil/time_range.go            TimeRange.Contains / Overlap / Intersect
  pkg/option/tsdb.go                    DatabaseOption.FindMatchSmallestInterval
  query/context/utils.go                calcTimeRangeAndInterval
  tsdb/segment.go                       family range of GetOrCreateDataFamily / GetDataFamilies
  series/metric/row_broker.go           timeRangeOfTimestamp

Timestamps are `int64` milliseconds; the model uses unbounded `Int` (no overflow is modelled).
Go's `/` and `%` on integers truncate toward zero: `Int.tdiv` / `Int.tmod`.
The time zone is UTC (`time.Local = time.UTC`): `time.Unix(ts/1000, 0)` is the civil date of
`floor((ts/1000) / 86400)` and `time.Date(y, m, d, 0,0,0,0, UTC).UnixNano()/1000000` is
`dateDays y m d * 86 400 000` (see Model/Calendar.lean).
-/
import LinVerif.Model.Calendar

namespace LinVerif.Interval
open LinVerif.Calendar

/-! ### constants (github.com/lindb/common/pkg/timeutil) -/
def oneSecond : Int := 1000
def oneMinute : Int := 60 * oneSecond
def oneHour : Int := 60 * oneMinute
def oneDay : Int := 24 * oneHour
def oneWeek : Int := 7 * oneDay
def oneMonth : Int := 30 * oneDay
def oneYear : Int := 365 * oneDay

/-- `t := time.Unix(timestamp/1000, 0)`; `(t.Year(), t.Month(), t.Day())` -/
def civilOfMs (t : Int) : Int × Int × Int := civilFromDays ((Int.tdiv t 1000) / 86400)

/-- `time.Date(y, m, d, 0, 0, 0, 0, time.Local).UnixNano() / 1000000` -/
def dateMs (y m d : Int) : Int := dateDays y m d * oneDay

/-- interval type / calculator (`IntervalType`, `Interval.Calculator`) -/
inductive Calc where
  | day | month | year
  deriving DecidableEq, Repr

/-- `Interval.Type()` (and `Interval.Calculator()`, which switches on it) -/
def intervalType (i : Int) : Calc :=
  if i ≥ oneHour then .year
  else if i ≥ 5 * oneMinute then .month
  else .day

/-- `CalcSegmentTime` -/
def calcSegmentTime : Calc → Int → Int
  | .day, t => let c := civilOfMs t; dateMs c.1 c.2.1 c.2.2
  | .month, t => let c := civilOfMs t; dateMs c.1 c.2.1 1
  | .year, t => let c := civilOfMs t; dateMs c.1 1 1

/-- `CalcFamily(timestamp, segmentTime)` -/
def calcFamily : Calc → Int → Int → Int
  | .day, t, seg => Int.tdiv (t - seg) oneHour
  | .month, t, _ => (civilOfMs t).2.2
  | .year, t, _ => (civilOfMs t).2.1

/-- `CalcFamilyStartTime(segmentTime, familyTime)` -/
def calcFamilyStartTime : Calc → Int → Int → Int
  | .day, seg, f => seg + f * oneHour
  | .month, seg, f => let c := civilOfMs seg; dateMs c.1 c.2.1 f
  | .year, seg, f => let c := civilOfMs seg; dateMs c.1 f 1

/-- `CalcFamilyEndTime(familyStartTime)` -/
def calcFamilyEndTime : Calc → Int → Int
  | .day, s => s + oneHour - 1
  | .month, s => let c := civilOfMs s; dateMs c.1 c.2.1 (c.2.2 + 1) - 1
  | .year, s => let c := civilOfMs s; dateMs c.1 (c.2.1 + 1) 1 - 1

/-- `CalcFamilyTime(timestamp)` -/
def calcFamilyTime (c : Calc) (t : Int) : Int :=
  let segmentTime := calcSegmentTime c t
  let family := calcFamily c t segmentTime
  calcFamilyStartTime c segmentTime family

/-- `CalcSlot(timestamp, baseTime, interval)`; `none` = integer division by zero (Go panics) -/
def calcSlot (c : Calc) (t base i : Int) : Option Int :=
  if i = 0 then none else
  match c with
  | .day => some (Int.tdiv (Int.tmod (t - base) oneHour) i)
  | .month => some (Int.tdiv (Int.tmod (t - base) oneDay) i)
  | .year => some (Int.tdiv (t - base) i)

/-- the slot rule of the month calculator: current code takes the offset `% OneDay`
(`modDay`); `fixes/C13-month-slot-quotient.patch` uses the plain quotient like the year calculator -/
inductive SlotVariant where
  | modDay | quotient
  deriving DecidableEq, Repr

/-- variant selected by the source text of `month.CalcSlot`'s return expression (regenerated fact
`Generated.C13.monthCalcSlotExpr`); `none` = unknown code -/
def slotVariantOf : String → Option SlotVariant
  | "int(((timestamp - baseTime) % timeutil.OneDay) / interval)" => some .modDay
  | "int((timestamp - baseTime) / interval)" => some .quotient
  | _ => none

/-- `CalcSlot` in the given variant of the month calculator (day and year calculators unchanged) -/
def calcSlotV (v : SlotVariant) (c : Calc) (t base i : Int) : Option Int :=
  match v, c with
  | .quotient, .month => if i = 0 then none else some (Int.tdiv (t - base) i)
  | _, _ => calcSlot c t base i

/-- `CalcTimestamp(startTime, slot, interval)` -/
def calcTimestamp (start slot i : Int) : Int := i * slot + start

/-- digits of `n ≥ 0`, left-padded with `0` to width `w` (Go layouts `2006`, `01`, `02`) -/
def pad (w : Nat) (n : Int) : String :=
  let s := toString n.toNat
  String.ofList (List.replicate (w - s.length) '0') ++ s

/-- `GetSegment(timestamp)`: layouts `20060102` / `200601` / `2006` (years 0..9999) -/
def segmentName (c : Calc) (t : Int) : String :=
  let d := civilOfMs t
  match c with
  | .day => pad 4 d.1 ++ pad 2 d.2.1 ++ pad 2 d.2.2
  | .month => pad 4 d.1 ++ pad 2 d.2.1
  | .year => pad 4 d.1

/-! ### time ranges (time_range.go) -/
structure TimeRange where
  start : Int
  stop : Int
  deriving DecidableEq, Repr

def TimeRange.contains (r : TimeRange) (t : Int) : Bool := decide (t ≥ r.start) && decide (t ≤ r.stop)
def TimeRange.overlap (r o : TimeRange) : Bool := r.contains o.start || o.contains r.start
def TimeRange.intersect (r o : TimeRange) : TimeRange :=
  { start := if o.start > r.start then o.start else r.start
    stop := if o.stop < r.stop then o.stop else r.stop }

/-- the family time range built by `segment.initDataFamily` for the family of `t` in the segment
with base time `base` (`GetOrCreateDataFamily`; `none` = "segment base time not match") -/
def segmentFamilyRange (c : Calc) (base t : Int) : Option TimeRange :=
  if calcSegmentTime c t ≠ base then none else
  let familyTime := calcFamily c t base
  let familyStartTime := calcFamilyStartTime c base familyTime
  some { start := familyStartTime, stop := calcFamilyEndTime c familyStartTime }

/-- `BrokerBatchShardFamilyIterator.timeRangeOfTimestamp` -/
def timeRangeOfTimestamp (c : Calc) (t : Int) : TimeRange :=
  let segmentTime := calcSegmentTime c t
  let family := calcFamily c t segmentTime
  let familyStartTime := calcFamilyStartTime c segmentTime family
  { start := familyStartTime, stop := calcFamilyEndTime c familyStartTime }

/-- how `segment.GetDataFamilies` truncates the query range to family start times -/
inductive LookupVariant where
  /-- before fix 8adefd6: `CalcFamilyStartTime(s.baseTime, CalcFamily(ts, s.baseTime))`, i.e. the
  family *number* of the query's start/end re-applied to this segment's base time -/
  | perSegment
  /-- current code: `calc.CalcFamilyTime(ts)`, the family start in the timestamp's own segment -/
  | ownSegment
  deriving DecidableEq, Repr

/-- the variant selected by the source text of the two range expressions (regenerated fact
`Generated.C13.gdfRangeExprs`); `none` = unknown code -/
def lookupVariantOf : List String → Option LookupVariant
  | ["calc.CalcFamilyTime(timeRange.Start)", "calc.CalcFamilyTime(timeRange.End)"] => some .ownSegment
  | ["calc.CalcFamilyStartTime(s.baseTime, calc.CalcFamily(timeRange.Start, s.baseTime))",
     "calc.CalcFamilyStartTime(s.baseTime, calc.CalcFamily(timeRange.End, s.baseTime))"] => some .perSegment
  | _ => none

/-- `familyQueryTimeRange` of `segment.GetDataFamilies(timeRange)` in the segment with base time `base` -/
def familyQueryTimeRange (v : LookupVariant) (c : Calc) (base : Int) (q : TimeRange) : TimeRange :=
  match v with
  | .perSegment =>
    { start := calcFamilyStartTime c base (calcFamily c q.start base)
      stop := calcFamilyStartTime c base (calcFamily c q.stop base) }
  | .ownSegment =>
    { start := calcFamilyTime c q.start, stop := calcFamilyTime c q.stop }

/-- `intervalSegment.GetDataFamilies(q)` → `segment.GetDataFamilies` over the families that exist
for the timestamps `ts` (one family per distinct `(segment, family)`; no segment expired):
a segment is visited when its base time lies in `[CalcSegmentTime(q.start), q.stop]`
(`segmentQueryTimeRange.Contains(segmentTime)`), it is asked for
`segmentQueryTimeRange.Intersect(q)`, and inside it a family is returned when
`familyQueryTimeRange.Overlap(family.TimeRange())`.
Result: the start times of the returned families (in `ts` order, with repetitions). -/
def getDataFamilies (v : LookupVariant) (c : Calc) (q : TimeRange) (ts : List Int) : List Int :=
  let segQ : TimeRange := { start := calcSegmentTime c q.start, stop := q.stop }
  let fq := segQ.intersect q
  (ts.filter fun t =>
      let base := calcSegmentTime c t
      segQ.contains base && (familyQueryTimeRange v c base fq).overlap (timeRangeOfTimestamp c t)).map
    fun t => (timeRangeOfTimestamp c t).start

/-- `Interval.CalcSlotRange(familyTime, timeRange)`; the `uint16(...)` conversions keep the low
16 bits. `none` = division by zero. -/
def calcSlotRange (i familyTime : Int) (q : TimeRange) : Option (Int × Int) :=
  let c := intervalType i
  let storage : TimeRange := { start := familyTime, stop := calcFamilyEndTime c familyTime }
  let rs := q.intersect storage
  match calcSlot c rs.start familyTime i, calcSlot c rs.stop familyTime i with
  | some a, some b => some (a % 65536, b % 65536)
  | _, _ => none

/-- `Interval.CalcSlotRange` with the month calculator's slot rule in variant `v`
(`calcSlotRangeV .modDay = calcSlotRange`) -/
def calcSlotRangeV (v : SlotVariant) (i familyTime : Int) (q : TimeRange) : Option (Int × Int) :=
  let c := intervalType i
  let storage : TimeRange := { start := familyTime, stop := calcFamilyEndTime c familyTime }
  let rs := q.intersect storage
  match calcSlotV v c rs.start familyTime i, calcSlotV v c rs.stop familyTime i with
  | some a, some b => some (a % 65536, b % 65536)
  | _, _ => none

/-! ### broker row grouping (series/metric/row_broker.go, one shard) -/

/-- rows (timestamps) sorted ascending: `sort.Sort(familySortedRows)`; the result of sorting
timestamps does not depend on the algorithm -/
def insertAsc (x : Int) : List Int → List Int
  | [] => [x]
  | y :: r => if x ≤ y then x :: y :: r else y :: insertAsc x r

def sortAsc (l : List Int) : List Int := l.foldr insertAsc []

/-- `HasNextFamily`/`NextFamily` loop over the sorted rows: the group of the first remaining row is
the maximal prefix inside `timeRangeOfTimestamp(first)`, handed out under
`familyTimeOfTimestamp(first)` (`fuel` ≥ number of rows). When the first row is outside its own
range the Go loop returns `groupStart < groupEnd = false` and the iteration ends: mirrored by
returning no further group. -/
def groupSorted (c : Calc) : Nat → List Int → List (Int × List Int)
  | 0, _ => []
  | _, [] => []
  | fuel + 1, t :: rest =>
    let r := timeRangeOfTimestamp c t
    let run := (t :: rest).takeWhile r.contains
    if run.isEmpty then [] else
    (calcFamilyTime c t, run) :: groupSorted c fuel ((t :: rest).dropWhile r.contains)

/-- `BrokerBatchShardFamilyIterator.reset` + iteration: fast path when every row lies in the family
range of the first row (rows stay in batch order), otherwise sort by timestamp and group -/
def groupFamilies (c : Calc) (ts : List Int) : List (Int × List Int) :=
  match ts with
  | [] => []
  | t :: rest =>
    if rest.all (timeRangeOfTimestamp c t).contains then [(calcFamilyTime c t, t :: rest)]
    else groupSorted c (t :: rest).length (sortAsc (t :: rest))

/-! ### rollup relation (kv/family_rollup.go) -/

/-- `newRollup(source, target, familyStartTime, fSTime)` as `family.rollup` builds it: the target
family start is `CalcFamilyStartTime(CalcSegmentTime(f), CalcFamily(f, ..))` of the *target*
interval's calculator at the source family start `f` -/
def rollupTargetFamilyTime (target sourceFTime : Int) : Int :=
  calcFamilyTime (intervalType target) sourceFTime

/-- `rollup.GetTimestamp(slot)` -/
def rollupGetTimestamp (source sourceFTime slot : Int) : Int := sourceFTime + slot * source

/-- `rollup.CalcSlot(timestamp)` (`uint16(...)` keeps the low 16 bits); `none` = division by zero -/
def rollupCalcSlot (target targetFTime t : Int) : Option Int :=
  (calcSlot (intervalType target) t targetFTime target).map (· % 65536)

/-- `rollup.BaseSlot()` -/
def rollupBaseSlot (target sourceFTime targetFTime : Int) : Option Int :=
  rollupCalcSlot target targetFTime sourceFTime

/-- `rollup.IntervalRatio()`; `none` = division by zero -/
def rollupIntervalRatio (source target : Int) : Option Int :=
  if source = 0 then none else some (Int.tdiv target source % 65536)

/-! ### query planning -/

/-- `Truncate(timestamp, interval)`; `none` = division by zero -/
def truncate (t i : Int) : Option Int := if i = 0 then none else some (Int.tdiv t i * i)

/-- `CalIntervalRatio(queryInterval, storageInterval)` -/
def calIntervalRatio (q s : Int) : Int :=
  if s = 0 ∨ q < s then 1 else Int.tdiv q s

/-- the `case diff < bound: return value` rows of `CalcQueryInterval` after the first one -/
def queryLadder : List (Int × Int) :=
  [ (3 * oneHour, 10 * oneSecond), (6 * oneHour, 30 * oneSecond), (12 * oneHour, oneMinute),
    (oneDay, 2 * oneMinute), (2 * oneDay, 5 * oneMinute), (7 * oneDay, 10 * oneMinute),
    (oneMonth, oneHour), (2 * oneMonth, 4 * oneHour), (3 * oneMonth, 12 * oneHour) ]

/-- first row whose bound exceeds `diff`, else the default -/
def ladderLookup : List (Int × Int) → Int → Int → Int
  | [], dflt, _ => dflt
  | (b, v) :: r, dflt, diff => if diff < b then v else ladderLookup r dflt diff

/-- `CalcQueryInterval(queryTimeRange, queryInterval)` -/
def calcQueryInterval (q : TimeRange) (queryInterval : Int) : Int :=
  let diff := q.stop - q.start
  if diff < oneHour then queryInterval else ladderLookup queryLadder oneDay diff

/-- insertion into a descending list (the order `sort.Slice(.., a > b)` produces; the result of
sorting integers is independent of the algorithm) -/
def insertDesc (x : Int) : List Int → List Int
  | [] => [x]
  | y :: r => if x ≥ y then x :: y :: r else y :: insertDesc x r

def sortDesc (l : List Int) : List Int := l.foldr insertDesc []

/-- the loop of `FindMatchSmallestInterval`: first element `≤ interval` -/
def firstLE (interval : Int) : List Int → Option Int
  | [] => none
  | s :: r => if interval ≥ s then some s else firstLE interval r

/-- `DatabaseOption.FindMatchSmallestInterval(interval)`; `none` = index out of range on an
empty interval list (Go panics) -/
def findMatchSmallestInterval (ivs : List Int) (interval : Int) : Option Int :=
  match ivs with
  | [] => none
  | i0 :: _ =>
    match firstLE interval (sortDesc ivs) with
    | some s => some s
    | none => some i0

/-- the fields of `stmt.Query` that `calcTimeRangeAndInterval` reads -/
structure Stmt where
  interval : Int
  range : TimeRange
  autoGroupByTime : Bool
  deriving Repr

/-- the fields it writes -/
structure Plan where
  range : TimeRange
  storageInterval : Int
  interval : Int
  intervalRatio : Int
  deriving DecidableEq, Repr

/-- `calcTimeRangeAndInterval(statement, cfg)` with `cfg.Option.Intervals = ivs` (interval values
in option order); `none` = the Go code panics (empty interval list, or a zero storage interval
reaching `Truncate`) -/
def calcTimeRangeAndInterval (st : Stmt) (ivs : List Int) : Option Plan :=
  match ivs with
  | [] => none
  | i0 :: _ =>
    let interval := if st.interval ≤ 0 then i0 else st.interval
    let interval := calcQueryInterval st.range interval
    match findMatchSmallestInterval ivs interval with
    | none => none
    | some storageInterval =>
      match truncate st.range.start storageInterval, truncate st.range.stop storageInterval with
      | some s, some e =>
        let stInterval := if st.autoGroupByTime then (e - s) + storageInterval else st.interval
        let interval := if interval < stInterval then stInterval else interval
        let intervalRatio := calIntervalRatio interval storageInterval
        some { range := { start := s, stop := e }
               storageInterval := storageInterval
               interval := storageInterval * intervalRatio
               intervalRatio := intervalRatio }
      | _, _ => none


/-! ### interval ladders (pkg/option/tsdb.go) -/

/-- loop of `Intervals.IsValid()`: `seen` = the types in `intervalMap`; `false` = "duplicate
interval type" error at the first interval whose type was seen before -/
def isValidFrom : List Calc → List Int → Bool
  | _, [] => true
  | seen, i :: r => if seen.contains (intervalType i) then false else isValidFrom (intervalType i :: seen) r

/-- `Intervals.IsValid() == nil` -/
def ladderValid (ivs : List Int) : Bool := isValidFrom [] ivs

/-- result of `DatabaseOption.Validate()` for an option with empty `Ahead`/`Behind` -/
inductive ValidateResult where
  | ok | empty | duplicate
  deriving DecidableEq, Repr

/-- `DatabaseOption.Validate()` (Ahead/Behind unset) -/
def validateOption (ivs : List Int) : ValidateResult :=
  if ivs.isEmpty then .empty else if ladderValid ivs then .ok else .duplicate

/-- last path element of `ShardIntervalSegmentPath(db, shard, interval)`: `interval.Type().String()` -/
def segmentDirName (i : Int) : String :=
  match intervalType i with
  | .day => "day" | .month => "month" | .year => "year"

/-- how the storage resolves an interval TYPE to one of the shard's interval segments
(`Shard.GetDataFamilies(intervalType, ..)`: the interval segment whose interval has that type) -/
def resolveByType (ivs : List Int) (ty : Calc) : Option Int := ivs.find? (fun i => intervalType i = ty)

/-! ### Interval.String / Interval.ValueOf (number and unit; digits are strconv's / fmt's) -/

inductive TimeUnit where
  | s | m | h | d | M | y
  deriving DecidableEq, Repr

def TimeUnit.ms : TimeUnit → Int
  | .s => oneSecond | .m => oneMinute | .h => oneHour | .d => oneDay | .M => oneMonth | .y => oneYear

/-- `Interval.String()`: the largest unit that divides the value with a positive quotient, else
seconds (truncated) -/
def intervalParts (v : Int) : Int × TimeUnit :=
  if Int.tmod v oneYear = 0 ∧ Int.tdiv v oneYear > 0 then (Int.tdiv v oneYear, .y)
  else if Int.tmod v oneMonth = 0 ∧ Int.tdiv v oneMonth > 0 then (Int.tdiv v oneMonth, .M)
  else if Int.tmod v oneDay = 0 ∧ Int.tdiv v oneDay > 0 then (Int.tdiv v oneDay, .d)
  else if Int.tmod v oneHour = 0 ∧ Int.tdiv v oneHour > 0 then (Int.tdiv v oneHour, .h)
  else if Int.tmod v oneMinute = 0 ∧ Int.tdiv v oneMinute > 0 then (Int.tdiv v oneMinute, .m)
  else (Int.tdiv v oneSecond, .s)

/-- `Interval.ValueOf` after the number and the unit suffix have been split: `value * unit` -/
def valueOfParts (p : Int × TimeUnit) : Int := p.1 * p.2.ms

def TimeUnit.suffix : TimeUnit → String
  | .s => "s" | .m => "m" | .h => "h" | .d => "d" | .M => "M" | .y => "y"

def intervalString (v : Int) : String := toString (intervalParts v).1 ++ (intervalParts v).2.suffix

/-- unit of a suffix character as `ValueOf`'s switch reads it -/
def unitOfSuffix : Char → Option TimeUnit
  | 's' | 'S' => some .s
  | 'm' => some .m
  | 'h' | 'H' => some .h
  | 'd' | 'D' => some .d
  | 'M' => some .M
  | 'y' | 'Y' => some .y
  | _ => none

/-- `Interval.ValueOf(str)`: blanks removed, at least two characters, known suffix, decimal int64
prefix (`strconv.ParseInt(.., 10, 64)`: optional sign, digits); `none` = `ErrUnknownInterval` -/
def valueOf (str : String) : Option Int :=
  let cs := str.toList.filter (· ≠ ' ')
  if cs.length ≤ 1 then none else
  match cs.getLast?.bind unitOfSuffix with
  | none => none
  | some u =>
    let pre := cs.dropLast
    let digits := match pre with
      | '+' :: r => r
      | '-' :: r => r
      | r => r
    if digits.isEmpty ∨ ¬ digits.all Char.isDigit then none else
    let n : Int := (digits.foldl (fun acc c => acc * 10 + (c.toNat - '0'.toNat)) 0 : Nat)
    let n := if pre.head? = some '-' then -n else n
    if n < -9223372036854775808 ∨ n > 9223372036854775807 then none else
    some (valueOfParts (n, u))

/-! ### CalcTimeWindows -/

/-- `CalcTimeWindows(start, end)`: day: hour buckets; month: local days (`int(hours/24) + 1`);
year: days between the `time.Date(y, m, 0)` of both ends divided by 30 (`int(hours/24/30) + 1`);
`int(float)` truncates toward zero -/
def calcTimeWindows : Calc → Int → Int → Int
  | .day, a, b =>
    Int.tdiv (Int.tdiv b oneHour * oneHour - Int.tdiv a oneHour * oneHour) oneHour + 1
  | .month, a, b =>
    let ca := civilOfMs a; let cb := civilOfMs b
    (dateDays cb.1 cb.2.1 cb.2.2 - dateDays ca.1 ca.2.1 ca.2.2) + 1
  | .year, a, b =>
    let ca := civilOfMs a; let cb := civilOfMs b
    Int.tdiv (dateDays cb.1 cb.2.1 0 - dateDays ca.1 ca.2.1 0) 30 + 1

end LinVerif.Interval
