/-
C12 — how a field's partial result crosses the wire.

Mirrors `aggregation/field_iterator.go fieldIterator.MarshalBinary` (every leaf / intermediate
response: one TSD stream per aggregate type of the field = per primitive series; a stream is "one
mark per slot from the start slot, a value for every marked slot") and the reader
`series/binary_iterator.go BinaryPrimitiveIterator.HasNext/Next` over `encoding.TSDDecoder`
(slot = start + position of the mark). Core Lean only.
-/
import LinVerif.Model.RootMerge

namespace LinVerif.C12FieldWire
open LinVerif.RootMerge

/-- the TSD stream of one primitive series -/
structure Stream where
  start : Nat
  marks : List Bool
  vals : List Int
  deriving DecidableEq, Repr

/-- the two inner loops of `MarshalBinary` over one primitive series. `idx` is the running slot
index: `for slot > idx { AppendTime(Zero); idx++ }`, then `AppendTime(One); AppendValue; idx++`.
Returns the marks, the values and the final `idx`. -/
def encodeGo : Nat → List (Nat × Int) → List Bool × List Int × Nat
  | idx, [] => ([], [], idx)
  | idx, (slot, v) :: rest =>
    let zeros := slot - idx
    let r := encodeGo (idx + zeros + 1) rest
    (List.replicate zeros false ++ true :: r.1, v :: r.2.1, r.2.2)

/-- the outer loop: one `(agg type byte, stream)` per primitive series. `resetIdx` = where `idx` is
declared: inside the loop (`true`, the code: `idx := it.startSlot` once per primitive series) or
before it (`false`: it keeps running across the primitive series). -/
def marshalGo (resetIdx : Bool) (start : Nat) : Nat → List Prim → List (Nat × Stream)
  | _, [] => []
  | idx, p :: rest =>
    let r := encodeGo (if resetIdx then start else idx) p.pts
    (p.kind, ⟨start, r.1, r.2.1⟩) :: marshalGo resetIdx start r.2.2 rest

/-- `fieldIterator.MarshalBinary` -/
def marshal (resetIdx : Bool) (start : Nat) (prims : List Prim) : List (Nat × Stream) :=
  marshalGo resetIdx start start prims

/-- `BinaryPrimitiveIterator`: walk the marks, a marked slot takes the next value (a mark without a
value left is a decoder error: the iteration ends) -/
def decodeGo : Nat → List Bool → List Int → List (Nat × Int)
  | _, [], _ => []
  | slot, false :: ms, vs => decodeGo (slot + 1) ms vs
  | slot, true :: ms, v :: vs => (slot, v) :: decodeGo (slot + 1) ms vs
  | _, true :: _, [] => []

def decode (s : Stream) : List (Nat × Int) := decodeGo s.start s.marks s.vals

/-- `BinaryFieldIterator`: the primitive series the receiver reads -/
def unmarshal (l : List (Nat × Stream)) : List Prim :=
  l.map (fun ks => { kind := ks.1, pts := decode ks.2 })

/-- a field / group / payload after one crossing of the wire (the query's first slot is slot 0) -/
def wireField (resetIdx : Bool) (fd : FieldData) : FieldData :=
  { fd with prims := unmarshal (marshal resetIdx 0 fd.prims) }

def wireTS (resetIdx : Bool) (ts : TS) : TS :=
  { ts with fields := ts.fields.map (wireField resetIdx) }

def wirePayload (resetIdx : Bool) (p : Payload) : Payload :=
  { p with series := p.series.map (wireTS resetIdx) }

/-- the slots of a primitive series are strictly ascending and start at or after `lo` (what
`FloatArrayIterator` yields) -/
def Asc : Nat → List (Nat × Int) → Prop
  | _, [] => True
  | lo, (s, _) :: rest => lo ≤ s ∧ Asc (s + 1) rest

end LinVerif.C12FieldWire
