/-
C01 (round 10) — close ‖ start of a background job.

Go code mirrored (kv/family.go, kv/family_rollup.go, kv/store.go):

  family.compact():  if compacting.CompareAndSwap(false, true) { condition.Add(1); go func() { defer { condition.Done(); … }(); job }() }
  family.rollup():   same shape with `rolluping`
  family.NewFlusher: condition.Add(1); the flusher's Release calls condition.Done()
  family.close():    condition.Wait()
  store.close():     for every family f.close(); then cache.Close, versions.Destroy (journal), lock.Unlock (LOCK)

Atomic steps (a WaitGroup operation is one atomic step; jobs are anonymous — any number of them, of any
family, symmetric — so the state counts them):

  start    — the starter's whole call: CAS won, [Add(1) iff `addBeforeGo`], the go statement (a job exists, it has
             not executed anything yet). Enabled until CloseStore is called (caller's contract: a store that is
             being closed is not used any more; the call RETURNED before CloseStore is called).
  first    — the spawned goroutine's first statement(s): [Add(1) iff ¬`addBeforeGo`]; the job is running
  work     — one step of a running job (a file-system operation, a number allocation, a commit)
  finish   — the job's deferred Done()
  closeCall, wait — CloseStore is called; condition.Wait() returns (enabled iff the counter is 0 — or at once
             when family.close does not wait at all, `waits = false`)

`late` counts the work steps executed after Wait returned: operations of a job of a CLOSED store instance
(its journal is closed, its LOCK released, the directory may be open again in the same process).
Core Lean only.
-/
namespace LinVerif.Model.C01Close

structure Cfg where
  addBeforeGo : Bool   -- condition.Add(1) precedes the go statement (regenerated fact)
  waits       : Bool   -- family.close calls condition.Wait (regenerated fact)
  deriving Repr, DecidableEq

structure St where
  counter  : Nat := 0   -- the WaitGroup counter
  spawned  : Nat := 0   -- jobs whose goroutine exists and has not executed its first statement
  running  : Nat := 0   -- jobs executing
  finished : Nat := 0
  closing  : Bool := false
  closed   : Bool := false  -- Wait returned: cache / journal / LOCK are released after this
  late     : Nat := 0   -- job steps executed after Wait returned
  neg      : Bool := false  -- Done() on a zero counter (the runtime panics)
  deriving Repr, DecidableEq

inductive Step | start | first | work | finish | closeCall | wait
  deriving Repr, DecidableEq

def step (c : Cfg) (s : St) : Step → St
  | .start =>
    if s.closing then s else
    { s with spawned := s.spawned + 1, counter := if c.addBeforeGo then s.counter + 1 else s.counter }
  | .first =>
    if s.spawned = 0 then s else
    { s with spawned := s.spawned - 1, running := s.running + 1,
             counter := if c.addBeforeGo then s.counter else s.counter + 1 }
  | .work =>
    if s.running = 0 then s else { s with late := if s.closed then s.late + 1 else s.late }
  | .finish =>
    if s.running = 0 then s else
    if s.counter = 0 then { s with running := s.running - 1, finished := s.finished + 1, neg := true } else
    { s with running := s.running - 1, finished := s.finished + 1, counter := s.counter - 1 }
  | .closeCall => { s with closing := true }
  | .wait =>
    if s.closing && !s.closed && (!c.waits || s.counter == 0) then { s with closed := true } else s

def run (c : Cfg) (s : St) (steps : List Step) : St := steps.foldl (step c) s

/-- "condition.Add precedes the go statement and is not inside the spawned function": from the regenerated
step list of the starter (calls in source order, the go statement as "go", the spawned body prefixed "go:"). -/
def addBeforeGoOf (steps : List String) : Bool :=
  (steps.takeWhile (· != "go")).contains "condition.Add" && !steps.contains "go:condition.Add" &&
  steps.contains "go" && steps.contains "go:condition.Done"

/-- the c01-18 shape: Compact() returns, CloseStore is called and its Wait returns, then the job runs -/
def lateSchedule : List Step := [.start, .closeCall, .wait, .first, .work, .work, .finish]

end LinVerif.Model.C01Close
