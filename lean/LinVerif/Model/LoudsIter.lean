/-
Layer 2 of the C20 model, iteration: the Go `Iterator` of pkg/trie/iterator.go as an explicit
stack machine over the flat LOUDS vectors (core Lean only).

State = the fields of the Go struct: `valid`, `atTerminator`, `level`, `keyBuf` and the three
per-level arrays `posInTrie`, `nodeID`, `prefixLen` (lists of length `height`; entries above
`level` are stale leftovers, exactly as in Go). Every function below is the Go method of the
same name, statement for statement; loops are bounded by `fuel` (≥ height).
-/
import LinVerif.Model.Louds

namespace LinVerif.LoudsIter
open LinVerif.TrieTree LinVerif.Louds

structure It where
  valid : Bool
  atTerm : Bool
  level : Nat
  keyBuf : List Nat
  pos : List Nat          -- posInTrie
  nid : List Nat          -- nodeID
  plen : List Nat         -- prefixLen
  deriving Repr

/-- `Iterator.init` -/
def init (f : Flat) : It :=
  { valid := false, atTerm := false, level := 0, keyBuf := [],
    pos := List.replicate f.height 0, nid := List.replicate f.height 0, plen := List.replicate f.height 0 }

/-- `Iterator.Reset` -/
def reset (it : It) : It := { it with valid := false, level := 0, atTerm := false, keyBuf := [] }

def label (f : Flat) (pos : Nat) : Nat := f.labels.getD pos 0
def hasChild (f : Flat) (pos : Nat) : Bool := f.hasChild.getD pos false

/-- `trie.lastLabelPos` -/
def lastLabelPos (f : Flat) (nodeID : Nat) : Nat :=
  let nextRank := nodeID + 2
  if nextRank > popcount f.louds then f.louds.length - 1
  else selectGo f.loudsLut f.louds nextRank - 1

/-- `labelPosFunc` of `moveToMostKey` -/
def labelPos (f : Flat) (left : Bool) (nodeID : Nat) : Nat :=
  if left then firstLabelPos f nodeID else lastLabelPos f nodeID

/-- `Iterator.append(label, pos, nodeID)` -/
def append (f : Flat) (it : It) (lab pos nodeID : Nat) : It :=
  let pfx := prefixOf f nodeID
  let pl := pfx.length + 1 + (if it.level != 0 then it.plen.getD (it.level - 1) 0 else 0)
  { it with keyBuf := it.keyBuf ++ pfx ++ [lab],
            pos := it.pos.set it.level pos,
            plen := it.plen.set it.level pl,
            nid := it.nid.set it.level nodeID }

/-- `Iterator.setAt(level, pos)` (note: writes `posInTrie[it.level]`, as the Go code does) -/
def setAt (f : Flat) (it : It) (level pos : Nat) : It :=
  { it with keyBuf := it.keyBuf.take (it.plen.getD level 0 - 1) ++ [label f pos],
            pos := it.pos.set it.level pos }

/-- `if label == labelTerminator && !it.tree.isEndOfNode(pos) { it.atTerminator = true }` -/
def markTerm (f : Flat) (it : It) (pos : Nat) : It :=
  if label f pos == labelTerminator && !isEndOfNode f pos then { it with atTerm := true } else it

/-- the `for it.level < it.tree.sparseLevels()` loop of `moveToMostKey` -/
def descend (f : Flat) (left : Bool) : Nat → It → Nat → It
  | 0, it, _ => it
  | fuel + 1, it, pos =>
    if it.level < f.height then
      let it := { it with level := it.level + 1 }
      let nodeID := childNodeID f pos
      let pos' := labelPos f left nodeID
      if !hasChild f pos' then
        { markTerm f (append f it (label f pos') pos' nodeID) pos' with valid := true }
      else descend f left fuel (append f it (label f pos') pos' nodeID) pos'
    else it

/-- `Iterator.moveToMostKey(left)` -/
def moveToMost (f : Flat) (left : Bool) (it : It) : It :=
  let it :=
    if it.keyBuf.isEmpty then
      let pos := labelPos f left 0
      append f it (label f pos) pos 0
    else it
  let pos := it.pos.getD it.level 0
  if !hasChild f pos then { markTerm f it pos with valid := true }
  else descend f left f.height it pos

/-- the `for pos >= numBits || louds.IsSet(pos)` loop of `Next`; `none` = ran off level 0 -/
def climbNext (f : Flat) : Nat → It → Nat → Option (It × Nat)
  | 0, _, _ => none
  | fuel + 1, it, pos =>
    if pos ≥ f.louds.length || f.louds.getD pos false then
      if it.level == 0 then none
      else
        let it := { it with level := it.level - 1 }
        climbNext f fuel it (it.pos.getD it.level 0 + 1)
    else some (it, pos)

/-- `Iterator.Next` -/
def next (f : Flat) (it : It) : It :=
  if !it.valid then it
  else
    let it := { it with atTerm := false }
    match climbNext f (f.height + 1) it (it.pos.getD it.level 0 + 1) with
    | none => { it with valid := false, keyBuf := [], level := 0 }
    | some (it, pos) => moveToMost f true (setAt f it it.level pos)

/-- the `for louds.IsSet(pos)` loop of `Prev` -/
def climbPrev (f : Flat) : Nat → It → Nat → Option (It × Nat)
  | 0, _, _ => none
  | fuel + 1, it, pos =>
    if f.louds.getD pos false then
      if it.level == 0 then none
      else
        let it := { it with level := it.level - 1 }
        climbPrev f fuel it (it.pos.getD it.level 0)
    else some (it, pos)

/-- `Iterator.Prev` -/
def prev (f : Flat) (it : It) : It :=
  if !it.valid then it
  else
    let it := { it with atTerm := false }
    let pos := it.pos.getD it.level 0
    if pos == 0 then { it with valid := false }
    else
      match climbPrev f (f.height + 1) it pos with
      | none => { it with valid := false, keyBuf := [], level := 0 }
      | some (it, pos) => moveToMost f false (setAt f it it.level (pos - 1))

/-- `Iterator.SeekToFirst` -/
def seekToFirst (f : Flat) : It :=
  let it := reset (init f)
  if f.height > 0 then moveToMost f true (append f it (label f 0) 0 0) else it

/-- `Iterator.SeekToLast` -/
def seekToLast (f : Flat) : It :=
  let it := reset (init f)
  if f.height > 0 then
    let pos := lastLabelPos f 0
    moveToMost f false (append f it (label f pos) pos 0)
  else it

/-- `Iterator.Key` -/
def key (f : Flat) (it : It) : Key :=
  let unique := if it.atTerm then it.keyBuf.dropLast else it.keyBuf
  unique ++ suffixOf f (it.pos.getD it.level 0)

/-- `Iterator.Value` -/
def value (f : Flat) (it : It) : Nat := f.values.getD (valuePos f (it.pos.getD it.level 0)) 0

/-- `for ; it.Valid(); it.Next()` collecting `(Key(), Value())` -/
def collect (f : Flat) (step : It → It) : Nat → It → List KV
  | 0, _ => []
  | fuel + 1, it => if it.valid then (key f it, value f it) :: collect f step fuel (step it) else []

/-- forward iteration: `SeekToFirst` then `Next` until invalid -/
def iterAll (f : Flat) : List KV := collect f (next f) (f.values.length + 1) (seekToFirst f)

/-- backward iteration: `SeekToLast` then `Prev` until invalid -/
def riterAll (f : Flat) : List KV := collect f (prev f) (f.values.length + 1) (seekToLast f)

/-! ### Seek -/

/-- `sort.Search(n, pred)`: binary search for the smallest index with `pred` -/
def sortSearch (pred : Nat → Bool) : Nat → Nat → Nat → Nat
  | 0, lo, _ => lo
  | fuel + 1, lo, hi =>
    if lo < hi then
      let h := (lo + hi) / 2
      if !pred h then sortSearch pred fuel (h + 1) hi else sortSearch pred fuel lo h
    else lo

/-- `labelVector.SearchGreaterThan(label, pos, size)` -/
def searchGreaterThan (f : Flat) (lab pos size : Nat) : Nat × Bool :=
  let (pos, size) := if size > 1 && label f pos == labelTerminator then (pos + 1, size - 1) else (pos, size)
  let result := sortSearch (fun i => label f (pos + i) > lab) (size + 1) 0 size
  if result == size then (pos + result - 1, false) else (pos + result, true)

/-- `Iterator.moveToLeftInNextSubTrie` -/
def moveToLeftInNextSubTrie (f : Flat) (it : It) (pos nodeID nodeSize lab : Nat) : It :=
  let (pos, ok) := searchGreaterThan f lab pos nodeSize
  let it := append f it (label f pos) pos nodeID
  if ok then moveToMost f true it else next f it

/-- `bytes.Compare(a, b)` as -1 / 0 / 1 -/
def cmp (a b : Key) : Ordering := keyCmp a b

/-- `suffixVector.CheckSuffix(key, depth, pos)` with `rest = key[depth+1:]` -/
def checkSuffix (f : Flat) (rest : Key) (pos : Nat) : Bool := suffixOf f pos == rest

/-- the loop of `Iterator.seek`; `key` = `key[depth:]`. Returns the iterator and the flag. -/
def seekLoop (f : Flat) : Nat → It → Nat → Nat → Key → It × Bool
  | 0, it, _, _, _ => (it, false)
  | fuel + 1, it, nodeID, pos, key =>
    if it.level < f.height then
      let pfx := prefixOf f nodeID
      let c := if pfx.isEmpty then Ordering.eq else cmp pfx (key.take pfx.length)
      if c == .lt then
        if it.level == 0 then ({ it with valid := false }, false)
        else (next f { it with level := it.level - 1 }, false)
      else
        let key := key.drop pfx.length
        if key.isEmpty || c == .gt then
          (moveToMost f true (append f it (label f pos) pos nodeID), false)
        else
          match key with
          | [] => (it, false)
          | k :: rest =>
            let nodeSize := nodeSize f pos
            match searchLabel f.labels k pos nodeSize with
            | none => (moveToLeftInNextSubTrie f it pos nodeID nodeSize k, false)
            | some p =>
              let it := append f it k p nodeID
              if !hasChild f p then (it, checkSuffix f rest p)
              else
                let nodeID := childNodeID f p
                seekLoop f fuel { it with level := it.level + 1 } nodeID (firstLabelPos f nodeID) rest
    else
      -- after the loop (never reached on a built trie: the last level has no children)
      if label f pos == labelTerminator && !hasChild f pos && !isEndOfNode f pos then
        ({ append f it labelTerminator pos nodeID with atTerm := true, valid := true }, false)
      else if key.isEmpty then (moveToMost f true it, false)
      else ({ it with valid := true }, true)

/-- `Iterator.Seek(key)`; `step` = the source variant with the conditional `Next()`
(regenerated fact `seekStepsToLowerBound`) -/
def seek (step : Bool) (f : Flat) (k : Key) : It × Bool :=
  let it := reset (init f)
  if f.height == 0 then (it, false)
  else
    let (it, fp) := seekLoop f (f.height + 1) it 0 (firstLabelPos f 0) k
    let it := if !it.valid then moveToMost f false it else it
    let it := if step && it.valid && keyLt (key f it) k then next f it else it
    (it, fp)

/-- `Seek(key)` and what `Key()/Value()/Next()` enumerate afterwards -/
def seekAll (step : Bool) (f : Flat) (k : Key) : Bool × List KV :=
  let (it, fp) := seek step f k
  (fp, collect f (next f) (f.values.length + 1) it)

/-- `Seek(key)` and the first `n` pairs enumerated afterwards -/
def seekFirst (step : Bool) (f : Flat) (k : Key) (n : Nat) : Bool × List KV :=
  let (it, fp) := seek step f k
  (fp, collect f (next f) n it)

/-- `PrefixIterator`: `Valid()` = `it.Valid()` for the empty prefix, else also `HasPrefix(Key(), prefix)` -/
def prefixCollect (f : Flat) (p : Key) : Nat → It → List KV
  | 0, _ => []
  | fuel + 1, it =>
    if it.valid && (p.isEmpty || hasPrefix p (key f it)) then
      (key f it, value f it) :: prefixCollect f p fuel (next f it)
    else []

/-- `NewPrefixIterator(prefix)` and its `Valid()/Key()/Value()/Next()` loop -/
def prefixAll (step : Bool) (f : Flat) (p : Key) : List KV :=
  prefixCollect f p (f.values.length + 1) (seek step f p).1

/-! ### cursor walks: arbitrary mixes of `Next` and `Prev` from any starting position -/

/-- one cursor move of a caller -/
inductive Mv where
  | next
  | prev
  deriving Repr, DecidableEq

/-- `it.Next()` / `it.Prev()` -/
def move (f : Flat) (it : It) : Mv → It
  | .next => next f it
  | .prev => prev f it

/-- what a caller can observe of a position: `Valid()`, and then `Key()` / `Value()` -/
def obs (f : Flat) (it : It) : Option KV := if it.valid then some (key f it, value f it) else none

/-- the observations after each move of a script -/
def walk (f : Flat) (it : It) : List Mv → List (Option KV)
  | [] => []
  | m :: r => obs f (move f it m) :: walk f (move f it m) r

/-- the same on the sorted-map side: a cursor is an index into the sorted pairs or "invalid";
`Next` past the last pair and `Prev` before the first one invalidate it, an invalid cursor stays
invalid (`Next` / `Prev` return at once while `!it.valid`) -/
def cursorMove (n : Nat) : Option Nat → Mv → Option Nat
  | none, _ => none
  | some i, .next => if i + 1 < n then some (i + 1) else none
  | some i, .prev => if i = 0 then none else some (i - 1)

def cursorObs (kvs : List KV) : Option Nat → Option KV
  | none => none
  | some i => kvs[i]?

/-- what forward enumeration from a cursor yields -/
def cursorRest (kvs : List KV) : Option Nat → List KV
  | none => []
  | some i => kvs.drop i

def cursorWalk (kvs : List KV) (c : Option Nat) : List Mv → List (Option KV)
  | [] => []
  | m :: r => cursorObs kvs (cursorMove kvs.length c m) :: cursorWalk kvs (cursorMove kvs.length c m) r

end LinVerif.LoudsIter
