/-
C10 model, part 2 (core Lean only; linked into lvmodel_C10).

(A) `seriesFiltering.findSeriesIDsByExpr` (query/operator/series_filtering.go) with the
    `*roaring.Bitmap` results modelled as OBJECTS: addresses into a heap of bitmap values. The Go
    code evaluates and / or / not IN PLACE (`left.And(right)`, `left.Or(right)`, `all.AndNot(match)`)
    and returns the mutated left operand. That is only right while no two operands of one condition
    are the same object. `memoise = true` is the variant in which `getSeriesIDsByExpr` remembers the
    bitmap it returned for an atomic filter and hands the SAME object back when the filter occurs
    again (repeated atomic filters in different branches).

(B) `forwardIndexMerger.Merge` (index/v1/forward_merger.go) on the RAW entry layout (series bitmap,
    then all value ids) with the scanners' cursor state (`tagForwardScanner`: current high key,
    current container, `tagValueIDs[tagValueIdx:]`) and the merger's pooled `tagValueIDs` buffer,
    which lives as long as the merger (one compaction job = many tag keys). `perContainer = true`:
    the buffer is truncated at the top of every container iteration (the source); `false`: once per
    `Merge` call, next to the other per-key resets.
-/
import LinVerif.Model.TagFilter

namespace LinVerif.TagFilter

/-! ### (A) bitmaps as heap objects -/

/-- the bitmaps allocated while one condition is evaluated: `cell a` = current value of object `a`,
`next` = the next fresh address (`roaring.New()`) -/
structure BHeap where
  cell : Nat → List SeriesId
  next : Nat

def BHeap.empty : BHeap := { cell := fun _ => [], next := 0 }

/-- a new bitmap object holding `b` -/
def BHeap.alloc (h : BHeap) (b : List SeriesId) : BHeap × Nat :=
  ({ cell := fun a => if a = h.next then b else h.cell a, next := h.next + 1 }, h.next)

/-- in-place update of object `a` -/
def BHeap.set (h : BHeap) (a : Nat) (b : List SeriesId) : BHeap :=
  { h with cell := fun x => if x = a then b else h.cell x }

/-- `op.resolved` of the memoising variant: atomic filter ↦ the bitmap object returned for it -/
abbrev Memo := List (Atom × Nat)

def memoGet : Memo → Atom → Option Nat
  | [], _ => none
  | (b, r) :: t, a => if b = a then some r else memoGet t a

/-- `findSeriesIDsByExpr`, object level: returns (tag key id, ADDRESS of the result bitmap).
* atom: `getSeriesIDsByExpr` — `GetSeriesIDsByTagValueIDs` builds a new bitmap (`roaring.New()` in
  `findSeriesIDsByKeys`); with `memoise` a remembered object is returned instead;
* not: `all := GetSeriesIDsForTag(key)` is a new bitmap; `all.AndNot(matchResult)`; returns `all`;
* and / or: `left.And(right)` / `left.Or(right)` mutate `left`; returns `left`. -/
def filterHeap (F : Flags) (memoise : Bool) (st : State) (res : TFR) :
    Expr → BHeap × Memo → Except Err (KeyId × Nat × (BHeap × Memo))
  | .atom a, (h, mm) =>
    match tfrGet F res a with
    | none => .error .filterResultNotFound
    | some (kid, ids) =>
      match (if memoise then memoGet mm a else none) with
      | some addr => .ok (kid, addr, (h, mm))
      | none =>
        let ha := h.alloc (st.inv.seriesOfIds ids)
        .ok (kid, ha.2, (ha.1, if memoise then (a, ha.2) :: mm else mm))
  | .paren e, s => filterHeap F memoise st res e s
  | .not e, s =>
    match filterHeap F memoise st res e s with
    | .ok (kid, am, (h, mm)) =>
      let ha := h.alloc (st.fwd.seriesForTag kid)
      .ok (0, ha.2, (ha.1.set ha.2 ((ha.1.cell ha.2).filter (fun x => !(ha.1.cell am).contains x)), mm))
    | .error e => .error e
  | .and l r, s =>
    match filterHeap F memoise st res l s with
    | .ok (_, la, s1) =>
      match filterHeap F memoise st res r s1 with
      | .ok (_, ra, (h, mm)) => .ok (0, la, (h.set la ((h.cell la).filter (fun x => (h.cell ra).contains x)), mm))
      | .error e => .error e
    | .error e => .error e
  | .or l r, s =>
    match filterHeap F memoise st res l s with
    | .ok (_, la, s1) =>
      match filterHeap F memoise st res r s1 with
      | .ok (_, ra, (h, mm)) => .ok (0, la, (h.set la (h.cell la ++ h.cell ra), mm))
      | .error e => .error e
    | .error e => .error e
  | .badop l r, s =>
    match filterHeap F memoise st res l s with
    | .ok (_, la, s1) =>
      match filterHeap F memoise st res r s1 with
      | .ok (_, ra, (h, mm)) => .ok (0, la, (h.set la (h.cell la ++ h.cell ra), mm))
      | .error e => .error e
    | .error e => .error e

/-- metadata lookup, tag values lookup, series filtering on bitmap objects; `Execute` reads the
result object (`SeriesIDsAfterFiltering.Or(seriesIDs)`) -/
def queryHeap (F : Flags) (memoise : Bool) (M : Matcher) (st : State) (m : Metric) (c : Expr) :
    Except Err (List SeriesId) :=
  if !metricKnown st m then .error .metricNotFound
  else
    match lookupAll F M st m c [] with
    | .error e => .error e
    | .ok res =>
      match filterHeap F memoise st res c (BHeap.empty, []) with
      | .ok (_, a, (h, _)) => .ok (h.cell a)
      | .error e => .error e

/-- `leafQuery` with the object-level series filtering -/
def leafQueryHeap (F : Flags) (memoise : Bool) (M : Matcher) (st : State) (m : Metric) (keys : List Bytes)
    (c : Expr) : Except Err LeafResult :=
  if !metricKnown st m then .error .metricNotFound
  else
    match lookupKeys st m keys with
    | none => .error .keyNotFound
    | some _ =>
      match queryHeap F memoise M st m c with
      | .error e => .error e
      | .ok sel =>
        if keys.isEmpty then .ok { series := sel, groups := none }
        else .ok { series := sel, groups := some (groupBy F st m keys sel) }

/-! ### (B) the forward index merger on raw entries -/

/-- one forward entry as the flusher writes it: the series bitmap (containers ascending by high key,
low keys ascending) followed by the value-id region: every `WriteTagValueIDs` call appends its block -/
structure RawEntry where
  bitmap : List (Nat × List Nat)
  vals : List ValId
  deriving Repr, DecidableEq

/-- layout of a structured entry (`forwardIndex.flush`: one block per container, in bitmap order) -/
def rawOf (cs : List Container) : RawEntry :=
  { bitmap := cs.map (fun c => (c.1, c.2.map (·.1))), vals := cs.flatMap (fun c => c.2.map (·.2)) }

/-- `NewTagForwardReader` + `GetSeriesAndTagValue(high)`: `lut[idx+1] = lut[idx] + cardinality`;
the container's low keys and `buf[lut[idx]*4 : (lut[idx]+card)*4]` -/
def rawReadFrom (vals : List ValId) (high : Nat) : Nat → List (Nat × List Nat) → Option (List Nat × List ValId)
  | _, [] => none
  | off, c :: t =>
    if c.1 == high then some (c.2, (vals.drop off).take c.2.length)
    else rawReadFrom vals high (off + c.2.length) t

def RawEntry.read (e : RawEntry) (high : Nat) : Option (List Nat × List ValId) :=
  rawReadFrom e.vals high 0 e.bitmap

/-- the reader's view of a raw entry: every container with the value slice the lookup table gives it -/
def decodeFrom (vals : List ValId) : Nat → List (Nat × List Nat) → List Container
  | _, [] => []
  | off, c :: t => (c.1, c.2.zip ((vals.drop off).take c.2.length)) :: decodeFrom vals (off + c.2.length) t

def RawEntry.decode (e : RawEntry) : List Container := decodeFrom e.vals 0 e.bitmap

/-- `tagForwardScanner`: the reader, the current high key, the current container (nil when the reader
has none for that key) and the unread rest of `tagValueIDs` (= `tagValueIDs[tagValueIdx:]`) -/
structure MScan where
  entry : RawEntry
  high : Nat
  lows : Option (List Nat)
  rest : List ValId
  deriving Repr

/-- `nextContainer(highKey)` -/
def MScan.nextContainer (s : MScan) (h : Nat) : MScan :=
  match s.entry.read h with
  | none => { s with high := h, lows := none, rest := [] }
  | some (lows, vals) => { s with high := h, lows := some lows, rest := vals }

/-- `newTagForwardScanner`: positioned on the container of the smallest series id -/
def MScan.new (e : RawEntry) : MScan :=
  let s : MScan := { entry := e, high := 0, lows := none, rest := [] }
  s.nextContainer ((e.bitmap.head?.map (·.1)).getD 0)

/-- `scan` once the scanner stands on its container for `h` (or beyond); `none` = index out of range
(`tagValueIDs[tagValueIdx]` with the slice exhausted) -/
def MScan.scanCur (s : MScan) (h low : Nat) (buf : List ValId) : Option (MScan × List ValId) :=
  if h != s.high then some (s, buf)
  else
    match s.lows with
    | none => some (s, buf)
    | some lows =>
      if lows.contains low then
        match s.rest with
        | v :: r => some ({ s with rest := r }, buf ++ [v])
        | [] => none
      else some (s, buf)

/-- `scan(highKey, lowSeriesID, tagValueIDs)`: `if s.highKey < highKey { s.nextContainer(highKey) }` first -/
def MScan.scan (s : MScan) (h low : Nat) (buf : List ValId) : Option (MScan × List ValId) :=
  (if s.high < h then s.nextContainer h else s).scanCur h low buf

/-- the inner `for _, scanner := range m.scanners` for one low key -/
def scanAll (h low : Nat) : List MScan → List ValId → Option (List MScan × List ValId)
  | [], buf => some ([], buf)
  | s :: t, buf =>
    match s.scan h low buf with
    | none => none
    | some (s', buf') =>
      match scanAll h low t buf' with
      | none => none
      | some (t', buf'') => some (s' :: t', buf'')

/-- the iteration over one merged container's low keys -/
def scanLows (h : Nat) : List Nat → List MScan → List ValId → Option (List MScan × List ValId)
  | [], ss, buf => some (ss, buf)
  | low :: ls, ss, buf =>
    match scanAll h low ss buf with
    | none => none
    | some (ss', buf') => scanLows h ls ss' buf'

/-- step 4 of `Merge`: per merged container (optionally) truncate the buffer, scan, write the buffer
as one block. Returns the value region written and the buffer left behind. -/
def mergeContainers (perContainer : Bool) : List (Nat × List Nat) → List MScan → List ValId → List ValId →
    Option (List ValId × List ValId)
  | [], _, buf, out => some (out, buf)
  | c :: cs, ss, buf, out =>
    match scanLows c.1 c.2 ss (if perContainer then [] else buf) with
    | none => none
    | some (ss', buf') => mergeContainers perContainer cs ss' buf' (out ++ buf')

/-- insert a series id into a bitmap -/
def bmInsLow (low : Nat) : List Nat → List Nat
  | [] => [low]
  | l :: t => if low < l then low :: l :: t else if low = l then l :: t else l :: bmInsLow low t

def bmIns (high low : Nat) : List (Nat × List Nat) → List (Nat × List Nat)
  | [] => [(high, [low])]
  | (h, ls) :: t =>
    if high < h then (high, [low]) :: (h, ls) :: t
    else if high = h then (h, bmInsLow low ls) :: t
    else (h, ls) :: bmIns high low t

/-- `m.seriesIDs.Or(reader.GetSeriesIDs())` -/
def bmOr (a b : List (Nat × List Nat)) : List (Nat × List Nat) :=
  b.foldl (fun acc c => c.2.foldl (fun acc' low => bmIns c.1 low acc') acc) a

/-- `forwardIndexMerger.Merge(tagKeyID, values)` with the pooled buffer `buf` going in and out -/
def mergeRaw (perContainer : Bool) (buf : List ValId) (inputs : List RawEntry) : Option (RawEntry × List ValId) :=
  let bm := inputs.foldl (fun acc e => bmOr acc e.bitmap) []
  let ss := inputs.map MScan.new
  match mergeContainers perContainer bm ss (if perContainer then buf else []) [] with
  | none => none
  | some (out, buf') => some ({ bitmap := bm, vals := out }, buf')

/-- one compaction job of the `forward` family: the SAME merger object merges every tag key in turn -/
def mergeJob (perContainer : Bool) : List ValId → List (KeyId × List RawEntry) → Option (List (KeyId × RawEntry))
  | _, [] => some []
  | buf, (k, ins) :: t =>
    match mergeRaw perContainer buf ins with
    | none => none
    | some (e, buf') =>
      match mergeJob perContainer buf' t with
      | none => none
      | some r => some ((k, e) :: r)

end LinVerif.TagFilter
