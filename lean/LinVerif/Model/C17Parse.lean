/-
C17, round 10: the field-expression stack machine of the query parser (sql/query_stmt_parser.go:
`visitFieldExpr`, `visitFuncName`, `completeFuncExpr`, `visitExprAtom`, `parseFieldName`,
`completeFieldExpr`, `visitAlias`, `visitSortField`, `completeSortField`, `check`, `visitHaving`,
`visitBoolExpr`, `visitBoolExprAtom`, `completeBoolExpr`, `completeHaving`; sql/base_stmt_parser.go:
`setExprParam`), the derivations of `fieldExpr` / `boolExpr` / `sortField` of SQL.g4 with the
listener calls of their tree walk, `validation()` + the part of `build()` that hands the parser's
fields to the statement, and the reuse of a parser object across parses. Core Lean only.
-/
import LinVerif.Model.StmtGlue

namespace LinVerif.Stmt
open LinVerif.Json

/-! ## the machine -/

/-- which alternative of `fieldExpr` a `FieldExprContext` is, as far as the switches of
`visitFieldExpr` / `completeFieldExpr` tell them apart (source order); `other` = exprAtom or
durationLit (no case matches) -/
inductive FieldAlt where
  | star | func | paren | mul | div | add | sub | other
  deriving DecidableEq, Repr

/-- `stmt.MUL` … of the pushed `BinaryExpr{Operator: …}` (numbers of `binaryOpTable`) -/
def FieldAlt.opCode : FieldAlt → Option Int
  | .mul => some 5 | .div => some 6 | .add => some 3 | .sub => some 4
  | _ => none

/-- which alternative of `boolExpr` a `BoolExprContext` is (`visitBoolExpr`) -/
inductive BoolAlt where
  | paren
  | logic (op : Int)     -- `ctx.BoolExprLogicalOp() != nil`: AND = 1, OR = 2
  | atom
  deriving DecidableEq, Repr

/-- what ends up in `q.err` / what a parse fails with -/
inductive PErr where
  | parseFloat          -- `strconv.ParseFloat`: value out of range
  | orderByFunc         -- "[%s] function not support order by"
  | orderByParams       -- "order by function params length invalid"
  | orderByField        -- "order by field not in select fields"
  | emptySelect         -- "select fields cannbe be empty"
  | incompleteSelect | incompleteOrderBy | incompleteHaving
  | panic               -- a nil dereference recovered by `sql.Parse`
  deriving DecidableEq, Repr

/-- the fields of `queryStmtParser` the field-expression callbacks read or write -/
structure PState where
  stack : List Expr                    -- `exprStack`, top first
  selectItems : List Expr
  fieldNames : List String             -- the key set of the `fieldNames` map, in insertion order
  allFields : Bool
  orderBy : List Expr
  curOrderBy : Option (Expr × Bool)    -- `curOrderByExpr` (nil pointer = none): its Expr and Desc
  hasOrderBy : Bool
  having : Bool
  havingStmt : Expr
  err : Option PErr
  panicked : Bool
  deriving Repr

/-- `newQueryStmtParse` -/
def PState.init : PState :=
  { stack := [], selectItems := [], fieldNames := [], allFields := false, orderBy := [],
    curOrderBy := none, hasOrderBy := false, having := false, havingStmt := .nil, err := none,
    panicked := false }

/-- the listener calls that reach these callbacks -/
inductive PEv where
  | resetStack                              -- EnterSelectExpr / EnterWhereClause: `resetExprStack`
  | enterField (a : FieldAlt)               -- EnterFieldExpr: `visitFieldExpr`
  | exitField (a : FieldAlt)                -- ExitFieldExpr: `completeFieldExpr`
  | funcName (fn : Int)                     -- EnterFuncName: `visitFuncName`
  | exitFunc                                -- ExitExprFunc: `completeFuncExpr`
  | atomIdent (name : String)               -- EnterExprAtom, `ctx.Ident() != nil`
  | atomNum (v : F64) (rangeErr : Bool)     -- EnterExprAtom, number: ParseFloat's value and `err != nil`
  | alias (a : String)                      -- EnterAlias: `visitAlias`
  | enterSort (desc : Bool)                 -- EnterSortField: `visitSortField`
  | exitSort                                -- ExitSortField: `completeSortField`
  | enterHaving                             -- EnterHavingClause
  | exitHaving                              -- ExitHavingClause: `completeHaving`
  | enterBool (a : BoolAlt)                 -- EnterBoolExpr: `visitBoolExpr`
  | boolAtom (op : Int)                     -- EnterBoolExprAtom: `visitBoolExprAtom`
  | exitBool                                -- ExitBoolExpr: `completeBoolExpr`
  deriving Repr

/-- `setExprParam` on the node on top of the stack: a call appends, a paren overwrites, a binary
takes the value as `Left` if that is nil, else as `Right` if that is nil, else drops it -/
def setParamOn (top param : Expr) : Expr :=
  match top with
  | .call fn ps => .call fn (ps ++ [param])
  | .paren _ => .paren param
  | .binary .nil r op => .binary param r op
  | .binary l .nil op => .binary l param op
  | t => t

/-- `baseStmtParser.setExprParam` (`if b.exprStack.Empty() { return }`) -/
def setExprParam (stack : List Expr) (param : Expr) : List Expr :=
  match stack with
  | [] => []
  | top :: rest => setParamOn top param :: rest

/-- `function.IsSupportOrderBy` (Sum Min Max Count Avg Last First Stddev of the iota block) -/
def supportOrderBy (fn : Int) : Bool :=
  fn == 1 || fn == 2 || fn == 3 || fn == 4 || fn == 5 || fn == 6 || fn == 7 || fn == 9

/-- `queryStmtParser.check`: the name looked up in `fieldNames`, or the error. `rw` is
`Expr.Rewrite()` (`none` = it dereferences a nil child and panics). -/
def checkOrderBy (rw : Expr → Option String) (fieldNames : List String) (e : Expr) : Except PErr Unit :=
  let name : Except PErr String :=
    match e with
    | .call fn ps =>
      if !supportOrderBy fn then .error .orderByFunc
      else match ps with
        | [p] => (match rw p with | some s => .ok s | none => .error .panic)
        | _ => .error .orderByParams
    | .field n => .ok n
    | _ => .ok ""
  match name with
  | .error e => .error e
  | .ok n => if fieldNames.contains n then .ok () else .error .orderByField

def PState.push (st : PState) (e : Expr) : PState := { st with stack := e :: st.stack }

/-- one listener call -/
def pstep (rw : Expr → Option String) (st : PState) (ev : PEv) : PState :=
  if st.panicked then st else
  match ev with
  | .resetStack => { st with stack := [] }
  | .enterField a =>
    match a with
    | .star => { st with allFields := true }
    | .func => st.push (.call 0 [])
    | .paren => st.push (.paren .nil)
    | .mul => st.push (.binary .nil .nil 5)
    | .div => st.push (.binary .nil .nil 6)
    | .add => st.push (.binary .nil .nil 3)
    | .sub => st.push (.binary .nil .nil 4)
    | .other => st
  | .funcName fn =>
    match st.stack with
    | .call _ ps :: rest => { st with stack := .call fn ps :: rest }
    | _ => st
  | .exitFunc =>
    match st.stack with
    | [] => st                                         -- `Pop()` of an empty stack is nil
    | cur :: rest =>
      let rest' := setExprParam rest cur
      if rest'.isEmpty then
        if st.hasOrderBy then
          match st.curOrderBy with
          | none => { st with panicked := true }
          | some (_, d) => { st with stack := rest', curOrderBy := some (cur, d) }
        else if !st.having then
          match rw cur with
          | none => { st with panicked := true }
          | some name => { st with stack := rest', selectItems := st.selectItems ++ [.selectItem cur ""],
                                   fieldNames := st.fieldNames ++ [name] }
        else { st with stack := rest' }
      else { st with stack := rest' }
  | .exitField a =>
    match a with
    | .star | .func | .other => st
    | _ =>
      match st.stack with
      | [] => st
      | cur :: rest =>
        let rest' := setExprParam rest cur
        if rest'.isEmpty && !st.having then
          { st with stack := rest', selectItems := st.selectItems ++ [.selectItem cur ""] }
        else { st with stack := rest' }
  | .atomIdent name =>                                 -- `parseFieldName`
    if st.hasOrderBy then
      if st.stack.isEmpty then
        match st.curOrderBy with
        | none => { st with panicked := true }
        | some (_, d) => { st with curOrderBy := some (.field name, d) }
      else { st with stack := setExprParam st.stack (.field name) }
    else
      let st1 : PState :=
        if st.stack.isEmpty && !st.having then
          { st with selectItems := st.selectItems ++ [.selectItem (.field name) ""] }
        else { st with stack := setExprParam st.stack (.field name) }
      if !st.having then { st1 with fieldNames := st1.fieldNames ++ [name] } else st1
  | .atomNum v rangeErr =>
    if rangeErr then { st with err := some .parseFloat }
    else if !st.stack.isEmpty then { st with stack := setExprParam st.stack (.number v) }
    else st
  | .alias a =>
    match st.selectItems.getLast? with
    | some (.selectItem e _) =>
      { st with selectItems := st.selectItems.dropLast ++ [.selectItem e a],
                fieldNames := st.fieldNames ++ [a] }
    | _ => st
  | .enterSort desc => { st with hasOrderBy := true, curOrderBy := some (.nil, desc) }
  | .exitSort =>
    match st.curOrderBy with
    | some (e, d) =>
      match checkOrderBy rw st.fieldNames e with
      | .error .panic => { st with panicked := true }
      | .error er => { st with err := some er }         -- `q.err = err; return`
      | .ok _ => { st with orderBy := st.orderBy ++ [.orderBy e d], hasOrderBy := true, curOrderBy := none }
    | none => { st with hasOrderBy := true, curOrderBy := none }
  | .enterHaving => { st with having := true }
  | .exitHaving =>
    match st.stack with
    | [] => { st with having := false }
    | top :: rest => { st with having := false, havingStmt := top, stack := rest }
  | .enterBool a =>
    match a with
    | .paren => st.push (.paren .nil)
    | .logic op => st.push (.binary .nil .nil op)
    | .atom => st
  | .boolAtom op => st.push (.binary .nil .nil op)
  | .exitBool =>
    match st.stack with
    | [] => st
    | cur :: rest =>
      if rest.isEmpty then st                            -- popped and pushed back
      else { st with stack := setExprParam rest cur }

def prun (rw : Expr → Option String) (st : PState) (evs : List PEv) : PState := evs.foldl (pstep rw) st

/-- `validation()` (the checks behind the metric-name check) and the fields `build()` copies -/
structure Built where
  selectItems : List Expr
  allFields : Bool
  having : Expr
  orderBy : List Expr
  deriving Repr

/-- `q.havingStmt != nil && !isCompleteExpr(q.havingStmt)` -/
def havingIncomplete (h : Expr) : Bool :=
  match h with
  | .nil => false
  | h => !h.complete

def buildFields (st : PState) : Except PErr Built :=
  if st.panicked then .error .panic else
  match st.err with
  | some e => .error e
  | none =>
    if !st.allFields && st.selectItems.isEmpty then .error .emptySelect
    else if !completeList st.selectItems then .error .incompleteSelect
    else if !completeList st.orderBy then .error .incompleteOrderBy
    else if havingIncomplete st.havingStmt then .error .incompleteHaving
    else .ok { selectItems := st.selectItems, allFields := st.allFields, having := st.havingStmt,
               orderBy := st.orderBy }

/-! ## derivations of the grammar and their tree walk -/

/-- the four arithmetic alternatives of `fieldExpr` -/
inductive ArOp where
  | mul | div | add | sub
  deriving DecidableEq, Repr

def ArOp.alt : ArOp → FieldAlt
  | .mul => .mul | .div => .div | .add => .add | .sub => .sub

def ArOp.code : ArOp → Int
  | .mul => 5 | .div => 6 | .add => 3 | .sub => 4

/-- a derivation of `fieldExpr` (all nine alternatives; `exprAtom` without `identFilter`,
`funcParam` restricted to its `fieldExpr` alternative) -/
inductive FExpr where
  | bin (o : ArOp) (l r : FExpr)
  | paren (e : FExpr)
  | call (fn : Int) (params : List FExpr)
  | ident (name : String)
  | num (v : F64)                 -- the value `strconv.ParseFloat` returns for the token
  | dur
  | star
  deriving Repr

mutual
/-- the listener calls of the tree walk (enter, children left to right, exit). `ParseFloat` reports
an error exactly when its value is not finite (strconv's contract for digit strings). -/
def FExpr.walk : FExpr → List PEv
  | .bin o l r => .enterField o.alt :: (l.walk ++ (r.walk ++ [.exitField o.alt]))
  | .paren e => .enterField .paren :: (e.walk ++ [.exitField .paren])
  | .call fn ps => .enterField .func :: .funcName fn :: (walkList ps ++ [.exitFunc, .exitField .func])
  | .ident n => [.enterField .other, .atomIdent n, .exitField .other]
  | .num v => [.enterField .other, .atomNum v (!v.isFinite), .exitField .other]
  | .dur => [.enterField .other, .exitField .other]
  | .star => [.enterField .star, .exitField .star]
def walkList : List FExpr → List PEv
  | [] => []
  | d :: ds => d.walk ++ walkList ds
end

mutual
/-- the node a derivation supplies to its parent (`none`: `*`, a duration, an out-of-range number
supply nothing) — the derivation's own tree, operand-less alternatives left out -/
def FExpr.tree : FExpr → Option Expr
  | .bin o l r =>
    some (match l.tree, r.tree with
      | some a, some b => .binary a b o.code
      | some a, none => .binary a .nil o.code
      | none, some b => .binary b .nil o.code
      | none, none => .binary .nil .nil o.code)
  | .paren e => some (match e.tree with | some a => .paren a | none => .paren .nil)
  | .call fn ps => some (.call fn (treeList ps))
  | .ident n => some (.field n)
  | .num v => if v.isFinite then some (.number v) else none
  | .dur => none
  | .star => none
def treeList : List FExpr → List Expr
  | [] => []
  | d :: ds => (match d.tree with | some a => [a] | none => []) ++ treeList ds
end

mutual
def FExpr.hasStar : FExpr → Bool
  | .bin _ l r => l.hasStar || r.hasStar
  | .paren e => e.hasStar
  | .call _ ps => hasStarList ps
  | .star => true
  | _ => false
def hasStarList : List FExpr → Bool
  | [] => false
  | d :: ds => d.hasStar || hasStarList ds
end

mutual
/-- the identifiers, in walk order (what `parseFieldName` adds to `fieldNames` in the select list) -/
def FExpr.idents : FExpr → List String
  | .bin _ l r => l.idents ++ r.idents
  | .paren e => e.idents
  | .call _ ps => identsList ps
  | .ident n => [n]
  | _ => []
def identsList : List FExpr → List String
  | [] => []
  | d :: ds => d.idents ++ identsList ds
end

mutual
def FExpr.rangeErr : FExpr → Bool
  | .bin _ l r => l.rangeErr || r.rangeErr
  | .paren e => e.rangeErr
  | .call _ ps => rangeErrList ps
  | .num v => !v.isFinite
  | _ => false
def rangeErrList : List FExpr → Bool
  | [] => false
  | d :: ds => d.rangeErr || rangeErrList ds
end

mutual
/-- every alternative in the derivation supplies an operand (no `*`, duration, out-of-range number
below the top) -/
def FExpr.plain : FExpr → Bool
  | .bin _ l r => l.plain && r.plain
  | .paren e => e.plain
  | .call _ ps => plainList ps
  | .ident _ => true
  | .num v => v.isFinite
  | .dur => false
  | .star => false
def plainList : List FExpr → Bool
  | [] => true
  | d :: ds => d.plain && plainList ds
end

mutual
/-- the abstract syntax tree of a plain derivation, written down directly -/
def FExpr.ast : FExpr → Expr
  | .bin o l r => .binary l.ast r.ast o.code
  | .paren e => .paren e.ast
  | .call fn ps => .call fn (astList ps)
  | .ident n => .field n
  | .num v => .number v
  | .dur => .nil
  | .star => .nil
def astList : List FExpr → List Expr
  | [] => []
  | d :: ds => d.ast :: astList ds
end

/-- the effect of a nested derivation (stack not empty) on the parser state -/
def applyNested (st : PState) (top : Expr) (rest : List Expr) (d : FExpr) : PState :=
  { st with
    stack := (match d.tree with | some x => setParamOn top x | none => top) :: rest,
    allFields := st.allFields || d.hasStar,
    fieldNames := if st.hasOrderBy then st.fieldNames else if st.having then st.fieldNames
                  else st.fieldNames ++ d.idents,
    err := if d.rangeErr then some .parseFloat else st.err }

/-- … of a parameter list under a call node -/
def applyNestedList (st : PState) (top : Expr) (rest : List Expr) (ds : List FExpr) : PState :=
  { st with
    stack := (treeList ds).foldl setParamOn top :: rest,
    allFields := st.allFields || hasStarList ds,
    fieldNames := if st.hasOrderBy then st.fieldNames else if st.having then st.fieldNames
                  else st.fieldNames ++ identsList ds,
    err := if rangeErrList ds then some .parseFloat else st.err }

/-- what a top-level derivation (stack empty) hands to its clause: a bare number is dropped -/
def FExpr.topItem : FExpr → Option Expr
  | .num _ => none
  | d => d.tree

def FExpr.isCall : FExpr → Bool
  | .call _ _ => true
  | _ => false

def FExpr.isIdent : FExpr → Bool
  | .ident _ => true
  | _ => false

/-- the state after one top-level `fieldExpr` of the select list (stack empty, no order by, no having) -/
def selectTop (rw : Expr → Option String) (st : PState) (d : FExpr) : PState :=
  let st1 : PState := { st with
    allFields := st.allFields || d.hasStar,
    fieldNames := st.fieldNames ++ d.idents,
    err := if d.rangeErr then some .parseFloat else st.err }
  match d.topItem with
  | none => st1
  | some x =>
    if d.isCall then
      match rw x with
      | none => { st1 with stack := [x], panicked := true }
      | some name => { st1 with selectItems := st.selectItems ++ [.selectItem x ""],
                                fieldNames := st1.fieldNames ++ [name] }
    else { st1 with selectItems := st.selectItems ++ [.selectItem x ""] }

/-- the state after one top-level `fieldExpr` of a sort field (stack empty, `hasOrderBy`, current
order-by node `(e₀, desc)`): a call or a field becomes the node's expression; a parenthesis or an
arithmetic expression is appended to the SELECT list and the node keeps its old expression -/
def sortTop (st : PState) (desc : Bool) (e₀ : Expr) (d : FExpr) : PState :=
  let st1 : PState := { st with
    allFields := st.allFields || d.hasStar,
    err := if d.rangeErr then some .parseFloat else st.err }
  match d.topItem with
  | none => st1
  | some x =>
    if d.isCall || d.isIdent then { st1 with curOrderBy := some (x, desc) }
    else { st1 with selectItems := st.selectItems ++ [.selectItem x ""], curOrderBy := some (e₀, desc) }

/-- a derivation of `boolExpr` -/
inductive BExpr where
  | paren (b : BExpr)
  | logic (op : Int) (l r : BExpr)
  | atom (op : Int) (l r : FExpr)
  deriving Repr

def BExpr.walk : BExpr → List PEv
  | .paren b => .enterBool .paren :: (b.walk ++ [.exitBool])
  | .logic op l r => .enterBool (.logic op) :: (l.walk ++ (r.walk ++ [.exitBool]))
  | .atom op l r => .enterBool .atom :: .boolAtom op :: (l.walk ++ (r.walk ++ [.exitBool]))

/-- the comparison node of a `boolExprAtom` -/
def cmpTree (op : Int) (l r : FExpr) : Expr :=
  match l.tree, r.tree with
  | some a, some b => .binary a b op
  | some a, none => .binary a .nil op
  | none, some b => .binary b .nil op
  | none, none => .binary .nil .nil op

def BExpr.tree : BExpr → Expr
  | .paren b => .paren b.tree
  | .logic op l r => .binary l.tree r.tree op
  | .atom op l r => cmpTree op l r

def BExpr.hasStar : BExpr → Bool
  | .paren b => b.hasStar
  | .logic _ l r => l.hasStar || r.hasStar
  | .atom _ l r => l.hasStar || r.hasStar

def BExpr.rangeErr : BExpr → Bool
  | .paren b => b.rangeErr
  | .logic _ l r => l.rangeErr || r.rangeErr
  | .atom _ l r => l.rangeErr || r.rangeErr

/-- a select list entry, a sort field -/
structure FieldItem where
  e : FExpr
  alias : Option String
  deriving Repr

structure SortItem where
  e : FExpr
  desc : Bool
  deriving Repr

def FieldItem.walk (f : FieldItem) : List PEv :=
  f.e.walk ++ (match f.alias with | some a => [.alias a] | none => [])

def SortItem.walk (s : SortItem) : List PEv := .enterSort s.desc :: (s.e.walk ++ [.exitSort])

/-- the clauses of `queryStmt` that reach the machine, in the order the grammar fixes:
select list, having (inside group by), order by -/
structure QDeriv where
  fields : List FieldItem
  having : Option BExpr
  sorts : List SortItem
  deriving Repr

def QDeriv.walk (q : QDeriv) : List PEv :=
  .resetStack :: ((q.fields.map FieldItem.walk).flatten ++
    ((match q.having with | some b => .enterHaving :: (b.walk ++ [.exitHaving]) | none => []) ++
      (q.sorts.map SortItem.walk).flatten))

/-! ## `Rewrite()` (sql/stmt/expr.go) for the kinds the field machine builds -/

/-- `FuncType.String()` -/
def funcTypeName (fn : Int) : String :=
  if fn == 1 then "sum" else if fn == 2 then "min" else if fn == 3 then "max" else if fn == 4 then "count"
  else if fn == 5 then "avg" else if fn == 6 then "last" else if fn == 7 then "first"
  else if fn == 8 then "quantile" else if fn == 9 then "stddev" else if fn == 10 then "rate" else "unknown"

mutual
/-- `Rewrite()`; `fmtNum` is `fmt.Sprintf("%.2f", v)` (a parameter), `none` = the method is called
on a nil interface value -/
def rewriteWith (fmtNum : F64 → String) : Expr → Option String
  | .nil => none
  | .field n => some n
  | .number v => some (fmtNum v)
  | .call fn ps => (rewriteList fmtNum ps).map (fun ss => funcTypeName fn ++ "(" ++ ",".intercalate ss ++ ")")
  | .paren e => (rewriteWith fmtNum e).map (fun s => "(" ++ s ++ ")")
  | .binary l r op =>
    match rewriteWith fmtNum l, rewriteWith fmtNum r with
    | some a, some b => some (a ++ binaryOPString op ++ b)
    | _, _ => none
  | .not e => (rewriteWith fmtNum e).map (fun s => "not " ++ s)
  | .equals k v => some (k ++ "=" ++ v)
  | .inE k vs => some (k ++ " in (" ++ ",".intercalate vs ++ ")")
  | .like k v => some (k ++ " like " ++ v)
  | .regex k v => some (k ++ "=~" ++ v)
  | .selectItem e a =>
    (rewriteWith fmtNum e).map (fun s => if a == "" then s else s ++ " as " ++ a)
  | .orderBy e d => (rewriteWith fmtNum e).map (fun s => s ++ " " ++ (if d then "desc" else "asc"))
def rewriteList (fmtNum : F64 → String) : List Expr → Option (List String)
  | [] => some []
  | e :: es =>
    match rewriteWith fmtNum e, rewriteList fmtNum es with
    | some s, some ss => some (s :: ss)
    | _, _ => none
end

/-! ## reuse of the parser object (sql/listener.go `EnterQueryStmt`, `build()`) -/

/-- how `EnterQueryStmt` obtains the `queryStmtParser` -/
inductive ParserPolicy where
  /-- `l.queryStmt = newQueryStmtParse(...)`: a new object with nil slices (the code) -/
  | fresh
  /-- taken from a pool and reset with `selectItems = selectItems[:0]` (not the code) -/
  | pooled
  deriving DecidableEq, Repr

/-- a memory cell id for a slice's backing array -/
abbrev ArrId := Nat

/-- the heap as far as the select list is concerned: backing arrays by id -/
structure Heap where
  arrays : List (List Expr)
  deriving Repr

def Heap.get (h : Heap) (a : ArrId) : List Expr := h.arrays.getD a []

def Heap.set (h : Heap) (a : ArrId) (v : List Expr) : Heap := { arrays := h.arrays.set a v }

def Heap.alloc (h : Heap) (v : List Expr) : Heap × ArrId := ({ arrays := h.arrays ++ [v] }, h.arrays.length)

/-- one parse under a policy: where the parser's `selectItems` slice lives. The returned statement's
`SelectItems` IS that slice (`query.SelectItems = q.selectItems`: same backing array). A pooled
parser writes its next select list into the same array. -/
structure ParserObj where
  arr : Option ArrId          -- the backing array the pooled parser still holds
  deriving Repr

/-- parse a statement whose select list is `sel`: returns the array the statement's `SelectItems`
points to -/
def parseUnder (pol : ParserPolicy) (h : Heap) (p : ParserObj) (sel : List Expr) : Heap × ParserObj × ArrId :=
  match pol, p.arr with
  | .pooled, some a => (h.set a sel, p, a)                       -- `[:0]` + appends: overwrites in place
  | _, _ => let (h', a) := h.alloc sel; (h', { arr := some a }, a)

/-- a history of parses; the statements handed out (as array ids), in order -/
def parseHistory (pol : ParserPolicy) : Heap → ParserObj → List (List Expr) → Heap × List ArrId
  | h, _, [] => (h, [])
  | h, p, s :: ss =>
    let (h1, p1, a) := parseUnder pol h p s
    let (h2, as) := parseHistory pol h1 p1 ss
    (h2, a :: as)

/-- what the statements handed out read as AFTER the whole history -/
def observedAfter (pol : ParserPolicy) (sels : List (List Expr)) : List (List Expr) :=
  let (h, as) := parseHistory pol ⟨[]⟩ ⟨none⟩ sels
  as.map h.get

/-! ## regenerated-fact tables -/

/-- the field-expression stack machine in the source (tied by `Generated.C17.fieldMachine`):
(function: enclosing branches, statement) for every assignment / push / setExprParam / return -/
def fieldMachineTable : List (String × String) := [
  ("visitFieldExpr: case ctx.Star() != nil", "q.allFields = true"),
  ("visitFieldExpr: case ctx.ExprFunc() != nil", "q.exprStack.Push(&stmt.CallExpr{})"),
  ("visitFieldExpr: case ctx.T_OPEN_P() != nil", "q.exprStack.Push(&stmt.ParenExpr{})"),
  ("visitFieldExpr: case ctx.T_MUL() != nil", "q.exprStack.Push(&stmt.BinaryExpr{Operator: stmt.MUL})"),
  ("visitFieldExpr: case ctx.T_DIV() != nil", "q.exprStack.Push(&stmt.BinaryExpr{Operator: stmt.DIV})"),
  ("visitFieldExpr: case ctx.T_ADD() != nil", "q.exprStack.Push(&stmt.BinaryExpr{Operator: stmt.ADD})"),
  ("visitFieldExpr: case ctx.T_SUB() != nil", "q.exprStack.Push(&stmt.BinaryExpr{Operator: stmt.SUB})"),
  ("completeFuncExpr: ", "cur := q.exprStack.Pop()"),
  ("completeFuncExpr: if cur != nil", "expr, ok := cur.(stmt.Expr)"),
  ("completeFuncExpr: if cur != nil / if ok", "q.setExprParam(expr)"),
  ("completeFuncExpr: if cur != nil / if q.exprStack.Empty() / if q.hasOrderBy", "q.curOrderByExpr.Expr = expr"),
  ("completeFuncExpr: if cur != nil / if q.exprStack.Empty() / else / if !q.having", "q.selectItems = append(q.selectItems, &stmt.SelectItem{Expr: expr})"),
  ("completeFuncExpr: if cur != nil / if q.exprStack.Empty() / else / if !q.having", "q.fieldNames[expr.Rewrite()] = struct{}{}"),
  ("visitExprAtom: case ctx.Ident() != nil", "q.parseFieldName(strutil.GetStringValue(ctx.Ident().GetText()))"),
  ("visitExprAtom: case ctx.DecNumber() != nil || ctx.IntNumber() != nil", "valStr := \"\""),
  ("visitExprAtom: case ctx.DecNumber() != nil || ctx.IntNumber() != nil / case ctx.DecNumber() != nil", "valStr = ctx.DecNumber().GetText()"),
  ("visitExprAtom: case ctx.DecNumber() != nil || ctx.IntNumber() != nil / case ctx.IntNumber() != nil", "valStr = ctx.IntNumber().GetText()"),
  ("visitExprAtom: case ctx.DecNumber() != nil || ctx.IntNumber() != nil", "val, err := strconv.ParseFloat(valStr, 64)"),
  ("visitExprAtom: case ctx.DecNumber() != nil || ctx.IntNumber() != nil / if err != nil", "q.err = err"),
  ("visitExprAtom: case ctx.DecNumber() != nil || ctx.IntNumber() != nil / if err != nil", "return"),
  ("visitExprAtom: case ctx.DecNumber() != nil || ctx.IntNumber() != nil / if !q.exprStack.Empty()", "q.setExprParam(&stmt.NumberLiteral{Val: val})"),
  ("parseFieldName: ", "fieldExpr := &stmt.FieldExpr{Name: fieldName}"),
  ("parseFieldName: case q.hasOrderBy / if q.exprStack.Empty()", "q.curOrderByExpr.Expr = fieldExpr"),
  ("parseFieldName: case q.hasOrderBy / else", "q.setExprParam(fieldExpr)"),
  ("parseFieldName: case  / if q.exprStack.Empty() && !q.having", "q.selectItems = append(q.selectItems, &stmt.SelectItem{Expr: fieldExpr})"),
  ("parseFieldName: case  / else", "q.setExprParam(fieldExpr)"),
  ("parseFieldName: case  / if !q.having", "q.fieldNames[fieldName] = struct{}{}"),
  ("completeFieldExpr: case ", "return"),
  ("completeFieldExpr: ", "cur := q.exprStack.Pop()"),
  ("completeFieldExpr: if cur != nil", "expr, ok := cur.(stmt.Expr)"),
  ("completeFieldExpr: if cur != nil / if ok", "q.setExprParam(expr)"),
  ("completeFieldExpr: if cur != nil / if q.exprStack.Empty() && !q.having", "q.selectItems = append(q.selectItems, &stmt.SelectItem{Expr: expr})"),
  ("visitAlias: if len(q.selectItems) == 0", "return"),
  ("visitAlias: if selectItem, ok := (q.selectItems[len(q.selectItems)-1]).(*stmt.SelectItem); ok", "alias := strutil.GetStringValue(ctx.Ident().GetText())"),
  ("visitAlias: if selectItem, ok := (q.selectItems[len(q.selectItems)-1]).(*stmt.SelectItem); ok", "selectItem.Alias = alias"),
  ("visitAlias: if selectItem, ok := (q.selectItems[len(q.selectItems)-1]).(*stmt.SelectItem); ok", "q.fieldNames[alias] = struct{}{}"),
  ("visitSortField: ", "q.hasOrderBy = true"),
  ("visitSortField: ", "q.curOrderByExpr = &stmt.OrderByExpr{Desc: len(ctx.AllT_DESC()) > 0}"),
  ("completeSortField: if q.curOrderByExpr != nil / if err := q.check(); err != nil", "q.err = err"),
  ("completeSortField: if q.curOrderByExpr != nil / if err := q.check(); err != nil", "return"),
  ("completeSortField: if q.curOrderByExpr != nil", "q.orderBy = append(q.orderBy, q.curOrderByExpr)"),
  ("completeSortField: ", "q.hasOrderBy = true"),
  ("completeSortField: ", "q.curOrderByExpr = nil"),
  ("check: ", "var fieldName string"),
  ("check: switch e := q.curOrderByExpr.Expr.(type) / case *stmt.CallExpr / if !function.IsSupportOrderBy(e.FuncType)", "return fmt.Errorf(\"[%s] function not support order by\", e.FuncType)"),
  ("check: switch e := q.curOrderByExpr.Expr.(type) / case *stmt.CallExpr / if len(e.Params) != 1", "return errors.New(\"order by function params length invalid\")"),
  ("check: switch e := q.curOrderByExpr.Expr.(type) / case *stmt.CallExpr", "fieldName = e.Params[0].Rewrite()"),
  ("check: switch e := q.curOrderByExpr.Expr.(type) / case *stmt.FieldExpr", "fieldName = e.Name"),
  ("check: ", "_, ok := q.fieldNames[fieldName]"),
  ("check: if !ok", "return fmt.Errorf(\"order by field not in select fields, order by field: %s\", fieldName)"),
  ("check: ", "return nil"),
  ("visitHaving: ", "q.having = true"),
  ("visitBoolExpr: case ctx.T_OPEN_P() != nil", "q.exprStack.Push(&stmt.ParenExpr{})"),
  ("visitBoolExpr: case ctx.BoolExprLogicalOp() != nil", "q.visitBoolExprLogicalOp(ctx.BoolExprLogicalOp().(*grammar.BoolExprLogicalOpContext))"),
  ("completeHaving: ", "q.having = false"),
  ("completeHaving: if !q.exprStack.Empty()", "q.havingStmt = q.exprStack.Pop().(stmt.Expr)"),
  ("completeBoolExpr: ", "cur := q.exprStack.Pop()"),
  ("completeBoolExpr: if cur != nil", "expr, ok := cur.(stmt.Expr)"),
  ("completeBoolExpr: if cur != nil / if ok / if q.exprStack.Empty()", "q.exprStack.Push(cur)"),
  ("completeBoolExpr: if cur != nil / if ok / else", "q.setExprParam(expr)"),
  ("visitBoolExprLogicalOp: ", "op := stmt.AND"),
  ("visitBoolExprLogicalOp: if ctx.T_OR() != nil", "op = stmt.OR"),
  ("visitBoolExprLogicalOp: ", "q.exprStack.Push(&stmt.BinaryExpr{Operator: op})"),
  ("resetExprStack: ", "q.exprStack = collections.NewStack()"),
  ("setExprParam: if b.exprStack.Empty()", "return"),
  ("setExprParam: switch expr := b.exprStack.Peek().(type) / case *stmt.CallExpr", "expr.Params = append(expr.Params, param)"),
  ("setExprParam: switch expr := b.exprStack.Peek().(type) / case *stmt.ParenExpr", "expr.Expr = param"),
  ("setExprParam: switch expr := b.exprStack.Peek().(type) / case *stmt.BinaryExpr / if expr.Left == nil", "expr.Left = param"),
  ("setExprParam: switch expr := b.exprStack.Peek().(type) / case *stmt.BinaryExpr / else / if expr.Right == nil", "expr.Right = param")]

/-- how a parse obtains its parser object and hands the select list to the statement (tied by
`Generated.C17.parserObject`): a new `queryStmtParser` per `EnterQueryStmt`, built by a composite
literal that names neither `selectItems` nor `orderBy` nor `groupBy` (nil slices), and `build()`
creating the statement by a composite literal -/
def parserObjectTable : List (String × String) := [
  ("EnterQueryStmt", "l.queryStmt = newQueryStmtParse(ctx.T_EXPLAIN() != nil)"),
  ("newQueryStmtParse", "return &queryStmtParser{explain,fieldNames: make(map[string]struct{}),baseStmtParser}"),
  ("newQueryStmtParse.baseStmtParser", "exprStack: collections.NewStack(),namespace: commonconstants.DefaultNamespace,limit: 20"),
  ("build", "query := &stmt.Query{}; query.SelectItems = q.selectItems; query.GroupBy = q.groupBy; query.OrderByItems = q.orderBy"),
  ("Parse", "sqlListener := listener{}"),
  ("package variables of listener / statement parsers", "")]

/-- `function.IsSupportOrderBy`, `FuncType.String()` and the iota block (tied by
`Generated.C17.funcTypes`): (name, number, String(), supports order by) -/
def funcTypeTable : List (String × Int × String × Bool) :=
  [("Unknown", 0, "unknown", false), ("Sum", 1, "sum", true), ("Min", 2, "min", true), ("Max", 3, "max", true),
   ("Count", 4, "count", true), ("Avg", 5, "avg", true), ("Last", 6, "last", true), ("First", 7, "first", true),
   ("Quantile", 8, "quantile", false), ("Stddev", 9, "stddev", true), ("Rate", 10, "rate", false)]

/-- the function-name switch of `visitFuncName` (tied by `Generated.C17.funcNameSwitch`) -/
def funcNameSwitchTable : List (String × String) :=
  [("T_SUM", "Sum"), ("T_MIN", "Min"), ("T_MAX", "Max"), ("T_COUNT", "Count"), ("T_LAST", "Last"),
   ("T_FIRST", "First"), ("T_AVG", "Avg"), ("T_STDDEV", "Stddev"), ("T_QUANTILE", "Quantile"), ("T_RATE", "Rate")]

end LinVerif.Stmt
