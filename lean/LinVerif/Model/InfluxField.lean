/-
C16 — the field part of the influx line parser (ingestion/influx/parser.go), core Lean only:

  * `parseField`        classification of one `key=value` token by the shape of the literal: fields /
                        droppable bad field (ErrBadFields) / line-invalidating field (ErrInfField)
  * `toLinSimpleField`  field typing by the key's suffix
  * `parseFields`       the drop-and-continue loop (a bad field is skipped, ErrInfField ends the line)
  * `addSimpleField`    commonseries.RowBuilder.AddSimpleField (type / Inf / NaN / empty name; reserved names escaped)
  * `lineFields`        parseInfluxLine's field section: no field left ⇒ rejected; field count and field
                        name limits; every AddSimpleField error rejects the line

`strconv.ParseInt` / `strconv.ParseFloat` are parameters (`Strconv`). The scanning of the field section
into `key=value` tokens and the unescaping of keys are modelled separately (`Model/Escape.lean`).
-/
import LinVerif.Model.Row

namespace LinVerif.InfluxField
open LinVerif.Row

structure Strconv where
  /-- strconv.ParseInt(s, 10, 64); none = error -/
  parseInt : String → Option Int
  /-- strconv.ParseFloat(s, 64); none = error (also ErrRange) -/
  parseFloat : String → Option F

inductive FieldRes where
  | fields (fs : List SField)
  | drop
  | rejectLine
  deriving DecidableEq, Repr

/-- bytes.HasSuffix -/
def hasSuffix (suf s : String) : Bool := suf.toList.reverse.isPrefixOf s.toList.reverse

def toLinSimpleField (key : String) (v : F) : List SField :=
  if hasSuffix "last" key then [⟨key, 1, v⟩]
  else if hasSuffix "first" key then [⟨key, 5, v⟩]
  else if hasSuffix "sum" key then [⟨key, 2, v⟩]
  else [⟨key ++ "_sum", 2, v⟩, ⟨key ++ "_last", 1, v⟩]

def lastChar (s : String) : Option Char := s.toList.getLast?

def dropLast (s : String) : String := String.ofList s.toList.dropLast

/-- len(bytes.TrimSpace(key)) == 0 (ASCII white space) -/
def isBlank (s : String) : Bool := s.toList.all (fun c => c = ' ' || c = '\t' || c = '\n' || c = '\r' || c.toNat = 11 || c.toNat = 12)

def intTails : List Char := ['i', 'I', 'u', 'U']
def trueTails : List Char := ['t', 'T']
def falseTails : List Char := ['f', 'F']
def falseWords : List String := ["false", "False", "FALSE"]
def trueWords : List String := ["true", "True", "TRUE"]

def parseField (E : Strconv) (key value : String) : FieldRes :=
  if value = "" then .drop
  else if key = "" then .drop
  else if isBlank key then .drop
  else match lastChar value with
    | none => .drop
    | some tail =>
      if intTails.contains tail then
        match E.parseInt (dropLast value) with
        | none => .drop
        | some v => .fields (toLinSimpleField key (.num v))
      else if trueTails.contains tail then
        if value.length = 1 then .fields [⟨key, 1, .num 1⟩] else .drop
      else if falseTails.contains tail then
        if value.length = 1 then .fields [⟨key, 1, .num 0⟩]
        else match E.parseFloat value with
          | some v => if v.isInf then .rejectLine else .drop
          | none => .drop
      else if falseWords.contains value then .fields [⟨key, 1, .num 0⟩]
      else if trueWords.contains value then .fields [⟨key, 1, .num 1⟩]
      else match E.parseFloat value with
        | none => .drop
        | some v => .fields (toLinSimpleField key v)

/-- parseFields over the scanned tokens; none = ErrInfField -/
def parseFields (E : Strconv) : List (String × String) → Option (List SField)
  | [] => some []
  | (k, v) :: rest =>
    match parseField E k v with
    | .rejectLine => none
    | .drop => parseFields E rest
    | .fields fs => (parseFields E rest).map (fun r => fs ++ r)

def addSimpleField (f : SField) : Option SField :=
  if f.ftype = 0 then none
  else if f.value.isInf then none
  else if f.value.isNaN then none
  else if f.name = "" then none
  else some { f with name := sanitizeFieldName f.name }

inductive LineRes where
  | rejected
  | stored (fs : List SField)
  deriving DecidableEq, Repr

def lineFields (E : Strconv) (maxFields maxFieldName : Nat) (tokens : List (String × String)) : LineRes :=
  match parseFields E tokens with
  | none => .rejected
  | some fs =>
    if fs.isEmpty then .rejected
    else if over maxFields fs.length then .rejected
    else if fs.any (fun f => over maxFieldName (blen f.name)) then .rejected
    else match fs.mapM addSimpleField with
      | none => .rejected
      | some out => .stored out

end LinVerif.InfluxField
