/-
Model of the BUCKET framing around the serialised tries (index/model, core Lean only; round 12):
* `TrieBucketBuilder.Write`, per block: `size := b.builder.MarshalSize();
  binary.LittleEndian.PutUint32(b.sizeBuf[0:4], uint32(size)); b.writer.Write(b.sizeBuf); b.builder.Write(b.writer)`
  — a frame is `[u32 size][trie image]`, a bucket value is the frames one after the other (no count, no checksum);
* `TrieBucket.Unmarshal(block)`: `for len(block) > 0 { size := Uint32(block[:4]); end := 4 + size;
  tree.UnmarshalBinary(block[4:end]); b.kvs = append(b.kvs, &trieEntry{tree, buf: block[:end]}); block = block[end:] }`
  — `end` is a `uint32` (wraps), the slice expressions are unchecked (panic), an error of `UnmarshalBinary` is returned;
  the entry keeps `buf = block[:end]` = the whole frame, which `TrieBucket.Write` copies verbatim for a trie that is
  kept by the merge (`w.Write(tree.buf)`);
* the object is filled by SEVERAL `Unmarshal` calls (index/v1 `GetBucket`: one per stored value of the key;
  `indexKVMerger.Merge`: one per input block): entries are appended.
Buffers have capacity = length (as for `UnmarshalBinary`, see `TrieWire`).
-/
import LinVerif.Model.TrieWire

namespace LinVerif.BucketWire
open LinVerif.TrieWire

/-- one block as `TrieBucketBuilder.Write` emits it: `uint32(MarshalSize())` little endian, then the image -/
def frame (w : Wire) : List Nat := u32le (marshalSize w % two32) ++ marshal w

/-- the bytes of one `TrieBucketBuilder.Write` call (one trie per block, in block order) -/
def bucketBytes (ws : List Wire) : List Nat := ws.flatMap frame

/-- `trieEntry`: the loaded trie and `buf` = the frame it was loaded from -/
structure Entry where
  tree : Wire
  buf : List Nat
  deriving DecidableEq

/-- the loop of `TrieBucket.Unmarshal` (`fuel` ≥ `len(block)`: every round consumes `end ≥ 4` bytes);
`acc` = `b.kvs` so far -/
def unmarshalLoop : Nat → List Nat → List Entry → Res (List Entry)
  | _, [], acc => .ok acc
  | 0, _ :: _, _ => .panic
  | fuel + 1, b :: bs, acc =>
    let block := b :: bs
    match readU32 block with
    | none => .panic                                   -- `block[:4]` on fewer than 4 bytes
    | some (size, _) =>
      let stop := (4 + size) % two32                   -- `end := 4 + size` in uint32
      if stop < 4 ∨ block.length < stop then .panic    -- `block[4:end]`
      else
        match unmarshalR ((block.take stop).drop 4) with
        | .err k => .err k
        | .panic => .panic
        | .ok w => unmarshalLoop fuel (block.drop stop) (acc ++ [⟨w, block.take stop⟩])

/-- `TrieBucket.Unmarshal(block)` on an object that already holds `acc` -/
def bucketUnmarshal (acc : List Entry) (block : List Nat) : Res (List Entry) :=
  unmarshalLoop block.length block acc

/-- a bucket object filled by one `Unmarshal` per stored value (`GetBucket`, `Merge`); the first failure ends it -/
def loadAll : List Entry → List (List Nat) → Res (List Entry)
  | acc, [] => .ok acc
  | acc, b :: bs =>
    match bucketUnmarshal acc b with
    | .ok acc' => loadAll acc' bs
    | .err k => .err k
    | .panic => .panic

/-- what `TrieBucket.Write` copies for the tries it keeps: their `buf`s -/
def copiedBytes (es : List Entry) : List Nat := es.flatMap (·.buf)

end LinVerif.BucketWire
