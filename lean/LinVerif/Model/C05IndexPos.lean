/-
C05, round 12: WHICH INDEX PAGE OBJECT an append stores its item through.

`pkg/queue/queue.go` keeps the index page twice: the object `q.indexPage` (all three item stores of
`persistMetaOfMessage` go through it) and the number `q.indexPageIndex`. `Get`, `GC` and
`initDataPageIndex` never use the object: they compute the page from the sequence
(`seq / indexItemsPerPage`) and ask the factory. The main model (Model/Queue.lean `persistStores`)
stores into the computed page directly; this file models the step that was abstracted away there:

* `persistMetaOfMessage`: `seq := appended + 1`; `if <switch test> { q.indexPage = AcquirePage(seq / P);
  q.indexPageIndex = seq / P }`; the stores land in the page of the HELD object at slot `seq % P`.
* `SetAppendedSeq(s)` (replica ResetReplicaIndex / ResetAppendIndex): only the sequences move; the
  object and the number are not touched.
* `initDataPageIndex` (NewQueue): number and object are positioned from the appended sequence.

The switch test is a parameter (`Sw`: page of the new sequence, `q.indexPageIndex`, slot of the new
sequence), decoded from the regenerated condition text of `persistMetaOfMessage`, so that the theorems
in Props/C05 characterise exactly which tests are correct. Core Lean only.
-/
namespace LinVerif.Queue.IndexPos

/-- the switch test of `persistMetaOfMessage`: page id of the new sequence, `q.indexPageIndex`,
slot of the new sequence inside its page -/
abbrev Sw := Nat → Nat → Nat → Bool

/-- the test of the current source: `indexPageIndex != q.indexPageIndex` -/
def currentSw : Sw := fun ipg idx _ => ipg != idx

/-- switch only forward: `indexPageIndex > q.indexPageIndex` -/
def greaterSw : Sw := fun ipg idx _ => decide (ipg > idx)

/-- switch only when the slot wraps to the first item of a page: `indexOffset == 0` -/
def wrapSw : Sw := fun _ _ slot => slot == 0

/-- decode of the regenerated condition text (first `if` of `persistMetaOfMessage`) -/
def decodeSw (cond : String) : Option Sw :=
  if cond = "indexPageIndex != q.indexPageIndex" then some currentSw
  else if cond = "q.indexPageIndex != indexPageIndex" then some currentSw
  else if cond = "indexPageIndex > q.indexPageIndex" then some greaterSw
  else if cond = "indexOffset == 0" then some wrapSw
  else none

/-- the index-page position of a queue object -/
structure Pos where
  held : Nat        -- page id of the object `q.indexPage`
  idx : Nat         -- `q.indexPageIndex`
  appended : Int    -- `q.appendedSeq`
  deriving DecidableEq, Repr

/-- where one `persistMetaOfMessage` put the item of sequence `seq` -/
structure Store where
  seq : Nat
  page : Nat
  slot : Nat
  deriving DecidableEq, Repr

/-- `persistMetaOfMessage` for `P` items per index page and switch test `sw` -/
def persistPos (P : Nat) (sw : Sw) (p : Pos) : Pos × Store :=
  let n := (p.appended + 1).toNat
  let ipg := n / P
  let slot := n % P
  let held := if sw ipg p.idx slot then ipg else p.held
  let idx := if sw ipg p.idx slot then ipg else p.idx
  ({ held := held, idx := idx, appended := p.appended + 1 }, { seq := n, page := held, slot := slot })

/-- `initDataPageIndex`: page 0 for the empty queue, else the page of the appended sequence -/
def initPos (P : Nat) (appended : Int) : Pos :=
  if appended = -1 then { held := 0, idx := 0, appended := appended }
  else { held := appended.toNat / P, idx := appended.toNat / P, appended := appended }

inductive POp
  | put                   -- a successful Put
  | reset (s : Int)       -- SetAppendedSeq(s)
  | reopen                -- Close + NewQueue
  deriving DecidableEq, Repr

/-- one operation; a put also reports where its item went -/
def stepPos (P : Nat) (sw : Sw) (p : Pos) : POp → Pos × Option Store
  | .put => let r := persistPos P sw p; (r.1, some r.2)
  | .reset s => ({ p with appended := s }, none)
  | .reopen => (initPos P p.appended, none)

/-- run a history, collecting every item store -/
def runPos (P : Nat) (sw : Sw) (p : Pos) : List POp → Pos × List Store
  | [] => (p, [])
  | op :: ops =>
    let r := stepPos P sw p op
    let rest := runPos P sw r.1 ops
    (rest.1, match r.2 with | some s => s :: rest.2 | none => rest.2)

/-- resets only onto targets ≥ -1 (ResetOK of the main model requires it as well) -/
def POp.wf : POp → Prop
  | .reset s => -1 ≤ s
  | _ => True

/-- every item went into the page in which Get / GC / NewQueue look it up -/
def LandsRight (P : Nat) (stores : List Store) : Prop :=
  ∀ s ∈ stores, s.page = s.seq / P ∧ s.slot = s.seq % P

end LinVerif.Queue.IndexPos
