/-
C01 — model of the WRITE side of pkg/bufioutil (core Lean only): Go's bufio.Writer under bufioEntryWriter.

  WState         file = the bytes that reached the operating system (what a killed process leaves behind),
                 buf  = bufio.Writer's user-space buffer (lost when the process is killed)
  bwrite         bufio.Writer.Write(p) with buffer size B:
                   for len(p) > Available() { if Buffered() == 0 { direct write of ALL of p }
                                              else { copy what fits; Flush } }  ;  copy the rest
                 (at most: fill + flush, then direct write or copy — written out branch by branch);
                 the result also lists the file content after every write(2) call made on the way:
                 the crash points inside one Write
  flush          bufio.Writer.Flush: one write(2) of the buffer when it is not empty
  entryWrite     bufioEntryWriter.Write: w.Write(uvarint length header), w.Write(content)
  WOp / stepW    Write | Flush | Sync (= Flush + f.Sync) | Close (= Flush + f.Close)
  streamWrites   bufioStreamWriter.Write per chunk (table files: no header)
  persistW       storeVersionSet.persistEditLogs on the writer: per record Write, then Sync iff `syncs r`
                 (`syncs` = fun _ => true for the code as it is: the regenerated fact persistLoopSteps)
-/
import LinVerif.Model.Entries

namespace LinVerif.Kv.BW

open LinVerif.Kv

structure WState where
  file : Bytes
  buf : Bytes
  deriving Repr, DecidableEq

def WState.init : WState := ⟨[], []⟩

/-- everything handed to the writer so far, in order -/
def WState.stream (s : WState) : Bytes := s.file ++ s.buf

/-- bufio.Writer.Flush -/
def flush (s : WState) : WState :=
  match s.buf with
  | [] => s
  | _ :: _ => ⟨s.file ++ s.buf, []⟩

/-- bufio.Writer.Write(p); second component: file content after each write(2) call, in order -/
def bwriteT (B : Nat) (s : WState) (p : Bytes) : WState × List Bytes :=
  let avail := B - s.buf.length
  if p.length ≤ avail then (⟨s.file, s.buf ++ p⟩, [])                      -- fits: copy only
  else match s.buf with
    | [] => (⟨s.file ++ p, []⟩, [s.file ++ p])                              -- empty buffer: direct write
    | _ :: _ =>
      let f1 := s.file ++ (s.buf ++ p.take avail)                            -- fill, Flush
      let p' := p.drop avail
      if p'.length ≤ B then (⟨f1, p'⟩, [f1])                                 -- rest fits the empty buffer
      else (⟨f1 ++ p', []⟩, [f1, f1 ++ p'])                                  -- rest: direct write

def bwrite (B : Nat) (s : WState) (p : Bytes) : WState := (bwriteT B s p).1

/-- bufioEntryWriter.Write -/
def entryWriteT (B : Nat) (s : WState) (r : Bytes) : WState × List Bytes :=
  let a := bwriteT B s (putUvarint r.length)
  let b := bwriteT B a.1 r
  (b.1, a.2 ++ b.2)

def entryWrite (B : Nat) (s : WState) (r : Bytes) : WState := (entryWriteT B s r).1

inductive WOp where
  | write (r : Bytes)
  | flush
  | sync
  | close
  deriving Repr

def stepW (B : Nat) (s : WState) : WOp → WState
  | .write r => entryWrite B s r
  | .flush => flush s
  | .sync => flush s
  | .close => flush s

def runW (B : Nat) (s : WState) (ops : List WOp) : WState := ops.foldl (stepW B) s

/-- the bytes the Write operations of `ops` hand over -/
def written : List WOp → Bytes
  | [] => []
  | .write r :: t => writeEntry r ++ written t
  | _ :: t => written t

/-- persistEditLogs: Write, then Sync iff `syncs r` -/
def persistW (B : Nat) (syncs : Bytes → Bool) (s : WState) : List Bytes → WState
  | [] => s
  | r :: t =>
    let s1 := entryWrite B s r
    persistW B syncs (if syncs r then flush s1 else s1) t

/-- file contents a kill can leave while `persistW` runs (after every write(2) call) -/
def persistImages (B : Nat) (syncs : Bytes → Bool) (s : WState) : List Bytes → List Bytes
  | [] => []
  | r :: t =>
    let w := entryWriteT B s r
    let s2 := if syncs r then flush w.1 else w.1
    w.2 ++ s2.file :: persistImages B syncs s2 t

/-- does the loop body of persistEditLogs (regenerated: calls and jumps in order, "guarded:" = inside a nested
if / switch / loop; "return-err" = the error exits, which abort the commit) sync after every write on every
path that goes on: Write, then Sync, both unguarded, and no continue / break / goto / success-return anywhere -/
def persistRelevant : List String :=
  ["writer.Write", "writer.Sync", "guarded:writer.Write", "guarded:writer.Sync",
   "continue", "break", "goto", "return-nil", "guarded:continue", "guarded:break", "guarded:goto", "guarded:return-nil"]

def syncsEveryRecord (steps : List String) : Bool :=
  steps.filter (fun c => persistRelevant.contains c) == ["writer.Write", "writer.Sync"]

/-- bufioStreamWriter.Write, repeated (a table file: content without length headers): one bufio Write per chunk -/
def streamWrites (B : Nat) (s : WState) (chunks : List Bytes) : WState := chunks.foldl (bwrite B) s

end LinVerif.Kv.BW
