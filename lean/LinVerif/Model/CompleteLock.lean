/-
Model of the LOCK DISCIPLINE of `pipelineStateMachine.completeStage` (query/pipeline_state_matchine.go)
when a stage's `Complete()` hook panics, core Lean only.

    sm.mutex.Lock()
    … bookkeeping …
    s.stage.Complete()          -- the hook; for lindb's shard-scan / grouping stages this is
                                -- LeafGroupingContext.CompleteGroupingTask → collectGroupByTagValues →
                                -- MetricMetaDatabase.CollectTagValues: a STORAGE READ under sm.mutex
    sm.mutex.Unlock()           -- not deferred
    if sm.pending.Dec() == 0 { sm.complete(sm.firstError()) }

`Model/Pipeline.lean` treats Lock … Unlock as one atomic instruction (`track`) and assumes the hook
returns. Here the critical section is split: `lock`, `hook`, `unlock`, `dec`, `fire`. The stages are
anonymous (a counting abstraction): `wOk` / `wPanic` stages have been registered and executed and are
about to call `completeStage` (their hook returns / panics), so `pending = wOk + wPanic` initially.

A panic of the hook unwinds `completeStage` WITHOUT the Unlock (`guarded = false`, the source as it
is): the mutex stays locked (`leaked`); the panic reaches the only recover there is on a pool worker,
`workerPool.execTask`, whose handler is the stage's `errHandle` → `completeStage(stageID, err)` again
→ `sm.mutex.Lock()` (`wRetry`), which can never succeed. `guarded = true` is the repaired shape
(fixes/C19-complete-hook-recover.patch): the hook runs inside a recover, its panic is remembered as
the first error and the critical section goes on to the Unlock.
Which shape the source has is the regenerated fact `Generated.C19.completeHookGuarded`.
-/
namespace LinVerif.CompleteLock

/-- who holds `sm.mutex` -/
inductive Holder where
  | free
  | hook (panics : Bool)   -- a goroutine is inside the critical section, in front of `Complete()`
  | unlock                 -- … behind `Complete()`, in front of `Unlock()`
  | leaked                 -- locked, and the goroutine that locked it has left the critical section
  deriving DecidableEq, Repr, Inhabited

structure St where
  /-- completeStage calls that have not taken the lock yet; hook returns / hook panics -/
  wOk : Nat
  wPanic : Nat
  /-- `errHandle → completeStage(stageID, err)` of a task whose hook panicked, in front of `Lock()` -/
  wRetry : Nat
  holder : Holder
  /-- goroutines between `Unlock()` and `pending.Dec()` -/
  atDec : Nat
  /-- goroutines whose Dec reached zero, in front of `complete`'s CAS -/
  atFire : Nat
  pending : Int
  completed : Bool
  fired : Nat
  firstErr : Bool
  deriving DecidableEq, Repr, Inhabited

inductive Rule where
  | lockOk | lockPanic | lockRetry | hook | unlock | dec | fire
  deriving DecidableEq, Repr

/-- one atomic step of some goroutine; `none`: no goroutine can take that step now
(`Lock()` of a locked mutex blocks) -/
def step (guarded : Bool) (r : Rule) (s : St) : Option St :=
  match r with
  | .lockOk =>
    if s.holder = .free ∧ 0 < s.wOk then some { s with wOk := s.wOk - 1, holder := .hook false } else none
  | .lockPanic =>
    if s.holder = .free ∧ 0 < s.wPanic then some { s with wPanic := s.wPanic - 1, holder := .hook true } else none
  | .lockRetry =>
    -- completeStage(stageID, err) of the retry: `if err != nil && sm.err == nil { sm.err = err }`
    if s.holder = .free ∧ 0 < s.wRetry then
      some { s with wRetry := s.wRetry - 1, holder := .hook false, firstErr := true } else none
  | .hook =>
    match s.holder with
    | .hook false => some { s with holder := .unlock }
    | .hook true =>
      if guarded then some { s with holder := .unlock, firstErr := true }
      else some { s with holder := .leaked, wRetry := s.wRetry + 1 }
    | _ => none
  | .unlock =>
    if s.holder = .unlock then some { s with holder := .free, atDec := s.atDec + 1 } else none
  | .dec =>
    if 0 < s.atDec then
      some { s with atDec := s.atDec - 1, pending := s.pending - 1,
                    atFire := if s.pending - 1 = 0 then s.atFire + 1 else s.atFire }
    else none
  | .fire =>
    if 0 < s.atFire then
      some (if s.completed then { s with atFire := s.atFire - 1 }
            else { s with atFire := s.atFire - 1, completed := true, fired := s.fired + 1 })
    else none

/-- `n` stages whose hook returns and `m` whose hook panics are about to be completed -/
def init (n m : Nat) : St := ⟨n, m, 0, .free, 0, 0, (n + m : Nat), false, 0, false⟩

inductive Reachable (guarded : Bool) (s0 : St) : St → Prop where
  | refl : Reachable guarded s0 s0
  | step {s s' : St} (r : Rule) : Reachable guarded s0 s → step guarded r s = some s' → Reachable guarded s0 s'

def rules : List Rule := [.hook, .unlock, .dec, .fire, .lockOk, .lockPanic, .lockRetry]

/-- no goroutine can move: the end of a maximal run — or a deadlock -/
def Stuck (guarded : Bool) (s : St) : Prop := ∀ r, step guarded r s = none

/-- the harness' witness schedule: the stages take the lock in the given order (`true` = the hook
panics), each running as far as it can before the next one starts -/
def runOne (guarded : Bool) (s : St) (panics : Bool) : St :=
  let seq : List Rule := [if panics then .lockPanic else .lockOk, .hook, .unlock, .dec, .fire, .lockRetry, .hook, .unlock, .dec, .fire]
  -- a rule that is not enabled (a blocked `Lock()`, nothing left to do) leaves the state as it is
  seq.foldl (fun s r => match step guarded r s with | some s' => s' | none => s) s

def runOrder (guarded : Bool) (order : List Bool) : St :=
  order.foldl (runOne guarded)
    (init (order.filter (fun b => !b)).length (order.filter (fun b => b)).length)

/-- termination measure: every step decreases it -/
def measure (s : St) : Nat :=
  8 * s.wOk + 10 * s.wPanic + 8 * s.wRetry +
  (match s.holder with | .free => 0 | .hook false => 7 | .hook true => 9 | .unlock => 3 | .leaked => 0) +
  2 * s.atDec + s.atFire

/-- the repaired shape's helper `safeComplete` (absent in the source as it is): Complete() inside a
recover (rendered like every other function: calls that matter, in source order) -/
def safeCompleteOrder : Bool → List String
  | false => []
  | true => ["defer:λ1:recover()", "stage.Complete()"]

end LinVerif.CompleteLock
