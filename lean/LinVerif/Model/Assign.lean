/-
Model of coordinator/master/shard_assign.go and models.ShardAssignment.AddReplica
(core Lean only).

Node ids and shard ids are natural numbers. The two random draws of the Go code
(`startIndex`, `nextReplicaShift` when `fixedStartIndex < 0`) are parameters `start`
and `shift`; with a fixed start index the code uses `start = shift = fixedStartIndex`.
-/
import LinVerif.Util.Map

namespace LinVerif.Assign
open LinVerif

/-- `replicaIndex(firstReplicaIndex, secondReplicaShift, replicaIndex, numOfNode)`.
Go evaluates `% (numOfNode-1)` only when `replicaFactor ≥ 2`, and then `numOfNode ≥ 2`. -/
def replicaIndex (first shift j n : Nat) : Nat :=
  (first + (1 + (shift + j) % (n - 1))) % n

/-- `models.ShardAssignment.AddReplica` on one shard's replica list: append unless contained. -/
def addReplica (rs : List Nat) (r : Nat) : List Nat :=
  if rs.contains r then rs else rs ++ [r]

abbrev Assignment := List (Nat × List Nat)

def addReplicaTo (a : Assignment) (shard r : Nat) : Assignment :=
  Map.upsert a shard (addReplica ((Map.lookup a shard).getD []) r)

/-- node indices chosen for shard `cur`: first replica, then `rf-1` shifted ones -/
def replicaIdxs (n rf start shift cur : Nat) : List Nat :=
  let first := (cur + start) % n
  first :: (List.range (rf - 1)).map (fun j => replicaIndex first shift j n)

/-- node ids chosen for shard `cur` (in `AddReplica` call order) -/
def shardNodes (nodes : List Nat) (rf start shift cur : Nat) : List Nat :=
  (replicaIdxs nodes.length rf start shift cur).map (fun i => nodes.getD i 0)

/-- the shift bump at the top of the loop body -/
def bump (n shift cur : Nat) : Nat :=
  if cur > 0 ∧ cur % n = 0 then shift + 1 else shift

/-- `assignReplicasToStorageNodes`: `k` iterations from `(shift, cur)` -/
def assignLoop (nodes : List Nat) (rf start : Nat) : Nat → Nat → Nat → Assignment → Assignment
  | 0, _, _, a => a
  | k + 1, shift, cur, a =>
    let shift' := bump nodes.length shift cur
    let a' := (shardNodes nodes rf start shift' cur).foldl (fun acc r => addReplicaTo acc cur r) a
    assignLoop nodes rf start k shift' (cur + 1) a'

inductive Err | numShards | replicaFactor | tooFewNodes
  deriving DecidableEq, Repr

/-- `ShardAssignment(nodeIDs, cfg, fixedStartIndex, startShardID)` with the random draws explicit.
`startShard` is `max startShardID 0`. -/
def shardAssignment (nodes : List Nat) (numShards rf : Int) (start shift startShard : Nat) :
    Except Err Assignment :=
  if numShards ≤ 0 then .error .numShards
  else if rf ≤ 0 then .error .replicaFactor
  else if rf > nodes.length then .error .tooFewNodes
  else .ok (assignLoop nodes rf.toNat start numShards.toNat shift startShard [])

/-- `ModifyShardAssignment`: adds `cfgShards - |existing|` shards starting at `startShard`. -/
def modifyShardAssignment (nodes : List Nat) (cfgShards rf : Int) (existing : Assignment)
    (start shift startShard : Nat) : Except Err Assignment :=
  let numShards := cfgShards - existing.length
  if numShards ≤ 0 then .error .numShards
  else if rf ≤ 0 then .error .replicaFactor
  else if rf > nodes.length then .error .tooFewNodes
  else .ok (assignLoop nodes rf.toNat start numShards.toNat shift startShard existing)

/-- `replicaLeaderElector.ElectLeader`: first replica that is alive -/
def electLeader (replicas live : List Nat) : Option Nat :=
  replicas.find? (fun r => live.contains r)

end LinVerif.Assign
