/-
Model of the worker pool's queue between `Submit` and the execution of a task
(internal/concurrent/pool.go) for ANY number of tasks submitted concurrently, with the bounded
`tasks` channel (saturation: a `Submit` blocks in its select while the channel is full), a bounded
number of consumers, cancellation of a task's context at ANY moment (before the Submit, while the
Submit is blocked, while the task waits in the channel, while the dispatcher/worker holds it) and
`Pool.Stop()`. Core Lean only.

  Submit(ctx, task):
      `if p.Stopped() { p.reject(task, errPoolStopped); return }`                      (check i)
      `select { case <-ctx.Done(): p.reject(task, ctx.Err()); return                    (ctxReject i)
                case p.tasks <- task: }`     enabled only while len(p.tasks) < cap      (send i)
  dispatch():  `case task = <-p.tasks: worker = p.mustGetWorker(); worker.execute(task)`
  Stop():      `consumedRemainingTasks(): case task := <-p.tasks: p.execTask(task)`      (take)
               — both receivers take the HEAD of the channel; at most `slots` tasks are out of the
               channel and not yet executed (maxWorkers, + the dispatcher holding one while it waits
               for a worker, + Stop's drain)
  worker.process(): `w.pool.execTask(task)` → `task.Exec()` = the closure that
               `baseStage.Execute` submitted: `func() { execFn() }`                     (exec i)
               `execFn` calls `completeHandle` or `errHandle`, a panic is turned into `errHandle` by
               `execTask`'s recover: in every case the task's stage is completed once.
               Variant `skip` (NOT the source as it is): the closure first looks at the context and
               returns without `execFn()` when it is done — neither handler is called.
  Stop():      once the dispatcher has exited and the drain found the channel empty nobody receives
               from `p.tasks` any more                                                   (drainEnd)

`done i` counts how often the handlers of task `i` completed its stage (`completeStage`).
-/
namespace LinVerif.PoolQueue

inductive Phase where
  /-- `Submit` not called yet -/
  | idle
  /-- in `Submit`, before `p.Stopped()` -/
  | check
  /-- in `Submit`'s select (blocked while the channel is full and the context is not done) -/
  | select
  /-- in `p.tasks` -/
  | queued
  /-- received from `p.tasks` (dispatcher / worker / drain), not yet executed -/
  | held
  /-- the closure ran `execFn()` -/
  | executed
  /-- `reject` called the task's handler -/
  | rejected
  /-- variant only: the closure returned without running `execFn()` -/
  | skipped
  deriving DecidableEq, Repr

structure Cfg where
  /-- `tasksCapacity` -/
  cap : Nat
  /-- how many tasks can be out of the channel and not yet executed -/
  slots : Nat
  /-- the submitted closure returns early when its context is done (NOT the source as it is) -/
  skip : Bool
  deriving DecidableEq, Repr

structure St where
  ph : Nat → Phase
  /-- content of `p.tasks`, head = next to be received -/
  queue : List Nat
  held : List Nat
  stopped : Bool
  consumersGone : Bool
  ctxDone : Nat → Bool
  /-- completions of the task's stage by the task's handlers -/
  done : Nat → Nat

def upd {α : Type} (f : Nat → α) (i : Nat) (v : α) : Nat → α := fun j => if j = i then v else f j

def init : St := ⟨fun _ => .idle, [], [], false, false, fun _ => false, fun _ => 0⟩

inductive Ev where
  | submit (i : Nat) | check (i : Nat) | send (i : Nat) | ctxReject (i : Nat)
  | take | exec (i : Nat) | cancel (i : Nat) | stop | drainEnd
  deriving DecidableEq, Repr

/-- the steps of the pool itself and of the goroutines inside `Submit` (everything but the
environment's `submit`, `cancel`, `stop`, `drainEnd`) -/
def Ev.progress : Ev → Bool
  | .check _ | .send _ | .ctxReject _ | .take | .exec _ => true
  | _ => false

/-- one atomic step; `none`: the event is not enabled -/
def step (c : Cfg) (s : St) : Ev → Option St
  | .submit i =>
    if s.ph i = .idle then some { s with ph := upd s.ph i .check } else none
  | .check i =>
    if s.ph i = .check then
      if s.stopped then some { s with ph := upd s.ph i .rejected, done := upd s.done i (s.done i + 1) }
      else some { s with ph := upd s.ph i .select }
    else none
  | .send i =>
    if s.ph i = .select ∧ s.queue.length < c.cap then
      some { s with ph := upd s.ph i .queued, queue := s.queue ++ [i] }
    else none
  | .ctxReject i =>
    if s.ph i = .select ∧ s.ctxDone i = true then
      some { s with ph := upd s.ph i .rejected, done := upd s.done i (s.done i + 1) }
    else none
  | .take =>
    match s.queue with
    | [] => none
    | i :: rest =>
      if s.held.length < c.slots ∧ s.consumersGone = false then
        some { s with ph := upd s.ph i .held, queue := rest, held := i :: s.held }
      else none
  | .exec i =>
    if s.ph i = .held then
      if c.skip = true ∧ s.ctxDone i = true then
        some { s with ph := upd s.ph i .skipped, held := s.held.erase i }
      else
        some { s with ph := upd s.ph i .executed, held := s.held.erase i, done := upd s.done i (s.done i + 1) }
    else none
  | .cancel i => some { s with ctxDone := upd s.ctxDone i true }
  | .stop => some { s with stopped := true }
  | .drainEnd =>
    if s.stopped = true ∧ s.queue = [] then some { s with consumersGone := true } else none

def run (c : Cfg) : St → List Ev → Option St
  | s, [] => some s
  | s, e :: es => match step c s e with
    | some s' => run c s' es
    | none => none

/-- nothing of the pool can move -/
def Stuck (c : Cfg) (s : St) : Prop := ∀ e : Ev, e.progress = true → step c s e = none

/-- observation of one task, for the driver and the witnesses -/
def obs (s : St) (i : Nat) : Phase × Nat := (s.ph i, s.done i)

/-! ### the literal source steps the events stand for (compared with the regenerated facts) -/

/-- `take`: the only receivers of `p.tasks` and what they do with the task -/
def receiversOrder : List String :=
  ["dispatch: p.mustGetWorker(); worker.execute(task)", "consumedRemainingTasks: p.execTask(task)"]
/-- `worker.execute`: hands the task to the worker's own (unbuffered) channel -/
def workerExecuteOrder : List String := ["w.tasks <- task"]
/-- `worker.process`: executes the task, then registers itself as ready again -/
def workerProcessOrder : List String := ["w.pool.execTask(task)", "w.pool.readyWorkers <- w"]
/-- `Task.Exec` (called by `execTask`, see `execTaskSteps`) -/
def taskExecOrder : List String := ["t.handle()"]

/-- the configuration of the source as it is: `cap` regenerated, `skip` = the closure is not just
`execFn()`; `slots` is a parameter (maxWorkers of the pool + dispatcher + drain) -/
def cfgOf (cap slots : Nat) (closureIsExecFnOnly : Bool) : Cfg := ⟨cap, slots, !closureIsExecFnOnly⟩

end LinVerif.PoolQueue
