/-
C01, round 13: a merge compaction that writes SEVERAL output tables, against a deleteObsoleteFiles of the
same family run by ANOTHER background job (the rollup goroutine of family.rollup always ends with one; the
store's compact() tick / Store.ForceRollup start it next to the compaction).

Mirrors (kv/compact_job.go, kv/family.go):
  openOut      compactFlusher.beforeAdd -> openCompactionOutputFile: newTableBuilder (NextFileNumber,
               addPendingOutput, create the table file), state.builder = builder        (only if builder == nil)
  finishOut    compactFlusher.afterAdd (builder.Size() >= maxFileSize) / end of doMerge ->
               finishCompactionOutputFile: builder.Close, state.addOutputFile; state.builder = nil
               (+ removePendingOutput iff cfg.releaseAtFinish — the source has NO such call, see
               Generated.C01.finishCompactionOutputFileCalls)
  commit ok    installCompactionResults: MarkInputDeletes, AddFile(outputs), family.commitEditLog
               (ok = false: the commit failed, no version change)
  jobCleanup   cleanupCompaction (deferred in mergeCompaction): removePendingOutput(current builder),
               removePendingOutput(every finished output) iff cfg.releaseAtCleanup; the job's state is dropped
  cleanup      family.deleteObsoleteFiles (of any job of the family, the compaction's own deferred one
               included): every table file that is neither a pending output nor a file of the version is removed
Core only.
-/
import LinVerif.Generated.C01

namespace LinVerif.Kv.MO

/-- where finished output tables are released from pendingOutputs -/
structure Cfg where
  releaseAtFinish : Bool     -- finishCompactionOutputFile calls family.removePendingOutput
  releaseAtCleanup : Bool    -- cleanupCompaction releases every state.outputs entry
  deriving DecidableEq, Repr

structure St where
  disk : List Int            -- table files in the family directory
  version : List Int         -- files of the family's current version
  pending : List Int         -- family.pendingOutputs
  next : Int                 -- version set's next file number
  inputs : List Int          -- the compaction's picked input files
  outputs : List Int         -- compactionState.outputs (finished, closed tables)
  cur : Option Int           -- compactionState.builder
  deriving DecidableEq, Repr

inductive Ev where
  | openOut
  | finishOut
  | commit (ok : Bool)
  | jobCleanup
  | cleanup
  deriving DecidableEq, Repr

def step (cfg : Cfg) (s : St) : Ev → St
  | .openOut =>
    match s.cur with
    | some _ => s
    | none => { s with next := s.next + 1, pending := s.next :: s.pending, disk := s.next :: s.disk, cur := some s.next }
  | .finishOut =>
    match s.cur with
    | none => s
    | some n =>
      { s with outputs := s.outputs ++ [n], cur := none,
               pending := if cfg.releaseAtFinish then s.pending.filter (· ≠ n) else s.pending }
  | .commit ok =>
    if ok then { s with version := s.version.filter (fun f => !s.inputs.contains f) ++ s.outputs } else s
  | .jobCleanup =>
    let p1 := match s.cur with | some n => s.pending.filter (· ≠ n) | none => s.pending
    let p2 := if cfg.releaseAtCleanup then p1.filter (fun f => !s.outputs.contains f) else p1
    { s with pending := p2, outputs := [], cur := none, inputs := [] }
  | .cleanup =>
    { s with disk := s.disk.filter (fun f => s.pending.contains f || s.version.contains f) }

def run (cfg : Cfg) (s : St) (evs : List Ev) : St := evs.foldl (step cfg) s

/-- files the version references that are not in the directory -/
def missing (s : St) : List Int := s.version.filter (fun f => !s.disk.contains f)

/-- the job of a merge compaction with `k` output tables, a foreign cleanup `c` times after the first
`j` outputs were finished (j ≤ k), then the rest, the commit, cleanupCompaction, the deferred cleanup. -/
def jobSchedule (k j c : Nat) : List Ev :=
  (List.replicate j [Ev.openOut, Ev.finishOut]).flatten ++ List.replicate c Ev.cleanup ++
  (List.replicate (k - j) [Ev.openOut, Ev.finishOut]).flatten ++ [Ev.commit true, Ev.jobCleanup, Ev.cleanup]

def initSt (inputs : List Int) (next : Int) : St :=
  { disk := inputs, version := inputs, pending := [], next := next, inputs := inputs, outputs := [], cur := none }

def insertSorted (x : Int) : List Int → List Int
  | [] => [x]
  | y :: t => if x ≤ y then x :: y :: t else y :: insertSorted x t

def sortInts (l : List Int) : List Int := l.foldr insertSorted []

def intsTok (l : List Int) : String := ",".intercalate ((sortInts l).map toString)

def obsTok (s : St) : String :=
  s!"disk={intsTok s.disk} pend={intsTok s.pending} ver={intsTok s.version}"

/-- what the harness prints for one case: the state at the park point (after the foreign cleanups), at the
end of the job, and what a reopen of the directory references / misses. -/
def caseObs (cfg : Cfg) (inputs : List Int) (next : Int) (k j c : Nat) : String :=
  let atPark := run cfg (initSt inputs next)
    ((List.replicate j [Ev.openOut, Ev.finishOut]).flatten ++ List.replicate c Ev.cleanup)
  let fin := run cfg (initSt inputs next) (jobSchedule k j c)
  s!"park {obsTok atPark} | end {obsTok fin} | reopen ver={intsTok fin.version} missing={intsTok (missing fin)}"

/-- the names under which the regenerated step lists show a release of a pending output -/
def releaseNames : List String :=
  ["family.removePendingOutput", "guarded:family.removePendingOutput", "f.removePendingOutput", "guarded:f.removePendingOutput",
   "pendingOutputs.Delete", "guarded:pendingOutputs.Delete"]

/-- `a` directly followed by `b` somewhere in the list -/
def hasPair (a b : String) : List String → Bool
  | x :: y :: t => (x == a && y == b) || hasPair a b (y :: t)
  | _ => false

/-- release at finish: ANY release call in finishCompactionOutputFile; release at cleanup: the loop over
state.outputs of cleanupCompaction (`output.GetFileNumber` handed to `removePendingOutput`, inside the loop body). -/
def cfgOfSteps (finishSteps cleanupSteps : List String) : Cfg :=
  ⟨finishSteps.any releaseNames.contains,
   hasPair "guarded:output.GetFileNumber" "guarded:family.removePendingOutput" cleanupSteps⟩

/-- the configuration the SOURCE has (re-read on every run) -/
def codeCfg : Cfg :=
  cfgOfSteps LinVerif.Generated.C01.finishCompactionOutputFileSteps LinVerif.Generated.C01.cleanupCompactionSteps

end LinVerif.Kv.MO
